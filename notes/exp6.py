import os, sys
sys.path.insert(0, os.environ.get('R','/repo'))
from tawazi import dag, xn
@xn
def gen(x): return {"k": x, "flag": x > 0}
@xn
def use(v): return ("use", v)
@xn
def fl(x): return x > 0
@dag
def p(x):
    g = gen(x)
    f = fl(x)
    u = use(g["k"], twz_active=f)
    return u
print("orig p(1)", p(1), "p(-1)", p(-1))
try:
    c = p.compose("comp", inputs=[gen, fl], outputs=[use])
    print("composed({'k':5}, True) expected (('use',5),):", c({"k":5,"flag":True}, True))
    print("composed({'k':5}, False) expected (None,):", c({"k":5,"flag":True}, False))
except BaseException as e:
    import traceback; traceback.print_exc()
# active with index on input
@dag
def p2(x):
    g = gen(x)
    u = use(g["k"], twz_active=g["flag"])
    return u
try:
    c = p2.compose("comp2", inputs=[gen], outputs=use)
    print("composed2 expected ('use',5):", c({"k":5,"flag":True}))
    print("composed2 expected None:", c({"k":5,"flag":False}))
except BaseException as e:
    import traceback; traceback.print_exc()
print("orig after compose p(1)", p(1), "p(-1)", p(-1))
