import os, sys, pickle, threading, time
sys.path.insert(0, os.environ.get('R','/repo'))
from tawazi import dag, xn, cfg
order=[]
def mk(name, fn=None, **kw):
    def f(*a):
        order.append(name)
        return fn(*a) if fn else name
    f.__qualname__ = name; f.__name__=name
    return xn(f, **kw)
a=mk('a', lambda: 1); b=mk('b', lambda x: x+1); c=mk('c', lambda x: x*10)
@dag
def p():
    x=a(); y=b(x); z=c(y); return x,y,z
# D1: cache
order.clear(); print("cache run", p.executor(cache_in="/tmp/scratch/c.pkl")(), order)
print("pickle:", pickle.load(open("/tmp/scratch/c.pkl","rb")))
order.clear(); print("restart", p.executor(from_cache="/tmp/scratch/c.pkl")(), "executed:", order, "expected none")
order.clear(); print("cache_deps_of run", p.executor(cache_deps_of=['c'], cache_in="/tmp/scratch/c2.pkl")(), order)
print("pickle2:", pickle.load(open("/tmp/scratch/c2.pkl","rb")))
order.clear()
try:
    print("restart2", p.executor(cache_deps_of=['c'], from_cache="/tmp/scratch/c2.pkl")(), order)
except BaseException as e: print("restart2 raised", type(e), e)
order.clear()
try:
    print("restart3", p.executor(from_cache="/tmp/scratch/c2.pkl")(), order)
except BaseException as e: print("restart3 raised", type(e), e)

# C15: executor after failed run
fail=[True]
def bfn(x):
    if fail[0]: raise ValueError("boom")
    return x+1
a2=mk('a2', lambda: 1); b2=mk('b2', bfn); c2=mk('c2', lambda x,y: (x,y))
@dag
def q():
    x=a2(); y=b2(x); z=c2(x,y); return x,y,z
ex=q.executor()
order.clear()
try: ex()
except BaseException as e: print("first run raised", type(e).__name__, e, "cause", repr(e.__cause__))
fail[0]=False
order.clear()
try: print("second run on same executor:", ex(), order, "fresh would be (1,2,(1,2))")
except BaseException as e: print("second run raised", type(e).__name__, e)
print("fresh dag call:", q())
print("-----")
ex=q.executor()
fail[0]=True
order.clear()
try: ex()
except BaseException as e: print("first run raised", type(e).__name__, "cause", repr(e.__cause__), order, list(ex.graph.nodes))
fail[0]=False
order.clear()
try: print("second run on same executor:", ex(), order, "fresh would be (1,2,(1,2))")
except BaseException as e: print("second run raised", type(e).__name__, e, repr(e.__cause__), order)
