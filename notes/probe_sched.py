"""Round-0 throw-away probe: Python transcription of the planned Sched.v acceptor,
run against controlled traces of the real scheduler on random DAGs / schedules."""
import os, sys, threading, asyncio, time, random, builtins
sys.path.insert(0, os.environ.get('R', '/repo'))
import tawazi
from tawazi import dag, xn, Resource
from tawazi._dag import helpers as H
import tawazi._dag.dag as D
from tawazi._dag.digraph import DiGraphEx

class Ctl:
    def __init__(self, rng, fails):
        self.rng = rng; self.trace = []; self.lock = threading.Lock()
        self.gates = {}; self.entered = set(); self.sched_thread = None; self.fails = fails
    def ev(self, *e):
        with self.lock: self.trace.append(e)
ctl = None

INSIDE=[0]
def mknode(name, ret, **kw):
    def f(*a, **k):
        INSIDE[0]+=1
        try: return f_(*a, **k)
        finally: INSIDE[0]-=1
    def f_(*a, **k):
        inline = threading.get_ident() == ctl.sched_thread
        ctl.ev("ENTER", name, inline)
        if not inline:
            with ctl.lock:
                g = ctl.gates.setdefault(name, threading.Event()); ctl.entered.add(name)
            g.wait(20)
        ctl.ev("EXIT", name, inline)
        if name in ctl.fails: raise ValueError("boom " + name)
        return ret
    f.__qualname__ = name; f.__name__ = name
    return xn(f, **kw)

orig_w, orig_wa = H.wait_for_finished_nodes, H.wait_for_finished_nodes_async
orig_remove = DiGraphEx.remove_root_node
def remove_root_node(self, n):
    if ctl is not None and threading.get_ident() == ctl.sched_thread: ctl.ev("REMOVE", n)
    return orig_remove(self, n)
DiGraphEx.remove_root_node = remove_root_node

def pick_release(ids, mode):
    if mode == H.ALL_COMPLETED: return list(ids)
    k = 1 if ctl.rng.random() < 0.8 else ctl.rng.randint(1, len(ids))
    return ctl.rng.sample(sorted(ids), k)
def w(return_when, graph, futures, done, running, runnable):
    ids = sorted(futures.inverse[f] for f in running)
    ctl.ev("WAIT", "C", return_when, tuple(ids), tuple(sorted(runnable)), tuple(sorted(graph.nodes)))
    if ids:
        t0 = time.time()
        while not set(ids) <= ctl.entered:
            time.sleep(0.0003); assert time.time() - t0 < 10
        rel = pick_release(ids, return_when)
        for r in rel: ctl.entered.discard(r); ctl.gates[r].set()
        for r in rel:
            try: futures[r].exception()
            except BaseException: pass
    return orig_w(return_when, graph, futures, done, running, runnable)
async def wa(return_when, graph, futures, done, running, runnable):
    ids = sorted(futures.inverse[f] for f in running)
    ctl.ev("WAIT", "A", return_when, tuple(ids), tuple(sorted(runnable)), tuple(sorted(graph.nodes)))
    if ids:
        while not set(ids) <= ctl.entered: await asyncio.sleep(0.0003)
        rel = pick_release(ids, return_when)
        for r in rel: ctl.entered.discard(r); ctl.gates[r].set()
        while not all(futures[r].done() for r in rel): await asyncio.sleep(0.0003)
    return await orig_wa(return_when, graph, futures, done, running, runnable)
H.wait_for_finished_nodes = w; H.wait_for_finished_nodes_async = wa
def traced_max(it, key=None):
    c = list(it); r = builtins.max(c, key=key)
    ctl.ev("PICK", r, tuple(sorted(c)), {x: key(x) for x in c}); return r
H.max = traced_max
class TPE(H.ThreadPoolExecutor):
    def submit(self, fn, *a, **k):
        if hasattr(fn, "__self__") and hasattr(fn.__self__, "id"): ctl.ev("SUBMIT", "T", fn.__self__.id)
        return super().submit(fn, *a, **k)
H.ThreadPoolExecutor = TPE
orig_tt = H.to_thread_in_executor
def tt(func, executor, *a, **k):
    ctl.ev("SUBMIT", "A", func.__self__.id); return orig_tt(func, executor, *a, **k)
H.to_thread_in_executor = tt
orig_act = H._xn_active_in_call
def act(xn_, results):
    r = orig_act(xn_, results); ctl.ev("ACTIVE", xn_.id, r); return r
H._xn_active_in_call = act
orig_exec = H.async_execute
async def ae(**kw):
    ctl.sched_thread = threading.get_ident()
    g = kw["graph"]; xns = kw["exec_nodes"]
    ctl.cfg = dict(nodes=sorted(g.nodes), edges=sorted(g.edges), pre=sorted(i for i in g.nodes if i in kw["results"]),
                   maxc=kw["max_concurrency"], cp={i: g.compound_priority[i] for i in g.nodes},
                   seq={i: xns[i].is_sequential for i in g.nodes if i in xns}, res={i: xns[i].resource.value for i in g.nodes if i in xns})
    ctl.ev("BEGIN")
    try:
        r = await orig_exec(**kw); ctl.ev("END", "ok"); return r
    except BaseException as e:
        ctl.ev("END", "raise", type(e).__name__, str(e)); raise
H.async_execute = ae; D.async_execute = ae

# ---------------------------------------------------------------- reference acceptor (= planned Sched.v)
class Reject(Exception): pass
def accept(cfg, trace):
    evs = [e for e in trace if not (e[0] in ("ENTER", "EXIT") and not e[2])]   # scheduler-thread events only
    pos = [0]
    def nxt():
        if pos[0] >= len(evs): raise Reject("trace ended early")
        e = evs[pos[0]]; pos[0] += 1; return e
    def peek(): return evs[pos[0]] if pos[0] < len(evs) else None
    preds = {n: set() for n in cfg["nodes"]}
    for a, b in cfg["edges"]: preds[b].add(a)
    rem = set(cfg["nodes"]) - set(cfg["pre"])
    def roots(): return {n for n in rem if not (preds[n] & rem)}
    def remove(r):
        new = {m for m in rem if r in preds[m] and len(preds[m] & rem) == 1}
        rem.discard(r); return new
    runnable = roots(); conc = set(); asyn = set(); maxc = cfg["maxc"]
    started = []; finished = []; skipped = []; iters = 0; blocks = []; lastA = [0]
    if nxt()[0] != "BEGIN": raise Reject("no BEGIN")
    def wait(kind, mode):
        nonlocal runnable
        e = nxt(); S = asyn if kind == "A" else conc
        if e[0] != "WAIT" or e[1] != kind or e[2] != mode: raise Reject(f"expected WAIT {kind} {mode}, got {e}")
        if set(e[3]) != S: raise Reject(f"inflight mismatch {e[3]} vs {S}")
        if set(e[4]) != runnable: raise Reject(f"runnable mismatch {e[4]} vs {runnable} at {e}")
        if set(e[5]) != rem: raise Reject(f"remaining mismatch {e[5]} vs {rem}")
        if not S:
            if kind == 'A': lastA[0] = 0
            return None
        blocks.append((pos[0], kind, mode, len(conc) + len(asyn), set(runnable), set(conc), set(asyn), lastA[0] if kind == 'C' else 0))
        k = 0
        while peek() is not None and peek()[0] == "REMOVE" and peek()[1] in S:
            n = nxt()[1]; S.discard(n); finished.append(n); runnable |= remove(n); k += 1
        if peek() is not None and peek()[0] == "END" and peek()[1] == "raise": return "raise"
        if kind == 'A': lastA[0] = k
        if k == 0: raise Reject("blocking wait completed nothing")
        if mode == "ALL_COMPLETED" and S: raise Reject("ALL wait left futures")
        return None
    while True:
        if not rem:
            e = nxt()
            if e[:2] != ("END", "ok"): raise Reject(f"expected END ok got {e}")
            break
        iters += 1; m0 = 2 * len(rem) - len(conc) - len(asyn)
        if len(conc) + len(asyn) == maxc or not runnable:
            if wait("A", "FIRST_COMPLETED") == "raise" or wait("C", "FIRST_COMPLETED") == "raise": break
        if not runnable:
            if 2 * len(rem) - len(conc) - len(asyn) >= m0: raise Reject("spin: no progress")
            continue
        e = nxt()
        if e[0] != "PICK": raise Reject(f"expected PICK got {e}")
        n = e[1]
        if set(e[2]) != runnable: raise Reject(f"candidates {e[2]} != runnable {runnable}")
        if any(cfg["cp"][m] > cfg["cp"][n] for m in runnable): raise Reject("pick not max")
        if cfg["seq"][n] and (conc or asyn):
            if wait("A", "FIRST_COMPLETED") == "raise" or wait("C", "FIRST_COMPLETED") == "raise": break
            continue
        runnable.discard(n)
        e = nxt()
        if e[0] != "ACTIVE" or e[1] != n: raise Reject(f"expected ACTIVE {n} got {e}")
        if not e[2]:
            e = nxt()
            if e != ("REMOVE", n): raise Reject(f"expected skip-REMOVE {n} got {e}")
            skipped.append(n); runnable |= remove(n); continue
        if len(conc) + len(asyn) >= maxc and cfg["res"][n] != "main-thread": raise Reject("dispatch over max")
        started.append(n)
        r = cfg["res"][n]; e = nxt()
        if r == "thread":
            if e != ("SUBMIT", "T", n): raise Reject(f"expected SUBMIT T {n} got {e}")
            conc.add(n)
        elif r == "async-thread":
            if e != ("SUBMIT", "A", n): raise Reject(f"expected SUBMIT A {n} got {e}")
            asyn.add(n)
        else:
            if e != ("ENTER", n, True): raise Reject(f"expected inline ENTER {n} got {e}")
            e = nxt()
            if e != ("EXIT", n, True): raise Reject(f"expected inline EXIT {n} got {e}")
            if peek() is not None and peek()[0] == "END" and peek()[1] == "raise": break
            e = nxt()
            if e != ("REMOVE", n): raise Reject(f"expected REMOVE {n} got {e}")
            finished.append(n); runnable |= remove(n)
        if cfg["seq"][n]:
            if wait("A", "ALL_COMPLETED") == "raise" or wait("C", "ALL_COMPLETED") == "raise": break
        if 2 * len(rem) - len(conc) - len(asyn) >= m0: raise Reject("no progress in iteration")
    if peek() is not None and peek()[0] == "END": nxt()
    if pos[0] != len(evs): raise Reject(f"events after end: {evs[pos[0]:][:3]}")
    if iters > 2 * len(cfg["nodes"]) + 1: raise Reject("too many iterations")
    return dict(started=started, finished=finished, skipped=skipped, iters=iters, blocks=blocks)

# ---------------------------------------------------------------- random cases
def gen_case(rng):
    n = rng.randint(1, 7)
    edges = {(i, j) for j in range(n) for i in range(j) if rng.random() < 0.35}
    attrs = []
    for i in range(n):
        attrs.append(dict(priority=rng.randint(-2, 2), is_sequential=rng.random() < 0.25,
                          resource=rng.choice([Resource.thread, Resource.thread, Resource.async_thread, Resource.main_thread])))
    flags = {i: rng.choice([("const", True), ("const", False), ("node", rng.randrange(i))] if i > 0 else [("const", False), ("const", True)])
             for i in range(n) if rng.random() < 0.2}
    rets = [rng.choice([0, 1, 2]) for _ in range(n)]
    fails = {f"n{i}" for i in range(n) if rng.random() < 0.08}
    return dict(n=n, edges=edges, attrs=attrs, flags=flags, rets=rets, fails=fails, maxc=rng.randint(1, 3), is_async=rng.random() < 0.3)

def build(case):
    n = case["n"]; fs = [mknode(f"n{i}", case["rets"][i], **case["attrs"][i]) for i in range(n)]
    def desc():
        v = {}
        for i in range(n):
            kw = {}
            if i in case["flags"]:
                k, x = case["flags"][i]; kw["twz_active"] = x if k == "const" else v[x]
            v[i] = fs[i](*[v[j] for j in range(i) if (j, i) in case["edges"]], **kw)
        return tuple(v[i] for i in range(n))
    desc.__qualname__ = "desc"; desc.__name__ = "desc"
    return dag(desc, max_concurrency=case["maxc"], is_async=case["is_async"])

def monitors(case, cfg, trace, info):
    errs = []
    seqno = {id(e): k for k, e in enumerate(trace)}
    ent = {}; ext = {}
    for k, e in enumerate(trace):
        if e[0] == "ENTER": ent.setdefault(e[1], []).append(k)
        if e[0] == "EXIT": ext[e[1]] = k
    preds = {n: set() for n in cfg["nodes"]}
    for a, b in cfg["edges"]: preds[b].add(a)
    for n, ks in ent.items():
        if len(ks) != 1: errs.append(f"C03 {n} entered {len(ks)}x")
        for p in preds[n]:
            if p in cfg["pre"] or p in info["skipped"]: continue
            if p not in ext or ext[p] > ks[0]: errs.append(f"C02 {n} entered before dep {p} exited")
    # C04/C05 on real intervals
    live = set()
    for e in trace:
        if e[0] == "ENTER":
            if cfg["res"][e[1]] != "main-thread":
                if e[2]: errs.append(f"C04 pooled {e[1]} on scheduler thread")
                live.add(e[1])
                if len(live) > cfg["maxc"]: errs.append(f"C04 {len(live)} > {cfg['maxc']}")
            elif not e[2]: errs.append(f"C04 main-thread {e[1]} on worker")
            others = [x for x in live if x != e[1]]
            if cfg["seq"][e[1]] and others: errs.append(f"C05 seq {e[1]} entered with {others} live")
            if any(cfg["seq"][x] for x in others): errs.append(f"C05 {e[1]} entered while seq live {others}")
        if e[0] == "EXIT": live.discard(e[1])
    # C08: blocking waits justified
    for (p, kind, mode, running, runn, conc, asyn, prevA) in info["blocks"]:
        best_seq = bool(runn) and cfg["seq"][max(runn, key=lambda m: cfg["cp"][m])] if runn else False
        anyseq_best = bool(runn) and any(cfg["seq"][m] for m in runn if cfg["cp"][m] == max(cfg["cp"][x] for x in runn))
        seq_running = any(cfg["seq"][m] for m in conc | asyn)
        if not (running == cfg["maxc"] or not runn or seq_running or anyseq_best):
            errs.append(("C08", kind, mode, running, sorted(runn), sorted(conc), sorted(asyn), prevA))
    return errs

if __name__ == "__main__":
    rng = random.Random(int(os.environ.get("SEED", "1"))); N = int(os.environ.get("N", "300"))
    rej = 0; mon = 0; c08 = 0; c08_mixed = 0; raised = 0; t0 = time.time(); sizes = {}
    for i in range(N):
        case = gen_case(rng)
        try: d = build(case)
        except BaseException as e:
            print("BUILD RAISED", type(e).__name__, e); continue
        for rep in range(2):
            ctl = Ctl(random.Random(rng.random()), case["fails"])
            try:
                out = asyncio.run(d()) if case["is_async"] else d(); status = "ok"
            except BaseException as e:
                status = "raise"; raised += 1; exc = e
            for g in list(ctl.gates.values()): g.set()
            t1=time.time()
            while INSIDE[0] > 0 and time.time()-t1 < 5: time.sleep(0.001)
            time.sleep(0.002)
            try:
                info = accept(ctl.cfg, list(ctl.trace))
            except Reject as r:
                rej += 1
                if rej <= 5:
                    print("REJECT", r, "\n  case", case, "\n  cfg", ctl.cfg)
                    for t in ctl.trace: print("     ", t)
                continue
            sizes[len(ctl.cfg["nodes"])] = sizes.get(len(ctl.cfg["nodes"]), 0) + 1
            errs = monitors(case, ctl.cfg, ctl.trace, info)
            for e in errs:
                if e[0] == "C08":
                    c08 += 1
                    # known-finding signature: both kinds in flight at entry of the iteration's waits
                    if e[1] == 'C' and e[7] > 0: c08_mixed += 1
                    if not (e[1] == 'C' and e[7] > 0):
                        print("C08 unjustified block", e, "maxc", ctl.cfg["maxc"], "seq", ctl.cfg["seq"], "cp", ctl.cfg["cp"])
                        for t in ctl.trace: print("     ", t)
                else:
                    mon += 1
                    if mon <= 5: print("MONITOR", e, case)
    print(f"cases {N} x2 runs; rejected {rej}; monitor errs {mon}; C08 blocks {c08} of which known-signature(F9) {c08_mixed}; raised {raised}; {time.time()-t0:.1f}s; graph sizes {sizes}")
