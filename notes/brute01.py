import os, sys, random, traceback
sys.path.insert(0, os.environ.get('R','/repo'))
import tawazi
from tawazi import Resource

# ---------- plain stand-ins
DEACT=[0]
class NL:
    def __getitem__(self, k): return self
NLO=NL()
def denl(x):
    if isinstance(x, NL): return None
    if isinstance(x, tuple): return tuple(denl(i) for i in x)
    if isinstance(x, list): return [denl(i) for i in x]
    if isinstance(x, dict): return {k: denl(i) for k,i in x.items()}
    return x
def plain_xn(func=None, **kw):
    def deco(f):
        def w(*a, twz_active=True, twz_tag=None, twz_unpack_to=None, **k):
            if DEACT[0]:
                n = kw.get("unpack_to")
                return NLO if n is None else (NLO,)*n
            if not twz_active:
                return None
            return f(*a, **k)
        return w
    return deco(func) if func is not None else deco
def plain_dag(func=None, **kw):
    def deco(f):
        import inspect
        def w(*a, twz_active=True):
            if DEACT[0] or not twz_active:
                DEACT[0]+=1
                try:
                    sig=inspect.signature(f)
                    r = f(*[NLO]*len(sig.parameters))
                finally: DEACT[0]-=1
                return denl(r) if DEACT[0]==0 else r
            return f(*a)
        return w
    return deco(func) if func is not None else deco
def plain_and(a,b): return NLO if DEACT[0] else (a and b)
def plain_or(a,b): return NLO if DEACT[0] else (a or b)
def plain_not(a): return NLO if DEACT[0] else (not a)

PRELUDE='''
def v(x): return 0 if x is None else x
@xn
def f0(x, y=3): return v(x)*2 + v(y)
@xn
def f1(x, y=1): return v(x) - v(y) + 7
@xn
def f2(x): return -v(x)
@xn(unpack_to=2)
def pair(x): return (v(x)+1, v(x)*3)
@xn
def mkd(x): return {"k": v(x)+5, "z": 0, "l": [v(x), 1]}
@xn
def ident(x): return x
@dag
def sub0(p, q=4):
    t = f0(p, q)
    return f1(t, y=p)
@dag
def sub1(p, q=2):
    a, b = pair(p)
    return a, f0(b, q)
@dag
def sub2(p):
    d = mkd(p)
    return {"r": d["k"], "s": f2(p)}
@dag
def sub3(p, q=1):
    w = sub0(f2(p), q)
    return [w, p]
'''
def gen(rng):
    lines=[]; ints=['a','b']; nxt=[0]
    used_subs=set()
    def fresh():
        nxt[0]+=1; return f"x{nxt[0]}"
    def arg(allow_const=True):
        r=rng.random()
        if allow_const and r<0.25: return str(rng.randint(-3,6))
        return rng.choice(ints)
    def flag():
        r=rng.random()
        if r<0.2: return rng.choice(["True","False","0","1"])
        if r<0.5: return rng.choice(ints)
        if r<0.7: return f"{rng.choice(ints)} > {arg()}"
        if r<0.85:
            lines.append(f"    _d = mkd({arg()})"); return rng.choice(['_d["z"]','_d["k"]','_d["l"][0]'])
        lines.append(f"    _p, _q = pair({arg()})"); return rng.choice(["_p","_q"])
    for _ in range(rng.randint(3,9)):
        r=rng.random(); x=fresh()
        if r<0.2: lines.append(f"    {x} = f{rng.randint(0,1)}({arg()}, {arg()})")
        elif r<0.3: lines.append(f"    {x} = f{rng.randint(0,1)}({arg()}, y={arg()})")
        elif r<0.4:
            y=fresh(); lines.append(f"    {x}, {y} = pair({arg()})"); ints.append(y)
        elif r<0.5:
            d=fresh(); lines.append(f"    {d} = mkd({arg()})"); lines.append(f"    {x} = ident({d}{rng.choice(['[\"k\"]','[\"l\"][1]','[\"l\"][0]'])})")
        elif r<0.6: lines.append(f"    {x} = {arg(False)} {rng.choice(['+','-','*'])} {arg()}")
        elif r<0.65: lines.append(f"    {x} = {rng.choice(['and_','or_'])}({arg()}, {arg()})")
        elif r<0.8:
            fl=flag(); lines.append(f"    {x} = f{rng.randint(0,2)}({arg()}, twz_active={fl})")
        else:
            cands=[s for s in range(4) if s not in used_subs and not (s==3 and 0 in used_subs) and not (s==0 and 3 in used_subs)]
            if not cands:
                lines.append(f"    {x} = f2({arg()})")
            else:
                s=rng.choice(cands); used_subs.add(s)
                act = f", twz_active={flag()}" if rng.random()<0.4 else ""
                second = f", {arg()}" if s!=2 and rng.random()<0.5 else ""
                call=f"sub{s}({arg()}{second}{act})"
                if s==0: lines.append(f"    {x} = {call}")
                elif s==1:
                    y=fresh(); lines.append(f"    {x}, {y} = {call}"); ints.append(y)
                elif s==2:
                    lines.append(f"    _r{s} = {call}"); lines.append(f"    {x} = ident(_r{s}[\"r\"])")
                else:
                    lines.append(f"    _r{s} = {call}"); lines.append(f"    {x} = ident(_r{s}[0])")
        ints.append(x)
    k=rng.randint(1,3); outs=[rng.choice(ints) for _ in range(k)]
    shape=rng.random()
    if shape<0.25: ret=outs[0]
    elif shape<0.5: ret="("+", ".join(outs)+",)"
    elif shape<0.75: ret="["+", ".join(outs)+"]"
    else: ret="{"+", ".join(f'"o{i}": {o}' for i,o in enumerate(outs))+"}"
    default=rng.randint(-2,2)
    src=f"@dag(max_concurrency={rng.randint(1,3)})\ndef main(a, b={default}):\n"+"\n".join(lines)+f"\n    return {ret}\n"
    return src
def run(src, real, args):
    if real:
        ns={"xn":tawazi.xn,"dag":tawazi.dag,"and_":tawazi.and_,"or_":tawazi.or_,"not_":tawazi.not_}
    else:
        ns={"xn":plain_xn,"dag":plain_dag,"and_":plain_and,"or_":plain_or,"not_":plain_not}
    try:
        exec(PRELUDE+src, ns)
    except BaseException as e:
        return ("BUILD-RAISED", type(e).__name__, str(e)[:80])
    try:
        return ("OK", ns["main"](*args))
    except BaseException as e:
        c=e.__cause__ if (type(e).__name__=="TawaziBaseException" and e.__cause__ is not None) else e
        return ("RAISED", type(c).__name__)
rng=random.Random(int(os.environ.get("SEED","1")))
CATS={}; bad=0; N=int(os.environ.get("N","400")); raised=0
for i in range(N):
    src=gen(rng)
    for args in [(rng.randint(-2,3),), (rng.randint(-2,3), rng.randint(-2,3)), (0,0)]:
        r=run(src, True, args); p=run(src, False, args)
        if r[0]=="RAISED": raised+=1
        if (r[0],p[0])==("RAISED","RAISED"): r=p=("RAISED",)
        if r!=p:
            bad+=1
            cat=(r[0], r[1] if r[0]!="OK" else "", p[0], p[1] if p[0]!="OK" else "")
            CATS[cat]=CATS.get(cat,0)+1
            if CATS[cat]<=1 or (r[0]=="OK" and p[0]=="OK" and CATS[cat]<=4): print("MISMATCH args",args,"real",r,"plain",p); print(src)
print("programs",N,"bad",bad,"raised",raised)

print(CATS)
