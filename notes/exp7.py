import os, sys
sys.path.insert(0, os.environ.get('R','/repo'))
from tawazi import dag, xn
@xn
def add(x, y): return x + y
@xn(unpack_to=2)
def two(x): return (x, x+1)
@dag
def sub(x, y=2): return add(x, y)
def t(name, f):
    try: print(name, f())
    except BaseException as e: print(name, "RAISED", type(e).__name__, str(e)[:150])
def mk1():
    @dag
    def main(a): return sub(a), sub(a, 5)
    return main(1)
t("same subdag twice expected (3,6):", mk1)
def mk2():
    @dag
    def sub2(x): 
        a, b = two(x)
        return {"a": a, "b": b}
    @dag
    def mid(x, z=7):
        d = sub2(x)
        return [d["a"], add(d["b"], z)]
    @dag
    def top(q):
        l = mid(q)
        m = mid(add(q, 1), 100) if False else None
        return l[0], l[1]
    return top(10)
t("depth3 expected (10, 18):", mk2)
def mk3():
    @dag
    def subk(x, y=2): return add(x, y)
    @dag
    def main(a): return subk(a, add(a, a))
    return main(3)
t("explicit result arg for default expected 9:", mk3)
def mk4():
    @dag
    def subn(): return add(1, 2)
    @dag
    def main(): return subn()
    return main()
t("no-arg subdag expected 3:", mk4)
def mk5():
    @dag
    def subt(x): return add(x,1), add(x,2)
    @dag
    def main(a):
        r = subt(a)
        return add(r[0], r[1])
    return main(1)
t("tuple return indexed expected 5:", mk5)
def mk6():
    @dag
    def subx(x): return x
    @dag
    def main(a): return subx(a)
    return main(4)
t("identity subdag expected 4:", mk6)
def mk7():
    @dag
    def suby(x): return add(x, 1)
    @dag
    def main(a): return suby(a["k"])
    return main({"k": 4})
t("indexed arg to subdag expected 5:", mk7)
