import os, sys
sys.path.insert(0, os.environ.get('R','/repo'))
from tawazi import dag, xn, cfg, Resource
import tawazi

@xn
def add(x, y): return x + y

# D8: explicit value for defaulted param of nested dag
@dag
def sub(x, y=2): return add(x, y)
@dag
def main(a): return sub(a, 10)
print("D8 main(1) expected 11 got", main(1))

# D12 constant False on nested DAG
calls = []
@xn
def rec(x):
    calls.append(x); return x
@dag
def sub2(x): return rec(x)
@dag
def main2(a): return sub2(a, twz_active=False)
print("D12 main2(1) expected None got", main2(1), calls)

# D4 indexed activation flag
@xn
def mk(x): return {"t": True, "f": False}
@xn(unpack_to=2)
def mk2(x): return (True, False)
@dag
def main3(a):
    d = mk(a)
    return rec(a, twz_active=d["f"])
calls.clear()
print("D4 main3(1) expected None got", main3(1), calls)
@dag
def main4(a):
    t, f = mk2(a)
    return rec(a, twz_active=f), rec(a, twz_active=t)
calls.clear()
print("D4 main4(1) expected (None,1) got", main4(1), calls)

