import os, sys, threading, time
sys.path.insert(0, os.environ.get('R','/repo'))
from tawazi import dag, xn, cfg
@xn
def inc(x): return x+1
@dag
def shared(x): return inc(x)

started=threading.Event(); go=threading.Event()
res={}
def builder():
    @dag
    def slow(x):
        y = inc(x)
        started.set(); go.wait(5)
        return inc(y)
    res['built']=slow
def caller():
    started.wait(5)
    try:
        res['call']=shared(41)
    except BaseException as e:
        res['call']=('raised', type(e).__name__, str(e)[:100])
    go.set()
t1=threading.Thread(target=builder); t2=threading.Thread(target=caller)
t1.start(); t2.start(); t1.join(); t2.join()
print("call result (expected 42):", res['call'])
print("built dag nodes:", list(res['built'].exec_nodes))
print("built(1) =", res['built'](1), "expected 3")
