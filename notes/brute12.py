import os, sys, itertools, random
sys.path.insert(0, os.environ.get('R','/repo'))
import tawazi
from tawazi import dag, xn
import networkx as nx
ran=[]
def mk(name, **kw):
    def f(*a):
        ran.append(name); return name
    f.__qualname__=name; f.__name__=name
    return xn(f, **kw)
def build(n, edges, debug):
    fs=[mk(f"n{i}", debug=(i in debug)) for i in range(n)]
    def desc():
        vals={}
        for i in range(n):
            vals[i]=fs[i](*[vals[j] for j in range(i) if (j,i) in edges])
        return tuple(vals[i] for i in range(n))
    desc.__qualname__="desc"; desc.__name__="desc"
    return dag(desc)
def spec(n, edges, R, X, T):
    G=nx.DiGraph(); G.add_nodes_from(range(n)); G.add_edges_from(edges)
    roots={i for i in range(n) if G.in_degree(i)==0}
    sel=set(range(n))
    if R is not None:
        if not set(R)<=roots: return "ValueError"
        sel={d for r in R for d in nx.descendants(G,r)|{r}}
    if X is not None:
        if not set(X)<=sel: return "CallerError"
        sel-= {d for x in X for d in nx.descendants(G,x)|{x}}
    if T is not None:
        if not set(T)<=sel: return "ValueError"
        sel&= {a for t in T for a in nx.ancestors(G,t)|{t}}
    return sel
def subsets(s, maxk=2):
    yield None
    for k in range(0,maxk+1):
        for c in itertools.combinations(s,k): yield list(c)
bad=0; tot=0
random.seed(1)
for n in (3,4):
    pairs=[(i,j) for i in range(n) for j in range(i+1,n)]
    for mask in range(2**len(pairs)):
        edges={p for k,p in enumerate(pairs) if mask>>k&1}
        # debug sets: descendant-closed subsets (non-debug can't depend on debug)
        G=nx.DiGraph(); G.add_nodes_from(range(n)); G.add_edges_from(edges)
        dbgs=[set()]
        for i in range(n):
            d=nx.descendants(G,i)|{i}
            if d not in dbgs: dbgs.append(d)
        for debug in dbgs[:3]:
            try: d=build(n,edges,debug)
            except BaseException as e:
                print("build fail",n,edges,debug,type(e).__name__,e); continue
            for flag in (False, True):
                tawazi.cfg.RUN_DEBUG_NODES=flag
                for R in subsets(range(n),1):
                    for X in subsets(range(n),1):
                        for T in subsets(range(n),2):
                            if random.random()>0.25: continue
                            tot+=1
                            exp=spec(n,edges,R,X,T)
                            if exp=="CallerError": continue
                            nm=lambda l: None if l is None else [f"n{i}" for i in l]
                            try:
                                ex=d.executor(target_nodes=nm(T),exclude_nodes=nm(X),root_nodes=nm(R))
                                got={int(x[1:]) for x in ex.graph.nodes if not ">!>" in x}
                            except ValueError: got="ValueError"
                            except BaseException as e: got=type(e).__name__
                            if exp!="ValueError" and got!="ValueError" and not isinstance(got,str):
                                if not flag: exp2=exp-debug
                                else:
                                    exp2=None  # debug rules: got must be superset of exp, extra only debug with all preds in got
                                    ok = exp<=got and all((x in debug) and set(G.predecessors(x))<=got for x in got-exp)
                                if (exp2 is not None and got!=exp2) or (exp2 is None and not ok):
                                    bad+=1
                                    if bad<15: print("MISMATCH n",n,"edges",sorted(edges),"debug",debug,"flag",flag,"R",R,"X",X,"T",T,"exp",exp,"got",got)
                                else:
                                    # run it and compare executed set & None pattern
                                    ran.clear()
                                    try: rv=ex()
                                    except BaseException as e:
                                        bad+=1; print("RUN RAISED",n,sorted(edges),debug,flag,R,X,T,type(e).__name__,e); continue
                                    r={int(x[1:]) for x in ran}
                                    if r!=got or any((rv[i] is None)!=(i not in got) for i in range(n)) or len(ran)!=len(r):
                                        bad+=1
                                        if bad<15: print("RUNMISMATCH",n,sorted(edges),debug,flag,R,X,T,"graph",got,"ran",ran,"rv",rv)
                            elif exp!=got:
                                bad+=1
                                if bad<15: print("ERRMISMATCH n",n,"edges",sorted(edges),"debug",debug,"flag",flag,"R",R,"X",X,"T",T,"exp",exp,"got",got)
print("total",tot,"bad",bad)
