(* Round-0 spike (not part of the framework): the lemma the scheduler invariant
   "runnable ∪ in-flight = roots(remaining)" rests on, proved with stdlib lists only.
   Compiles with coqc 8.16.1 in ~1 s; Print Assumptions: Closed under the global context. *)
From Coq Require Import List Arith Bool Lia PeanoNat.
Import ListNotations.

Section G.
Variable preds : nat -> list nat.

Definition mem (x : nat) (l : list nat) : bool := existsb (Nat.eqb x) l.
Lemma mem_In x l : mem x l = true <-> In x l.
Proof. unfold mem. rewrite existsb_exists. split.
 - intros [y [Hy He]]. apply Nat.eqb_eq in He. subst. exact Hy.
 - intros H. exists x. split; [exact H|apply Nat.eqb_refl]. Qed.
Lemma mem_false x l : mem x l = false <-> ~ In x l.
Proof. rewrite <- mem_In. destruct (mem x l); split; congruence. Qed.

Definition remove1 (x : nat) (l : list nat) := filter (fun y => negb (Nat.eqb y x)) l.
Lemma In_remove1 x y l : In y (remove1 x l) <-> In y l /\ y <> x.
Proof. unfold remove1. rewrite filter_In. rewrite negb_true_iff, Nat.eqb_neq. tauto. Qed.

(* a node is a root of the remaining graph iff it is remaining and none of its preds is *)
Definition is_root (rem : list nat) (n : nat) : bool :=
  mem n rem && forallb (fun p => negb (mem p rem)) (preds n).
Definition roots (rem : list nat) := filter (is_root rem) rem.

(* in-degree inside the remaining graph, preds deduplicated as in nx.DiGraph *)
Definition in_deg (rem : list nat) (n : nat) : nat :=
  length (filter (fun p => mem p rem) (nodup Nat.eq_dec (preds n))).

Definition succs_in (rem : list nat) (r : nat) := filter (fun m => mem r (preds m)) rem.

(* digraph.py:131-139 *)
Definition remove_root_node (rem : list nat) (r : nat) : list nat * list nat :=
  (remove1 r rem, filter (fun m => Nat.eqb (in_deg rem m) 1) (succs_in rem r)).

Lemma is_root_spec rem n :
  is_root rem n = true <-> In n rem /\ forall p, In p (preds n) -> ~ In p rem.
Proof. unfold is_root. rewrite andb_true_iff, mem_In, forallb_forall.
 split; intros [H1 H2]; split; auto.
 - intros p Hp. specialize (H2 p Hp). rewrite negb_true_iff in H2. apply mem_false; auto.
 - intros p Hp. rewrite negb_true_iff. apply mem_false; auto. Qed.

Lemma in_deg_one rem r m : In r rem -> In r (preds m) ->
  (in_deg rem m = 1 <-> forall p, In p (preds m) -> In p rem -> p = r).
Proof.
  intros Hr Hrm. unfold in_deg.
  set (l := filter (fun p => mem p rem) (nodup Nat.eq_dec (preds m))).
  assert (Hnd : NoDup l) by (apply NoDup_filter, NoDup_nodup).
  assert (Hin : forall p, In p l <-> In p (preds m) /\ In p rem).
  { intros p. unfold l. rewrite filter_In, nodup_In, mem_In. tauto. }
  assert (Hrl : In r l) by (apply Hin; auto).
  split.
  - intros Hlen p Hp Hprem. assert (Hpl : In p l) by (apply Hin; auto).
    destruct l as [|a [|b l']]; simpl in *; try lia; destruct Hrl, Hpl; try tauto; congruence.
  - intros Hall. destruct l as [|a [|b l']]; simpl in *; try tauto; try reflexivity.
    exfalso. assert (a = r) by (apply Hall; apply Hin; simpl; auto).
    assert (b = r) by (apply Hall; apply Hin; simpl; auto). subst.
    inversion Hnd; subst. simpl in *. tauto.
Qed.

(* removing a root r: new roots = old roots minus r, plus the generated ones *)
Lemma roots_after_remove rem r n : NoDup rem -> is_root rem r = true ->
  In n (roots (fst (remove_root_node rem r))) <->
  (In n (roots rem) /\ n <> r) \/ In n (snd (remove_root_node rem r)).
Proof.
  intros Hnd Hr. apply is_root_spec in Hr. destruct Hr as [Hr Hrp].
  unfold roots, remove_root_node; simpl. rewrite !filter_In, !is_root_spec, !In_remove1.
  unfold succs_in. rewrite filter_In, mem_In, Nat.eqb_eq.
  split.
  - intros [[Hn Hne] [_ Hp]].
    destruct (mem r (preds n)) eqn:E.
    + right. apply mem_In in E. split; [tauto|]. apply (proj2 (in_deg_one rem r n Hr E)).
      intros p Hpp Hprem. destruct (Nat.eq_dec p r); auto. exfalso.
      apply (Hp p Hpp). apply In_remove1; auto.
    + left. apply mem_false in E. repeat split; auto. intros p Hpp Hprem. apply (Hp p Hpp).
      apply In_remove1. split; auto. intro; subst; auto.
  - intros [[[Hn [_ Hp]] Hne] | [[Hn Hrn] Hdeg]].
    + repeat split; auto. intros p Hpp Hq. apply In_remove1 in Hq. apply (Hp p Hpp). tauto.
    + assert (n <> r). { intro; subst. apply (Hrp r Hrn Hr). }
      repeat split; auto. intros p Hpp Hq. apply In_remove1 in Hq. destruct Hq as [Hq Hne].
      apply Hne. apply (proj1 (in_deg_one rem r n Hr Hrn) Hdeg p Hpp Hq).
Qed.
End G.
Print Assumptions roots_after_remove.
