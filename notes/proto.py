import os, sys, threading, asyncio, itertools, time
sys.path.insert(0, os.environ.get('R','/repo'))
import tawazi
from tawazi import dag, xn, Resource
from tawazi._dag import helpers as H

class Ctl:
    def __init__(self, schedule):
        self.schedule = list(schedule)  # list of choices (index into sorted in-flight ids)
        self.trace = []
        self.lock = threading.Lock()
        self.gates = {}     # id -> Event
        self.entered = set()
        self.sched_thread = None
    def ev(self, *e):
        with self.lock: self.trace.append(e)
    def choose(self, ids):
        ids = sorted(ids)
        k = self.schedule.pop(0) if self.schedule else 0
        return ids[k % len(ids)]
ctl = None

def mknode(name, **kw):
    def f(*a, **k):
        me = threading.get_ident()
        inline = (me == ctl.sched_thread)
        ctl.ev("ENTER", name, "sched" if inline else "worker")
        if not inline:
            g = ctl.gates.setdefault(name, threading.Event())
            with ctl.lock: ctl.entered.add(name)
            g.wait(10)
        ctl.ev("EXIT", name)
        return (name,) + tuple(a)
    f.__qualname__ = name; f.__name__ = name
    return xn(f, **kw)

orig_w, orig_wa = H.wait_for_finished_nodes, H.wait_for_finished_nodes_async
orig_remove = tawazi._dag.digraph.DiGraphEx.remove_root_node
def remove_root_node(self, n):
    ctl.ev("REMOVE", n)
    return orig_remove(self, n)
tawazi._dag.digraph.DiGraphEx.remove_root_node = remove_root_node

def release(ids, mode):
    # wait until all in-flight entered
    t0=time.time()
    while not set(ids) <= ctl.entered:
        time.sleep(0.0005)
        assert time.time()-t0 < 5, (ids, ctl.entered)
    rel = list(ids) if mode == H.ALL_COMPLETED else [ctl.choose(ids)]
    for r in rel:
        ctl.entered.discard(r); ctl.gates[r].set()
    return rel
def w(return_when, graph, futures, done, running, runnable):
    ids = sorted(futures.inverse[f] for f in running)
    ctl.ev("WAITC", return_when, tuple(ids), tuple(sorted(runnable)), tuple(sorted(graph.nodes)))
    if ids:
        rel = release(ids, return_when)
        # make sure released futures are done before the real wait so that done_ is exactly rel
        for r in rel: 
            try: futures[r].exception()
            except BaseException: pass
    return orig_w(return_when, graph, futures, done, running, runnable)
async def wa(return_when, graph, futures, done, running, runnable):
    ids = sorted(futures.inverse[f] for f in running)
    ctl.ev("WAITA", return_when, tuple(ids), tuple(sorted(runnable)), tuple(sorted(graph.nodes)))
    if ids:
        while not set(ids) <= ctl.entered: await asyncio.sleep(0.0005)
        rel = release(ids, return_when)
        while not all(futures[r].done() for r in rel): await asyncio.sleep(0.0005)
    return await orig_wa(return_when, graph, futures, done, running, runnable)
H.wait_for_finished_nodes = w; H.wait_for_finished_nodes_async = wa
def traced_max(it, key=None):
    c = sorted(it); r = max(c, key=key) if False else __builtins__.max(it, key=key)
    ctl.ev("PICK", r, tuple(c), tuple(key(x) for x in c))
    return r
H.max = traced_max
class TPE(H.ThreadPoolExecutor):
    def submit(self, fn, *a, **k):
        ctl.ev("SUBMIT", fn.__self__.id if hasattr(fn, "__self__") else "asyncwrap")
        return super().submit(fn, *a, **k)
H.ThreadPoolExecutor = TPE
orig_tt = H.to_thread_in_executor
def tt(func, executor, *a, **k):
    ctl.ev("SUBMITA", func.__self__.id)
    return orig_tt(func, executor, *a, **k)
H.to_thread_in_executor = tt
orig_exec = H.async_execute
async def ae(**kw):
    ctl.sched_thread = threading.get_ident()
    ctl.ev("BEGIN", tuple(sorted(kw["graph"].nodes)), kw["max_concurrency"])
    try:
        r = await orig_exec(**kw); ctl.ev("END", "ok"); return r
    except BaseException as e:
        ctl.ev("END", "raise", type(e).__name__); raise
H.async_execute = ae
import tawazi._dag.dag as D
D.async_execute = ae

a=mknode('a'); b=mknode('b', priority=5); c=mknode('c', is_sequential=True); d=mknode('d', resource=Resource.main_thread); e=mknode('e', resource=Resource.async_thread)
@dag(max_concurrency=2)
def g():
    x=a(); y=b(); z=c(x); w_=d(y); v=e(x,y); return x,y,z,w_,v
for sched in ([0,0,0,0,0,0],[1,1,1,1,1,1]):
    ctl = Ctl(sched)
    print(g())
    for t in ctl.trace: print("  ", t)
import time
t0=time.time()
N=200
for i in range(N):
    ctl = Ctl([i%2, (i//2)%2, 0, 1, 0, 1]); g()
print("per run ms", (time.time()-t0)/N*1000)
