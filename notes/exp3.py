import os, sys
sys.path.insert(0, os.environ.get('R','/repo'))
from tawazi import dag, xn
def mk(name, **kw):
    def f(*a): return name
    f.__qualname__ = name; f.__name__=name
    return xn(f, **kw)
r=mk('r',priority=1); a=mk('a',priority=10); b=mk('b',priority=100); d=mk('d',priority=1000)
@dag
def g():
    x=r(); y=a(x); z=b(y); w=d(y,z); return w
print(sorted(dict(g.graph_ids.compound_priority).items()))
