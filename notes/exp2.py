import os, sys
sys.path.insert(0, os.environ.get('R','/repo'))
from tawazi import dag, xn, cfg, Resource
import tawazi

order=[]
def mk(name, **kw):
    def f(*a):
        order.append(name); return name
    f.__qualname__ = name; f.__name__=name
    return xn(f, **kw)

# C07: diamond
a=mk('a',priority=1); b=mk('b',priority=10); c=mk('c',priority=100); d=mk('d',priority=1000)
@dag
def diamond():
    x=a(); y=b(x); z=c(x); w=d(y,z); return w
print("C07 diamond cp:", dict(diamond.graph_ids.compound_priority), "expected a=1111")

# shared descendants at different depth: a->b, a->c, b->c
@dag
def tri():
    x=a(); y=b(x); z=c(x,y); return z
print("C07 tri cp:", dict(tri.graph_ids.compound_priority), "expected a=111,b=110,c=100")

# D6 priorities through target_nodes / root_nodes
ex = diamond.executor(target_nodes=['d'])
print("D6 executor target cp:", dict(ex.graph.compound_priority))
ex = diamond.executor(root_nodes=['a'])
print("D6 executor root cp:", dict(ex.graph.compound_priority))
ex = diamond.executor(exclude_nodes=['d'])
print("D6 executor exclude cp:", dict(ex.graph.compound_priority))
ex = diamond.executor()
print("D6 executor plain cp:", dict(ex.graph.compound_priority))

# D7 debug nodes with flag off + target nodes
dbg = mk('dbg', debug=True)
@dag
def pd():
    x=a(); y=b(x); dbg(x); return y
order.clear(); pd(); print("D7 plain call order", order)
order.clear(); pd.executor(target_nodes=['b', 'dbg'])(); print("D7 target [b,dbg] flag off order", order)
order.clear(); pd.executor(root_nodes=['a'])(); print("D7 root [a] flag off order", order)
order.clear(); pd.executor(exclude_nodes=['b'])(); print("D7 excl [b] flag off order", order)
order.clear(); pd.executor(target_nodes=['b'])(); print("D7 target [b] flag off order", order)
