(* IsoFacts.v — an embedded node has the same denotation (C19 compose, C20 nested DAG call, C01 build),
   and a deactivated block evaluates to None everywhere (C10).
   T1 den_embed / den_embed_failures, T2 deactivated_all_none, T3 den_embed_id (rho = identity).

   The additional activation flags that system 2 may put on embedded nodes must be truthy AND decided
   ([flag_on] in Iso.v).  "Decided" cannot be dropped when [truthy vnone = true]: a flag node that
   raises reads as vnone (truthy), yet the flagged node is never computable in system 2 while
   system 1 evaluates it.  When [truthy vnone = false] it follows from truthiness (flag_on_of_falsy_none). *)
From Coq Require Import List Arith Bool Lia PeanoNat ZArith.
From Tawazi Require Import Graph GraphFacts Sched SchedInv Dataflow DataflowFacts Iso.
Import ListNotations.

(* ================================================================== one system: characterisation of the denotation *)
Section One.
Variable val : Type.
Variable vnone : val.
Variable truthy : val -> bool.
Variable index : val -> nat -> option val.
Variable tbl : nat -> nodeT val.
Variable c : cfg.
Variable res0 : results val.

Notation DE := (den_eval val vnone truthy index tbl c res0).

Lemma In_R0 n : In n (Dataflow.R0 c) <-> In n (c_nodes c) /\ ~ In n (c_pre c).
Proof. unfold Dataflow.R0. apply In_diff. Qed.

Lemma den_sound : Sound val vnone truthy index tbl c res0 (fst DE).
Proof. apply ev_sound. apply EvInv_den. Qed.

(* a participating node has value v exactly when its dependencies determine v *)
Lemma den_val_iff n v : consistent val tbl c res0 -> In n (Dataflow.R0 c) ->
  (lookup val (fst DE) n = Some v <-> detval val vnone truthy index tbl c (fst DE) n v).
Proof.
  intros Cs HR. pose proof (R0_not_pre val tbl c res0 n Cs HR) as E0.
  pose proof (EvInv_den val vnone truthy index tbl c res0) as I.
  split.
  - intros E. apply (sd_val val vnone truthy index tbl c res0 _ den_sound n v E E0).
  - intros Hv.
    pose proof (EvComplete_den val vnone truthy index tbl c res0 n HR (proj1 Hv)) as Hd.
    unfold decided in Hd. apply orb_true_iff in Hd. destruct Hd as [Hd|Hd].
    + apply has_true in Hd. destruct Hd as [w Hw]. rewrite Hw. f_equal.
      apply (detval_fun val vnone truthy index tbl c (fst DE) n w v); [|exact Hv].
      apply (sd_val val vnone truthy index tbl c res0 _ den_sound n w Hw E0).
    + exfalso. apply mem_In in Hd.
      apply (detval_detfail val vnone truthy index tbl c (fst DE) n v Hv).
      apply (ev_fail val vnone truthy index tbl c res0 _ I n Hd).
Qed.

(* and it is in the failed list exactly when its dependencies determine an exception *)
Lemma den_fail_iff n : consistent val tbl c res0 -> In n (Dataflow.R0 c) ->
  (In n (snd DE) <-> detfail val vnone truthy index tbl c (fst DE) n).
Proof.
  intros Cs HR. pose proof (R0_not_pre val tbl c res0 n Cs HR) as E0.
  pose proof (EvInv_den val vnone truthy index tbl c res0) as I.
  split.
  - intros Hn. apply (ev_fail val vnone truthy index tbl c res0 _ I n Hn).
  - intros Hf.
    pose proof (EvComplete_den val vnone truthy index tbl c res0 n HR (proj1 Hf)) as Hd.
    unfold decided in Hd. apply orb_true_iff in Hd. destruct Hd as [Hd|Hd].
    + exfalso. apply has_true in Hd. destruct Hd as [w Hw].
      apply (detval_detfail val vnone truthy index tbl c (fst DE) n w); [|exact Hf].
      apply (sd_val val vnone truthy index tbl c res0 _ den_sound n w Hw E0).
    + apply mem_In. exact Hd.
Qed.

Lemma deps_of_refs n : deps_of val tbl n = map r_id (refs_of val (tbl n)).
Proof. unfold deps_of, refs_of. rewrite map_app. destruct (n_active val (tbl n)); reflexivity. Qed.
End One.

(* ================================================================== two systems *)
Section IsoFacts.
Variable val : Type.
Variable vnone : val.
Variable truthy : val -> bool.
Variable index : val -> nat -> option val.
Variables tbl1 tbl2 : nat -> nodeT val.
Variables c1 c2 : cfg.
Variables res1 res2 : results val.
Variable rho : nat -> nat.

Hypothesis W1 : wf c1.
Hypothesis W2 : wf c2.
Hypothesis Cs1 : consistent val tbl1 c1 res1.
Hypothesis Cs2 : consistent val tbl2 c2 res2.

Notation lookup' := (lookup val).
Notation has' := (has val).
Notation rd' := (rd val vnone index).
Notation rd_all' := (rd_all val vnone index).
Notation DE1 := (den_eval val vnone truthy index tbl1 c1 res1).
Notation DE2 := (den_eval val vnone truthy index tbl2 c2 res2).
Notation D1 := (fst DE1).
Notation D2 := (fst DE2).
Notation den1 := (den val vnone truthy index tbl1 c1 res1).
Notation den2 := (den val vnone truthy index tbl2 c2 res2).
Notation R c := (Dataflow.R0 c).
Notation rn := (rename_ref rho).
Notation refs' := (refs_of val).
Notation embeds' := (embeds val vnone truthy index tbl1 tbl2 c1 c2 res1 res2 rho).
Notation flag_on' := (flag_on val vnone truthy index tbl2 c2 res2).
Notation flag_off' := (flag_off val vnone truthy index tbl2 c2 res2).
Notation detval1 := (detval val vnone truthy index tbl1 c1).
Notation detval2 := (detval val vnone truthy index tbl2 c2).
Notation detfail1 := (detfail val vnone truthy index tbl1 c1).
Notation detfail2 := (detfail val vnone truthy index tbl2 c2).

Lemma S1 : Sound val vnone truthy index tbl1 c1 res1 D1.
Proof. apply den_sound. Qed.
Lemma S2 : Sound val vnone truthy index tbl2 c2 res2 D2.
Proof. apply den_sound. Qed.

(* ---- reading through the renaming *)
Lemma rd_rename r : lookup' D2 (rho (r_id r)) = lookup' D1 (r_id r) -> rd' D2 (rn r) = rd' D1 r.
Proof. intros E. unfold rd, rename_ref. cbn [r_id r_keys]. rewrite E. reflexivity. Qed.

Lemma rd_all_rename rs : (forall r, In r rs -> lookup' D2 (rho (r_id r)) = lookup' D1 (r_id r)) ->
  rd_all' D2 (map rn rs) = rd_all' D1 rs.
Proof.
  induction rs as [|r rs IH]; intros H; [reflexivity|].
  cbn [map rd_all]. rewrite (rd_rename r) by (apply H; left; reflexivity).
  rewrite IH by (intros r0 Hr0; apply H; right; exact Hr0). reflexivity.
Qed.

(* ---- the references of an embedded node and of its image *)
Lemma refs_image n r : embeds' -> In n (R c1) -> In r (refs' (tbl1 n)) ->
  In (rn r) (refs' (tbl2 (rho n))).
Proof.
  intros [En Ef Ea Eact _ _] HR Hr. unfold refs_of in *. apply in_app_or in Hr. apply in_or_app.
  destruct Hr as [Hr|Hr].
  - left. rewrite (Ea n HR). apply in_map. exact Hr.
  - right. specialize (Eact n HR). destruct (n_active val (tbl1 n)) as [a|]; [|destruct Hr].
    rewrite Eact. destruct Hr as [<-|[]]. left. reflexivity.
Qed.

Lemma refs_preimage n q : embeds' -> In n (R c1) -> In q (refs' (tbl2 (rho n))) ->
  (exists r, In r (refs' (tbl1 n)) /\ q = rn r) \/ flag_on' q.
Proof.
  intros [En Ef Ea Eact _ _] HR Hq. unfold refs_of in *. apply in_app_or in Hq.
  destruct Hq as [Hq|Hq].
  - rewrite (Ea n HR) in Hq. apply in_map_iff in Hq. destruct Hq as [r [<- Hr]]. left. exists r.
    split; [apply in_or_app; left; exact Hr|reflexivity].
  - specialize (Eact n HR). destruct (n_active val (tbl1 n)) as [a|].
    + rewrite Eact in Hq. destruct Hq as [<-|[]]. left. exists a.
      split; [apply in_or_app; right; left; reflexivity|reflexivity].
    + destruct Eact as [Eact|[g [Eact Eg]]]; rewrite Eact in Hq; [destruct Hq|].
      destruct Hq as [<-|[]]. right. exact Eg.
Qed.

(* a reference of an embedded node: participating (induction hypothesis), pre-computed, or absent *)
Lemma ref_cases n r : embeds' -> In n (R c1) -> In r (refs' (tbl1 n)) ->
  (In (r_id r) (R c1) -> lookup' D2 (rho (r_id r)) = lookup' D1 (r_id r)) ->
  lookup' D2 (rho (r_id r)) = lookup' D1 (r_id r) /\
  (In (rho (r_id r)) (R c2) -> In (r_id r) (R c1) \/ has' D2 (rho (r_id r)) = true).
Proof.
  intros [En Ef Ea Eact Epre Eabs] HR Hr IH.
  destruct (in_dec Nat.eq_dec (r_id r) (R c1)) as [Hp|Hp].
  - split; [apply IH; exact Hp|]. intros _. left. exact Hp.
  - destruct (has' res1 (r_id r)) eqn:Eh.
    + apply has_true in Eh. destruct Eh as [w Hw].
      pose proof (Epre (r_id r) w Hw) as X. unfold den in X. split.
      * rewrite X. symmetry. apply (sd_ext val vnone truthy index tbl1 c1 res1 _ S1). exact Hw.
      * intros _. right. apply (lookup_has val _ _ w X).
    + destruct (Eabs n r HR Hr Hp Eh) as [HnR Hh2]. split.
      * rewrite (Sound_outside val vnone truthy index tbl2 c2 res2 _ (rho (r_id r)) S2 HnR).
        rewrite (Sound_outside val vnone truthy index tbl1 c1 res1 _ (r_id r) S1 Hp).
        apply has_false in Eh. apply has_false in Hh2. congruence.
      * intros X. contradiction.
Qed.

(* ---- when the references read the same, the node behaves the same *)
Lemma node_corr n : embeds' -> In n (R c1) ->
  (forall r, In r (refs' (tbl1 n)) -> lookup' D2 (rho (r_id r)) = lookup' D1 (r_id r)) ->
  exec_node val vnone index tbl2 D2 (rho n) = exec_node val vnone index tbl1 D1 n /\
  flag val vnone truthy index tbl2 D2 (rho n) = flag val vnone truthy index tbl1 D1 n /\
  (computable val tbl2 c2 D2 (rho n) = true <-> computable val tbl1 c1 D1 n = true).
Proof.
  intros E HR Hlk. pose proof E as [En Ef Ea Eact Epre Eabs].
  assert (Hargs : forall r, In r (n_args val (tbl1 n)) -> lookup' D2 (rho (r_id r)) = lookup' D1 (r_id r)).
  { intros r Hr. apply Hlk. unfold refs_of. apply in_or_app. left. exact Hr. }
  split; [|split].
  - unfold exec_node. rewrite (Ea n HR). rewrite (rd_all_rename _ Hargs).
    destruct (rd_all' D1 (n_args val (tbl1 n))) as [vs|]; [apply Ef; exact HR|reflexivity].
  - unfold flag. specialize (Eact n HR). destruct (n_active val (tbl1 n)) as [a|] eqn:Ea1.
    + rewrite Eact. rewrite (rd_rename a); [reflexivity|]. apply Hlk. unfold refs_of. rewrite Ea1.
      apply in_or_app. right. left. reflexivity.
    + destruct Eact as [Eact|[g [Eact [[v [Hv Ht]] _]]]]; rewrite Eact; [reflexivity|].
      rewrite Hv. cbn [option_map]. rewrite Ht. reflexivity.
  - split; intros Hc; apply computable_spec.
    + (* system 2 computable -> system 1 computable *)
      intros p Hp HpR. rewrite deps_of_refs in Hp. apply in_map_iff in Hp. destruct Hp as [r [<- Hr]].
      assert (Hh : has' D2 (rho (r_id r)) = true).
      { apply (proj1 (computable_spec val tbl2 c2 D2 (rho n)) Hc (rho (r_id r))); [|apply En; exact HpR].
        rewrite deps_of_refs. apply in_map_iff. exists (rn r). split; [reflexivity|].
        apply (refs_image n r E HR Hr). }
      unfold has in *. rewrite <- (Hlk r Hr). exact Hh.
    + (* system 1 computable -> system 2 computable *)
      intros q Hq HqR. rewrite deps_of_refs in Hq. apply in_map_iff in Hq. destruct Hq as [g [<- Hg]].
      destruct (refs_preimage n g E HR Hg) as [[r [Hr ->]]|Eg].
      * cbn [rename_ref r_id] in *.
        destruct (ref_cases n r E HR Hr (fun _ => Hlk r Hr)) as [_ X].
        destruct (X HqR) as [Y|Y]; [|exact Y].
        assert (Hh : has' D1 (r_id r) = true).
        { apply (proj1 (computable_spec val tbl1 c1 D1 n) Hc (r_id r)); [|exact Y].
          rewrite deps_of_refs. apply in_map. exact Hr. }
        unfold has in *. rewrite (Hlk r Hr). exact Hh.
      * apply (proj2 Eg HqR).
Qed.

Lemma det_corr n : embeds' -> In n (R c1) ->
  (forall r, In r (refs' (tbl1 n)) -> lookup' D2 (rho (r_id r)) = lookup' D1 (r_id r)) ->
  (forall v, detval2 D2 (rho n) v <-> detval1 D1 n v) /\ (detfail2 D2 (rho n) <-> detfail1 D1 n).
Proof.
  intros E HR Hlk. destruct (node_corr n E HR Hlk) as [He [Hf Hc]].
  unfold detval, detfail. rewrite He, Hf. split; [intros v|]; rewrite Hc; reflexivity.
Qed.

Lemma lookup_of_det n : embeds' -> In n (R c1) ->
  (forall v, detval2 D2 (rho n) v <-> detval1 D1 n v) -> lookup' D2 (rho n) = lookup' D1 n.
Proof.
  intros E HR Hd. pose proof (em_nodes _ _ _ _ _ _ _ _ _ _ _ E n HR) as HR2.
  assert (Hiff : forall v, lookup' D2 (rho n) = Some v <-> lookup' D1 n = Some v).
  { intros v. rewrite (den_val_iff val vnone truthy index tbl2 c2 res2 (rho n) v Cs2 HR2).
    rewrite (den_val_iff val vnone truthy index tbl1 c1 res1 n v Cs1 HR). apply Hd. }
  destruct (lookup' D1 n) as [v|] eqn:E1.
  - apply Hiff. reflexivity.
  - destruct (lookup' D2 (rho n)) as [w|] eqn:E2; [|reflexivity].
    pose proof (proj1 (Hiff w) eq_refl) as X. discriminate.
Qed.

(* ---- the induction on the rank in system 1 *)
Lemma embed_lookup : embeds' ->
  forall n, In n (R c1) -> lookup' D2 (rho n) = lookup' D1 n.
Proof.
  intros E. destruct (wf_acyclic c1 W1) as [rank Hrank].
  assert (H : forall k n, rank n < k -> In n (R c1) -> lookup' D2 (rho n) = lookup' D1 n).
  { induction k as [|k IH]; intros n Hk HR; [lia|].
    apply (lookup_of_det n E HR). apply (det_corr n E HR).
    intros r Hr. apply (ref_cases n r E HR Hr). intros HpR. apply IH; [|exact HpR].
    assert (rank (r_id r) < rank n); [|lia].
    pose proof (proj1 (In_R0 c1 n) HR) as [Hn _]. pose proof (proj1 (In_R0 c1 _) HpR) as [Hp _].
    apply Hrank; [exact Hn| |exact Hp].
    apply (cs_deps val tbl1 c1 res1 Cs1 n Hn). rewrite deps_of_refs. apply in_map. exact Hr. }
  intros n. apply (H (S (rank n))). lia.
Qed.

Lemma embed_refs n : embeds' -> In n (R c1) ->
  forall r, In r (refs' (tbl1 n)) -> lookup' D2 (rho (r_id r)) = lookup' D1 (r_id r).
Proof.
  intros E HR r Hr. apply (ref_cases n r E HR Hr). apply (embed_lookup E).
Qed.

(* ------------------------------------------------------------------ T1 *)
Theorem den_embed : embeds' ->
  forall n, In n (R c1) -> den2 (rho n) = den1 n.
Proof. intros E n HR. unfold den. apply (embed_lookup E n HR). Qed.

Theorem den_embed_failures : embeds' ->
  forall n, In n (R c1) -> (In n (snd DE1) <-> In (rho n) (snd DE2)).
Proof.
  intros E n HR. pose proof (em_nodes _ _ _ _ _ _ _ _ _ _ _ E n HR) as HR2.
  rewrite (den_fail_iff val vnone truthy index tbl1 c1 res1 n Cs1 HR).
  rewrite (den_fail_iff val vnone truthy index tbl2 c2 res2 (rho n) Cs2 HR2).
  symmetry. apply (det_corr n E HR). apply (embed_refs n E HR).
Qed.

(* what a node of system 1 reads, its image reads: arguments, function result, activation *)
Theorem embed_reads : embeds' -> forall n, In n (R c1) ->
  exec_node val vnone index tbl2 D2 (rho n) = exec_node val vnone index tbl1 D1 n /\
  flag val vnone truthy index tbl2 D2 (rho n) = flag val vnone truthy index tbl1 D1 n /\
  (computable val tbl2 c2 D2 (rho n) = true <-> computable val tbl1 c1 D1 n = true).
Proof. intros E n HR. apply (node_corr n E HR). apply (embed_refs n E HR). Qed.

(* when None is falsy, a truthy flag is a decided flag *)
Lemma flag_on_of_falsy_none g : truthy vnone = false ->
  (exists v, rd' D2 g = Some v /\ truthy v = true) -> flag_on' g.
Proof.
  intros Hn [v [Hv Ht]]. split; [exists v; auto|]. intros _.
  unfold has. unfold rd in Hv. destruct (lookup' D2 (r_id g)) as [w|]; [reflexivity|].
  inversion Hv; subst v. congruence.
Qed.

(* ------------------------------------------------------------------ T2 (C10) *)
Theorem deactivated_all_none (Sd : list nat) :
  all_flagged_off val vnone truthy index tbl2 c2 res2 Sd ->
  (forall n, In n Sd -> forall p, In p (deps_of val tbl2 n) -> In p (R c2) -> In p Sd \/ has' D2 p = true) ->
  forall n, In n Sd -> den2 n = Some vnone.
Proof.
  intros Hfl Hcl. destruct (wf_acyclic c2 W2) as [rank Hrank].
  assert (H : forall k n, rank n < k -> In n Sd -> lookup' D2 n = Some vnone).
  { induction k as [|k IH]; intros n Hk Hn; [lia|].
    destruct (Hfl n Hn) as [HR [g [Hact [v [Hv Ht]]]]].
    apply (den_val_iff val vnone truthy index tbl2 c2 res2 n vnone Cs2 HR). split.
    - apply computable_spec. intros p Hp HpR. destruct (Hcl n Hn p Hp HpR) as [HpS|Hh]; [|exact Hh].
      apply (lookup_has val _ _ vnone). apply IH; [|exact HpS].
      assert (rank p < rank n); [|lia].
      pose proof (proj1 (In_R0 c2 n) HR) as [Hnn _]. pose proof (proj1 (In_R0 c2 p) HpR) as [Hpn _].
      apply Hrank; [exact Hnn| |exact Hpn]. apply (cs_deps val tbl2 c2 res2 Cs2 n Hnn). exact Hp.
    - left. split; [|reflexivity]. unfold flag. rewrite Hact, Hv. cbn [option_map]. rewrite Ht. reflexivity. }
  intros n Hn. unfold den. apply (H (S (rank n))); [lia|exact Hn].
Qed.

(* none of them raises either *)
Theorem deactivated_none_fails (Sd : list nat) :
  all_flagged_off val vnone truthy index tbl2 c2 res2 Sd ->
  (forall n, In n Sd -> forall p, In p (deps_of val tbl2 n) -> In p (R c2) -> In p Sd \/ has' D2 p = true) ->
  forall n, In n Sd -> ~ In n (snd DE2).
Proof.
  intros Hfl Hcl n Hn Hf. pose proof (deactivated_all_none Sd Hfl Hcl n Hn) as X. unfold den in X.
  pose proof (ev_fail_nokey val vnone truthy index tbl2 c2 res2 _
                (EvInv_den val vnone truthy index tbl2 c2 res2) n Hf) as Hk.
  apply has_false in Hk. congruence.
Qed.
End IsoFacts.

(* ================================================================== T3: the identity renaming *)
Section Id.
Variable val : Type.
Variable vnone : val.
Variable truthy : val -> bool.
Variable index : val -> nat -> option val.
Variables tbl1 tbl2 : nat -> nodeT val.
Variables c1 c2 : cfg.
Variables res1 res2 : results val.

Notation idr := (fun x : nat => x).
Notation D2 := (fst (den_eval val vnone truthy index tbl2 c2 res2)).

Lemma rename_ref_id r : rename_ref idr r = r.
Proof. destruct r. reflexivity. Qed.
Lemma map_rename_ref_id rs : map (rename_ref idr) rs = rs.
Proof. induction rs as [|r rs IH]; [reflexivity|]. cbn [map]. rewrite rename_ref_id, IH. reflexivity. Qed.

(* system 1 is a sub-configuration of system 2: the embedding without renaming, premises without rename_ref *)
Lemma embeds_id_intro :
  (forall n, In n (Dataflow.R0 c1) -> In n (Dataflow.R0 c2)) ->
  (forall n vs, In n (Dataflow.R0 c1) -> n_fn val (tbl2 n) vs = n_fn val (tbl1 n) vs) ->
  (forall n, In n (Dataflow.R0 c1) -> n_args val (tbl2 n) = n_args val (tbl1 n)) ->
  (forall n, In n (Dataflow.R0 c1) ->
     match n_active val (tbl1 n) with
     | Some r => n_active val (tbl2 n) = Some r
     | None => n_active val (tbl2 n) = None \/
               (exists g, n_active val (tbl2 n) = Some g /\ flag_on val vnone truthy index tbl2 c2 res2 g)
     end) ->
  (forall p v, lookup val res1 p = Some v -> den val vnone truthy index tbl2 c2 res2 p = Some v) ->
  (forall n r, In n (Dataflow.R0 c1) -> In r (refs_of val (tbl1 n)) ->
     ~ In (r_id r) (Dataflow.R0 c1) -> has val res1 (r_id r) = false ->
     ~ In (r_id r) (Dataflow.R0 c2) /\ has val res2 (r_id r) = false) ->
  embeds val vnone truthy index tbl1 tbl2 c1 c2 res1 res2 idr.
Proof.
  intros Hn Hf Ha Hact Hpre Habs. constructor.
  - exact Hn.
  - exact Hf.
  - intros n HR. rewrite map_rename_ref_id. apply Ha. exact HR.
  - intros n HR. specialize (Hact n HR). destruct (n_active val (tbl1 n)) as [r|].
    + rewrite rename_ref_id. exact Hact.
    + exact Hact.
  - exact Hpre.
  - exact Habs.
Qed.

Theorem den_embed_id : wf c1 -> wf c2 -> consistent val tbl1 c1 res1 -> consistent val tbl2 c2 res2 ->
  embeds val vnone truthy index tbl1 tbl2 c1 c2 res1 res2 idr ->
  forall n, In n (Dataflow.R0 c1) ->
    den val vnone truthy index tbl2 c2 res2 n = den val vnone truthy index tbl1 c1 res1 n.
Proof.
  intros W1 W2 Cs1 Cs2 E n HR.
  apply (den_embed val vnone truthy index tbl1 tbl2 c1 c2 res1 res2 idr W1 Cs1 Cs2 E n HR).
Qed.

Theorem den_embed_id_failures : wf c1 -> wf c2 -> consistent val tbl1 c1 res1 -> consistent val tbl2 c2 res2 ->
  embeds val vnone truthy index tbl1 tbl2 c1 c2 res1 res2 idr ->
  forall n, In n (Dataflow.R0 c1) ->
    (In n (snd (den_eval val vnone truthy index tbl1 c1 res1)) <->
     In n (snd (den_eval val vnone truthy index tbl2 c2 res2))).
Proof.
  intros W1 W2 Cs1 Cs2 E n HR.
  apply (den_embed_failures val vnone truthy index tbl1 tbl2 c1 c2 res1 res2 idr W1 Cs1 Cs2 E n HR).
Qed.
End Id.

Print Assumptions den_embed.
Print Assumptions den_embed_failures.
Print Assumptions embed_reads.
Print Assumptions flag_on_of_falsy_none.
Print Assumptions deactivated_all_none.
Print Assumptions deactivated_none_fails.
Print Assumptions den_embed_id.
Print Assumptions den_embed_id_failures.
Print Assumptions embeds_id_intro.
