(* SchedPrio.v — C06 (the node that starts is a highest-priority ready node), C08 (the scheduler
   blocks only when justified, with the known exception F9) and the scheduling half of C07
   (max_concurrency = 1 and no priority ties: the accepted label sequence is unique). *)
From Coq Require Import List Arith Bool Lia PeanoNat ZArith.
From Tawazi Require Import Graph GraphFacts Sched SchedInv.
Import ListNotations.

Section Prio.
Variable c : cfg.

(* ------------------------------------------------------------------ small helpers *)
Lemma reachable_Inv1 s : wf c -> reachable c s -> alive s -> Inv1 c s.
Proof. intros W R A. apply (inv1 c s (reachable_Inv c s W R) A). Qed.

Lemma reachable_step s l s' : reachable c s -> step c s l = Some s' -> reachable c s'.
Proof. intros [ls H] E. exists (ls ++ [l]). rewrite run_app, H. simpl. rewrite E. reflexivity. Qed.

Lemma step_alive s l s' : step c s l = Some s' -> alive s.
Proof. intros H. apply step_trans in H. apply (trans_alive c s l s' H). Qed.

Lemma is_max_spec n l :
  is_max c n l = true <-> In n l /\ forall m, In m l -> (c_prio c m <= c_prio c n)%Z.
Proof. unfold is_max. rewrite andb_true_iff, mem_In, forallb_forall.
  split; intros [H1 H2]; split; auto; intros m Hm; apply Z.leb_le; auto. Qed.

Lemma nonempty_in (l : list nat) : l <> [] -> exists x, In x l.
Proof. destruct l as [|x l]; [congruence|]. intros _. exists x. left. reflexivity. Qed.

Lemma pick_inv s n s' : trans c s (LPick n) s' ->
  is_max c n (runnable s) = true /\ (pc s = PPick \/ pc s = PTop).
Proof. intros T. inversion T; subst; split; auto; tauto. Qed.

Lemma wait_inv s k m dones s' : trans c s (LWait k m dones) s' -> exists nx, wait_site c s k m nx.
Proof. intros T. inversion T; subst; eauto. Qed.

Lemma start_inv s l s' n : trans c s l s' ->
  ((exists k, l = LSubmit k n) \/ (exists ok, l = LInline n ok) \/ l = LActive n false) ->
  pc s = PActive n \/ pc s = PDisp n.
Proof. intros T H. destruct T; destruct H as [[k' E]|[[ok E]|E]]; try discriminate; inversion E; subst; auto. Qed.

(* ------------------------------------------------------------------ C06: ready nodes *)
(* ready in the sense of the specification: remaining, every dependency observed finished, and
   not handed out to the pool / the event loop *)
Definition ready (s : state) (m : nat) : Prop :=
  is_root (c_preds c) (rem s) m = true /\ ~ In m (conc s ++ asyn s).

(* the scheduler's candidate set (plus the node it has just taken) is exactly the ready set *)
Theorem ready_iff s m : wf c -> reachable c s -> alive s ->
  (ready s m <-> In m (runnable s) \/ In m (cur (pc s))).
Proof.
  intros W R A. pose proof (reachable_Inv1 s W R A) as I. pose proof (i_cnt c s I m) as Hc.
  rewrite cnt_live in Hc. unfold ready. rewrite in_app_iff. split.
  - intros [Hr Hn]. rewrite Hr in Hc. cbn [b2n] in Hc.
    assert (Hcc : cnt (conc s) m = 0) by (apply cnt_notIn; tauto).
    assert (Hca : cnt (asyn s) m = 0) by (apply cnt_notIn; tauto).
    destruct (in_dec Nat.eq_dec m (runnable s)) as [Hi|Hi]; [left; exact Hi|right].
    apply cnt_notIn in Hi. apply cnt_In. lia.
  - intros H.
    assert (Hge : 1 <= cnt (runnable s) m + cnt (cur (pc s)) m) by (destruct H as [H|H]; apply cnt_In in H; lia).
    destruct (is_root (c_preds c) (rem s) m) eqn:E; cbn [b2n] in Hc; [|lia]. split; auto.
    intros [Hin|Hin]; apply cnt_In in Hin; lia.
Qed.

(* extra invariant: what the scheduler knows about the candidate it holds *)
Record InvP (s : state) : Prop := {
  p_cur : forall n, (pc s = PActive n \/ pc s = PDisp n) ->
          forall m, In m (runnable s) -> (c_prio c m <= c_prio c n)%Z;
  p_defer : forall n, (pc s = PDeferA n \/ pc s = PDeferC n false) ->
          is_max c n (runnable s) = true /\ c_seq c n = true
}.

Lemma init_InvP : InvP (init c).
Proof. constructor; simpl; intros n [P|P]; discriminate. Qed.

Lemma trans_InvP s l s' : InvP s -> trans c s l s' -> InvP s'.
Proof.
  intros [Pa Pb] T. destruct T.
  - constructor; cbn [set_pc pc runnable]; intros x [P|P]; discriminate.
  - (* empty wait: nothing changes; PDeferA n -> PDeferC n false keeps the candidate *)
    constructor; cbn [set_pc pc runnable]; intros x [P|P];
      destruct H as [s H Hr Hg|s b H|s n H|s n b H|s n H|s n H];
      try discriminate; try (unfold after_gate in P; destruct (isnil (runnable s)); discriminate).
    inversion P; subst. apply Pb. left. exact H.
  - (* wait with completions: dones <> [] so the defer site continues at PDeferC n true *)
    constructor; cbn [set_pc pc runnable]; intros x [P|P];
      destruct H as [s H Hr Hg|s b H|s n H|s n b H|s n H|s n H];
      try discriminate; try (unfold after_gate in P; destruct (isnil (runnable s1)); discriminate).
    destruct dones; [congruence|discriminate].
  - constructor; cbn [set_pc pc runnable]; intros x [P|P]; discriminate.
  - (* defer *)
    constructor; cbn [set_pc pc runnable]; intros x [P|P]; try discriminate.
    inversion P; subst. auto.
  - (* take *)
    constructor; cbn [set_pc take_runnable pc runnable]; intros x [P|P]; try discriminate.
    inversion P; subst. intros m Hm. apply In_remove1 in Hm. apply is_max_spec in H0. apply H0. tauto.
  - (* active *)
    constructor; cbn [set_pc pc runnable]; intros x [P|P]; try discriminate.
    inversion P; subst. apply Pa. left. exact H.
  - constructor; cbn [set_pc pc]; intros x [P|P]; discriminate.
  - constructor; cbn [set_pc pc]; intros x [P|P]; unfold after_dispatch in P; destruct (c_seq c n); discriminate.
  - constructor; cbn [set_pc pc]; intros x [P|P]; unfold after_dispatch in P; destruct (c_seq c n); discriminate.
  - constructor; cbn [set_pc pc]; intros x [P|P]; unfold after_dispatch in P; destruct (c_seq c n); discriminate.
  - constructor; cbn [set_pc pc]; intros x [P|P]; discriminate.
Qed.

Lemma reachable_InvP s : reachable c s -> InvP s.
Proof. intros [ls H]. apply (run_preserves c InvP) with (ls := ls) (s := init c); auto.
  - intros s0 l s1 I E. apply (trans_InvP s0 l s1); auto. apply step_trans; auto.
  - apply init_InvP. Qed.

(* C06, at the pick: max() returns a ready node of maximal compound priority among the ready nodes *)
Theorem pick_is_max_ready s n s' : wf c -> reachable c s -> step c s (LPick n) = Some s' ->
  ready s n /\ forall m, ready s m -> (c_prio c m <= c_prio c n)%Z.
Proof.
  intros W R H. pose proof (step_alive _ _ _ H) as A. apply step_trans in H.
  destruct (pick_inv _ _ _ H) as [Hm Hpc]. apply is_max_spec in Hm. destruct Hm as [Hin Hle].
  assert (Hc : cur (pc s) = []) by (destruct Hpc as [P|P]; rewrite P; reflexivity).
  split.
  - apply ready_iff; auto.
  - intros m Hr. apply ready_iff in Hr; auto. rewrite Hc in Hr. destruct Hr as [Hr|[]]. auto.
Qed.

(* C06, at the dispatch / skip: nothing changed since the pick *)
Theorem start_is_max_ready s l s' n : wf c -> reachable c s -> step c s l = Some s' ->
  ((exists k, l = LSubmit k n) \/ (exists ok, l = LInline n ok) \/ l = LActive n false) ->
  ready s n /\ forall m, ready s m -> (c_prio c m <= c_prio c n)%Z.
Proof.
  intros W R H Hl. pose proof (step_alive _ _ _ H) as A. apply step_trans in H.
  pose proof (start_inv _ _ _ _ H Hl) as Hpc.
  pose proof (p_cur s (reachable_InvP s R) n Hpc) as Hle.
  assert (Hc : cur (pc s) = [n]) by (destruct Hpc as [P|P]; rewrite P; reflexivity).
  split.
  - apply ready_iff; auto. right. rewrite Hc. left. reflexivity.
  - intros m Hr. apply ready_iff in Hr; auto. rewrite Hc in Hr. destruct Hr as [Hr|[<-|[]]]; auto.
    apply Z.le_refl.
Qed.

(* ------------------------------------------------------------------ C08 *)
Lemma best_is_sequential_intro s n :
  is_max c n (runnable s) = true -> c_seq c n = true -> best_is_sequential c s = true.
Proof. intros Hm Hs. unfold best_is_sequential. apply existsb_exists. exists n. split.
  - apply (is_max_In c n _ Hm).
  - rewrite Hm, Hs. reflexivity. Qed.

Lemma seq_in_flight_intro s n : In n (conc s ++ asyn s) -> c_seq c n = true -> seq_in_flight c s = true.
Proof. intros Hi Hs. unfold seq_in_flight. apply existsb_exists. exists n. auto. Qed.

Lemma inflight_infl' s k x : In x (inflight s k) -> In x (conc s ++ asyn s).
Proof. rewrite in_app_iff. destruct k; cbn [inflight]; auto. Qed.

(* every blocking wait is justified, except possibly the thread wait that follows an async wait
   which completed something (F9) *)
Theorem block_only_when_justified_partial s k m dones s' : wf c -> reachable c s ->
  step c s (LWait k m dones) = Some s' -> inflight s k <> [] ->
  justified c s = true \/ after_async_completion s = true.
Proof.
  intros W R H Hne. apply step_trans in H. destruct (wait_inv _ _ _ _ _ H) as [nx WS]. clear H.
  pose proof (reachable_Inv c s W R) as [_ I2 I3]. pose proof (reachable_InvP s R) as IP.
  unfold justified, after_async_completion.
  destruct WS as [s P Hr Hg|s b P|s n P|s n b P|s n P|s n P].
  - left. unfold gate in Hg. rewrite Hg. reflexivity.
  - destruct b.
    + right. rewrite P. reflexivity.
    + left. destruct (j_gatec c s I2 P) as [Hg _]. unfold gate in Hg. rewrite Hg. reflexivity.
  - left. destruct (p_defer s IP n (or_introl P)) as [Hm Hs].
    rewrite (best_is_sequential_intro s n Hm Hs). rewrite !orb_true_r. reflexivity.
  - destruct b.
    + right. rewrite P. reflexivity.
    + left. destruct (p_defer s IP n (or_intror P)) as [Hm Hs].
      rewrite (best_is_sequential_intro s n Hm Hs). rewrite !orb_true_r. reflexivity.
  - left. destruct (q_drain c s I3 n (or_introl P)) as [Hs Hall].
    destruct (nonempty_in _ Hne) as [x Hx]. apply inflight_infl' in Hx.
    assert (x = n) by (apply Hall; exact Hx). subst x.
    rewrite (seq_in_flight_intro s n Hx Hs). rewrite !orb_true_r. reflexivity.
  - left. destruct (q_drain c s I3 n (or_intror P)) as [Hs Hall].
    destruct (nonempty_in _ Hne) as [x Hx]. apply inflight_infl' in Hx.
    assert (x = n) by (apply Hall; exact Hx). subst x.
    rewrite (seq_in_flight_intro s n Hx Hs). rewrite !orb_true_r. reflexivity.
Qed.

(* nodes held or in flight belong to the graph *)
Lemma live_in_nodes s x : Inv1 c s -> In x (live s) -> In x (c_nodes c).
Proof. intros I Hx. apply cnt_In in Hx. destruct (cnt_root_of_live c s x I Hx) as [Hr _].
  apply is_root_in in Hr. apply (i_sub c s I) in Hr. apply In_diff in Hr. tauto. Qed.

Lemma completes_asyn_nil k ns : forall s, asyn s = [] -> asyn (completes c k s ns) = [].
Proof. unfold completes. induction ns as [|n ns IH]; intros s E; simpl; auto. apply IH.
  rewrite complete_asyn, E. destruct k; reflexivity. Qed.
Lemma completes_conc_nil k ns : forall s, conc s = [] -> conc (completes c k s ns) = [].
Proof. unfold completes. induction ns as [|n ns IH]; intros s E; simpl; auto. apply IH.
  rewrite complete_conc, E. destruct k; reflexivity. Qed.

(* no async-thread node: nothing is ever in the async in-flight set, the first wait of a pair
   never completes anything *)
Definition NoAsyncSt (s : state) : Prop := asyn s = [] /\ after_async_completion s = false.

Lemma trans_NoAsyncSt s l s' : (forall n, In n (c_nodes c) -> c_res c n <> RAsync) ->
  Inv c s -> NoAsyncSt s -> trans c s l s' -> NoAsyncSt s'.
Proof.
  intros NA I [Ea Eb] T. unfold NoAsyncSt, after_async_completion in *.
  pose proof (trans_alive c _ _ _ T) as A. pose proof (inv1 c s I A) as I1.
  destruct T.
  - cbn [set_pc pc asyn]. auto.
  - cbn [set_pc pc asyn]. split; auto.
    destruct H as [s H Hr Hg|s b H|s n H|s n b H|s n H|s n H]; try reflexivity.
    unfold after_gate. destruct (isnil (runnable s)); reflexivity.
  - subst s1. cbn [set_pc pc asyn]. split; [apply completes_asyn_nil; auto|].
    destruct H as [s H Hr Hg|s b H|s n H|s n b H|s n H|s n H]; try reflexivity;
      try (exfalso; cbn [inflight] in H0; congruence).
    unfold after_gate. destruct (isnil (runnable (completes c KC s ns))); reflexivity.
  - subst s1. cbn [set_pc pc asyn]. split; [apply completes_asyn_nil; auto|reflexivity].
  - cbn [set_pc pc asyn]. auto.
  - cbn [set_pc take_runnable pc asyn]. auto.
  - cbn [set_pc pc asyn]. auto.
  - cbn [set_pc mark_skipped pc asyn]. rewrite remove_node_asyn. auto.
  - cbn [set_pc mark_started set_inflight pc asyn]. split; auto.
    unfold after_dispatch. destruct (c_seq c n); reflexivity.
  - exfalso. apply (NA n); auto. apply (live_in_nodes s n I1). unfold live. rewrite H.
    rewrite !in_app_iff. right. right. right. left. reflexivity.
  - cbn [set_pc mark_finished mark_started pc asyn]. rewrite remove_node_asyn. cbn [mark_started asyn].
    split; auto. unfold after_dispatch. destruct (c_seq c n); reflexivity.
  - cbn [set_pc mark_started pc asyn]. auto.
Qed.

Lemma reachable_NoAsyncSt s : wf c -> (forall n, In n (c_nodes c) -> c_res c n <> RAsync) ->
  reachable c s -> NoAsyncSt s.
Proof.
  intros W NA [ls H].
  assert (G : Inv c s /\ NoAsyncSt s); [|tauto].
  apply (run_preserves c (fun s => Inv c s /\ NoAsyncSt s)) with (ls := ls) (s := init c); auto.
  - intros s0 l s1 [I N] E. apply step_trans in E. split.
    + apply (trans_Inv c s0 l s1); auto.
    + apply (trans_NoAsyncSt s0 l s1); auto.
  - split; [apply init_Inv; auto|]. split; reflexivity.
Qed.

Theorem no_async_asyn_empty s : wf c -> (forall n, In n (c_nodes c) -> c_res c n <> RAsync) ->
  reachable c s -> asyn s = [].
Proof. intros W NA R. apply (reachable_NoAsyncSt s W NA R). Qed.

Theorem single_kind_always_justified s k m dones s' : wf c ->
  (forall n, In n (c_nodes c) -> c_res c n <> RAsync) -> reachable c s ->
  step c s (LWait k m dones) = Some s' -> inflight s k <> [] -> justified c s = true.
Proof.
  intros W NA R H Hne. destruct (block_only_when_justified_partial s k m dones s' W R H Hne) as [J|J]; auto.
  destruct (reachable_NoAsyncSt s W NA R) as [_ E]. congruence.
Qed.

(* no thread node: the thread in-flight set is always empty, so the second wait of a pair never blocks *)
Lemma trans_conc_nil s l s' : (forall n, In n (c_nodes c) -> c_res c n <> RThread) ->
  Inv c s -> conc s = [] -> trans c s l s' -> conc s' = [].
Proof.
  intros NT I Ec T. pose proof (trans_alive c _ _ _ T) as A. pose proof (inv1 c s I A) as I1.
  destruct T.
  - cbn [set_pc conc]. auto.
  - cbn [set_pc conc]. auto.
  - subst s1. cbn [set_pc conc]. apply completes_conc_nil; auto.
  - subst s1. cbn [set_pc conc]. apply completes_conc_nil; auto.
  - cbn [set_pc conc]. auto.
  - cbn [set_pc take_runnable conc]. auto.
  - cbn [set_pc conc]. auto.
  - cbn [set_pc mark_skipped conc]. rewrite remove_node_conc. auto.
  - exfalso. apply (NT n); auto. apply (live_in_nodes s n I1). unfold live. rewrite H.
    rewrite !in_app_iff. right. right. right. left. reflexivity.
  - cbn [set_pc mark_started set_inflight conc]. auto.
  - cbn [set_pc mark_finished mark_started conc]. rewrite remove_node_conc. cbn [mark_started conc]. auto.
  - cbn [set_pc mark_started conc]. auto.
Qed.

Theorem no_thread_conc_empty s : wf c -> (forall n, In n (c_nodes c) -> c_res c n <> RThread) ->
  reachable c s -> conc s = [].
Proof.
  intros W NT [ls H].
  assert (G : Inv c s /\ conc s = []); [|tauto].
  apply (run_preserves c (fun s => Inv c s /\ conc s = [])) with (ls := ls) (s := init c); auto.
  - intros s0 l s1 [I N] E. apply step_trans in E. split.
    + apply (trans_Inv c s0 l s1); auto.
    + apply (trans_conc_nil s0 l s1); auto.
  - split; [apply init_Inv; auto|reflexivity].
Qed.

Theorem single_kind_always_justified_nothread s k m dones s' : wf c ->
  (forall n, In n (c_nodes c) -> c_res c n <> RThread) -> reachable c s ->
  step c s (LWait k m dones) = Some s' -> inflight s k <> [] -> justified c s = true.
Proof.
  intros W NT R H Hne. destruct (block_only_when_justified_partial s k m dones s' W R H Hne) as [J|J]; auto.
  exfalso. pose proof (no_thread_conc_empty s W NT R) as Ec.
  apply step_trans in H. destruct (wait_inv _ _ _ _ _ H) as [nx WS].
  unfold after_async_completion in J.
  destruct WS as [s P Hr Hg|s b P|s n P|s n b P|s n P|s n P]; rewrite P in J; try discriminate;
    cbn [inflight] in Hne; congruence.
Qed.

(* ------------------------------------------------------------------ C07, scheduling part *)
(* a label without failure and consistent with the activation function act *)
Definition good (act : nat -> bool) (l : label) : Prop :=
  match l with
  | LWait _ _ dones => forall x b, In (x, b) dones -> b = true
  | LInline _ ok => ok = true
  | LActive n b => b = act n
  | _ => True
  end.

Definition prio_injective : Prop :=
  forall a b, In a (c_nodes c) -> In b (c_nodes c) -> c_prio c a = c_prio c b -> a = b.

Lemma inflight_complete k s n : inflight (complete c k s n) k = remove1 n (inflight s k).
Proof. destruct k; reflexivity. Qed.

(* on a singleton in-flight set a failure-free inspection accepts exactly that one future *)
Lemma inspect_single k s x dones r :
  inflight s k = [x] -> (forall y b, In (y, b) dones -> b = true) -> dones <> [] ->
  inspect c k s dones = Some r -> dones = [(x, true)].
Proof.
  intros E G Hne H. destruct dones as [|[n b] ds]; [congruence|].
  assert (b = true) by (apply (G n b); left; reflexivity). subst b.
  cbn [inspect] in H. destruct (mem n (inflight s k)) eqn:Em; [|discriminate].
  apply mem_In in Em. rewrite E in Em. destruct Em as [<-|[]].
  destruct ds as [|[n' b'] ds']; [reflexivity|]. exfalso.
  assert (b' = true) by (apply (G n' b'); right; left; reflexivity). subst b'.
  cbn [inspect] in H. rewrite inflight_complete, E in H. cbn [remove1 filter] in H.
  rewrite Nat.eqb_refl in H. cbn [negb mem existsb] in H. discriminate.
Qed.

Lemma do_wait_det s k m d1 d2 nx1 nx2 s1 s2 :
  length (inflight s k) <= 1 ->
  (forall y b, In (y, b) d1 -> b = true) -> (forall y b, In (y, b) d2 -> b = true) ->
  do_wait c s k m d1 nx1 = Some s1 -> do_wait c s k m d2 nx2 = Some s2 -> d1 = d2.
Proof.
  intros L G1 G2 H1 H2. unfold do_wait in H1, H2.
  destruct (inflight s k) as [|x [|y l]] eqn:E; cbn [isnil] in H1, H2.
  - destruct d1; cbn [isnil] in H1; [|discriminate]. destruct d2; cbn [isnil] in H2; [|discriminate]. reflexivity.
  - destruct (isnil d1) eqn:E1; [discriminate|]. destruct (isnil d2) eqn:E2; [discriminate|].
    apply isnil_false in E1, E2.
    destruct (inspect c k s d1) as [r1|] eqn:J1; [|discriminate].
    destruct (inspect c k s d2) as [r2|] eqn:J2; [|discriminate].
    rewrite (inspect_single k s x d1 r1 E G1 E1 J1), (inspect_single k s x d2 r2 E G2 E2 J2). reflexivity.
  - simpl in L. lia.
Qed.

(* with max_concurrency = 1, injective priorities and a fixed activation function, at most one
   failure-free label is enabled in a reachable state *)
Lemma label_deterministic act s l1 l2 s1 s2 :
  wf c -> c_maxc c = 1 -> prio_injective -> reachable c s -> good act l1 -> good act l2 ->
  step c s l1 = Some s1 -> step c s l2 = Some s2 -> l1 = l2.
Proof.
  intros W M J R G1 G2 H1 H2.
  pose proof (reachable_Inv c s W R) as [I1 I2 _].
  specialize (I1 (step_alive _ _ _ H1)).
  assert (L : forall k, length (inflight s k) <= 1).
  { intros k. pose proof (j_bound c s I2) as B. unfold running in B. rewrite M in B.
    destruct k; cbn [inflight]; lia. }
  assert (Pk : forall n1 n2 t1 t2, do_pick c s n1 = Some t1 -> do_pick c s n2 = Some t2 -> n1 = n2).
  { intros n1 n2 t1 t2 E1 E2. unfold do_pick in E1, E2.
    destruct (is_max c n1 (runnable s)) eqn:X1; [|discriminate].
    destruct (is_max c n2 (runnable s)) eqn:X2; [|discriminate].
    apply is_max_spec in X1, X2. destruct X1 as [A1 B1]. destruct X2 as [A2 B2].
    apply J.
    - apply (live_in_nodes s n1 I1). unfold live. rewrite in_app_iff. auto.
    - apply (live_in_nodes s n2 I1). unfold live. rewrite in_app_iff. auto.
    - apply Z.le_antisymm; auto. }
  assert (Wd : forall k m d1 d2 nx1 nx2, good act (LWait k m d1) -> good act (LWait k m d2) ->
            do_wait c s k m d1 nx1 = Some s1 -> do_wait c s k m d2 nx2 = Some s2 -> d1 = d2).
  { intros k m d1 d2 nx1 nx2 X1 X2 E1 E2. apply (do_wait_det s k m d1 d2 nx1 nx2 s1 s2); auto. }
  unfold step in H1, H2.
  destruct (pc s) eqn:Hpc;
  destruct l1 as [k1 m1 d1|n1|n1 b1|k1 n1|n1 o1|]; try discriminate;
  destruct l2 as [k2 m2 d2|n2|n2 b2|k2 n2|n2 o2|]; try discriminate;
  try (destruct k1; try discriminate); try (destruct m1; try discriminate);
  try (destruct k2; try discriminate); try (destruct m2; try discriminate).
  all: try (match type of H1 with context [isnil (rem _)] =>
              destruct (isnil (rem s)); try discriminate; destruct (gate c s); try discriminate end).
  all: try (f_equal; eapply Wd; eauto; fail).
  all: try (f_equal; eapply Pk; eauto; fail).
  all: try reflexivity.
  all: try (destruct (Nat.eqb_spec n n1); [|discriminate]; destruct (Nat.eqb_spec n n2); [|discriminate]; subst).
  all: try (destruct (c_res c n2); discriminate).
  all: try reflexivity.
  all: cbn [good] in G1, G2; congruence.
Qed.

Lemma finished_no_step s l : pc s = PFinished -> step c s l = None.
Proof. intros P. unfold step. rewrite P. destruct l; reflexivity. Qed.

Lemma unique_from act : wf c -> c_maxc c = 1 -> prio_injective ->
  forall ls1 ls2 s s1 s2, reachable c s ->
    run c s ls1 = Some s1 -> pc s1 = PFinished -> run c s ls2 = Some s2 -> pc s2 = PFinished ->
    Forall (good act) ls1 -> Forall (good act) ls2 -> ls1 = ls2.
Proof.
  intros W M J. induction ls1 as [|l1 ls1 IH]; intros ls2 s s1 s2 R H1 F1 H2 F2 G1 G2.
  - simpl in H1. inversion H1; subst s1. destruct ls2 as [|l2 ls2]; [reflexivity|].
    simpl in H2. rewrite (finished_no_step s l2 F1) in H2. discriminate.
  - simpl in H1. destruct (step c s l1) as [t1|] eqn:E1; [|discriminate].
    destruct ls2 as [|l2 ls2].
    + simpl in H2. inversion H2; subst s2. rewrite (finished_no_step s l1 F2) in E1. discriminate.
    + simpl in H2. destruct (step c s l2) as [t2|] eqn:E2; [|discriminate].
      inversion G1 as [|a1 b1 Ga1 Gb1]; subst. inversion G2 as [|a2 b2 Ga2 Gb2]; subst.
      assert (l1 = l2) by (apply (label_deterministic act s l1 l2 t1 t2); auto). subst l2.
      rewrite E1 in E2. inversion E2; subst t2. f_equal.
      apply (IH ls2 t1 s1 s2); auto. apply (reachable_step s l1 t1); auto.
Qed.

(* C07: max_concurrency = 1, no priority ties, no failure, fixed activation flags: the whole
   label sequence of a complete run — hence the execution order — is unique *)
Theorem unique_order_maxc1 act ls1 ls2 s1 s2 :
  wf c -> c_maxc c = 1 -> prio_injective ->
  run c (init c) ls1 = Some s1 -> pc s1 = PFinished ->
  run c (init c) ls2 = Some s2 -> pc s2 = PFinished ->
  Forall (good act) ls1 -> Forall (good act) ls2 -> ls1 = ls2.
Proof.
  intros W M J H1 F1 H2 F2 G1 G2. apply (unique_from act W M J ls1 ls2 (init c) s1 s2); auto.
  exists []. reflexivity.
Qed.

End Prio.

(* order in which nodes are started (submitted or executed inline) *)
Definition starts_of (ls : list label) : list nat :=
  flat_map (fun l => match l with LSubmit _ n => [n] | LInline n _ => [n] | _ => [] end) ls.

Corollary unique_start_order c act ls1 ls2 s1 s2 :
  wf c -> c_maxc c = 1 -> prio_injective c ->
  run c (init c) ls1 = Some s1 -> pc s1 = PFinished ->
  run c (init c) ls2 = Some s2 -> pc s2 = PFinished ->
  Forall (good act) ls1 -> Forall (good act) ls2 -> starts_of ls1 = starts_of ls2.
Proof. intros W M J H1 F1 H2 F2 G1 G2.
  rewrite (unique_order_maxc1 c act ls1 ls2 s1 s2 W M J H1 F1 H2 F2 G1 G2). reflexivity. Qed.

(* ------------------------------------------------------------------ C08 refuted as stated (F9) *)
(* three independent nodes, 0 (thread, priority 3), 1 (async thread, priority 2), 2 (thread,
   priority 1), max_concurrency 2.  0 and 1 are dispatched; the gate's async wait observes 1
   finished; the gate's thread wait then blocks on 0 although a slot is free and 2 is ready. *)
Definition cfg9 : cfg :=
  {| c_nodes := [0; 1; 2]; c_pre := []; c_preds := fun _ => []; c_seq := fun _ => false;
     c_res := fun n => match n with 0 => RThread | 1 => RAsync | _ => RThread end;
     c_prio := fun n => match n with 0 => 3%Z | 1 => 2%Z | _ => 1%Z end;
     c_maxc := 2 |}.
Definition ls9 : list label :=
  [LPick 0; LActive 0 true; LSubmit KC 0; LPick 1; LActive 1 true; LSubmit KA 1; LWait KA MFirst [(1, true)]].
Definition s9 : state :=
  {| rem := [0; 2]; runnable := [2]; conc := [0]; asyn := []; pc := PGateC true;
     started := [1; 0]; finished := [1]; skipped := [] |}.
Definition s9' : state :=
  {| rem := [2]; runnable := [2]; conc := []; asyn := []; pc := PPick;
     started := [1; 0]; finished := [0; 1]; skipped := [] |}.

Lemma wf_cfg9 : wf cfg9.
Proof. constructor.
  - repeat constructor; simpl; intuition discriminate.
  - simpl. lia.
  - exists (fun _ => 0). simpl. intros n p _ [].
Qed.

Theorem block_only_when_justified_refuted :
  exists (c : cfg) ls s k m dones s',
    wf c /\ run c (init c) ls = Some s /\ step c s (LWait k m dones) = Some s' /\
    inflight s k <> [] /\ justified c s = false.
Proof.
  exists cfg9, ls9, s9, KC, MFirst, [(0, true)], s9'.
  split; [exact wf_cfg9|]. split; [vm_compute; reflexivity|]. split; [vm_compute; reflexivity|].
  split; [vm_compute; discriminate|vm_compute; reflexivity].
Qed.

(* the witness is exactly the exception of the partial theorem *)
Lemma refuted_witness_is_F9 : after_async_completion s9 = true /\ ready cfg9 s9 2 /\ running s9 < c_maxc cfg9.
Proof. split; [reflexivity|]. split; [|vm_compute; lia]. split; [reflexivity|]. simpl. intuition discriminate. Qed.

Print Assumptions ready_iff.
Print Assumptions pick_is_max_ready.
Print Assumptions start_is_max_ready.
Print Assumptions block_only_when_justified_partial.
Print Assumptions single_kind_always_justified.
Print Assumptions single_kind_always_justified_nothread.
Print Assumptions block_only_when_justified_refuted.
Print Assumptions label_deterministic.
Print Assumptions unique_order_maxc1.
Print Assumptions unique_start_order.
