(* DenPre.v — C15 at the value level: a DAG carries nothing from one call to the next except
   stored results, and storing a result does not change any value.

   Two configurations over the same node table that differ only in what is pre-computed: c2
   additionally holds, for the nodes of P, the values that the denotation of c1 gives them (this is
   what a stored setup result is).  Then every node has the same denotation in both, and the same
   nodes raise. *)
From Coq Require Import List Arith Bool Lia PeanoNat ZArith.
From Tawazi Require Import Graph GraphFacts Sched SchedInv Dataflow DataflowFacts.
Import ListNotations.

Section DP.
Variable val : Type.
Variable vnone : val.
Variable truthy : val -> bool.
Variable index : val -> nat -> option val.
Variable tbl : nat -> nodeT val.
Variables c1 c2 : cfg.
Variable P : list nat.
Variables res0 res2 : results val.

Notation lookup' := (lookup val).
Notation has' := (has val).
Notation deps' := (deps_of val tbl).
Notation den' := (den val vnone truthy index tbl).
Notation den_eval' := (den_eval val vnone truthy index tbl).
Notation Sound' := (Sound val vnone truthy index tbl).
Notation EvInv' := (EvInv val vnone truthy index tbl).
Notation detval' := (detval val vnone truthy index tbl).
Notation detfail' := (detfail val vnone truthy index tbl).
Notation computable' := (computable val tbl).
Notation agree' := (agree val tbl).
Notation R c := (diff (c_nodes c) (c_pre c)).
Notation D1 := (fst (den_eval' c1 res0)).
Notation D2 := (fst (den_eval' c2 res2)).

Hypothesis Hnodes : c_nodes c1 = c_nodes c2.
Hypothesis Hpre : forall n, In n (c_pre c2) <-> In n (c_pre c1) \/ In n P.
Hypothesis HP : forall p, In p P -> In p (c_nodes c1) /\ ~ In p (c_pre c1).
Hypothesis W1 : wf c1.
Hypothesis W2 : wf c2.
Hypothesis Cs1 : consistent val tbl c1 res0.
Hypothesis Cs2 : consistent val tbl c2 res2.
Hypothesis Hres : forall n, lookup' res2 n = if mem n P then den' c1 res0 n else lookup' res0 n.

Lemma S1 : Sound' c1 res0 D1.
Proof. apply ev_sound. apply EvInv_den. Qed.
Lemma S2 : Sound' c2 res2 D2.
Proof. apply ev_sound. apply EvInv_den. Qed.

(* ---- the participating nodes ---- *)
Lemma R2_R1 n : In n (R c2) -> In n (R c1).
Proof. rewrite !In_diff, Hnodes. intros [H1 H2]. split; [exact H1|]. intros H. apply H2. apply Hpre. auto. Qed.
Lemma P_R1 p : In p P -> In p (R c1).
Proof. intros H. apply In_diff. apply HP. exact H. Qed.
Lemma P_not_R2 p : In p P -> ~ In p (R c2).
Proof. intros H HR. apply In_diff in HR. apply (proj2 HR). apply Hpre. auto. Qed.
Lemma R1_split n : In n (R c1) -> In n P \/ In n (R c2).
Proof. intros HR. destruct (in_dec Nat.eq_dec n P) as [H|H]; [left; exact H|right].
  apply In_diff in HR. destruct HR as [H1 H2]. apply In_diff. rewrite <- Hnodes. split; [exact H1|].
  intros H3. apply Hpre in H3. tauto. Qed.

(* ---- the start tables ---- *)
Lemma res2_P n : In n P -> lookup' res2 n = lookup' D1 n.
Proof. intros H. rewrite Hres. apply mem_In in H. rewrite H. reflexivity. Qed.
Lemma res2_notP n : ~ In n P -> lookup' res2 n = lookup' res0 n.
Proof. intros H. rewrite Hres. apply mem_false in H. rewrite H. reflexivity. Qed.

Lemma ext02 : ext val res0 res2.
Proof. intros n v E. destruct (in_dec Nat.eq_dec n P) as [H|H].
  - rewrite (res2_P n H). apply (sd_ext _ _ _ _ _ _ _ _ S1). exact E.
  - rewrite (res2_notP n H). exact E. Qed.

(* what is handed over for P is a value of the c1 denotation *)
Lemma P_has p : In p P -> has' D1 p = true.
Proof. intros H. assert (Hn : In p (c_nodes c2)) by (rewrite <- Hnodes; apply HP; exact H).
  assert (Hh : has' res2 p = true).
  { apply (cs_pre val tbl c2 res2 Cs2 p Hn). apply Hpre. auto. }
  unfold has in *. rewrite <- (res2_P p H). exact Hh. Qed.

Theorem precomputed_are_defined p : In p P -> exists v, den' c1 res0 p = Some v.
Proof. intros H. apply has_true. apply (P_has p H). Qed.

(* ---- computability moves between the two configurations ---- *)
Lemma computable_12 A n : computable' c1 A n = true -> computable' c2 A n = true.
Proof. intros H. apply computable_spec. intros p Hp HR.
  apply (proj1 (computable_spec val tbl c1 A n) H p Hp). apply R2_R1. exact HR. Qed.
Lemma computable_21 A n : (forall p, In p P -> has' A p = true) ->
  computable' c2 A n = true -> computable' c1 A n = true.
Proof. intros HA H. apply computable_spec. intros p Hp HR.
  destruct (R1_split p HR) as [X|X]; [apply HA; exact X|].
  apply (proj1 (computable_spec val tbl c2 A n) H p Hp X). Qed.
Lemma computable_same c A B n : (forall p, lookup' A p = lookup' B p) ->
  computable' c A n = true -> computable' c B n = true.
Proof. intros E H. apply computable_spec. intros p Hp HR. unfold has. rewrite <- E.
  apply (proj1 (computable_spec val tbl c A n) H p Hp HR). Qed.

(* ---- direction 1: the c1 denotation is a sound table of (c2, res2) ---- *)
Lemma Sound_D1_c2 : Sound' c2 res2 D1.
Proof. constructor.
  - intros n v E. destruct (in_dec Nat.eq_dec n P) as [H|H].
    + rewrite <- (res2_P n H). exact E.
    + rewrite (res2_notP n H) in E. apply (sd_ext _ _ _ _ _ _ _ _ S1). exact E.
  - intros n Hh. destruct (sd_keys _ _ _ _ _ _ _ _ S1 n Hh) as [X|X].
    + left. apply has_true in X. destruct X as [v X]. apply (lookup_has val res2 n v). apply ext02. exact X.
    + destruct (R1_split n X) as [Y|Y]; [left|right; exact Y].
      unfold has in *. rewrite (res2_P n Y). exact Hh.
  - intros n v E H2.
    assert (HnP : ~ In n P).
    { intros X. apply has_false in H2. rewrite (res2_P n X) in H2. congruence. }
    assert (H0 : has' res0 n = false).
    { unfold has in *. rewrite <- (res2_notP n HnP). exact H2. }
    destruct (sd_val _ _ _ _ _ _ _ _ S1 n v E H0) as [Hc Hv].
    split; [apply computable_12; exact Hc|exact Hv].
Qed.

Lemma dir1 n v : lookup' D1 n = Some v -> lookup' D2 n = Some v.
Proof.
  apply (sound_unique val vnone truthy index tbl c2 res2 D1 (den_eval' c2 res2) W2 Cs2 Sound_D1_c2
           (EvInv_den val vnone truthy index tbl c2 res2) (EvComplete_den val vnone truthy index tbl c2 res2)).
Qed.

(* the two evaluations read the same dependencies for a node that c1 can evaluate *)
Lemma agree_D1_D2 n : computable' c1 D1 n = true -> agree' D1 D2 n.
Proof. intros Hc p Hp. destruct (in_dec Nat.eq_dec p (R c1)) as [HR|HR].
  - pose proof (proj1 (computable_spec val tbl c1 D1 n) Hc p Hp HR) as Hh.
    apply has_true in Hh. destruct Hh as [w Hw]. rewrite Hw. symmetry. apply dir1. exact Hw.
  - rewrite (Sound_outside _ _ _ _ _ _ _ _ p S1 HR).
    assert (HR2 : ~ In p (R c2)) by (intros X; apply HR, R2_R1, X).
    rewrite (Sound_outside _ _ _ _ _ _ _ _ p S2 HR2).
    symmetry. apply res2_notP. intros X. apply HR, P_R1, X. Qed.

(* ---- direction 2: the c2 denotation is a sound table of (c1, res0) ---- *)
Lemma Sound_D2_c1 : Sound' c1 res0 D2.
Proof. constructor.
  - intros n v E. apply (sd_ext _ _ _ _ _ _ _ _ S2). apply ext02. exact E.
  - intros n Hh. destruct (sd_keys _ _ _ _ _ _ _ _ S2 n Hh) as [X|X]; [|right; apply R2_R1; exact X].
    destruct (in_dec Nat.eq_dec n P) as [Y|Y]; [right; apply P_R1; exact Y|left].
    unfold has in *. rewrite <- (res2_notP n Y). exact X.
  - intros n v E H0. destruct (has' res2 n) eqn:H2.
    + assert (HnP : In n P).
      { destruct (in_dec Nat.eq_dec n P) as [Y|Y]; [exact Y|exfalso].
        unfold has in *. rewrite (res2_notP n Y) in H2. congruence. }
      apply has_true in H2. destruct H2 as [w Hw].
      pose proof (sd_ext _ _ _ _ _ _ _ _ S2 n w Hw) as X. rewrite E in X. inversion X; subst w.
      rewrite (res2_P n HnP) in Hw.
      pose proof (sd_val _ _ _ _ _ _ _ _ S1 n v Hw H0) as Hv.
      apply (detval_agree val vnone truthy index tbl c1 D1 D2 n v); [|exact Hv].
      apply agree_D1_D2. apply Hv.
    + destruct (sd_val _ _ _ _ _ _ _ _ S2 n v E H2) as [Hc Hv].
      split; [|exact Hv]. apply computable_21; [|exact Hc].
      intros p Hp. pose proof (P_has p Hp) as Hh. apply has_true in Hh. destruct Hh as [w Hw].
      apply (lookup_has val D2 p w). apply dir1. exact Hw.
Qed.

Lemma dir2 n v : lookup' D2 n = Some v -> lookup' D1 n = Some v.
Proof.
  apply (sound_unique val vnone truthy index tbl c1 res0 D2 (den_eval' c1 res0) W1 Cs1 Sound_D2_c1
           (EvInv_den val vnone truthy index tbl c1 res0) (EvComplete_den val vnone truthy index tbl c1 res0)).
Qed.

Lemma D2_eq_D1 n : lookup' D2 n = lookup' D1 n.
Proof. destruct (lookup' D2 n) as [v|] eqn:E2.
  - symmetry. apply dir2. exact E2.
  - destruct (lookup' D1 n) as [w|] eqn:E1; [|reflexivity].
    apply dir1 in E1. congruence. Qed.

(* C15: handing a node's value over instead of recomputing it changes no value *)
Theorem den_precompute n : den' c2 res2 n = den' c1 res0 n.
Proof. unfold den. apply D2_eq_D1. Qed.

(* and the same nodes raise *)
Theorem den_precompute_failures n :
  In n (snd (den_eval' c2 res2)) <-> In n (snd (den_eval' c1 res0)).
Proof.
  pose proof (EvInv_den val vnone truthy index tbl c1 res0) as I1.
  pose proof (EvInv_den val vnone truthy index tbl c2 res2) as I2.
  split; intros Hn.
  - pose proof (ev_fail _ _ _ _ _ _ _ _ I2 n Hn) as [Hc _].
    pose proof (ev_fail_nokey _ _ _ _ _ _ _ _ I2 n Hn) as Hk.
    pose proof (ev_fail_R0 _ _ _ _ _ _ _ _ I2 n Hn) as HR.
    assert (Hc1 : computable' c1 D1 n = true).
    { apply computable_21; [exact P_has|]. apply (computable_same c2 D2 D1 n D2_eq_D1 Hc). }
    pose proof (EvComplete_den val vnone truthy index tbl c1 res0 n (R2_R1 n HR) Hc1) as Hd.
    unfold decided in Hd. apply orb_true_iff in Hd. destruct Hd as [Hd|Hd]; [|apply mem_In; exact Hd].
    exfalso. unfold has in *. rewrite <- D2_eq_D1 in Hd. congruence.
  - pose proof (ev_fail _ _ _ _ _ _ _ _ I1 n Hn) as [Hc _].
    pose proof (ev_fail_nokey _ _ _ _ _ _ _ _ I1 n Hn) as Hk.
    pose proof (ev_fail_R0 _ _ _ _ _ _ _ _ I1 n Hn) as HR.
    assert (HR2 : In n (R c2)).
    { destruct (R1_split n HR) as [X|X]; [exfalso|exact X]. rewrite (P_has n X) in Hk. discriminate. }
    assert (Hc2 : computable' c2 D2 n = true).
    { apply (computable_same c2 D1 D2 n); [intros p; symmetry; apply D2_eq_D1|]. apply computable_12. exact Hc. }
    pose proof (EvComplete_den val vnone truthy index tbl c2 res2 n HR2 Hc2) as Hd.
    unfold decided in Hd. apply orb_true_iff in Hd. destruct Hd as [Hd|Hd]; [|apply mem_In; exact Hd].
    exfalso. unfold has in *. rewrite D2_eq_D1 in Hd. congruence.
Qed.

End DP.

(* the well-formedness of c2 follows from that of c1 when the dependency tables coincide *)
Theorem den_precompute' (val : Type) (vnone : val) (truthy : val -> bool)
    (index : val -> nat -> option val) (tbl : nat -> nodeT val) (c1 c2 : cfg) (P : list nat)
    (res0 res2 : results val) :
  c_nodes c1 = c_nodes c2 ->
  (forall n, c_preds c1 n = c_preds c2 n) ->
  1 <= c_maxc c2 ->
  (forall n, In n (c_pre c2) <-> In n (c_pre c1) \/ In n P) ->
  (forall p, In p P -> In p (c_nodes c1) /\ ~ In p (c_pre c1)) ->
  wf c1 ->
  consistent val tbl c1 res0 -> consistent val tbl c2 res2 ->
  (forall n, lookup val res2 n =
             if mem n P then den val vnone truthy index tbl c1 res0 n else lookup val res0 n) ->
  forall n, den val vnone truthy index tbl c2 res2 n = den val vnone truthy index tbl c1 res0 n.
Proof.
  intros Hn Hp Hm Hpre HP W1 Cs1 Cs2 Hres.
  apply (den_precompute val vnone truthy index tbl c1 c2 P res0 res2 Hn Hpre HP W1); auto.
  destruct W1 as [Wn _ [rank Hr]]. constructor.
  - rewrite <- Hn. exact Wn.
  - exact Hm.
  - exists rank. intros n p H1 H2 H3. rewrite <- Hn in H1, H3. rewrite <- Hp in H2. apply Hr; assumption.
Qed.

Print Assumptions den_precompute.
Print Assumptions den_precompute_failures.
Print Assumptions precomputed_are_defined.
Print Assumptions den_precompute'.
