(* SchedGhost.v — the ghost-history invariant of the scheduler LTS (Sched.v) and the theorems for
   C02 (no node starts before its dependencies finished),
   C03 (each selected active node runs exactly once, nothing else runs),
   C14 (failure: nothing downstream starts, nothing after the failure). *)
From Coq Require Import List Arith Bool Lia PeanoNat ZArith.
From Tawazi Require Import Graph GraphFacts Sched SchedInv.
Import ListNotations.
From Coq Require Import Permutation.

Section Ghost.
Variable c : cfg.
Let preds := c_preds c.
Notation R0 := (diff (c_nodes c) (c_pre c)).

(* ------------------------------------------------------------------ Inv4: the ghost history *)
Record Inv4 (s : state) : Prop := {
  g_rem : forall x, In x (rem s) <-> In x R0 /\ ~ In x (finished s) /\ ~ In x (skipped s);
  g_started_nd : NoDup (started s);
  g_fs_nd : NoDup (finished s ++ skipped s);
  g_infl_started : forall x, In x (conc s ++ asyn s) -> In x (started s);
  g_started_rem : forall x, In x (started s) -> In x (rem s) -> In x (conc s ++ asyn s) \/ pc s = PRaised x;
  g_fin_started : forall x, In x (finished s) -> In x (started s);
  g_skip_not_started : forall x, In x (skipped s) -> ~ In x (started s);
  g_started_R0 : forall x, In x (started s) -> In x R0;
  g_closed : forall x, In x R0 -> (~ In x (rem s) \/ In x (started s)) ->
             forall p, In p (preds x) -> ~ In p (rem s)
}.

Lemma init_Inv4 : wf c -> Inv4 (init c).
Proof.
  intros _. constructor; cbn [init rem conc asyn pc started finished skipped app].
  - intros x. simpl. tauto.
  - constructor.
  - constructor.
  - intros x Hx. exact Hx.
  - intros x Hx. destruct Hx.
  - intros x Hx. destruct Hx.
  - intros x Hx. destruct Hx.
  - intros x Hx. destruct Hx.
  - intros x Hx Hor. exfalso. destruct Hor as [Hn|Hs]; [apply Hn; exact Hx|destruct Hs].
Qed.

(* ---- what Inv1 says about the nodes held by the scheduler or by a future *)
Lemma live_root s x : Inv1 c s -> In x (live s) ->
  In x (rem s) /\ (forall p, In p (preds x) -> ~ In p (rem s)) /\ cnt (live s) x = 1.
Proof.
  intros I Hx. apply cnt_In in Hx. destruct (cnt_root_of_live c s x I Hx) as [Hr Hone].
  apply is_root_spec in Hr. destruct Hr as [Hin Hp]. split; [exact Hin|]. split; [exact Hp|exact Hone].
Qed.

Lemma infl_in_live s x : In x (conc s ++ asyn s) -> In x (live s).
Proof. unfold live. rewrite !in_app_iff. tauto. Qed.

Lemma infl_root s x : Inv1 c s -> In x (conc s ++ asyn s) ->
  In x (rem s) /\ (forall p, In p (preds x) -> ~ In p (rem s)).
Proof. intros I Hx. destruct (live_root s x I (infl_in_live s x Hx)) as [Ha [Hb _]]. split; auto. Qed.

Lemma held_facts s n : Inv1 c s -> cur (pc s) = [n] ->
  In n (rem s) /\ (forall p, In p (preds n) -> ~ In p (rem s)) /\ ~ In n (conc s ++ asyn s).
Proof.
  intros I Hc.
  assert (Hl : In n (live s)). { unfold live. rewrite Hc, !in_app_iff. simpl. auto. }
  destruct (live_root s n I Hl) as [Ha [Hb Hone]]. split; [exact Ha|]. split; [exact Hb|].
  rewrite cnt_live, Hc in Hone. cbn [count_occ] in Hone. destruct (Nat.eq_dec n n) as [_|Hne]; [|congruence].
  intros Hin. rewrite in_app_iff in Hin. destruct Hin as [Hin|Hin]; apply cnt_In in Hin; lia.
Qed.

(* ---- the three kinds of update of the fields Inv4 talks about *)
Lemma Inv4_same s s' : Inv4 s -> alive s ->
  rem s' = rem s -> conc s' = conc s -> asyn s' = asyn s ->
  started s' = started s -> finished s' = finished s -> skipped s' = skipped s -> Inv4 s'.
Proof.
  intros [G1 G2 G3 G4 G5 G6 G7 G8 G9] A E1 E2 E3 E4 E5 E6.
  constructor; rewrite ?E1, ?E2, ?E3, ?E4, ?E5, ?E6; auto.
  intros x Hs Hr. destruct (G5 x Hs Hr) as [Hi|Hp]; [left; exact Hi|]. exfalso. apply (A x). exact Hp.
Qed.

(* n (a root, not in flight) is handed out / entered inline *)
Lemma Inv4_start s s' n : Inv4 s -> alive s ->
  In n (rem s) -> (forall p, In p (preds n) -> ~ In p (rem s)) -> ~ In n (conc s ++ asyn s) ->
  rem s' = rem s ->
  (forall x, In x (conc s' ++ asyn s') -> x = n \/ In x (conc s ++ asyn s)) ->
  (forall x, In x (conc s ++ asyn s) -> In x (conc s' ++ asyn s')) ->
  (In n (conc s' ++ asyn s') \/ pc s' = PRaised n) ->
  started s' = n :: started s -> finished s' = finished s -> skipped s' = skipped s -> Inv4 s'.
Proof.
  intros [G1 G2 G3 G4 G5 G6 G7 G8 G9] A Hr Hp Hni E1 Hsub Hsup Hn E4 E5 E6.
  assert (Hns : ~ In n (started s)).
  { intros Hs. destruct (G5 n Hs Hr) as [Hi|Hpc]; [exact (Hni Hi)|exact (A n Hpc)]. }
  constructor; rewrite ?E1, ?E4, ?E5, ?E6.
  - exact G1.
  - constructor; assumption.
  - exact G3.
  - intros x Hx. destruct (Hsub x Hx) as [->|Hi]; [left; reflexivity|right; apply G4; exact Hi].
  - intros x Hs Hxr. destruct Hs as [<-|Hs]; [exact Hn|]. left. apply Hsup.
    destruct (G5 x Hs Hxr) as [Hi|Hpc]; [exact Hi|]. exfalso. exact (A x Hpc).
  - intros x Hx. right. apply G6. exact Hx.
  - intros x Hx Hs. destruct Hs as [<-|Hs].
    + apply (G1 n) in Hr. tauto.
    + exact (G7 x Hx Hs).
  - intros x Hs. destruct Hs as [<-|Hs]; [apply (G1 n); exact Hr|apply G8; exact Hs].
  - intros x HR Hor p Hpx. destruct Hor as [Hnr|[<-|Hs]].
    + apply (G9 x HR); auto.
    + apply Hp; exact Hpx.
    + apply (G9 x HR); auto.
Qed.

(* a root n leaves the graph: observed finished (it had started) or deactivated (it had not) *)
Lemma Inv4_remove s s' n : Inv4 s -> (forall x, pc s = PRaised x -> x = n) ->
  In n (rem s) -> (forall p, In p (preds n) -> ~ In p (rem s)) ->
  rem s' = remove1 n (rem s) ->
  (forall x, In x (conc s' ++ asyn s') -> In x (conc s ++ asyn s)) ->
  (forall x, In x (conc s ++ asyn s) -> x <> n -> In x (conc s' ++ asyn s')) ->
  started s' = started s ->
  (finished s' = n :: finished s /\ skipped s' = skipped s /\ In n (started s)) \/
  (finished s' = finished s /\ skipped s' = n :: skipped s /\ ~ In n (started s)) ->
  Inv4 s'.
Proof.
  intros [G1 G2 G3 G4 G5 G6 G7 G8 G9] A Hr Hp E1 Hsub Hsup E4 Hcase.
  assert (Hnf : ~ In n (finished s) /\ ~ In n (skipped s)) by (apply (G1 n) in Hr; tauto).
  destruct Hnf as [Hnf Hnk].
  assert (Hrem : forall x, In x (rem s') <-> In x (rem s) /\ x <> n).
  { intros x. rewrite E1. apply In_remove1. }
  assert (G5' : forall x, In x (started s) -> In x (rem s') -> In x (conc s' ++ asyn s') \/ pc s' = PRaised x).
  { intros x Hs Hxr. apply Hrem in Hxr. destruct Hxr as [Hxr Hne]. left. apply Hsup; [|exact Hne].
    destruct (G5 x Hs Hxr) as [Hi|Hpc]; [exact Hi|]. exfalso. apply Hne. apply A. exact Hpc. }
  assert (G9' : forall x, In x R0 -> ~ In x (rem s') \/ In x (started s) ->
                forall p, In p (preds x) -> ~ In p (rem s')).
  { intros x HR Hor p Hpx Hpr. apply Hrem in Hpr. destruct Hpr as [Hpr _].
    destruct (Nat.eq_dec x n) as [->|Hne].
    - exact (Hp p Hpx Hpr).
    - apply (G9 x HR) with (p := p); auto. destruct Hor as [Hnr|Hs]; [left|right; exact Hs].
      intros Hxr. apply Hnr. apply Hrem. split; assumption. }
  destruct Hcase as [[E5 [E6 Hs]]|[E5 [E6 Hns]]]; constructor; rewrite ?E4, ?E5, ?E6; auto.
  - intros x. rewrite Hrem, (G1 x). simpl. split.
    + intros [[Ha [Hb Hc]] Hne]. split; [exact Ha|]. split; [|exact Hc]. intros [He|Hf]; [apply Hne; symmetry; exact He|exact (Hb Hf)].
    + intros [Ha [Hb Hc]]. split; [split; [exact Ha|split; [|exact Hc]]|].
      * intros Hf. apply Hb. right. exact Hf.
      * intros He. apply Hb. left. symmetry. exact He.
  - simpl. constructor; [|exact G3]. rewrite in_app_iff. tauto.
  - intros x Hx. destruct Hx as [<-|Hx]; [exact Hs|apply G6; exact Hx].
  - intros x. rewrite Hrem, (G1 x). simpl. split.
    + intros [[Ha [Hb Hc]] Hne]. split; [exact Ha|]. split; [exact Hb|]. intros [He|Hf]; [apply Hne; symmetry; exact He|exact (Hc Hf)].
    + intros [Ha [Hb Hc]]. split; [split; [exact Ha|split; [exact Hb|]]|].
      * intros Hf. apply Hc. right. exact Hf.
      * intros He. apply Hc. left. symmetry. exact He.
  - apply (Permutation_NoDup (Permutation_middle (finished s) (skipped s) n)).
    constructor; [|exact G3]. rewrite in_app_iff. tauto.
  - intros x Hx. destruct Hx as [<-|Hx]; [exact Hns|apply G7; exact Hx].
Qed.

Lemma complete_Inv4 k s n : Inv1 c s -> alive s -> Inv4 s -> In n (inflight s k) -> Inv4 (complete c k s n).
Proof.
  intros I A G Hn.
  assert (Hi : In n (conc s ++ asyn s)) by (apply (inflight_infl s k n Hn)).
  destruct (infl_root s n I Hi) as [Hr Hp].
  apply (Inv4_remove s (complete c k s n) n G).
  - intros x E. exfalso. exact (A x E).
  - exact Hr.
  - exact Hp.
  - apply complete_rem.
  - intros x. rewrite complete_conc, complete_asyn, !in_app_iff. destruct k; rewrite ?In_remove1; tauto.
  - intros x. rewrite complete_conc, complete_asyn, !in_app_iff. destruct k; rewrite ?In_remove1; tauto.
  - apply complete_started.
  - left. rewrite complete_finished, complete_skipped. split; [reflexivity|]. split; [reflexivity|].
    apply (g_infl_started s G). exact Hi.
Qed.

Lemma completes_Inv14 k ns s : Inv1 c s -> cur (pc s) = [] -> alive s -> Inv4 s ->
  (forall pre n post, ns = pre ++ n :: post -> In n (inflight (completes c k s pre) k)) ->
  Inv1 c (completes c k s ns) /\ Inv4 (completes c k s ns).
Proof.
  intros I Hc A G Hin.
  assert (H : Inv1 c (completes c k s ns) /\ cur (pc (completes c k s ns)) = [] /\
              alive (completes c k s ns) /\ Inv4 (completes c k s ns)).
  { apply (completes_ind c (fun t => Inv1 c t /\ cur (pc t) = [] /\ alive t /\ Inv4 t) k); auto.
    intros t n [Ia [Ib [Ic Id]]] Hn. split; [apply complete_Inv1; auto|]. split; [rewrite complete_pc; exact Ib|].
    split; [intros x; rewrite complete_pc; apply Ic|]. apply complete_Inv4; auto. }
  tauto.
Qed.

Ltac dtrans T :=
  destruct T as [ t Hpc Hrem
                | t k m nx Hws Hinf
                | t k m nx dones ns t1 Hws Hinf Hdn Hdones Ht1 Hpre Hall
                | t k m nx dones ns f t1 Hws Hinf Hdones Ht1 Hpre Hf
                | t n Hpc Hmax Hseq Hrun
                | t n Hpc Hmax Hrun
                | t n Hpc
                | t n Hpc
                | t n Hpc Hres
                | t n Hpc Hres
                | t n Hpc Hres
                | t n Hpc Hres ].

Lemma trans_Inv4 s l s' : wf c -> Inv c s -> Inv4 s -> trans c s l s' -> Inv4 s'.
Proof.
  intros W I G T. pose proof (trans_alive c _ _ _ T) as A. pose proof (inv1 c s I A) as I1.
  dtrans T.
  - apply (Inv4_same t); auto.
  - apply (Inv4_same t); auto.
  - (* wait ok *) subst t1. destruct (wait_site_cur c _ _ _ _ Hws) as [Hc _].
    destruct (completes_Inv14 k ns t I1 Hc A G Hpre) as [_ G'].
    apply (Inv4_same (completes c k t ns)); auto. intros x. rewrite completes_pc. apply A.
  - (* wait fail *) subst t1. destruct (wait_site_cur c _ _ _ _ Hws) as [Hc _].
    destruct (completes_Inv14 k ns t I1 Hc A G Hpre) as [_ G'].
    apply (Inv4_same (completes c k t ns)); auto. intros x. rewrite completes_pc. apply A.
  - apply (Inv4_same t); auto.
  - apply (Inv4_same t); auto.
  - apply (Inv4_same t); auto.
  - (* skip *)
    assert (Hc : cur (pc t) = [n]) by (rewrite Hpc; reflexivity).
    destruct (held_facts t n I1 Hc) as [Hr [Hp Hni]].
    apply (Inv4_remove t _ n G).
    + intros x E. rewrite Hpc in E. discriminate.
    + exact Hr.
    + exact Hp.
    + reflexivity.
    + intros x. cbn [set_pc mark_skipped conc asyn]. rewrite remove_node_conc, remove_node_asyn. auto.
    + intros x. cbn [set_pc mark_skipped conc asyn]. rewrite remove_node_conc, remove_node_asyn. auto.
    + cbn [set_pc mark_skipped started]. apply remove_node_started.
    + right. cbn [set_pc mark_skipped finished skipped]. rewrite remove_node_finished, remove_node_skipped.
      split; [reflexivity|]. split; [reflexivity|].
      intros Hs. destruct (g_started_rem t G n Hs Hr) as [X|X]; [exact (Hni X)|]. rewrite Hpc in X. discriminate.
  - (* submit thread *)
    assert (Hc : cur (pc t) = [n]) by (rewrite Hpc; reflexivity).
    destruct (held_facts t n I1 Hc) as [Hr [Hp Hni]].
    apply (Inv4_start t _ n G A Hr Hp Hni); cbn [set_pc mark_started set_inflight rem conc asyn pc started finished skipped]; auto.
    + intros x Hx. simpl in Hx. destruct Hx as [<-|Hx]; auto.
    + intros x Hx. simpl. auto.
    + left. simpl. auto.
  - (* submit async *)
    assert (Hc : cur (pc t) = [n]) by (rewrite Hpc; reflexivity).
    destruct (held_facts t n I1 Hc) as [Hr [Hp Hni]].
    apply (Inv4_start t _ n G A Hr Hp Hni); cbn [set_pc mark_started set_inflight rem conc asyn pc started finished skipped]; auto.
    + intros x. rewrite !in_app_iff. simpl. intros [Hx|[Hx|Hx]]; auto.
    + intros x. rewrite !in_app_iff. simpl. tauto.
    + left. rewrite in_app_iff. simpl. auto.
  - (* inline ok: as a failed inline execution followed by the removal *)
    assert (Hc : cur (pc t) = [n]) by (rewrite Hpc; reflexivity).
    destruct (held_facts t n I1 Hc) as [Hr [Hp Hni]].
    set (tf := set_pc (mark_started t n) (PRaised n)).
    assert (Gf : Inv4 tf).
    { apply (Inv4_start t tf n G A Hr Hp Hni); unfold tf; cbn [set_pc mark_started rem conc asyn pc started finished skipped]; auto. }
    apply (Inv4_remove tf _ n Gf).
    + intros x E. unfold tf in E. cbn [set_pc pc] in E. inversion E. reflexivity.
    + exact Hr.
    + exact Hp.
    + reflexivity.
    + intros x. unfold tf. cbn [set_pc mark_finished conc asyn]. rewrite remove_node_conc, remove_node_asyn.
      cbn [set_pc mark_started conc asyn]. auto.
    + intros x. unfold tf. cbn [set_pc mark_finished conc asyn]. rewrite remove_node_conc, remove_node_asyn.
      cbn [set_pc mark_started conc asyn]. auto.
    + unfold tf. cbn [set_pc mark_finished started]. rewrite remove_node_started. reflexivity.
    + left. unfold tf. cbn [set_pc mark_finished finished skipped]. rewrite remove_node_finished, remove_node_skipped.
      cbn [set_pc mark_started started finished skipped]. split; [reflexivity|]. split; [reflexivity|]. left. reflexivity.
  - (* inline fail *)
    assert (Hc : cur (pc t) = [n]) by (rewrite Hpc; reflexivity).
    destruct (held_facts t n I1 Hc) as [Hr [Hp Hni]].
    apply (Inv4_start t _ n G A Hr Hp Hni); cbn [set_pc mark_started rem conc asyn pc started finished skipped]; auto.
Qed.

Lemma reachable_Inv_Inv4 s : wf c -> reachable c s -> Inv c s /\ Inv4 s.
Proof.
  intros W [ls H].
  apply (run_preserves c (fun t => Inv c t /\ Inv4 t)) with (ls := ls) (s := init c); auto.
  - intros s0 l s1 [I G] E. apply step_trans in E. split.
    + apply (trans_Inv c s0 l s1); auto.
    + apply (trans_Inv4 s0 l s1); auto.
  - split; [apply init_Inv; auto|apply init_Inv4; auto].
Qed.

Theorem reachable_Inv4 s : wf c -> reachable c s -> Inv4 s.
Proof. intros W R. destruct (reachable_Inv_Inv4 s W R) as [_ G]. exact G. Qed.

(* ------------------------------------------------------------------ the ghost fields are the events of the trace *)
Definition starts_of_label (l : label) : list nat :=
  match l with LSubmit _ n => [n] | LInline n _ => [n] | _ => [] end.
Definition starts_of (ls : list label) : list nat := flat_map starts_of_label ls.
Definition dones_of_label (l : label) : list nat :=   (* observed finished successfully *)
  match l with LWait _ _ dones => map fst (filter snd dones) | LInline n true => [n] | _ => [] end.
Definition skips_of_label (l : label) : list nat := match l with LActive n false => [n] | _ => [] end.

Lemma dones_true ns : map fst (filter snd (map (fun n : nat => (n, true)) ns)) = ns.
Proof. induction ns as [|n ns IH]; simpl; [reflexivity|]. rewrite IH. reflexivity. Qed.
Lemma dones_true_fail ns f : map fst (filter snd (map (fun n : nat => (n, true)) ns ++ [(f, false)])) = ns.
Proof. induction ns as [|n ns IH]; simpl; [reflexivity|]. rewrite IH. reflexivity. Qed.

Lemma completes_cons k s n ns : completes c k s (n :: ns) = completes c k (complete c k s n) ns.
Proof. reflexivity. Qed.
Lemma completes_app k ns1 : forall s ns2, completes c k s (ns1 ++ ns2) = completes c k (completes c k s ns1) ns2.
Proof. intros s ns2. unfold completes. apply fold_left_app. Qed.

Lemma completes_finished k ns : forall s, finished (completes c k s ns) = rev ns ++ finished s.
Proof.
  induction ns as [|n ns IH]; intros s; [reflexivity|].
  rewrite completes_cons, IH, complete_finished. simpl. rewrite <- app_assoc. reflexivity.
Qed.

Lemma trans_started s l s' : trans c s l s' -> started s' = starts_of_label l ++ started s.
Proof.
  intros T. dtrans T; try subst t1;
    repeat (cbn [set_pc take_runnable mark_skipped mark_started mark_finished set_inflight started starts_of_label app];
            rewrite ?remove_node_started, ?completes_started); reflexivity.
Qed.

Lemma trans_skipped s l s' : trans c s l s' -> skipped s' = skips_of_label l ++ skipped s.
Proof.
  intros T. dtrans T; try subst t1;
    repeat (cbn [set_pc take_runnable mark_skipped mark_started mark_finished set_inflight skipped skips_of_label app];
            rewrite ?remove_node_skipped, ?completes_skipped); reflexivity.
Qed.

Lemma trans_finished s l s' : trans c s l s' -> finished s' = rev (dones_of_label l) ++ finished s.
Proof.
  intros T. dtrans T; try subst t1; try subst dones; cbn [dones_of_label];
    rewrite ?dones_true, ?dones_true_fail;
    repeat (cbn [set_pc take_runnable mark_skipped mark_started mark_finished set_inflight finished];
            rewrite ?remove_node_finished, ?completes_finished); reflexivity.
Qed.

Lemma run_ghost (f : state -> list nat) (g : label -> list nat) :
  (forall s l s', step c s l = Some s' -> f s' = rev (g l) ++ f s) ->
  forall ls s0 s, run c s0 ls = Some s -> f s = rev (flat_map g ls) ++ f s0.
Proof.
  intros Hs. induction ls as [|l ls IH]; intros s0 s H; simpl in H.
  - inversion H; subst. reflexivity.
  - destruct (step c s0 l) as [s1|] eqn:E; [|discriminate].
    rewrite (IH _ _ H), (Hs _ _ _ E). simpl. rewrite rev_app_distr, <- app_assoc. reflexivity.
Qed.

Lemma started_trace_from ls s0 s : run c s0 ls = Some s -> started s = rev (starts_of ls) ++ started s0.
Proof.
  apply (run_ghost started starts_of_label). intros t l t' E. apply step_trans in E.
  rewrite (trans_started _ _ _ E). destruct l; reflexivity.
Qed.
Lemma finished_trace_from ls s0 s : run c s0 ls = Some s -> finished s = rev (flat_map dones_of_label ls) ++ finished s0.
Proof. apply (run_ghost finished dones_of_label). intros t l t' E. apply step_trans in E. apply trans_finished; exact E. Qed.
Lemma skipped_trace_from ls s0 s : run c s0 ls = Some s -> skipped s = rev (flat_map skips_of_label ls) ++ skipped s0.
Proof.
  apply (run_ghost skipped skips_of_label). intros t l t' E. apply step_trans in E.
  rewrite (trans_skipped _ _ _ E). destruct l as [| |n b| | |]; try reflexivity. destruct b; reflexivity.
Qed.

Theorem started_trace ls s : run c (init c) ls = Some s -> started s = rev (starts_of ls).
Proof. intros H. rewrite (started_trace_from _ _ _ H). apply app_nil_r. Qed.
Theorem finished_trace ls s : run c (init c) ls = Some s -> finished s = rev (flat_map dones_of_label ls).
Proof. intros H. rewrite (finished_trace_from _ _ _ H). apply app_nil_r. Qed.
Theorem skipped_trace ls s : run c (init c) ls = Some s -> skipped s = rev (flat_map skips_of_label ls).
Proof. intros H. rewrite (skipped_trace_from _ _ _ H). apply app_nil_r. Qed.

(* the last step of a non-empty accepted sequence *)
Lemma run_last ls : forall s0 s, run c s0 ls = Some s ->
  (ls = [] /\ s = s0) \/ exists ls0 l s1, ls = ls0 ++ [l] /\ run c s0 ls0 = Some s1 /\ step c s1 l = Some s.
Proof.
  induction ls as [|l ls _] using rev_ind; intros s0 s H.
  - left. simpl in H. inversion H. auto.
  - right. rewrite run_app in H. destruct (run c s0 ls) as [s1|] eqn:E1; [|discriminate].
    simpl in H. destruct (step c s1 l) as [s2|] eqn:E2; [|discriminate]. inversion H; subst.
    exists ls, l, s1. auto.
Qed.

Lemma run_split ls1 l ls2 s0 s : run c s0 (ls1 ++ l :: ls2) = Some s ->
  exists s1 s2, run c s0 ls1 = Some s1 /\ step c s1 l = Some s2 /\ run c s2 ls2 = Some s.
Proof.
  intros H. rewrite run_app in H. destruct (run c s0 ls1) as [s1|] eqn:E1; [|discriminate].
  simpl in H. destruct (step c s1 l) as [s2|] eqn:E2; [|discriminate]. exists s1, s2. auto.
Qed.

(* ------------------------------------------------------------------ C02 *)
Lemma start_label_disp s l s' x : trans c s l s' -> In x (starts_of_label l) -> pc s = PDisp x.
Proof. intros T Hx. dtrans T; simpl in Hx; try tauto; destruct Hx as [<-|[]]; exact Hpc. Qed.

Lemma held_Inv s n : Inv c s -> (pc s = PActive n \/ pc s = PDisp n) ->
  In n (rem s) /\ (forall p, In p (preds n) -> ~ In p (rem s)) /\ ~ In n (conc s ++ asyn s).
Proof.
  intros I Hpc.
  assert (A : alive s) by (intros x E; destruct Hpc as [P|P]; rewrite P in E; discriminate).
  apply held_facts; [apply (inv1 c s I A)|]. destruct Hpc as [P|P]; rewrite P; reflexivity.
Qed.

(* state form: when n is handed out / entered inline none of its dependencies is left in the graph *)
Theorem start_needs_deps s l s' n : wf c -> reachable c s -> step c s l = Some s' ->
  In n (starts_of_label l) -> forall p, In p (preds n) -> ~ In p (rem s).
Proof.
  intros W R E Hn. apply step_trans in E. pose proof (start_label_disp _ _ _ _ E Hn) as Hpc.
  destruct (held_Inv s n (reachable_Inv c s W R) (or_intror Hpc)) as [_ [Hp _]]. exact Hp.
Qed.

(* the same for the activation decision (also a deactivated node had all its dependencies resolved) *)
Theorem active_needs_deps s n b s' : wf c -> reachable c s -> step c s (LActive n b) = Some s' ->
  forall p, In p (preds n) -> ~ In p (rem s).
Proof.
  intros W R E. apply step_trans in E.
  assert (Hpc : pc s = PActive n) by (inversion E; subst; assumption).
  destruct (held_Inv s n (reachable_Inv c s W R) (or_introl Hpc)) as [_ [Hp _]]. exact Hp.
Qed.

Lemma not_rem_resolved s p : Inv4 s -> In p R0 -> ~ In p (rem s) -> In p (finished s) \/ In p (skipped s).
Proof.
  intros G HR Hn. destruct (in_dec Nat.eq_dec p (finished s)) as [Hf|Hf]; [left; exact Hf|].
  destruct (in_dec Nat.eq_dec p (skipped s)) as [Hk|Hk]; [right; exact Hk|].
  exfalso. apply Hn. apply (g_rem s G). auto.
Qed.

Theorem deps_finished_before_start ls1 l ls2 s n p : wf c ->
  run c (init c) (ls1 ++ l :: ls2) = Some s -> In n (starts_of_label l) -> In p (preds n) -> In p R0 ->
  In p (flat_map dones_of_label ls1) \/ In p (flat_map skips_of_label ls1).
Proof.
  intros W H Hn Hp HR. destruct (run_split _ _ _ _ _ H) as [s1 [s2 [E1 [E2 _]]]].
  assert (R : reachable c s1) by (exists ls1; exact E1).
  pose proof (start_needs_deps s1 l s2 n W R E2 Hn p Hp) as Hnr.
  destruct (not_rem_resolved s1 p (reachable_Inv4 s1 W R) HR Hnr) as [Hf|Hk].
  - left. rewrite (finished_trace _ _ E1) in Hf. apply in_rev. exact Hf.
  - right. rewrite (skipped_trace _ _ E1) in Hk. apply in_rev. exact Hk.
Qed.

(* and for the activation decision *)
Theorem deps_finished_before_active ls1 n b ls2 s p : wf c ->
  run c (init c) (ls1 ++ LActive n b :: ls2) = Some s -> In p (preds n) -> In p R0 ->
  In p (flat_map dones_of_label ls1) \/ In p (flat_map skips_of_label ls1).
Proof.
  intros W H Hp HR. destruct (run_split _ _ _ _ _ H) as [s1 [s2 [E1 [E2 _]]]].
  assert (R : reachable c s1) by (exists ls1; exact E1).
  pose proof (active_needs_deps s1 n b s2 W R E2 p Hp) as Hnr.
  destruct (not_rem_resolved s1 p (reachable_Inv4 s1 W R) HR Hnr) as [Hf|Hk].
  - left. rewrite (finished_trace _ _ E1) in Hf. apply in_rev. exact Hf.
  - right. rewrite (skipped_trace _ _ E1) in Hk. apply in_rev. exact Hk.
Qed.

(* ------------------------------------------------------------------ C03 *)
Theorem at_most_once ls s : wf c -> run c (init c) ls = Some s -> NoDup (starts_of ls).
Proof.
  intros W H. assert (R : reachable c s) by (exists ls; exact H).
  pose proof (g_started_nd s (reachable_Inv4 s W R)) as Hnd. rewrite (started_trace _ _ H) in Hnd.
  apply NoDup_rev in Hnd. rewrite rev_involutive in Hnd. exact Hnd.
Qed.

Theorem only_selected_start ls s : wf c -> run c (init c) ls = Some s -> forall n, In n (starts_of ls) -> In n R0.
Proof.
  intros W H n Hn. assert (R : reachable c s) by (exists ls; exact H).
  apply (g_started_R0 s (reachable_Inv4 s W R)). rewrite (started_trace _ _ H). apply in_rev in Hn. exact Hn.
Qed.

(* a skipped (deactivated) node is a selected one as well *)
Theorem only_selected_skip ls s : wf c -> run c (init c) ls = Some s ->
  forall n, In n (flat_map skips_of_label ls) -> In n R0.
Proof.
  intros W H n Hn. apply in_flat_map in Hn. destruct Hn as [l [Hl Hn]].
  destruct (in_split l ls Hl) as [ls1 [ls2 E]]. subst ls.
  destruct (run_split _ _ _ _ _ H) as [s1 [s2 [E1 [E2 _]]]].
  assert (R1 : reachable c s1) by (exists ls1; exact E1).
  destruct l as [| |m b| | |]; simpl in Hn; try tauto. destruct b; simpl in Hn; [tauto|]. destruct Hn as [<-|[]].
  apply step_trans in E2.
  assert (Hpc : pc s1 = PActive m) by (inversion E2; subst; assumption).
  destruct (held_Inv s1 m (reachable_Inv c s1 W R1) (or_introl Hpc)) as [Hm _].
  apply (g_rem s1 (reachable_Inv4 s1 W R1)). exact Hm.
Qed.

Lemma wait_site_nx s k m nx : wait_site c s k m nx ->
  forall d s', (forall f, nx d s' <> PRaised f) /\ nx d s' <> PFinished.
Proof.
  intros H d s'. destruct H as [t P Hr Hg|t b P|t n P|t n b P|t n P|t n P]; (split; [intros f|]); try discriminate;
    unfold after_gate; destruct (isnil (runnable s')); discriminate.
Qed.
Lemma after_dispatch_nx n : (forall f, after_dispatch c n <> PRaised f) /\ after_dispatch c n <> PFinished.
Proof. unfold after_dispatch. split; [intros f|]; destruct (c_seq c n); discriminate. Qed.

Lemma trans_pc_finished s l s' : trans c s l s' -> pc s' = PFinished -> l = LEnd /\ rem s' = [].
Proof.
  intros T P. dtrans T; cbn [set_pc pc] in P; try discriminate.
  - split; [reflexivity|exact Hrem].
  - exfalso. destruct (wait_site_nx _ _ _ _ Hws [] t) as [_ X]. exact (X P).
  - exfalso. destruct (wait_site_nx _ _ _ _ Hws dones t1) as [_ X]. exact (X P).
  - exfalso. destruct (after_dispatch_nx n) as [_ X]. exact (X P).
  - exfalso. destruct (after_dispatch_nx n) as [_ X]. exact (X P).
  - exfalso. destruct (after_dispatch_nx n) as [_ X]. exact (X P).
Qed.

Lemma trans_pc_raised s l s' g : trans c s l s' -> pc s' = PRaised g ->
  l = LInline g false \/ exists k m dones0, l = LWait k m (dones0 ++ [(g, false)]).
Proof.
  intros T P. dtrans T; cbn [set_pc pc] in P; try discriminate.
  - exfalso. destruct (wait_site_nx _ _ _ _ Hws [] t) as [X _]. exact (X g P).
  - exfalso. destruct (wait_site_nx _ _ _ _ Hws dones t1) as [X _]. exact (X g P).
  - inversion P; subst. right. exists k, m, (map (fun n : nat => (n, true)) ns). reflexivity.
  - exfalso. destruct (after_dispatch_nx n) as [X _]. exact (X g P).
  - exfalso. destruct (after_dispatch_nx n) as [X _]. exact (X g P).
  - exfalso. destruct (after_dispatch_nx n) as [X _]. exact (X g P).
  - inversion P; subst. left. reflexivity.
Qed.

Theorem finished_means_all_ran s : wf c -> reachable c s -> pc s = PFinished ->
  rem s = [] /\ conc s = [] /\ asyn s = [] /\ forall n, In n R0 -> In n (finished s) \/ In n (skipped s).
Proof.
  intros W R P. destruct (reachable_Inv_Inv4 s W R) as [I G]. destruct R as [ls H].
  assert (Hrem : rem s = []).
  { destruct (run_last _ _ _ H) as [[_ ->]|[ls0 [l [s1 [_ [_ E]]]]]]; [discriminate|].
    apply step_trans in E. destruct (trans_pc_finished _ _ _ E P) as [_ X]. exact X. }
  assert (A : alive s) by (intros x E; rewrite P in E; discriminate).
  pose proof (inv1 c s I A) as I1.
  assert (Hinfl : conc s ++ asyn s = []).
  { destruct (conc s ++ asyn s) as [|x l] eqn:E; [reflexivity|]. exfalso.
    assert (Hx : In x (conc s ++ asyn s)) by (rewrite E; left; reflexivity).
    destruct (infl_root s x I1 Hx) as [Hr _]. rewrite Hrem in Hr. destruct Hr. }
  apply app_eq_nil in Hinfl. destruct Hinfl as [Hc Ha].
  split; [exact Hrem|]. split; [exact Hc|]. split; [exact Ha|].
  intros n HR. apply (not_rem_resolved s n G HR). rewrite Hrem. intros [].
Qed.

Theorem exactly_once ls s : wf c -> run c (init c) ls = Some s -> pc s = PFinished ->
  forall n, In n R0 ->
    (count_occ Nat.eq_dec (starts_of ls) n = 1 /\ ~ In n (flat_map skips_of_label ls)) \/
    (count_occ Nat.eq_dec (starts_of ls) n = 0 /\ In n (flat_map skips_of_label ls)).
Proof.
  intros W H P n HR. assert (R : reachable c s) by (exists ls; exact H).
  pose proof (reachable_Inv4 s W R) as G.
  destruct (finished_means_all_ran s W R P) as [_ [_ [_ Hall]]].
  pose proof (at_most_once ls s W H) as Hnd.
  assert (Hst : In n (starts_of ls) <-> In n (started s)) by (rewrite (started_trace _ _ H); apply in_rev).
  assert (Hsk : In n (flat_map skips_of_label ls) <-> In n (skipped s)) by (rewrite (skipped_trace _ _ H); apply in_rev).
  destruct (Hall n HR) as [Hf|Hk].
  - left. pose proof (g_fin_started s G n Hf) as Hs. split.
    + apply Hst in Hs. apply (count_occ_In Nat.eq_dec) in Hs.
      pose proof (proj1 (NoDup_count_occ Nat.eq_dec _) Hnd n). lia.
    + intros Hk. apply Hsk in Hk. exact (g_skip_not_started s G n Hk Hs).
  - right. split; [|apply Hsk; exact Hk].
    apply (count_occ_not_In Nat.eq_dec). intros Hs. apply Hst in Hs. exact (g_skip_not_started s G n Hk Hs).
Qed.

(* ------------------------------------------------------------------ C14 *)
Theorem raised_is_terminal s f l : pc s = PRaised f -> step c s l = None.
Proof. intros P. unfold step. rewrite P. destruct l; reflexivity. Qed.
Theorem finished_is_terminal s l : pc s = PFinished -> step c s l = None.
Proof. intros P. unfold step. rewrite P. destruct l; reflexivity. Qed.

Theorem failure_is_last_label ls s f : run c (init c) ls = Some s -> pc s = PRaised f ->
  exists ls0 l, ls = ls0 ++ [l] /\
    (l = LInline f false \/ exists k m dones0, l = LWait k m (dones0 ++ [(f, false)])).
Proof.
  intros H P. destruct (run_last _ _ _ H) as [[_ ->]|[ls0 [l [s1 [E0 [_ E]]]]]]; [discriminate|].
  exists ls0, l. split; [exact E0|]. apply step_trans in E. apply (trans_pc_raised _ _ _ _ E P).
Qed.

(* no label is accepted after the failure (nor after the normal end) *)
Theorem nothing_after_failure ls l ls' s s' f :
  run c (init c) ls = Some s -> pc s = PRaised f -> run c (init c) (ls ++ l :: ls') = Some s' -> False.
Proof.
  intros H P H'. destruct (run_split _ _ _ _ _ H') as [s1 [s2 [E1 [E2 _]]]].
  rewrite H in E1. inversion E1; subst s1. rewrite (raised_is_terminal s f l P) in E2. discriminate.
Qed.

Lemma trans_raised_in_graph s l s' g : Inv c s -> Inv4 s -> trans c s l s' -> pc s' = PRaised g ->
  In g (rem s') /\ In g (started s').
Proof.
  intros I G T P. pose proof (trans_alive c _ _ _ T) as A. pose proof (inv1 c s I A) as I1.
  dtrans T; cbn [set_pc pc] in P; try discriminate.
  - exfalso. destruct (wait_site_nx _ _ _ _ Hws [] t) as [X _]. exact (X g P).
  - exfalso. destruct (wait_site_nx _ _ _ _ Hws dones t1) as [X _]. exact (X g P).
  - inversion P; subst f. subst t1. destruct (wait_site_cur c _ _ _ _ Hws) as [Hc _].
    destruct (completes_Inv14 k ns t I1 Hc A G Hpre) as [I1' G'].
    cbn [set_pc rem started]. apply inflight_infl in Hf. unfold infl in Hf.
    destruct (infl_root _ g I1' Hf) as [Hr _]. split; [exact Hr|]. apply (g_infl_started _ G'). exact Hf.
  - exfalso. destruct (after_dispatch_nx n) as [X _]. exact (X g P).
  - exfalso. destruct (after_dispatch_nx n) as [X _]. exact (X g P).
  - exfalso. destruct (after_dispatch_nx n) as [X _]. exact (X g P).
  - inversion P; subst n. cbn [set_pc mark_started rem started].
    assert (Hc : cur (pc t) = [g]) by (rewrite Hpc; reflexivity).
    destruct (held_facts t g I1 Hc) as [Hr _]. split; [exact Hr|left; reflexivity].
Qed.

Theorem failed_stays_in_graph s f : wf c -> reachable c s -> pc s = PRaised f -> In f (rem s) /\ In f (started s).
Proof.
  intros W [ls H] P. destruct (run_last _ _ _ H) as [[_ ->]|[ls0 [l [s1 [_ [E0 E]]]]]]; [discriminate|].
  assert (R1 : reachable c s1) by (exists ls0; exact E0).
  destruct (reachable_Inv_Inv4 s1 W R1) as [I G]. apply step_trans in E.
  apply (trans_raised_in_graph s1 l s f I G E P).
Qed.

Inductive depends_on : nat -> nat -> Prop :=     (* y depends directly or transitively on x, inside R0 *)
| dep_one x y : In x R0 -> In y R0 -> In x (preds y) -> depends_on y x
| dep_step x y z : depends_on y x -> In z R0 -> In y (preds z) -> depends_on z x.

Lemma descendant_untouched s x y : Inv4 s -> In x (rem s) -> depends_on y x ->
  In y (rem s) /\ ~ In y (started s).
Proof.
  intros G Hx D.
  assert (Hone : forall a b, In a (rem s) -> In b R0 -> In a (preds b) -> In b (rem s) /\ ~ In b (started s)).
  { intros a b Ha Hb Hab.
    destruct (in_dec Nat.eq_dec b (rem s)) as [Hr|Hr].
    - split; [exact Hr|]. intros Hs. exact (g_closed s G b Hb (or_intror Hs) a Hab Ha).
    - exfalso. exact (g_closed s G b Hb (or_introl Hr) a Hab Ha). }
  induction D as [x y HxR HyR Hp|x y z D IH HzR Hp].
  - apply (Hone x y); assumption.
  - destruct (IH Hx) as [Hy _]. apply (Hone y z); assumption.
Qed.

Theorem no_descendant_of_unfinished_started s x y : wf c -> reachable c s -> In x (rem s) -> depends_on y x ->
  ~ In y (started s) /\ ~ In y (skipped s).
Proof.
  intros W R Hx D. pose proof (reachable_Inv4 s W R) as G.
  destruct (descendant_untouched s x y G Hx D) as [Hy Hns]. split; [exact Hns|].
  apply (g_rem s G) in Hy. tauto.
Qed.

Theorem failure_blocks_descendants s f y : wf c -> reachable c s -> pc s = PRaised f -> depends_on y f ->
  ~ In y (started s) /\ ~ In y (skipped s) /\ ~ In y (finished s).
Proof.
  intros W R P D. destruct (failed_stays_in_graph s f W R P) as [Hf _].
  pose proof (reachable_Inv4 s W R) as G.
  destruct (descendant_untouched s f y G Hf D) as [Hy Hns]. split; [exact Hns|].
  apply (g_rem s G) in Hy. tauto.
Qed.

(* trace form: in an execution that ends with the failure of f nothing depending on f was started or skipped *)
Theorem failure_blocks_descendants_trace ls s f y : wf c -> run c (init c) ls = Some s -> pc s = PRaised f ->
  depends_on y f -> ~ In y (starts_of ls) /\ ~ In y (flat_map skips_of_label ls) /\ ~ In y (flat_map dones_of_label ls).
Proof.
  intros W H P D. assert (R : reachable c s) by (exists ls; exact H).
  destruct (failure_blocks_descendants s f y W R P D) as [Ha [Hb Hc]].
  rewrite (started_trace _ _ H) in Ha. rewrite (skipped_trace _ _ H) in Hb. rewrite (finished_trace _ _ H) in Hc.
  rewrite <- in_rev in Ha, Hb, Hc. auto.
Qed.

(* ---- remove_root_node is only ever called on a node that is in the graph (it would raise otherwise) *)
Theorem complete_target_in_graph s k n : Inv c s -> alive s -> In n (inflight s k) ->
  In n (rem s) /\ is_root preds (rem s) n = true.
Proof.
  intros I A Hn. pose proof (inv1 c s I A) as I1. apply inflight_infl in Hn. unfold infl in Hn.
  destruct (infl_root s n I1 Hn) as [Hr Hp]. split; [exact Hr|]. apply is_root_spec. auto.
Qed.

Theorem held_target_in_graph s n : Inv c s -> (pc s = PActive n \/ pc s = PDisp n) ->
  In n (rem s) /\ is_root preds (rem s) n = true.
Proof. intros I P. destruct (held_Inv s n I P) as [Hr [Hp _]]. split; [exact Hr|]. apply is_root_spec. auto. Qed.

Lemma trans_wait_inv s k m dones s' : trans c s (LWait k m dones) s' ->
  cur (pc s) = [] /\
  forall pre n post, map fst (filter snd dones) = pre ++ n :: post -> In n (inflight (completes c k s pre) k).
Proof.
  intros T. inversion T as [ | t k0 m0 nx Hws Hinf | t k0 m0 nx dones0 ns t1 Hws Hinf Hdn Hdones Ht1 Hpre Hall
                            | t k0 m0 nx dones0 ns f t1 Hws Hinf Hdones Ht1 Hpre Hf | | | | | | | | ]; subst.
  - split; [apply (wait_site_cur c _ _ _ _ Hws)|]. intros pre n post E. simpl in E. destruct pre; discriminate.
  - split; [apply (wait_site_cur c _ _ _ _ Hws)|]. rewrite dones_true. exact Hpre.
  - split; [apply (wait_site_cur c _ _ _ _ Hws)|]. rewrite dones_true_fail. exact Hpre.
Qed.

(* inside a wait: each node reported finished is, at the moment it is removed (after the ones inspected
   before it), in flight, in the graph and a root of it *)
Theorem remove_targets_in_graph s k m dones s' : wf c -> reachable c s -> step c s (LWait k m dones) = Some s' ->
  forall pre n post, map fst (filter snd dones) = pre ++ n :: post ->
    let t := completes c k s pre in In n (inflight t k) /\ In n (rem t) /\ is_root preds (rem t) n = true.
Proof.
  intros W R E pre n post Hsplit t. apply step_trans in E. pose proof (trans_alive c _ _ _ E) as A.
  destruct (reachable_Inv_Inv4 s W R) as [I G]. pose proof (inv1 c s I A) as I1.
  destruct (trans_wait_inv _ _ _ _ _ E) as [Hc Hpre].
  assert (Hpre' : forall pre0 n0 post0, pre = pre0 ++ n0 :: post0 -> In n0 (inflight (completes c k s pre0) k)).
  { intros pre0 n0 post0 E0. apply (Hpre pre0 n0 (post0 ++ n :: post)). rewrite Hsplit, E0, <- app_assoc. reflexivity. }
  destruct (completes_Inv14 k pre s I1 Hc A G Hpre') as [I1' _].
  pose proof (Hpre pre n post Hsplit) as Hn. fold t in Hn, I1'. split; [exact Hn|].
  apply inflight_infl in Hn. unfold infl in Hn. destruct (infl_root t n I1' Hn) as [Hr Hp].
  split; [exact Hr|]. apply is_root_spec. auto.
Qed.

End Ghost.

Print Assumptions init_Inv4.
Print Assumptions trans_Inv4.
Print Assumptions reachable_Inv4.
Print Assumptions started_trace.
Print Assumptions finished_trace.
Print Assumptions skipped_trace.
Print Assumptions deps_finished_before_start.
Print Assumptions deps_finished_before_active.
Print Assumptions start_needs_deps.
Print Assumptions active_needs_deps.
Print Assumptions at_most_once.
Print Assumptions only_selected_start.
Print Assumptions only_selected_skip.
Print Assumptions exactly_once.
Print Assumptions finished_means_all_ran.
Print Assumptions raised_is_terminal.
Print Assumptions finished_is_terminal.
Print Assumptions failure_is_last_label.
Print Assumptions nothing_after_failure.
Print Assumptions failed_stays_in_graph.
Print Assumptions no_descendant_of_unfinished_started.
Print Assumptions failure_blocks_descendants.
Print Assumptions failure_blocks_descendants_trace.
Print Assumptions complete_target_in_graph.
Print Assumptions held_target_in_graph.
Print Assumptions remove_targets_in_graph.
