(* Concurrent.v — several executions of ONE DAG in flight at the same time (threads calling a shared DAG,
   coroutines awaiting one AsyncDAG in one loop).  Definitions only.

   tawazi/_dag/dag.py `_pre_call` / `run_subgraph`: every call copies the graph it consumes and builds its own
   results map from the DAG-level map (setup results; read-only once the setup nodes have run) and its own
   arguments; the scheduler state (Sched.state) and the results map (Dataflow.results) are therefore per
   call, the configuration and the node table are shared and immutable.  A global step is a step of ONE
   call; a global run is any interleaving of such steps. *)
From Coq Require Import List Arith Bool PeanoNat.
From Tawazi Require Import Graph Sched Dataflow.
Import ListNotations.

Section Conc.
Variable val : Type.
Variable vnone : val.
Variable truthy : val -> bool.
Variable index : val -> nat -> option val.
Variable tbl : nat -> nodeT val.
Variable c : cfg.

Definition call := (state * results val)%type.
Definition gstate := list call.
Definition glabel := (nat * label)%type.      (* which call moves, and how *)

Fixpoint upd (g : gstate) (i : nat) (x : call) : gstate :=
  match g, i with
  | [], _ => []
  | _ :: r, 0 => x :: r
  | y :: r, S j => y :: upd r j x
  end.

Definition gstep (g : gstate) (il : glabel) : option gstate :=
  match nth_error g (fst il) with
  | None => None
  | Some sr => match vstep val vnone truthy index tbl c sr (snd il) with
               | Some sr' => Some (upd g (fst il) sr')
               | None => None
               end
  end.

Fixpoint grun (g : gstate) (ils : list glabel) : option gstate :=
  match ils with
  | [] => Some g
  | il :: r => match gstep g il with Some g' => grun g' r | None => None end
  end.

(* every call starts from the scheduler's initial state and its OWN start map *)
Definition ginit (starts : list (results val)) : gstate := map (fun r => (init c, r)) starts.

(* what call i did *)
Definition proj (i : nat) (ils : list glabel) : list label :=
  map snd (filter (fun il => Nat.eqb (fst il) i) ils).

(* the interleaving that runs the calls one after the other *)
Fixpoint serial (i : nat) (runs : list (list label)) : list glabel :=
  match runs with
  | [] => []
  | ls :: r => map (fun l => (i, l)) ls ++ serial (S i) r
  end.
End Conc.
