(* IdsFacts.v — facts about Ids.v: every call site gets its own id. *)
From Coq Require Import List Arith PeanoNat Lia.
From Tawazi Require Import Ids.
Import ListNotations.

(* registry invariant: the uses of every base are numbered 0 .. n-1 without gaps or repetition *)
Definition dense (reg : list xid) : Prop :=
  NoDup reg /\ forall b k, In (b, k) reg <-> k < uses reg b.

Lemma uses_app reg1 reg2 b : uses (reg1 ++ reg2) b = uses reg1 b + uses reg2 b.
Proof. unfold uses. rewrite filter_app, app_length. reflexivity. Qed.

Lemma uses_single i b : uses [i] b = if Nat.eqb (fst i) b then 1 else 0.
Proof. unfold uses. cbn [filter]. destruct (Nat.eqb (fst i) b); reflexivity. Qed.

Lemma dense_nil : dense [].
Proof. split; [constructor|]. intros b k. unfold uses; cbn. split; [intros []|lia]. Qed.

Lemma NoDup_snoc (A : Type) (l : list A) (i : A) : NoDup l -> ~ In i l -> NoDup (l ++ [i]).
Proof.
  induction l as [|x l IH]; intros N Hn; cbn [app]; [constructor; [intros []|constructor]|].
  inversion N as [|y l' Hx Hl]; subst. constructor.
  - rewrite in_app_iff. intros [Hi|[Hi|[]]]; [exact (Hx Hi)| subst; apply Hn; left; reflexivity].
  - apply IH; [exact Hl| intros Hi; apply Hn; right; exact Hi].
Qed.

Lemma call_fresh reg b : dense reg -> ~ In (fst (call reg b)) reg.
Proof. intros [_ H] Hin. cbn [call fst] in Hin. apply H in Hin. lia. Qed.

Lemma call_dense reg b : dense reg -> dense (snd (call reg b)).
Proof.
  intros D. pose proof (call_fresh reg b D) as Hf. destruct D as [ND H]. cbn [call snd fst] in *. split.
  - apply NoDup_snoc; assumption.
  - intros b' k. rewrite in_app_iff, uses_app, uses_single. cbn [fst In]. rewrite H.
    destruct (Nat.eqb_spec b b') as [->|Hne].
    + split.
      * intros [Hk|[Hk|[]]]; [lia| inversion Hk; lia].
      * intros Hk. destruct (Nat.eq_dec k (uses reg b')) as [->|Hd]; [right; left; reflexivity| left; lia].
    + split.
      * intros [Hk|[Hk|[]]]; [lia| inversion Hk; congruence].
      * intros Hk. left. lia.
Qed.

Theorem calls_dense bs : forall reg, dense reg -> dense (calls reg bs).
Proof. induction bs as [|b r IH]; intros reg D; cbn [calls]; [exact D| apply IH, call_dense, D]. Qed.

(* every call site gets its own id, whatever functions are called in whatever order *)
Theorem call_sites_distinct bs : NoDup (calls [] bs).
Proof. exact (proj1 (calls_dense bs [] dense_nil)). Qed.

(* ... one id per call: the registry grows by exactly one entry per call *)
Theorem calls_length bs : forall reg, length (calls reg bs) = length reg + length bs.
Proof. induction bs as [|b r IH]; intros reg; cbn [calls call snd length]; [lia| rewrite IH, app_length; cbn [length]; lia]. Qed.

(* ... and the (k+1)-th use of a function is numbered k *)
Theorem call_index reg b : fst (call reg b) = (b, uses reg b).
Proof. reflexivity. Qed.

Theorem calls_uses bs : forall reg b, uses (calls reg bs) b = uses reg b + count_occ Nat.eq_dec bs b.
Proof.
  induction bs as [|a r IH]; intros reg b; cbn [calls count_occ]; [lia|].
  rewrite IH. cbn [call snd]. rewrite uses_app, uses_single. cbn [fst].
  destruct (Nat.eq_dec a b) as [->|Hne]; [rewrite Nat.eqb_refl; lia|].
  destruct (Nat.eqb_spec a b); [congruence| lia].
Qed.

Example ids_example : calls [] [7; 3; 7; 7; 3] = [(7, 0); (3, 0); (7, 1); (7, 2); (3, 1)].
Proof. reflexivity. Qed.
Print Assumptions call_sites_distinct.
Print Assumptions calls_uses.
