(* GraphCheck.v — executable encoders used by the K-graph correspondence (no proofs). *)
From Coq Require Import List Arith Bool PeanoNat ZArith.
From Tawazi Require Import Graph Priority Select.
Import ListNotations.

(* compound priority table of the full graph, as [id; value; id; value ...] *)
Definition kprio (preds : nat -> list nat) (prio : nat -> Z) (nodes : list nat) : list Z :=
  flat_map (fun n => [Z.of_nat n; cprio preds prio nodes n]) nodes.

Definition enc_sel (r : sel_result) : list Z :=
  match r with SelValueError => [0%Z] | SelOk g => 1%Z :: map Z.of_nat g end.

Definition opt_resolve (nodes : list nat) tags ids (o : option (list alias)) : option (option (list nat)) :=
  match o with None => Some None | Some als => match resolve_all nodes tags ids als with Some l => Some (Some l) | None => None end end.

(* executor graph from aliases; an unknown alias is a ValueError *)
Definition kexec preds debug nodes tags ids (target exclude root : option (list alias)) (run_debug : bool) : list Z :=
  match opt_resolve nodes tags ids target, opt_resolve nodes tags ids exclude, opt_resolve nodes tags ids root with
  | Some t, Some x, Some r => enc_sel (executor_graph preds debug nodes t x r run_debug)
  | _, _, _ => [0%Z]
  end.
Definition ksetup preds setup nodes tags ids (target exclude root : option (list alias)) : list Z :=
  match opt_resolve nodes tags ids target, opt_resolve nodes tags ids exclude, opt_resolve nodes tags ids root with
  | Some t, Some x, Some r => enc_sel (setup_graph preds setup nodes t x r)
  | _, _, _ => [0%Z]
  end.
Definition kcall preds debug nodes (run_debug : bool) : list Z := enc_sel (SelOk (call_graph preds debug nodes run_debug)).
