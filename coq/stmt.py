#!/usr/bin/env python3
# print the statement of named theorems of a Coq file
import re,sys
src=open(sys.argv[1]).read()
for name in sys.argv[2:]:
    m=re.search(r'(?:Theorem|Lemma|Corollary)\s+'+re.escape(name)+r'\b.*?\.\s*\n\s*Proof', src, re.S)
    print(m.group(0).rsplit('\n',1)[0] if m else '?? '+name); print()
