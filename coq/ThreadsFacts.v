(* ThreadsFacts.v — property C16: building a DAG in one thread does not change what other threads do
   (under the repaired predicate [mine]); refuted for the pinned commit's predicate [anyone]. *)
From Coq Require Import List Arith Bool Lia PeanoNat.
From Tawazi Require Import Threads.
Import ListNotations.

(* ---------- get_prog / set_prog ---------- *)

Lemma get_set_other ps u p t : u <> t -> get_prog (set_prog ps u p) t = get_prog ps t.
Proof.
  intros Hne. induction ps as [|[t' q] r IH]; cbn; [reflexivity|].
  destruct (Nat.eqb t' u) eqn:Eu; cbn.
  - apply Nat.eqb_eq in Eu. subst t'.
    destruct (Nat.eqb u t) eqn:Et; [apply Nat.eqb_eq in Et; contradiction|reflexivity].
  - destruct (Nat.eqb t' t); [reflexivity|exact IH].
Qed.

Lemma get_set_same ps u p : get_prog ps u <> [] -> get_prog (set_prog ps u p) u = p.
Proof.
  induction ps as [|[t' q] r IH]; cbn; intros Hne; [contradiction|].
  destruct (Nat.eqb t' u) eqn:Eu; cbn; rewrite Eu; [reflexivity|exact (IH Hne)].
Qed.

Lemma map_fst_set_prog ps u p : map fst (set_prog ps u p) = map fst ps.
Proof.
  induction ps as [|[t' q] r IH]; cbn; [reflexivity|].
  destruct (Nat.eqb t' u); cbn; [reflexivity|now rewrite IH].
Qed.

Lemma get_prog_notin ps t : ~ In t (map fst ps) -> get_prog ps t = [].
Proof.
  induction ps as [|[t' q] r IH]; cbn; intros Hn; [reflexivity|].
  destruct (Nat.eqb t' t) eqn:E; [apply Nat.eqb_eq in E; tauto|apply IH; tauto].
Qed.

Lemma get_prog_in ps t p : NoDup (map fst ps) -> In (t, p) ps -> get_prog ps t = p.
Proof.
  induction ps as [|[t' q] r IH]; cbn; intros Hnd Hin; [contradiction|].
  inversion Hnd as [|x l Hx Hnd']; subst.
  destruct Hin as [Heq|Hin].
  - inversion Heq; subst. now rewrite Nat.eqb_refl.
  - destruct (Nat.eqb t' t) eqn:E.
    + apply Nat.eqb_eq in E. subst t'. exfalso. apply Hx.
      apply in_map_iff. exists (t, p). auto.
    + apply IH; assumption.
Qed.

Lemma get_prog_in_inv ps t : get_prog ps t <> [] -> In (t, get_prog ps t) ps.
Proof.
  induction ps as [|[t' q] r IH]; cbn; intros Hne; [contradiction|].
  destruct (Nat.eqb t' t) eqn:E.
  - apply Nat.eqb_eq in E. subst. now left.
  - right. apply IH. exact Hne.
Qed.

(* ---------- well_bracketed: the two modes exclude each other ---------- *)

Lemma wb_exclusive p : well_bracketed true p = true -> well_bracketed false p = true -> False.
Proof. destruct p as [|[| | |] r]; cbn; intros H1 H2; discriminate. Qed.

Lemma wb_mode b b' p : well_bracketed b p = true -> well_bracketed b' p = true -> b = b'.
Proof.
  destruct b, b'; intros H1 H2; try reflexivity; exfalso; eauto using wb_exclusive.
Qed.

(* ---------- the invariant ---------- *)

(* every thread is inside its bracket iff it holds the lock; the table is empty while the lock is free *)
Definition binv (ps : progs) (st : shared) : Prop :=
  (forall t, well_bracketed (mine t st) (get_prog ps t) = true) /\
  (owner st = None -> table st = []).

Lemma mine_true t st : mine t st = true <-> owner st = Some t.
Proof.
  unfold mine. destruct (owner st) as [o|]; split; intros H; try discriminate.
  - apply Nat.eqb_eq in H. now subst.
  - inversion H. apply Nat.eqb_refl.
Qed.

Lemma mine_other u t st st' :
  u <> t -> owner st = Some u \/ owner st = None -> owner st' = Some u \/ owner st' = None ->
  mine t st' = mine t st.
Proof.
  intros Hne H1 H2. unfold mine.
  assert (E : forall o, Some o = Some u -> Nat.eqb o t = false).
  { intros o Ho. inversion Ho. subst. now apply Nat.eqb_neq. }
  destruct H1 as [H1|H1], H2 as [H2|H2]; rewrite H1, H2; rewrite ?(E u eq_refl); reflexivity.
Qed.

Lemma binv_init ps : (forall t, well_bracketed false (get_prog ps t) = true) -> binv ps init_shared.
Proof. intros H. split; [intros t; exact (H t)|reflexivity]. Qed.

Lemma wf_progs_get ps :
  NoDup (map fst ps) -> (forall t p, In (t, p) ps -> well_bracketed false p = true) ->
  forall t, well_bracketed false (get_prog ps t) = true.
Proof.
  intros Hnd Hwb t.
  destruct (get_prog ps t) eqn:E; [reflexivity|]. rewrite <- E.
  apply (Hwb t). apply get_prog_in_inv. rewrite E. discriminate.
Qed.

(* predicates that never answer "describing" while the lock is free: both [mine] and [anyone] *)
Definition lockful (d : pred) : Prop := forall t st, d t st = true -> owner st <> None.

Lemma lockful_mine : lockful mine.
Proof. intros t st H. apply mine_true in H. rewrite H. discriminate. Qed.

Lemma lockful_anyone : lockful anyone.
Proof. intros t st H. unfold anyone in H. destruct (owner st); [discriminate|discriminate H]. Qed.

(* one step preserves the invariant, for any lockful predicate d (the lock discipline does not depend
   on the predicate) *)
Lemma binv_step d ps st u a p st1 os :
  lockful d ->
  binv ps st -> get_prog ps u = a :: p -> act d u st a = Some (st1, os) ->
  binv (set_prog ps u p) st1.
Proof.
  intros Hd [Hwb Htb] Hg Ha.
  assert (Hne : get_prog ps u <> []) by (rewrite Hg; discriminate).
  pose proof (Hwb u) as Hu. rewrite Hg in Hu.
  assert (Hother : forall t, u <> t ->
            (owner st = Some u \/ owner st = None) -> (owner st1 = Some u \/ owner st1 = None) ->
            well_bracketed (mine t st1) (get_prog (set_prog ps u p) t) = true).
  { intros t Hut H1 H2. rewrite get_set_other by exact Hut.
    rewrite (mine_other u t st st1 Hut H1 H2). apply Hwb. }
  destruct a as [|f| |f]; cbn in Ha, Hu.
  - (* ABegin *)
    destruct (owner st) as [o|] eqn:Eo; [discriminate|]. inversion Ha; subst st1 os; clear Ha.
    apply andb_true_iff in Hu as [_ Hu].
    split; [|cbn; discriminate].
    intros t. destruct (Nat.eq_dec u t) as [<-|Hut].
    + rewrite get_set_same by exact Hne. unfold mine; cbn. now rewrite Nat.eqb_refl.
    + apply Hother; cbn; auto.
  - (* ADescribe *)
    apply andb_true_iff in Hu as [Hm Hu]. pose proof Hm as Ho. apply mine_true in Ho.
    assert (Eo1 : owner st1 = Some u).
    { destruct (d u st); inversion Ha; subst; cbn; exact Ho. }
    split; [|rewrite Eo1; discriminate].
    intros t. destruct (Nat.eq_dec u t) as [<-|Hut].
    + rewrite get_set_same by exact Hne.
      replace (mine u st1) with true; [exact Hu|symmetry; now apply mine_true].
    + apply Hother; auto.
  - (* AEnd *)
    apply andb_true_iff in Hu as [Hm Hu]. pose proof Hm as Ho. apply mine_true in Ho.
    inversion Ha; subst st1 os; clear Ha.
    split; [|reflexivity].
    intros t. destruct (Nat.eq_dec u t) as [<-|Hut].
    + rewrite get_set_same by exact Hne. exact Hu.
    + apply Hother; cbn; auto.
  - (* ACall *)
    apply andb_true_iff in Hu as [Hm Hu]. apply negb_true_iff in Hm.
    assert (Eo1 : owner st1 = owner st /\ (owner st1 = None -> table st1 = [])).
    { destruct (d u st) eqn:Ed; inversion Ha; subst; cbn; [|auto].
      split; [reflexivity|]. intros Hn. exfalso. exact (Hd u st Ed Hn). }
    destruct Eo1 as [Eo1 Htb1]. split; [|exact Htb1].
    intros t. destruct (Nat.eq_dec u t) as [<-|Hut].
    + rewrite get_set_same by exact Hne.
      replace (mine u st1) with false; [exact Hu|]. unfold mine in *. rewrite Eo1. now rewrite Hm.
    + rewrite get_set_other by exact Hut. unfold mine. rewrite Eo1. apply Hwb.
Qed.

Lemma binv_run d : lockful d -> forall sched ps st log ps' st',
  binv ps st -> run_sched d ps st sched = Some (log, ps', st') -> binv ps' st'.
Proof.
  intros Hd. induction sched as [|u r IH]; intros ps st log ps' st' Hinv Hrun; cbn in Hrun.
  - inversion Hrun; subst. exact Hinv.
  - destruct (get_prog ps u) as [|a p] eqn:Hg; [discriminate|].
    destruct (act d u st a) as [[st1 os]|] eqn:Ha; [|discriminate].
    destruct (run_sched d (set_prog ps u p) st1 r) as [[[log1 ps1] st2]|] eqn:Hr; [|discriminate].
    inversion Hrun; subst. eapply IH; [|exact Hr]. eapply binv_step; eauto.
Qed.

Lemma run_map_fst d : forall sched ps st log ps' st',
  run_sched d ps st sched = Some (log, ps', st') -> map fst ps' = map fst ps.
Proof.
  induction sched as [|u r IH]; intros ps st log ps' st' Hrun; cbn in Hrun.
  - inversion Hrun; subst. reflexivity.
  - destruct (get_prog ps u) as [|a p] eqn:Hg; [discriminate|].
    destruct (act d u st a) as [[st1 os]|] eqn:Ha; [|discriminate].
    destruct (run_sched d (set_prog ps u p) st1 r) as [[[log1 ps1] st2]|] eqn:Hr; [|discriminate].
    inversion Hrun; subst. rewrite (IH _ _ _ _ _ Hr). apply map_fst_set_prog.
Qed.

(* ---------- observations ---------- *)

Lemma obs_of_app t l1 l2 : obs_of t (l1 ++ l2) = obs_of t l1 ++ obs_of t l2.
Proof. unfold obs_of. now rewrite filter_app, map_app. Qed.

Lemma obs_of_same t os : obs_of t (map (fun o => (t, o)) os) = os.
Proof.
  unfold obs_of. induction os as [|o r IH]; cbn; [reflexivity|].
  rewrite Nat.eqb_refl. cbn. now rewrite IH.
Qed.

Lemma obs_of_other u t os : u <> t -> obs_of t (map (fun o => (u, o)) os) = [].
Proof.
  intros Hne. unfold obs_of. induction os as [|o r IH]; cbn; [reflexivity|].
  apply Nat.eqb_neq in Hne. rewrite Hne. exact IH.
Qed.

(* the table a thread "sees" as its own: the shared table if it holds the lock, empty otherwise *)
Definition tbl_of (t : nat) (st : shared) : list nat := if mine t st then table st else [].

(* one step under [mine]: the acting thread observes what [alone] prescribes, the others nothing,
   and nobody's own table changes except the actor's *)
Lemma mine_step ps st u a p st1 os :
  binv ps st -> get_prog ps u = a :: p -> act mine u st a = Some (st1, os) ->
  alone (a :: p) (tbl_of u st) = os ++ alone p (tbl_of u st1) /\
  forall t, u <> t -> tbl_of t st1 = tbl_of t st.
Proof.
  intros [Hwb Htb] Hg Ha.
  pose proof (Hwb u) as Hu. rewrite Hg in Hu.
  assert (Hoth : forall t, u <> t ->
            (owner st = Some u \/ owner st = None) -> (owner st1 = Some u \/ owner st1 = None) ->
            tbl_of t st1 = tbl_of t st).
  { intros t Hut H1 H2. unfold tbl_of. rewrite (mine_other u t st st1 Hut H1 H2).
    destruct (mine t st) eqn:Em; [|reflexivity].
    apply mine_true in Em. exfalso.
    destruct H1 as [H1|H1]; rewrite H1 in Em; inversion Em; contradiction. }
  destruct a as [|f| |f]; cbn in Ha, Hu.
  - destruct (owner st) as [o|] eqn:Eo; [discriminate|]. inversion Ha; subst st1 os; clear Ha.
    split.
    + cbn. unfold tbl_of, mine; cbn. now rewrite Nat.eqb_refl.
    + intros t Hut. apply Hoth; cbn; auto.
  - apply andb_true_iff in Hu as [Hm Hu]. rewrite Hm in Ha. inversion Ha; subst st1 os; clear Ha.
    pose proof Hm as Ho. apply mine_true in Ho.
    split.
    + cbn. unfold tbl_of. rewrite Hm.
      change (mine u {| owner := owner st; table := table st ++ [f] |}) with (mine u st).
      rewrite Hm. reflexivity.
    + intros t Hut. apply Hoth; cbn; auto.
  - apply andb_true_iff in Hu as [Hm Hu]. inversion Ha; subst st1 os; clear Ha.
    pose proof Hm as Ho. apply mine_true in Ho.
    split.
    + cbn. unfold tbl_of. rewrite Hm. reflexivity.
    + intros t Hut. apply Hoth; cbn; auto.
  - apply andb_true_iff in Hu as [Hm Hu]. apply negb_true_iff in Hm.
    rewrite Hm in Ha. inversion Ha; subst st1 os; clear Ha.
    split.
    + cbn. unfold tbl_of. rewrite Hm. reflexivity.
    + intros t Hut. reflexivity.
Qed.

(* the generalised statement: from any state satisfying the invariant, what a thread has left to
   observe alone = what it observes in the interleaved run ++ what it has left to observe afterwards *)
Lemma mine_run_alone : forall sched ps st log ps' st',
  binv ps st -> run_sched mine ps st sched = Some (log, ps', st') ->
  forall t, alone (get_prog ps t) (tbl_of t st) = obs_of t log ++ alone (get_prog ps' t) (tbl_of t st').
Proof.
  induction sched as [|u r IH]; intros ps st log ps' st' Hinv Hrun t; cbn in Hrun.
  - inversion Hrun; subst. reflexivity.
  - destruct (get_prog ps u) as [|a p] eqn:Hg; [discriminate|].
    destruct (act mine u st a) as [[st1 os]|] eqn:Ha; [|discriminate].
    destruct (run_sched mine (set_prog ps u p) st1 r) as [[[log1 ps1] st2]|] eqn:Hr; [|discriminate].
    inversion Hrun; subst log ps' st'; clear Hrun.
    assert (Hinv1 : binv (set_prog ps u p) st1) by (eapply binv_step; eauto using lockful_mine).
    destruct (mine_step ps st u a p st1 os Hinv Hg Ha) as [Hself Hoth].
    rewrite obs_of_app, <- app_assoc, <- (IH _ _ _ _ _ Hinv1 Hr t).
    destruct (Nat.eq_dec u t) as [<-|Hut].
    + rewrite obs_of_same, Hg, get_set_same by (rewrite Hg; discriminate). exact Hself.
    + rewrite obs_of_other by exact Hut. rewrite get_set_other by exact Hut.
      rewrite (Hoth t Hut). reflexivity.
Qed.

(* ---------- C16 ---------- *)

Theorem build_noninterference ps sched log ps' st' :
  NoDup (map fst ps) ->
  (forall t p, In (t, p) ps -> well_bracketed false p = true) ->
  run_sched mine ps init_shared sched = Some (log, ps', st') ->
  forall t p, In (t, p) ps ->
    obs_of t log ++ alone (get_prog ps' t) (tbl_of t st') = alone p [] /\
    (exists k, obs_of t log = firstn k (alone p [])) /\
    (get_prog ps' t = [] -> obs_of t log = alone p []).
Proof.
  intros Hnd Hwb Hrun t p Hin.
  pose proof (binv_init ps (wf_progs_get ps Hnd Hwb)) as Hinv.
  pose proof (mine_run_alone sched ps init_shared log ps' st' Hinv Hrun t) as H.
  rewrite (get_prog_in ps t p Hnd Hin) in H. change (tbl_of t init_shared) with (@nil nat) in H.
  split; [symmetry; exact H|]. split.
  - exists (length (obs_of t log)). rewrite H. rewrite firstn_app, firstn_all, Nat.sub_diag.
    cbn. now rewrite app_nil_r.
  - intros He. rewrite He in H. cbn in H. rewrite app_nil_r in H. symmetry. exact H.
Qed.

Corollary builds_identical ps sched log ps' st' :
  NoDup (map fst ps) ->
  (forall t p, In (t, p) ps -> well_bracketed false p = true) ->
  run_sched mine ps init_shared sched = Some (log, ps', st') ->
  forall t p tbl, In (t, p) ps -> In (t, OBuilt tbl) log -> In (OBuilt tbl) (alone p []).
Proof.
  intros Hnd Hwb Hrun t p tbl Hin Hlog.
  destruct (build_noninterference ps sched log ps' st' Hnd Hwb Hrun t p Hin) as [H _].
  rewrite <- H. apply in_or_app. left.
  unfold obs_of. apply in_map_iff. exists (t, OBuilt tbl). split; [reflexivity|].
  apply filter_In. split; [exact Hlog|]. cbn. apply Nat.eqb_refl.
Qed.

(* the pinned commit's predicate: a build in thread 1 captures a plain call of thread 2 *)
Theorem build_noninterference_refuted :
  exists ps sched log ps' st' t p,
    NoDup (map fst ps) /\
    (forall t p, In (t, p) ps -> well_bracketed false p = true) /\
    run_sched anyone ps init_shared sched = Some (log, ps', st') /\
    In (t, p) ps /\ get_prog ps' t = [] /\ obs_of t log <> alone p [].
Proof.
  exists [(1, [ABegin; ADescribe 10; ADescribe 11; AEnd]); (2, [ACall 20])], [1; 1; 2; 1; 1].
  eexists. eexists. eexists. exists 2, [ACall 20].
  split; [repeat constructor; cbn; intuition discriminate|].
  split.
  { intros t p [H|[H|[]]]; inversion H; subst; reflexivity. }
  split; [vm_compute; reflexivity|].
  split; [cbn; auto|].
  split; [reflexivity|].
  vm_compute. discriminate.
Qed.

(* the concrete observations of the witness, both threads *)
Example refuted_witness_observations :
  let ps := [(1, [ABegin; ADescribe 10; ADescribe 11; AEnd]); (2, [ACall 20])] in
  match run_sched anyone ps init_shared [1; 1; 2; 1; 1] with
  | Some (log, ps', _) =>
      obs_of 2 log = [ORecorded 20] /\ alone [ACall 20] [] = [OExecuted 20] /\
      obs_of 1 log = [ORecorded 10; ORecorded 11; OBuilt [10; 20; 11]] /\
      alone [ABegin; ADescribe 10; ADescribe 11; AEnd] [] = [ORecorded 10; ORecorded 11; OBuilt [10; 11]] /\
      get_prog ps' 1 = [] /\ get_prog ps' 2 = []
  | None => False
  end.
Proof. vm_compute. repeat split. Qed.

(* the same schedule under the repaired predicate *)
Example repaired_witness_observations :
  let ps := [(1, [ABegin; ADescribe 10; ADescribe 11; AEnd]); (2, [ACall 20])] in
  match run_sched mine ps init_shared [1; 1; 2; 1; 1] with
  | Some (log, _, _) =>
      obs_of 2 log = [OExecuted 20] /\ obs_of 1 log = [ORecorded 10; ORecorded 11; OBuilt [10; 11]]
  | None => False
  end.
Proof. vm_compute. repeat split. Qed.

(* ---------- the lock excludes: under either predicate, a thread is inside its bracket iff it owns
   the lock, so at most one thread is inside at any time ---------- *)

Theorem lock_excludes d ps sched log ps' st' :
  lockful d ->
  NoDup (map fst ps) ->
  (forall t p, In (t, p) ps -> well_bracketed false p = true) ->
  run_sched d ps init_shared sched = Some (log, ps', st') ->
  (forall t, well_bracketed true (get_prog ps' t) = true <-> owner st' = Some t) /\
  (forall t, well_bracketed false (get_prog ps' t) = true <-> owner st' <> Some t) /\
  (owner st' = None -> table st' = []).
Proof.
  intros Hd Hnd Hwb Hrun.
  pose proof (binv_init ps (wf_progs_get ps Hnd Hwb)) as Hinv.
  destruct (binv_run d Hd sched ps init_shared log ps' st' Hinv Hrun) as [Hb Ht].
  split; [|split; [|exact Ht]]; intros t; pose proof (Hb t) as Ht'.
  - split; intros H.
    + apply mine_true. symmetry. eapply wb_mode; eauto.
    + apply mine_true in H. now rewrite H in Ht'.
  - split; intros H.
    + intros Ho. apply mine_true in Ho. rewrite Ho in Ht'. eapply wb_exclusive; eauto.
    + destruct (mine t st') eqn:Em; [apply mine_true in Em; contradiction|exact Ht'].
Qed.

Corollary at_most_one_inside d ps sched log ps' st' t1 t2 :
  lockful d ->
  NoDup (map fst ps) ->
  (forall t p, In (t, p) ps -> well_bracketed false p = true) ->
  run_sched d ps init_shared sched = Some (log, ps', st') ->
  well_bracketed true (get_prog ps' t1) = true -> well_bracketed true (get_prog ps' t2) = true ->
  t1 = t2.
Proof.
  intros Hd Hnd Hwb Hrun H1 H2.
  destruct (lock_excludes d ps sched log ps' st' Hd Hnd Hwb Hrun) as [H _].
  apply H in H1. apply H in H2. rewrite H1 in H2. now inversion H2.
Qed.

(* counting form: the number of threads inside a bracket is 0 if the lock is free, 1 otherwise *)
Definition inside_count (ps : progs) : nat :=
  length (filter (fun tp => well_bracketed true (snd tp)) ps).

Lemma nodup_fst_const (l : progs) o :
  NoDup (map fst l) -> (forall tp, In tp l -> fst tp = o) -> length l <= 1.
Proof.
  destruct l as [|[a p] [|[b q] r]]; cbn; intros Hnd Hc; try lia.
  exfalso. inversion Hnd as [|x l Hx _]; subst. apply Hx. left.
  pose proof (Hc (a, p) (or_introl eq_refl)) as Ha.
  pose proof (Hc (b, q) (or_intror (or_introl eq_refl))) as Hb. cbn in Ha, Hb. congruence.
Qed.

Lemma nodup_map_filter {A B} (f : A -> B) g (l : list A) :
  NoDup (map f l) -> NoDup (map f (filter g l)).
Proof.
  induction l as [|a r IH]; cbn; intros Hnd; [constructor|].
  inversion Hnd as [|x l Hx Hnd']; subst.
  destruct (g a); cbn; [|auto]. constructor; [|auto].
  intros Hin. apply Hx. apply in_map_iff in Hin as [y [Hy Hin]].
  apply filter_In in Hin as [Hin _]. apply in_map_iff. eauto.
Qed.

Theorem lock_excludes_count d ps sched log ps' st' :
  lockful d ->
  NoDup (map fst ps) ->
  (forall t p, In (t, p) ps -> well_bracketed false p = true) ->
  run_sched d ps init_shared sched = Some (log, ps', st') ->
  inside_count ps' = match owner st' with None => 0 | Some _ => 1 end.
Proof.
  intros Hd Hnd Hwb Hrun.
  destruct (lock_excludes d ps sched log ps' st' Hd Hnd Hwb Hrun) as [Hin _].
  assert (Hnd' : NoDup (map fst ps')) by (rewrite (run_map_fst d _ _ _ _ _ _ Hrun); exact Hnd).
  assert (Hall : forall tp, In tp (filter (fun tp => well_bracketed true (snd tp)) ps') ->
                            owner st' = Some (fst tp)).
  { intros [t p] Hf. apply filter_In in Hf as [Hf Hw]. cbn in *.
    apply Hin. now rewrite (get_prog_in ps' t p Hnd' Hf). }
  unfold inside_count. destruct (owner st') as [o|] eqn:Eo.
  - assert (Hle : length (filter (fun tp => well_bracketed true (snd tp)) ps') <= 1).
    { apply (nodup_fst_const _ o).
      - apply nodup_map_filter. exact Hnd'.
      - intros tp Htp. specialize (Hall tp Htp). now inversion Hall. }
    assert (Hge : In (o, get_prog ps' o) (filter (fun tp => well_bracketed true (snd tp)) ps')).
    { pose proof (proj2 (Hin o) eq_refl) as Hw.
      apply filter_In. split; [|exact Hw].
      apply get_prog_in_inv. intros He. rewrite He in Hw. discriminate. }
    destruct (filter (fun tp => well_bracketed true (snd tp)) ps') as [|x [|y r]];
      cbn in *; [contradiction|reflexivity|lia].
  - destruct (filter (fun tp => well_bracketed true (snd tp)) ps') as [|x r]; [reflexivity|].
    specialize (Hall x (or_introl eq_refl)). discriminate.
Qed.

Print Assumptions build_noninterference.
Print Assumptions builds_identical.
Print Assumptions build_noninterference_refuted.
Print Assumptions lock_excludes.
Print Assumptions at_most_one_inside.
Print Assumptions lock_excludes_count.
