(* Ids.v — identifiers of call sites (tawazi/node/node.py:53-86 count_occurrences, node/helpers.py:51-55
   _lazy_xn_id, node.py:392-425 LazyExecNode.__call__): while a DAG is described every call of a decorated
   function registers a NEW node whose id is the function's id when it is its first use and
   `id<<k>>` for its (k+1)-th use.  Ids are modelled as pairs (base, k): the rendering `base<<k>>` is injective
   because a base (a Python qualified name, possibly prefixed by the names of enclosing DAGs) never contains
   "<<" — that part is trusted and checked by the correspondence on every generated program.
   Definitions only; facts in IdsFacts.v. *)
From Coq Require Import List Arith PeanoNat Lia.
Import ListNotations.

Definition xid := (nat * nat)%type.   (* (function, usage index) *)

(* count_occurrences: how many registered ids are uses of base b *)
Definition uses (reg : list xid) (b : nat) : nat := length (filter (fun i => Nat.eqb (fst i) b) reg).

(* one recorded call of function b: the id it gets and the new registry *)
Definition call (reg : list xid) (b : nat) : xid * list xid := let i := (b, uses reg b) in (i, reg ++ [i]).

Fixpoint calls (reg : list xid) (bs : list nat) : list xid :=
  match bs with
  | [] => reg
  | b :: r => calls (snd (call reg b)) r
  end.

(* flat observation for the correspondence: the ids given to a sequence of calls *)
Definition kids (bs : list nat) : list nat := flat_map (fun i => [fst i; snd i]) (calls [] bs).

