(* ArgsCheck.v — executable observation of Args.bind on Herbrand terms for the correspondence check. *)
From Coq Require Import List Arith Bool PeanoNat.
From Tawazi Require Import Graph Sched Dataflow Terms Args.
Import ListNotations.

(* [0]: TypeError; otherwise 1 :: for every id of `show` the (optional) value the scheduler is handed *)
Definition kbind (res : results term) (inputs : list nat) (args : list term) (show : list nat) : list nat :=
  match bind term res inputs args with
  | None => [0]
  | Some r => 1 :: flat_map (fun n => enc_opt (lookup term r n)) show
  end.
