(* Reconf.v — config_from_dict / config_from_yaml / config_from_json (tawazi/_dag/dag.py:512-545) and
   ExecNode._conf_to_values (tawazi/node/node.py:280-289): what a sequence of reconfigurations leaves in
   the node attribute table and in max_concurrency.  Definitions only; facts in ReconfFacts.v.
   A key of the "nodes" section is an alias: a tag if some node carries it (then it names ALL those nodes),
   otherwise a node id; a key naming nothing, or two keys reaching one node, make the step raise ValueError
   BEFORE anything is modified. *)
From Coq Require Import List ZArith Bool Arith PeanoNat.
Import ListNotations.

Record nattr := mkattr { a_prio : Z; a_seq : bool; a_res : nat }.
Record centry := mkentry { e_prio : option Z; e_seq : option bool }.
Record cstate := mkcstate { s_attr : nat -> nattr; s_maxc : Z }.
(* one config dict: the "nodes" section in key order, and the optional "max_concurrency" *)
Record cstep := mkcstep { c_entries : list (nat * centry); c_max : option Z }.

Section Reconf.
Variable nodes : list nat.            (* ids of the DAG's nodes *)
Variable tagged : nat -> list nat.    (* alias -> the nodes that carry it as a tag *)

Definition memb (x : nat) (l : list nat) : bool := existsb (Nat.eqb x) l.

Definition resolve (a : nat) : option (list nat) :=
  match tagged a with
  | [] => if memb a nodes then Some [a] else None
  | l => Some l
  end.

Fixpoint expand (es : list (nat * centry)) : option (list (nat * centry)) :=
  match es with
  | [] => Some []
  | (a, e) :: r =>
      match resolve a, expand r with
      | Some ns, Some rest => Some (map (fun n => (n, e)) ns ++ rest)
      | _, _ => None
      end
  end.

Fixpoint nodupb (l : list nat) : bool :=
  match l with
  | [] => true
  | x :: r => negb (memb x r) && nodupb r
  end.

Definition apply_entry (a : nattr) (e : centry) : nattr :=
  mkattr (match e_prio e with Some p => p | None => a_prio a end)
         (match e_seq e with Some b => b | None => a_seq a end)
         (a_res a).

Definition upd (f : nat -> nattr) (n : nat) (v : nattr) : nat -> nattr :=
  fun m => if Nat.eqb m n then v else f m.

Definition apply_entries (f : nat -> nattr) (l : list (nat * centry)) : nat -> nattr :=
  fold_left (fun g ne => upd g (fst ne) (apply_entry (g (fst ne)) (snd ne))) l f.

(* None: the step raises ValueError and nothing is modified *)
Definition step (st : cstate) (c : cstep) : option cstate :=
  match expand (c_entries c) with
  | None => None
  | Some l =>
      if nodupb (map fst l)
      then Some (mkcstate (apply_entries (s_attr st) l)
                          (match c_max c with Some m => m | None => s_maxc st end))
      else None
  end.

Definition step_total (st : cstate) (c : cstep) : cstate :=
  match step st c with Some st' => st' | None => st end.

Definition run (st : cstate) (cs : list cstep) : cstate := fold_left step_total cs st.

(* observation compared with the implementation: per step (ok?, max_concurrency, attributes of every node) *)
Definition obs_attr (st : cstate) : list Z :=
  s_maxc st :: flat_map (fun n => let a := s_attr st n in
                                  [a_prio a; if a_seq a then 1%Z else 0%Z; Z.of_nat (a_res a)]) nodes.

Fixpoint kconf_go (st : cstate) (cs : list cstep) : list Z :=
  match cs with
  | [] => []
  | c :: r =>
      match step st c with
      | Some st' => (1%Z :: obs_attr st') ++ kconf_go st' r
      | None => (0%Z :: obs_attr st) ++ kconf_go st r
      end
  end.
End Reconf.

(* tables as association lists (for the generated case files) *)
Definition tbl_attr (l : list (nat * nattr)) (n : nat) : nattr :=
  match find (fun p => Nat.eqb (fst p) n) l with Some p => snd p | None => mkattr 0%Z false 0 end.
Definition tbl_tags (l : list (nat * list nat)) (a : nat) : list nat :=
  match find (fun p => Nat.eqb (fst p) a) l with Some p => snd p | None => [] end.

Definition kconf (nodes : list nat) (tags : list (nat * list nat)) (attrs : list (nat * nattr)) (maxc : Z)
                 (cs : list cstep) : list Z :=
  kconf_go nodes (tbl_tags tags) (mkcstate (tbl_attr attrs) maxc) cs.
