(* ComposeFacts.v — the node-collection part of BaseDAG.compose (Compose.v) computes the intended set:
   inputs, outputs and the nodes reached by exploring predecessors from the outputs without expanding
   through already collected nodes; it fails iff an input is a strict ancestor of an input or a
   required DAG parameter is reached.  The fuel [S (length nodes)] is sufficient. *)
From Coq Require Import List Arith Bool Lia PeanoNat ZArith.
From Tawazi Require Import Graph GraphFacts Closure Compose.
Import ListNotations.

Lemma iter_None {A} k (f : option A -> option A) : f None = None -> iter k f None = None.
Proof. intros Hf. induction k as [|k IH]; simpl; [reflexivity|]. rewrite Hf. exact IH. Qed.

Section F.
Variable preds : nat -> list nat.
Variable nodes required : list nat.

(* ---- 4. nx.ancestors *)
Theorem strict_anc_spec a b :
  In a (strict_anc preds nodes b) <-> a <> b /\ reach preds nodes a b.
Proof.
  unfold strict_anc. rewrite In_remove1, ancestors_refl_spec. split.
  - intros [[t [[Ht|[]] Hr]] Hne]. subst t. split; assumption.
  - intros [Hne Hr]. split; [|exact Hne]. exists b. split; [left; reflexivity|exact Hr].
Qed.

(* ---- the intended set *)
Inductive needed (ins outs : list nat) : nat -> Prop :=
| need_out o p : In o outs -> In p (preds o) -> In p nodes -> ~ In p (ins ++ outs) -> needed ins outs p
| need_step y p : needed ins outs y -> In p (preds y) -> In p nodes -> ~ In p (ins ++ outs) -> needed ins outs p.

Section Run.
Variable ins outs : list nat.

Lemma needed_notin x : needed ins outs x -> ~ In x (ins ++ outs).
Proof. intros H. destruct H as [o p Ho Hp Hn Hni|y p Hy Hp Hn Hni]; exact Hni. Qed.

Lemma needed_nodes x : needed ins outs x -> In x nodes.
Proof. intros H. destruct H as [o p Ho Hp Hn Hni|y p Hy Hp Hn Hni]; exact Hn. Qed.

(* the nodes added by one round *)
Definition newset (A E : list nat) : list nat :=
  nodup Nat.eq_dec (filter (fun p => mem p nodes && negb (mem p A)) (flat_map preds E)).

Lemma In_newset A E p :
  In p (newset A E) <-> (exists y, In y E /\ In p (preds y)) /\ In p nodes /\ ~ In p A.
Proof.
  unfold newset.
  rewrite nodup_In, filter_In, in_flat_map, andb_true_iff, negb_true_iff, mem_In, mem_false. tauto.
Qed.

Lemma cmp_step_eq A E :
  cmp_step preds nodes required (Some (A, E)) =
  if existsb (fun p => mem p required) (newset A E) then None
  else Some (A ++ newset A E, newset A E).
Proof. reflexivity. Qed.

(* invariant of the rounds: [A] collected set, [E] frontier (collected, not yet expanded) *)
Record Inv (A E : list nat) : Prop := {
  inv_nd : NoDup A;
  inv_base : forall x, In x ins \/ In x outs -> In x A;
  inv_sound : forall x, In x A -> In x ins \/ In x outs \/ needed ins outs x;
  inv_E : forall y, In y E -> In y outs \/ needed ins outs y;
  inv_closed : forall y, In y outs \/ (needed ins outs y /\ In y A) -> ~ In y E ->
               forall p, In p (preds y) -> In p nodes -> In p A;
  inv_req : forall x, In x A -> needed ins outs x -> ~ In x required
}.

Lemma init_inv : Inv (nodup Nat.eq_dec (ins ++ outs)) (nodup Nat.eq_dec outs).
Proof.
  constructor.
  - apply NoDup_nodup.
  - intros x Hx. apply nodup_In, in_app_iff. exact Hx.
  - intros x Hx. apply nodup_In, in_app_iff in Hx. tauto.
  - intros y Hy. apply nodup_In in Hy. left; exact Hy.
  - intros y Hy HyE p Hp Hn. exfalso. destruct Hy as [Ho|[Hny HyA]].
    + apply HyE. apply nodup_In. exact Ho.
    + apply nodup_In in HyA. exact (needed_notin y Hny HyA).
  - intros x Hx Hnx _. apply nodup_In in Hx. exact (needed_notin x Hnx Hx).
Qed.

Lemma step_inv A E : Inv A E ->
  match cmp_step preds nodes required (Some (A, E)) with
  | None => exists r, In r required /\ needed ins outs r
  | Some (A', E') => Inv A' E' /\ (E = [] -> E' = []) /\ (E' = [] \/ length A < length A')
  end.
Proof.
  intros HI. rewrite cmp_step_eq.
  assert (Hnew : forall p, In p (newset A E) -> needed ins outs p).
  { intros p Hp. apply In_newset in Hp. destruct Hp as [[y [HyE Hpy]] [Hpn HpA]].
    assert (Hnio : ~ In p (ins ++ outs)).
    { intros Hc. apply HpA. apply (inv_base _ _ HI). apply in_app_iff in Hc. exact Hc. }
    destruct (inv_E _ _ HI y HyE) as [Ho|Hn].
    - apply (need_out ins outs y p); assumption.
    - apply (need_step ins outs y p); assumption. }
  destruct (existsb (fun p => mem p required) (newset A E)) eqn:Ex.
  - apply existsb_exists in Ex. destruct Ex as [r [Hr Hm]]. apply mem_In in Hm.
    exists r. split; [exact Hm|apply Hnew; exact Hr].
  - split; [|split].
    + constructor.
      * apply NoDup_app_intro; [apply (inv_nd _ _ HI)|apply NoDup_nodup|].
        intros x HxA Hxn. apply In_newset in Hxn. tauto.
      * intros x Hx. apply in_app_iff. left. apply (inv_base _ _ HI); exact Hx.
      * intros x Hx. apply in_app_iff in Hx. destruct Hx as [Hx|Hx].
        -- apply (inv_sound _ _ HI); exact Hx.
        -- right; right. apply Hnew; exact Hx.
      * intros y Hy. right. apply Hnew; exact Hy.
      * intros y Hy HyE p Hpy Hpn.
        assert (HyA : In y A).
        { destruct Hy as [Ho|[_ HyA']]; [apply (inv_base _ _ HI); right; exact Ho|].
          apply in_app_iff in HyA'. destruct HyA' as [H|H]; [exact H|contradiction]. }
        apply in_app_iff. destruct (in_dec Nat.eq_dec p A) as [HpA|HpA]; [left; exact HpA|].
        destruct (in_dec Nat.eq_dec y E) as [HyE'|HyE'].
        -- right. apply In_newset. split; [exists y; split; assumption|split; assumption].
        -- exfalso. apply HpA. apply (inv_closed _ _ HI y); try assumption.
           destruct Hy as [Ho|[Hn _]]; [left; exact Ho|right; split; assumption].
      * intros x Hx Hn Hreq. apply in_app_iff in Hx. destruct Hx as [Hx|Hx].
        -- exact (inv_req _ _ HI x Hx Hn Hreq).
        -- rewrite <- not_true_iff_false in Ex. apply Ex. apply existsb_exists.
           exists x. split; [exact Hx|apply mem_In; exact Hreq].
    + intros HE. subst E. reflexivity.
    + destruct (newset A E) as [|n l]; [left; reflexivity|right]. rewrite app_length. simpl. lia.
Qed.

(* k rounds: failure only on a needed required node; otherwise the frontier is empty or k nodes were added *)
Lemma run_inv k A E : Inv A E ->
  match iter k (cmp_step preds nodes required) (Some (A, E)) with
  | None => exists r, In r required /\ needed ins outs r
  | Some (A', E') => Inv A' E' /\ (E' = [] \/ length A + k <= length A')
  end.
Proof.
  intros HI. induction k as [|k IH].
  - simpl. split; [exact HI|right; lia].
  - rewrite iter_succ_r. revert IH.
    destruct (iter k (cmp_step preds nodes required) (Some (A, E))) as [[A1 E1]|]; intros IH.
    + destruct IH as [HI1 Hor]. pose proof (step_inv A1 E1 HI1) as Hs.
      destruct (cmp_step preds nodes required (Some (A1, E1))) as [[A2 E2]|]; [|exact Hs].
      destruct Hs as [HI2 [Hnil Hgrow]]. split; [exact HI2|].
      destruct Hor as [H|H]; [left; auto|]. destruct Hgrow as [H2|H2]; [left; exact H2|right; lia].
    + exact IH.
Qed.

Lemma inv_length A E : Inv A E -> length A <= length (nodup Nat.eq_dec (ins ++ outs)) + length nodes.
Proof.
  intros HI. rewrite <- app_length. apply NoDup_incl_length; [apply (inv_nd _ _ HI)|].
  intros x Hx. apply in_app_iff. destruct (inv_sound _ _ HI x Hx) as [H|[H|H]].
  - left. apply nodup_In, in_app_iff. left; exact H.
  - left. apply nodup_In, in_app_iff. right; exact H.
  - right. apply needed_nodes; exact H.
Qed.

(* the fuel is sufficient: after S (length nodes) rounds the frontier is empty *)
Lemma run_final :
  match iter (S (length nodes)) (cmp_step preds nodes required)
             (Some (nodup Nat.eq_dec (ins ++ outs), nodup Nat.eq_dec outs)) with
  | None => exists r, In r required /\ needed ins outs r
  | Some (A, E) => Inv A E /\ E = []
  end.
Proof.
  pose proof (run_inv (S (length nodes)) _ _ init_inv) as HR. revert HR.
  destruct (iter (S (length nodes)) (cmp_step preds nodes required)
             (Some (nodup Nat.eq_dec (ins ++ outs), nodup Nat.eq_dec outs))) as [[A E]|]; intros HR; [|exact HR].
  destruct HR as [HI [H|H]]; split; auto.
  exfalso. pose proof (inv_length A E HI) as HL. lia.
Qed.

Lemma closed_complete A x : Inv A [] -> needed ins outs x -> In x A.
Proof.
  intros HI H. induction H as [o p Ho Hp Hn Hni|y p Hy IH Hp Hn Hni].
  - apply (inv_closed _ _ HI o); [left; exact Ho|intros []|exact Hp|exact Hn].
  - apply (inv_closed _ _ HI y); [right; split; [exact Hy|exact IH]|intros []|exact Hp|exact Hn].
Qed.

(* every successful result satisfies the invariant with an empty frontier *)
Lemma compose_set_inv R :
  compose_set preds nodes required ins outs = Some R ->
  (forall i j, In i ins -> In j ins -> ~ In i (strict_anc preds nodes j)) /\ Inv R [].
Proof.
  unfold compose_set.
  destruct (existsb (fun i => existsb (fun j => mem i (strict_anc preds nodes j)) ins) ins) eqn:Chk;
    [discriminate|].
  pose proof run_final as HF. revert HF.
  destruct (iter (S (length nodes)) (cmp_step preds nodes required)
             (Some (nodup Nat.eq_dec (ins ++ outs), nodup Nat.eq_dec outs))) as [[A E]|]; intros HF Heq;
    [|discriminate].
  injection Heq as <-. destruct HF as [HI HE]. subst E. split; [|exact HI].
  intros i j Hi Hj Hij. rewrite <- not_true_iff_false in Chk. apply Chk.
  apply existsb_exists. exists i. split; [exact Hi|].
  apply existsb_exists. exists j. split; [exact Hj|apply mem_In; exact Hij].
Qed.

(* ---- 1. the collected set *)
Theorem compose_set_spec R :
  compose_set preds nodes required ins outs = Some R ->
  forall x, In x R <-> In x ins \/ In x outs \/ needed ins outs x.
Proof.
  intros HS. destruct (compose_set_inv R HS) as [_ HI]. intros x. split.
  - apply (inv_sound _ _ HI).
  - intros [H|[H|H]].
    + apply (inv_base _ _ HI). left; exact H.
    + apply (inv_base _ _ HI). right; exact H.
    + apply (closed_complete R x HI H).
Qed.

Theorem compose_set_NoDup R :
  compose_set preds nodes required ins outs = Some R -> NoDup R.
Proof. intros HS. destruct (compose_set_inv R HS) as [_ HI]. apply (inv_nd _ _ HI). Qed.

(* on success no collected node outside ins/outs is a required DAG parameter *)
Theorem compose_set_no_required R :
  compose_set preds nodes required ins outs = Some R ->
  forall x, In x R -> In x required -> In x ins \/ In x outs.
Proof.
  intros HS x Hx Hr. destruct (compose_set_inv R HS) as [_ HI].
  destruct (inv_sound _ _ HI x Hx) as [H|[H|H]]; auto.
  exfalso. exact (inv_req _ _ HI x Hx H Hr).
Qed.

(* ---- 2. ValueError *)
Theorem compose_set_error_iff :
  compose_set preds nodes required ins outs = None <->
  (exists i j, In i ins /\ In j ins /\ In i (strict_anc preds nodes j)) \/
  ((forall i j, In i ins -> In j ins -> ~ In i (strict_anc preds nodes j)) /\
   exists r, In r required /\ needed ins outs r).
Proof.
  split.
  - unfold compose_set.
    destruct (existsb (fun i => existsb (fun j => mem i (strict_anc preds nodes j)) ins) ins) eqn:Chk.
    + intros _. left. apply existsb_exists in Chk. destruct Chk as [i [Hi Hc]].
      apply existsb_exists in Hc. destruct Hc as [j [Hj Hm]]. apply mem_In in Hm.
      exists i, j. auto.
    + pose proof run_final as HF. revert HF.
      destruct (iter (S (length nodes)) (cmp_step preds nodes required)
                 (Some (nodup Nat.eq_dec (ins ++ outs), nodup Nat.eq_dec outs))) as [[A E]|]; intros HF Heq;
        [discriminate|].
      right. split; [|exact HF].
      intros i j Hi Hj Hij. rewrite <- not_true_iff_false in Chk. apply Chk.
      apply existsb_exists. exists i. split; [exact Hi|].
      apply existsb_exists. exists j. split; [exact Hj|apply mem_In; exact Hij].
  - intros H. destruct (compose_set preds nodes required ins outs) as [R|] eqn:HS; [exfalso|reflexivity].
    destruct (compose_set_inv R HS) as [Hno HI]. destruct H as [[i [j [Hi [Hj Hij]]]]|[_ [r [Hr Hn]]]].
    + exact (Hno i j Hi Hj Hij).
    + exact (inv_req _ _ HI r (closed_complete R r HI Hn) Hn Hr).
Qed.

(* same, without repeating the negation of the first disjunct *)
Corollary compose_set_error_iff' :
  compose_set preds nodes required ins outs = None <->
  (exists i j, In i ins /\ In j ins /\ In i (strict_anc preds nodes j)) \/
  (exists r, In r required /\ needed ins outs r).
Proof.
  rewrite compose_set_error_iff. split.
  - intros [H|[_ H]]; [left; exact H|right; exact H].
  - intros [H|H]; [left; exact H|].
    destruct (existsb (fun i => existsb (fun j => mem i (strict_anc preds nodes j)) ins) ins) eqn:Chk.
    + left. apply existsb_exists in Chk. destruct Chk as [i [Hi Hc]].
      apply existsb_exists in Hc. destruct Hc as [j [Hj Hm]]. apply mem_In in Hm.
      exists i, j. auto.
    + right. split; [|exact H].
      intros i j Hi Hj Hij. rewrite <- not_true_iff_false in Chk. apply Chk.
      apply existsb_exists. exists i. split; [exact Hi|].
      apply existsb_exists. exists j. split; [exact Hj|apply mem_In; exact Hij].
Qed.

(* ---- 3. only what the outputs need; the cut at the inputs *)
Lemma needed_reach x : incl outs nodes -> needed ins outs x -> exists o, In o outs /\ reach preds nodes x o.
Proof.
  intros Hon H. induction H as [o p Ho Hp Hn Hni|y p Hy IH Hp Hn Hni].
  - exists o. split; [exact Ho|]. apply reach_edge; auto.
  - destruct IH as [o [Ho Hr]]. exists o. split; [exact Ho|].
    apply (reach_step_l preds nodes p y o); assumption.
Qed.

Theorem compose_only_needed R : incl outs nodes ->
  compose_set preds nodes required ins outs = Some R ->
  forall x, In x R -> In x ins \/ exists o, In o outs /\ reach preds nodes x o.
Proof.
  intros Hon HS x Hx. apply (compose_set_spec R HS) in Hx. destruct Hx as [H|[H|H]].
  - left; exact H.
  - right. exists x. split; [exact H|]. apply reach_refl. apply Hon; exact H.
  - right. apply needed_reach; assumption.
Qed.

Theorem needed_not_input x : needed ins outs x -> ~ In x ins.
Proof. intros H Hi. apply (needed_notin x H). apply in_app_iff. left; exact Hi. Qed.

Theorem needed_not_output x : needed ins outs x -> ~ In x outs.
Proof. intros H Hi. apply (needed_notin x H). apply in_app_iff. right; exact Hi. Qed.

(* a needed node reaches an output along a path whose interior avoids ins and outs: every node of the
   chain below the output is itself needed *)
Inductive chain : nat -> nat -> Prop :=
| chain_out o p : In o outs -> In p (preds o) -> needed ins outs p -> chain p o
| chain_step y p o : chain y o -> In p (preds y) -> needed ins outs p -> chain p o.

Theorem needed_chain x : needed ins outs x -> exists o, In o outs /\ chain x o.
Proof.
  intros H. induction H as [o p Ho Hp Hn Hni|y p Hy IH Hp Hn Hni].
  - exists o. split; [exact Ho|]. apply chain_out; auto. apply (need_out ins outs o p); assumption.
  - destruct IH as [o [Ho Hc]]. exists o. split; [exact Ho|].
    apply (chain_step y p o); auto. apply (need_step ins outs y p); assumption.
Qed.

End Run.
End F.

Print Assumptions strict_anc_spec.
Print Assumptions compose_set_spec.
Print Assumptions compose_set_NoDup.
Print Assumptions compose_set_no_required.
Print Assumptions compose_set_error_iff.
Print Assumptions compose_set_error_iff'.
Print Assumptions compose_only_needed.
Print Assumptions needed_not_input.
Print Assumptions needed_not_output.
Print Assumptions needed_chain.
