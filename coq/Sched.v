(* Sched.v — the scheduler loop `async_execute` (tawazi/_dag/helpers.py:227-387) and the two wait
   helpers (helpers.py:108-181) as a labelled transition system.  Definitions only.

   The model is a trace ACCEPTOR: [step c s l] is deterministic given the label l; every
   nondeterministic choice of the implementation (which futures a wait returns and in which order
   they are inspected, the tie-break of max(), whether a node function fails, the truthiness of an
   activation flag) is carried by the label.  Theorems quantify over all label sequences accepted
   from [init c]; the correspondence feeds the labels observed on the real scheduler. *)
From Coq Require Import List Arith Bool PeanoNat ZArith.
From Tawazi Require Import Graph.
Import ListNotations.

Inductive resource := RThread | RAsync | RMain.          (* consts.py Resource *)
Inductive kind := KA | KC.                              (* asyncio futures / concurrent futures *)
Inductive mode := MFirst | MAll.                        (* FIRST_COMPLETED / ALL_COMPLETED *)

Record cfg := {
  c_nodes : list nat;          (* nodes of the graph handed to async_execute *)
  c_pre   : list nat;          (* ids already present in `results` (pruned at helpers.py:258) *)
  c_preds : nat -> list nat;   (* dependencies: args, kwargs, activation flag *)
  c_seq   : nat -> bool;       (* is_sequential *)
  c_res   : nat -> resource;
  c_prio  : nat -> Z;          (* graph.compound_priority as attached to the executed graph *)
  c_maxc  : nat                (* max_concurrency *)
}.

(* control points; line numbers of helpers.py *)
Inductive pcT :=
| PTop                         (* 280  while len(graph) *)
| PGateC (adone : bool)        (* 307  second wait of the gate; adone: the first wait completed something *)
| PPick                        (* 313-318 after the gate *)
| PDeferA (n : nat)            (* 332  candidate n is sequential and something is running *)
| PDeferC (n : nat) (adone : bool) (* 335 *)
| PActive (n : nat)            (* 341-344 n removed from runnable, about to test its flag *)
| PDisp (n : nat)              (* 353-371 dispatch by resource *)
| PDrainA (n : nat)            (* 378  ALL_COMPLETED drain after a sequential node *)
| PDrainC (n : nat)            (* 381 *)
| PFinished                    (* 385 loop left normally *)
| PRaised (n : nat).           (* exception of node n propagated out of async_execute *)

Record state := {
  rem : list nat;              (* nodes still in the graph *)
  runnable : list nat;         (* runnable_xns_ids *)
  conc : list nat;             (* ids of conc_running *)
  asyn : list nat;             (* ids of async_running *)
  pc : pcT;
  (* ghost history *)
  started : list nat;          (* dispatched: submitted to the pool / asyncio, or entered inline *)
  finished : list nat;         (* observed finished successfully and removed *)
  skipped : list nat           (* deactivated: result None, removed without running *)
}.

Inductive label :=
| LWait (k : kind) (m : mode) (dones : list (nat * bool))
    (* one call of wait_for_finished_nodes[_async]: futures inspected, in inspection order;
       (n,true) = result() returned, n removed from the graph; (n,false) = result() raised *)
| LPick (n : nat)              (* max(runnable, key=compound_priority) returned n *)
| LActive (n : nat) (b : bool) (* _xn_active_in_call returned b *)
| LSubmit (k : kind) (n : nat) (* executor.submit / ensure_future(to_thread_in_executor) *)
| LInline (n : nat) (ok : bool)(* xn.execute on the scheduler's thread returned / raised *)
| LEnd.                        (* the while loop exits *)

Section S.
Variable c : cfg.
Let preds := c_preds c.

Definition init : state :=
  let r := diff (c_nodes c) (c_pre c) in
  {| rem := r; runnable := roots preds r; conc := []; asyn := []; pc := PTop;
     started := []; finished := []; skipped := [] |}.

Definition running (s : state) : nat := length (conc s) + length (asyn s).

(* helpers.py:291 *)
Definition gate (s : state) : bool := Nat.eqb (running s) (c_maxc c) || isnil (runnable s).

Definition inflight (s : state) (k : kind) : list nat := match k with KA => asyn s | KC => conc s end.
Definition set_inflight (s : state) (k : kind) (l : list nat) : state :=
  match k with
  | KA => {| rem := rem s; runnable := runnable s; conc := conc s; asyn := l; pc := pc s;
             started := started s; finished := finished s; skipped := skipped s |}
  | KC => {| rem := rem s; runnable := runnable s; conc := l; asyn := asyn s; pc := pc s;
             started := started s; finished := finished s; skipped := skipped s |}
  end.
Definition set_pc (s : state) (p : pcT) : state :=
  {| rem := rem s; runnable := runnable s; conc := conc s; asyn := asyn s; pc := p;
     started := started s; finished := finished s; skipped := skipped s |}.

(* graph.remove_root_node(n) and  runnable |= generated   (helpers.py:141,179,347,371) *)
Definition remove_node (s : state) (n : nat) : state :=
  let '(rem', gen) := remove_root_node preds (rem s) n in
  {| rem := rem'; runnable := union (runnable s) gen; conc := conc s; asyn := asyn s; pc := pc s;
     started := started s; finished := finished s; skipped := skipped s |}.
Definition mark_finished (s : state) (n : nat) : state :=
  {| rem := rem s; runnable := runnable s; conc := conc s; asyn := asyn s; pc := pc s;
     started := started s; finished := n :: finished s; skipped := skipped s |}.
Definition mark_skipped (s : state) (n : nat) : state :=
  {| rem := rem s; runnable := runnable s; conc := conc s; asyn := asyn s; pc := pc s;
     started := started s; finished := finished s; skipped := n :: skipped s |}.
Definition mark_started (s : state) (n : nat) : state :=
  {| rem := rem s; runnable := runnable s; conc := conc s; asyn := asyn s; pc := pc s;
     started := n :: started s; finished := finished s; skipped := skipped s |}.
Definition take_runnable (s : state) (n : nat) : state :=
  {| rem := rem s; runnable := remove1 n (runnable s); conc := conc s; asyn := asyn s; pc := pc s;
     started := started s; finished := finished s; skipped := skipped s |}.

(* a future of kind k for node n is inspected and returned: n leaves the in-flight set and the graph *)
Definition complete (k : kind) (s : state) (n : nat) : state :=
  mark_finished (remove_node (set_inflight s k (remove1 n (inflight s k))) n) n.

(* the for-loop over done_ of a wait helper (helpers.py:137-141 / 175-179).
   Result: the state after the inspected futures and, if one raised, its node. *)
Fixpoint inspect (k : kind) (s : state) (dones : list (nat * bool)) : option (state * option nat) :=
  match dones with
  | [] => Some (s, None)
  | (n, true) :: ds =>
      if mem n (inflight s k)
      then inspect k (complete k s n) ds
      else None
  | (n, false) :: ds =>
      if mem n (inflight s k) then (match ds with [] => Some (s, Some n) | _ => None end) else None
  end.

(* one call of a wait helper.  On an empty in-flight set it returns at once (129-130, 167-168);
   otherwise it blocks until the condition holds: at least one future for FIRST_COMPLETED, all of
   them for ALL_COMPLETED.  [next] is the control point after a normal return. *)
Definition do_wait (s : state) (k : kind) (m : mode) (dones : list (nat * bool)) (next : state -> pcT)
  : option state :=
  if isnil (inflight s k)
  then (if isnil dones then Some (set_pc s (next s)) else None)
  else if isnil dones then None
  else match inspect k s dones with
       | None => None
       | Some (s', Some n) => Some (set_pc s' (PRaised n))
       | Some (s', None) =>
           match m with
           | MFirst => Some (set_pc s' (next s'))
           | MAll => if isnil (inflight s' k) then Some (set_pc s' (next s')) else None
           end
       end.

Definition is_max (n : nat) (l : list nat) : bool :=
  mem n l && forallb (fun m => Z.leb (c_prio c m) (c_prio c n)) l.

(* helpers.py:318-341 *)
Definition do_pick (s : state) (n : nat) : option state :=
  if is_max n (runnable s)
  then if c_seq c n && negb (Nat.eqb (running s) 0)
       then Some (set_pc s (PDeferA n))
       else Some (set_pc (take_runnable s n) (PActive n))
  else None.

Definition after_gate (s : state) : pcT := if isnil (runnable s) then PTop else PPick.
Definition after_dispatch (n : nat) : pcT := if c_seq c n then PDrainA n else PTop.
Definition nonempty_bool {A} (l : list A) : bool := negb (isnil l).

Definition step (s : state) (l : label) : option state :=
  match pc s, l with
  | PTop, LEnd => if isnil (rem s) then Some (set_pc s PFinished) else None
  | PTop, LWait KA MFirst dones =>
      if isnil (rem s) then None
      else if gate s then do_wait s KA MFirst dones (fun _ => PGateC (nonempty_bool dones)) else None
  | PTop, LPick n =>
      if isnil (rem s) then None else if gate s then None else do_pick s n
  | PGateC _, LWait KC MFirst dones => do_wait s KC MFirst dones after_gate
  | PPick, LPick n => do_pick s n
  | PDeferA n, LWait KA MFirst dones => do_wait s KA MFirst dones (fun _ => PDeferC n (nonempty_bool dones))
  | PDeferC _ _, LWait KC MFirst dones => do_wait s KC MFirst dones (fun _ => PTop)
  | PActive n, LActive n' b =>
      if Nat.eqb n n'
      then if b then Some (set_pc s (PDisp n))
           else Some (set_pc (mark_skipped (remove_node s n) n) PTop)       (* 345-350 *)
      else None
  | PDisp n, LSubmit KC n' =>
      if Nat.eqb n n' then
        match c_res c n with
        | RThread => Some (set_pc (mark_started (set_inflight s KC (n :: conc s)) n) (after_dispatch n))
        | _ => None
        end
      else None
  | PDisp n, LSubmit KA n' =>
      if Nat.eqb n n' then
        match c_res c n with
        | RAsync => Some (set_pc (mark_started (set_inflight s KA (n :: asyn s)) n) (after_dispatch n))
        | _ => None
        end
      else None
  | PDisp n, LInline n' ok =>
      if Nat.eqb n n' then
        match c_res c n with
        | RMain => if ok
                   then Some (set_pc (mark_finished (remove_node (mark_started s n) n) n) (after_dispatch n))
                   else Some (set_pc (mark_started s n) (PRaised n))
        | _ => None
        end
      else None
  | PDrainA n, LWait KA MAll dones => do_wait s KA MAll dones (fun _ => PDrainC n)
  | PDrainC n, LWait KC MAll dones => do_wait s KC MAll dones (fun _ => PTop)
  | _, _ => None
  end.

Fixpoint run (s : state) (ls : list label) : option state :=
  match ls with
  | [] => Some s
  | l :: ls' => match step s l with Some s' => run s' ls' | None => None end
  end.

(* reachable = result of an accepted label sequence from the initial state *)
Definition reachable (s : state) : Prop := exists ls, run init ls = Some s.

(* a wait label that actually blocks the scheduler *)
Definition blocking (s : state) (l : label) : bool :=
  match l with LWait k _ _ => nonempty_bool (inflight s k) | _ => false end.

(* C08: the justification the property demands at a blocking wait *)
Definition best_is_sequential (s : state) : bool :=
  existsb (fun n => is_max n (runnable s) && c_seq c n) (runnable s).
Definition seq_in_flight (s : state) : bool := existsb (c_seq c) (conc s ++ asyn s).
Definition justified (s : state) : bool :=
  Nat.eqb (running s) (c_maxc c) || isnil (runnable s) || seq_in_flight s || best_is_sequential s.
(* the signature of the known exception F9: the second (thread) wait of a gate / defer pair whose
   first (async) wait of the same loop iteration completed at least one future *)
Definition after_async_completion (s : state) : bool :=
  match pc s with PGateC true | PDeferC _ true => true | _ => false end.

End S.

(* ---------------------------------------------------------------------------------------------
   executable checker used by the correspondence: replays observed labels with the observations
   the harness made at each of them and reports the first divergence *)
Inductive obs :=
| ONone
| OWait (infl runn remn : list nat)     (* in-flight ids of that kind, runnable, remaining at entry *)
| OPick (cands : list nat).

Inductive verdict :=
| Accepted (final : pcT) (nstarted nfinished nskipped : nat)
| Rejected (index : nat) (at_pc : pcT) (why : nat).
  (* why: 1 step undefined, 2 in-flight set differs, 3 runnable differs, 4 remaining differs, 5 candidates differ *)

Definition obs_ok (s : state) (l : label) (o : obs) : nat :=
  match l, o with
  | LWait k _ _, OWait i r g =>
      if negb (seteq i (inflight s k)) then 2
      else if negb (seteq r (runnable s)) then 3
      else if negb (seteq g (rem s)) then 4 else 0
  | LPick _, OPick cs => if seteq cs (runnable s) then 0 else 5
  | _, _ => 0
  end.

Fixpoint check_from (c : cfg) (s : state) (i : nat) (ls : list (label * obs)) : verdict :=
  match ls with
  | [] => Accepted (pc s) (length (started s)) (length (finished s)) (length (skipped s))
  | (l, o) :: ls' =>
      match obs_ok s l o with
      | 0 => match step c s l with
             | Some s' => check_from c s' (S i) ls'
             | None => Rejected i (pc s) 1
             end
      | w => Rejected i (pc s) w
      end
  end.
Definition check (c : cfg) (ls : list (label * obs)) : verdict := check_from c (init c) 0 ls.

(* flat encodings so that the harness can parse coqc's output without a Coq parser *)
Definition enc_pc (p : pcT) : nat * nat :=
  match p with
  | PTop => (0, 0) | PGateC b => (1, if b then 1 else 0) | PPick => (2, 0) | PDeferA n => (3, n)
  | PDeferC n _ => (4, n) | PActive n => (5, n) | PDisp n => (6, n) | PDrainA n => (7, n)
  | PDrainC n => (8, n) | PFinished => (9, 0) | PRaised n => (10, n)
  end.
Definition enc_verdict (v : verdict) : list nat :=
  match v with
  | Accepted p a b d => [1; fst (enc_pc p); snd (enc_pc p); a; b; d]
  | Rejected i p w => [0; i; fst (enc_pc p); snd (enc_pc p); w]
  end.
