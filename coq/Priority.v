(* Priority.v — model of DiGraphEx.assign_compound_priority (tawazi/_dag/digraph.py).  Definitions only.

   [cprio] is the documented function (C07): own priority + sum over the SET of distinct descendants,
   as computed by the repaired code  priorities[n] + sum(priorities[d] for d in nx.descendants(g, n)).
   The list [nodes] stands for the iteration order of the graph's node container (insertion order of a
   dict / Python set order): theorems show the result does not depend on it.

   [legacy_cprio] is the epoch algorithm of the pinned commit (digraph.py:359-382 before the fix),
   with the iteration order of the Python sets made explicit; kept only as the machine-checked
   record of defect F1 (it counts a descendant once per path and depends on the set order). *)
From Coq Require Import List Arith Bool PeanoNat ZArith.
From Tawazi Require Import Graph.
Import ListNotations.
Local Open Scope Z_scope.

Definition zsum (l : list Z) : Z := fold_right Z.add 0 l.

Section P.
Variable preds : nat -> list nat.
Variable prio : nat -> Z.

(* nx.descendants(g, n): reachable from n, n excluded *)
Definition strict_desc (nodes : list nat) (n : nat) : list nat :=
  remove1 n (descendants_refl preds nodes [n]).

Definition cprio (nodes : list nat) (n : nat) : Z :=
  prio n + zsum (map prio (strict_desc nodes n)).

(* the table attached to the graph: one entry per node *)
Definition cprio_table (nodes : list nat) : list (nat * Z) := map (fun n => (n, cprio nodes n)) nodes.

(* ---- the pinned commit's epoch algorithm.  A table is an association list; [order] turns a set
        (duplicate-free list) into the order in which Python iterates over it. *)
Definition tbl := list (nat * Z).
Fixpoint tget (t : tbl) (n : nat) : Z :=
  match t with [] => 0 | (k, v) :: t' => if Nat.eqb k n then v else tget t' n end.
Fixpoint tadd (t : tbl) (n : nat) (d : Z) : tbl :=
  match t with
  | [] => [(n, d)]
  | (k, v) :: t' => if Nat.eqb k n then (k, v + d) :: t' else (k, v) :: tadd t' n d
  end.

Definition leaves (nodes : list nat) : list nat :=
  filter (fun n => negb (existsb (fun m => mem n (preds m)) nodes)) nodes.

(* one epoch: for leaf in leaf_ids: for parent in predecessors(leaf): cp[parent] += cp[leaf]; next.add(parent) *)
Definition epoch (nodes : list nat) (t : tbl) (leaf_ids : list nat) : tbl * list nat :=
  fold_left (fun (acc : tbl * list nat) leaf =>
               fold_left (fun (acc2 : tbl * list nat) parent =>
                            (tadd (fst acc2) parent (tget (fst acc2) leaf),
                             if mem parent (snd acc2) then snd acc2 else snd acc2 ++ [parent]))
                         (inter (nodup Nat.eq_dec (preds leaf)) nodes) acc)
            leaf_ids (t, []).

Fixpoint legacy_loop (fuel : nat) (order : list nat -> list nat) (nodes : list nat) (t : tbl) (leaf_ids : list nat) : tbl :=
  match fuel with
  | O => t
  | S f => match leaf_ids with
           | [] => t
           | _ => let '(t', next) := epoch nodes t (order leaf_ids) in legacy_loop f order nodes t' next
           end
  end.

Definition legacy_cprio (order : list nat -> list nat) (nodes : list nat) : tbl :=
  legacy_loop (S (length nodes)) order nodes (map (fun n => (n, prio n)) nodes) (leaves nodes).
End P.
