Graph.vo Graph.glob Graph.v.beautified Graph.required_vo: Graph.v 
Graph.vio: Graph.v 
Graph.vos Graph.vok Graph.required_vos: Graph.v 
GraphFacts.vo GraphFacts.glob GraphFacts.v.beautified GraphFacts.required_vo: GraphFacts.v Graph.vo
GraphFacts.vio: GraphFacts.v Graph.vio
GraphFacts.vos GraphFacts.vok GraphFacts.required_vos: GraphFacts.v Graph.vos
Sched.vo Sched.glob Sched.v.beautified Sched.required_vo: Sched.v Graph.vo
Sched.vio: Sched.v Graph.vio
Sched.vos Sched.vok Sched.required_vos: Sched.v Graph.vos
SchedInv.vo SchedInv.glob SchedInv.v.beautified SchedInv.required_vo: SchedInv.v Graph.vo GraphFacts.vo Sched.vo
SchedInv.vio: SchedInv.v Graph.vio GraphFacts.vio Sched.vio
SchedInv.vos SchedInv.vok SchedInv.required_vos: SchedInv.v Graph.vos GraphFacts.vos Sched.vos
