Graph.vo Graph.glob Graph.v.beautified Graph.required_vo: Graph.v 
Graph.vio: Graph.v 
Graph.vos Graph.vok Graph.required_vos: Graph.v 
GraphFacts.vo GraphFacts.glob GraphFacts.v.beautified GraphFacts.required_vo: GraphFacts.v Graph.vo
GraphFacts.vio: GraphFacts.v Graph.vio
GraphFacts.vos GraphFacts.vok GraphFacts.required_vos: GraphFacts.v Graph.vos
Closure.vo Closure.glob Closure.v.beautified Closure.required_vo: Closure.v Graph.vo GraphFacts.vo
Closure.vio: Closure.v Graph.vio GraphFacts.vio
Closure.vos Closure.vok Closure.required_vos: Closure.v Graph.vos GraphFacts.vos
Sched.vo Sched.glob Sched.v.beautified Sched.required_vo: Sched.v Graph.vo
Sched.vio: Sched.v Graph.vio
Sched.vos Sched.vok Sched.required_vos: Sched.v Graph.vos
SchedInv.vo SchedInv.glob SchedInv.v.beautified SchedInv.required_vo: SchedInv.v Graph.vo GraphFacts.vo Sched.vo
SchedInv.vio: SchedInv.v Graph.vio GraphFacts.vio Sched.vio
SchedInv.vos SchedInv.vok SchedInv.required_vos: SchedInv.v Graph.vos GraphFacts.vos Sched.vos
Priority.vo Priority.glob Priority.v.beautified Priority.required_vo: Priority.v Graph.vo
Priority.vio: Priority.v Graph.vio
Priority.vos Priority.vok Priority.required_vos: Priority.v Graph.vos
PriorityFacts.vo PriorityFacts.glob PriorityFacts.v.beautified PriorityFacts.required_vo: PriorityFacts.v Graph.vo GraphFacts.vo Closure.vo Priority.vo
PriorityFacts.vio: PriorityFacts.v Graph.vio GraphFacts.vio Closure.vio Priority.vio
PriorityFacts.vos PriorityFacts.vok PriorityFacts.required_vos: PriorityFacts.v Graph.vos GraphFacts.vos Closure.vos Priority.vos
Select.vo Select.glob Select.v.beautified Select.required_vo: Select.v Graph.vo
Select.vio: Select.v Graph.vio
Select.vos Select.vok Select.required_vos: Select.v Graph.vos
SelectFacts.vo SelectFacts.glob SelectFacts.v.beautified SelectFacts.required_vo: SelectFacts.v Graph.vo GraphFacts.vo Select.vo
SelectFacts.vio: SelectFacts.v Graph.vio GraphFacts.vio Select.vio
SelectFacts.vos SelectFacts.vok SelectFacts.required_vos: SelectFacts.v Graph.vos GraphFacts.vos Select.vos
