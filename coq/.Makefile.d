Graph.vo Graph.glob Graph.v.beautified Graph.required_vo: Graph.v 
Graph.vio: Graph.v 
Graph.vos Graph.vok Graph.required_vos: Graph.v 
Sched.vo Sched.glob Sched.v.beautified Sched.required_vo: Sched.v Graph.vo
Sched.vio: Sched.v Graph.vio
Sched.vos Sched.vok Sched.required_vos: Sched.v Graph.vos
