Graph.vo Graph.glob Graph.v.beautified Graph.required_vo: Graph.v 
Graph.vio: Graph.v 
Graph.vos Graph.vok Graph.required_vos: Graph.v 
GraphFacts.vo GraphFacts.glob GraphFacts.v.beautified GraphFacts.required_vo: GraphFacts.v Graph.vo
GraphFacts.vio: GraphFacts.v Graph.vio
GraphFacts.vos GraphFacts.vok GraphFacts.required_vos: GraphFacts.v Graph.vos
Closure.vo Closure.glob Closure.v.beautified Closure.required_vo: Closure.v Graph.vo GraphFacts.vo
Closure.vio: Closure.v Graph.vio GraphFacts.vio
Closure.vos Closure.vok Closure.required_vos: Closure.v Graph.vos GraphFacts.vos
Sched.vo Sched.glob Sched.v.beautified Sched.required_vo: Sched.v Graph.vo
Sched.vio: Sched.v Graph.vio
Sched.vos Sched.vok Sched.required_vos: Sched.v Graph.vos
SchedInv.vo SchedInv.glob SchedInv.v.beautified SchedInv.required_vo: SchedInv.v Graph.vo GraphFacts.vo Sched.vo
SchedInv.vio: SchedInv.v Graph.vio GraphFacts.vio Sched.vio
SchedInv.vos SchedInv.vok SchedInv.required_vos: SchedInv.v Graph.vos GraphFacts.vos Sched.vos
SchedGhost.vo SchedGhost.glob SchedGhost.v.beautified SchedGhost.required_vo: SchedGhost.v Graph.vo GraphFacts.vo Sched.vo SchedInv.vo
SchedGhost.vio: SchedGhost.v Graph.vio GraphFacts.vio Sched.vio SchedInv.vio
SchedGhost.vos SchedGhost.vok SchedGhost.required_vos: SchedGhost.v Graph.vos GraphFacts.vos Sched.vos SchedInv.vos
SchedProgress.vo SchedProgress.glob SchedProgress.v.beautified SchedProgress.required_vo: SchedProgress.v Graph.vo GraphFacts.vo Sched.vo SchedInv.vo
SchedProgress.vio: SchedProgress.v Graph.vio GraphFacts.vio Sched.vio SchedInv.vio
SchedProgress.vos SchedProgress.vok SchedProgress.required_vos: SchedProgress.v Graph.vos GraphFacts.vos Sched.vos SchedInv.vos
SchedPrio.vo SchedPrio.glob SchedPrio.v.beautified SchedPrio.required_vo: SchedPrio.v Graph.vo GraphFacts.vo Sched.vo SchedInv.vo
SchedPrio.vio: SchedPrio.v Graph.vio GraphFacts.vio Sched.vio SchedInv.vio
SchedPrio.vos SchedPrio.vok SchedPrio.required_vos: SchedPrio.v Graph.vos GraphFacts.vos Sched.vos SchedInv.vos
SchedAsync.vo SchedAsync.glob SchedAsync.v.beautified SchedAsync.required_vo: SchedAsync.v Graph.vo GraphFacts.vo Sched.vo SchedInv.vo SchedPrio.vo
SchedAsync.vio: SchedAsync.v Graph.vio GraphFacts.vio Sched.vio SchedInv.vio SchedPrio.vio
SchedAsync.vos SchedAsync.vok SchedAsync.required_vos: SchedAsync.v Graph.vos GraphFacts.vos Sched.vos SchedInv.vos SchedPrio.vos
Priority.vo Priority.glob Priority.v.beautified Priority.required_vo: Priority.v Graph.vo
Priority.vio: Priority.v Graph.vio
Priority.vos Priority.vok Priority.required_vos: Priority.v Graph.vos
PriorityFacts.vo PriorityFacts.glob PriorityFacts.v.beautified PriorityFacts.required_vo: PriorityFacts.v Graph.vo GraphFacts.vo Closure.vo Priority.vo
PriorityFacts.vio: PriorityFacts.v Graph.vio GraphFacts.vio Closure.vio Priority.vio
PriorityFacts.vos PriorityFacts.vok PriorityFacts.required_vos: PriorityFacts.v Graph.vos GraphFacts.vos Closure.vos Priority.vos
Select.vo Select.glob Select.v.beautified Select.required_vo: Select.v Graph.vo
Select.vio: Select.v Graph.vio
Select.vos Select.vok Select.required_vos: Select.v Graph.vos
SelectFacts.vo SelectFacts.glob SelectFacts.v.beautified SelectFacts.required_vo: SelectFacts.v Graph.vo GraphFacts.vo Select.vo
SelectFacts.vio: SelectFacts.v Graph.vio GraphFacts.vio Select.vio
SelectFacts.vos SelectFacts.vok SelectFacts.required_vos: SelectFacts.v Graph.vos GraphFacts.vos Select.vos
GraphCheck.vo GraphCheck.glob GraphCheck.v.beautified GraphCheck.required_vo: GraphCheck.v Graph.vo Priority.vo Select.vo
GraphCheck.vio: GraphCheck.v Graph.vio Priority.vio Select.vio
GraphCheck.vos GraphCheck.vok GraphCheck.required_vos: GraphCheck.v Graph.vos Priority.vos Select.vos
Build.vo Build.glob Build.v.beautified Build.required_vo: Build.v Graph.vo
Build.vio: Build.v Graph.vio
Build.vos Build.vok Build.required_vos: Build.v Graph.vos
Dataflow.vo Dataflow.glob Dataflow.v.beautified Dataflow.required_vo: Dataflow.v Graph.vo Sched.vo
Dataflow.vio: Dataflow.v Graph.vio Sched.vio
Dataflow.vos Dataflow.vok Dataflow.required_vos: Dataflow.v Graph.vos Sched.vos
DataflowFacts.vo DataflowFacts.glob DataflowFacts.v.beautified DataflowFacts.required_vo: DataflowFacts.v Graph.vo GraphFacts.vo Sched.vo SchedInv.vo SchedGhost.vo Dataflow.vo
DataflowFacts.vio: DataflowFacts.v Graph.vio GraphFacts.vio Sched.vio SchedInv.vio SchedGhost.vio Dataflow.vio
DataflowFacts.vos DataflowFacts.vok DataflowFacts.required_vos: DataflowFacts.v Graph.vos GraphFacts.vos Sched.vos SchedInv.vos SchedGhost.vos Dataflow.vos
DataflowFast.vo DataflowFast.glob DataflowFast.v.beautified DataflowFast.required_vo: DataflowFast.v Graph.vo Sched.vo Dataflow.vo
DataflowFast.vio: DataflowFast.v Graph.vio Sched.vio Dataflow.vio
DataflowFast.vos DataflowFast.vok DataflowFast.required_vos: DataflowFast.v Graph.vos Sched.vos Dataflow.vos
SameNodes.vo SameNodes.glob SameNodes.v.beautified SameNodes.required_vo: SameNodes.v Graph.vo GraphFacts.vo Sched.vo SchedInv.vo SchedGhost.vo Dataflow.vo DataflowFacts.vo
SameNodes.vio: SameNodes.v Graph.vio GraphFacts.vio Sched.vio SchedInv.vio SchedGhost.vio Dataflow.vio DataflowFacts.vio
SameNodes.vos SameNodes.vok SameNodes.required_vos: SameNodes.v Graph.vos GraphFacts.vos Sched.vos SchedInv.vos SchedGhost.vos Dataflow.vos DataflowFacts.vos
SelectSpec.vo SelectSpec.glob SelectSpec.v.beautified SelectSpec.required_vo: SelectSpec.v Graph.vo GraphFacts.vo Closure.vo Select.vo SelectFacts.vo Sched.vo SchedInv.vo Dataflow.vo DataflowFacts.vo
SelectSpec.vio: SelectSpec.v Graph.vio GraphFacts.vio Closure.vio Select.vio SelectFacts.vio Sched.vio SchedInv.vio Dataflow.vio DataflowFacts.vio
SelectSpec.vos SelectSpec.vok SelectSpec.required_vos: SelectSpec.v Graph.vos GraphFacts.vos Closure.vos Select.vos SelectFacts.vos Sched.vos SchedInv.vos Dataflow.vos DataflowFacts.vos
Terms.vo Terms.glob Terms.v.beautified Terms.required_vo: Terms.v Graph.vo Sched.vo Dataflow.vo
Terms.vio: Terms.v Graph.vio Sched.vio Dataflow.vio
Terms.vos Terms.vok Terms.required_vos: Terms.v Graph.vos Sched.vos Dataflow.vos
Iso.vo Iso.glob Iso.v.beautified Iso.required_vo: Iso.v Graph.vo Sched.vo Dataflow.vo
Iso.vio: Iso.v Graph.vio Sched.vio Dataflow.vio
Iso.vos Iso.vok Iso.required_vos: Iso.v Graph.vos Sched.vos Dataflow.vos
IsoCheck.vo IsoCheck.glob IsoCheck.v.beautified IsoCheck.required_vo: IsoCheck.v Graph.vo Sched.vo Dataflow.vo Terms.vo
IsoCheck.vio: IsoCheck.v Graph.vio Sched.vio Dataflow.vio Terms.vio
IsoCheck.vos IsoCheck.vok IsoCheck.required_vos: IsoCheck.v Graph.vos Sched.vos Dataflow.vos Terms.vos
IsoFacts.vo IsoFacts.glob IsoFacts.v.beautified IsoFacts.required_vo: IsoFacts.v Graph.vo GraphFacts.vo Sched.vo SchedInv.vo Dataflow.vo DataflowFacts.vo Iso.vo
IsoFacts.vio: IsoFacts.v Graph.vio GraphFacts.vio Sched.vio SchedInv.vio Dataflow.vio DataflowFacts.vio Iso.vio
IsoFacts.vos IsoFacts.vok IsoFacts.required_vos: IsoFacts.v Graph.vos GraphFacts.vos Sched.vos SchedInv.vos Dataflow.vos DataflowFacts.vos Iso.vos
IsoCheckFacts.vo IsoCheckFacts.glob IsoCheckFacts.v.beautified IsoCheckFacts.required_vo: IsoCheckFacts.v Graph.vo GraphFacts.vo Sched.vo SchedInv.vo Dataflow.vo DataflowFast.vo DataflowFacts.vo Terms.vo Iso.vo IsoFacts.vo IsoCheck.vo
IsoCheckFacts.vio: IsoCheckFacts.v Graph.vio GraphFacts.vio Sched.vio SchedInv.vio Dataflow.vio DataflowFast.vio DataflowFacts.vio Terms.vio Iso.vio IsoFacts.vio IsoCheck.vio
IsoCheckFacts.vos IsoCheckFacts.vok IsoCheckFacts.required_vos: IsoCheckFacts.v Graph.vos GraphFacts.vos Sched.vos SchedInv.vos Dataflow.vos DataflowFast.vos DataflowFacts.vos Terms.vos Iso.vos IsoFacts.vos IsoCheck.vos
Compose.vo Compose.glob Compose.v.beautified Compose.required_vo: Compose.v Graph.vo
Compose.vio: Compose.v Graph.vio
Compose.vos Compose.vok Compose.required_vos: Compose.v Graph.vos
ComposeFacts.vo ComposeFacts.glob ComposeFacts.v.beautified ComposeFacts.required_vo: ComposeFacts.v Graph.vo GraphFacts.vo Closure.vo Compose.vo
ComposeFacts.vio: ComposeFacts.v Graph.vio GraphFacts.vio Closure.vio Compose.vio
ComposeFacts.vos ComposeFacts.vok ComposeFacts.required_vos: ComposeFacts.v Graph.vos GraphFacts.vos Closure.vos Compose.vos
Threads.vo Threads.glob Threads.v.beautified Threads.required_vo: Threads.v 
Threads.vio: Threads.v 
Threads.vos Threads.vok Threads.required_vos: Threads.v 
ThreadsFacts.vo ThreadsFacts.glob ThreadsFacts.v.beautified ThreadsFacts.required_vo: ThreadsFacts.v Threads.vo
ThreadsFacts.vio: ThreadsFacts.v Threads.vio
ThreadsFacts.vos ThreadsFacts.vok ThreadsFacts.required_vos: ThreadsFacts.v Threads.vos
History.vo History.glob History.v.beautified History.required_vo: History.v Graph.vo Select.vo
History.vio: History.v Graph.vio Select.vio
History.vos History.vok History.required_vos: History.v Graph.vos Select.vos
HistoryFacts.vo HistoryFacts.glob HistoryFacts.v.beautified HistoryFacts.required_vo: HistoryFacts.v Graph.vo GraphFacts.vo Select.vo SelectFacts.vo History.vo
HistoryFacts.vio: HistoryFacts.v Graph.vio GraphFacts.vio Select.vio SelectFacts.vio History.vio
HistoryFacts.vos HistoryFacts.vok HistoryFacts.required_vos: HistoryFacts.v Graph.vos GraphFacts.vos Select.vos SelectFacts.vos History.vos
DenPre.vo DenPre.glob DenPre.v.beautified DenPre.required_vo: DenPre.v Graph.vo GraphFacts.vo Sched.vo SchedInv.vo Dataflow.vo DataflowFacts.vo
DenPre.vio: DenPre.v Graph.vio GraphFacts.vio Sched.vio SchedInv.vio Dataflow.vio DataflowFacts.vio
DenPre.vos DenPre.vok DenPre.required_vos: DenPre.v Graph.vos GraphFacts.vos Sched.vos SchedInv.vos Dataflow.vos DataflowFacts.vos
Reconf.vo Reconf.glob Reconf.v.beautified Reconf.required_vo: Reconf.v 
Reconf.vio: Reconf.v 
Reconf.vos Reconf.vok Reconf.required_vos: Reconf.v 
ReconfFacts.vo ReconfFacts.glob ReconfFacts.v.beautified ReconfFacts.required_vo: ReconfFacts.v Reconf.vo
ReconfFacts.vio: ReconfFacts.v Reconf.vio
ReconfFacts.vos ReconfFacts.vok ReconfFacts.required_vos: ReconfFacts.v Reconf.vos
Args.vo Args.glob Args.v.beautified Args.required_vo: Args.v Graph.vo Sched.vo Dataflow.vo
Args.vio: Args.v Graph.vio Sched.vio Dataflow.vio
Args.vos Args.vok Args.required_vos: Args.v Graph.vos Sched.vos Dataflow.vos
ArgsCheck.vo ArgsCheck.glob ArgsCheck.v.beautified ArgsCheck.required_vo: ArgsCheck.v Graph.vo Sched.vo Dataflow.vo Terms.vo Args.vo
ArgsCheck.vio: ArgsCheck.v Graph.vio Sched.vio Dataflow.vio Terms.vio Args.vio
ArgsCheck.vos ArgsCheck.vok ArgsCheck.required_vos: ArgsCheck.v Graph.vos Sched.vos Dataflow.vos Terms.vos Args.vos
ArgsFacts.vo ArgsFacts.glob ArgsFacts.v.beautified ArgsFacts.required_vo: ArgsFacts.v Graph.vo GraphFacts.vo Sched.vo SchedInv.vo Dataflow.vo DenPre.vo Args.vo
ArgsFacts.vio: ArgsFacts.v Graph.vio GraphFacts.vio Sched.vio SchedInv.vio Dataflow.vio DenPre.vio Args.vio
ArgsFacts.vos ArgsFacts.vok ArgsFacts.required_vos: ArgsFacts.v Graph.vos GraphFacts.vos Sched.vos SchedInv.vos Dataflow.vos DenPre.vos Args.vos
Ids.vo Ids.glob Ids.v.beautified Ids.required_vo: Ids.v 
Ids.vio: Ids.v 
Ids.vos Ids.vok Ids.required_vos: Ids.v 
IdsFacts.vo IdsFacts.glob IdsFacts.v.beautified IdsFacts.required_vo: IdsFacts.v Ids.vo
IdsFacts.vio: IdsFacts.v Ids.vio
IdsFacts.vos IdsFacts.vok IdsFacts.required_vos: IdsFacts.v Ids.vos
Cache.vo Cache.glob Cache.v.beautified Cache.required_vo: Cache.v Graph.vo Sched.vo Dataflow.vo Args.vo
Cache.vio: Cache.v Graph.vio Sched.vio Dataflow.vio Args.vio
Cache.vos Cache.vok Cache.required_vos: Cache.v Graph.vos Sched.vos Dataflow.vos Args.vos
CacheFacts.vo CacheFacts.glob CacheFacts.v.beautified CacheFacts.required_vo: CacheFacts.v Graph.vo GraphFacts.vo Sched.vo Dataflow.vo Args.vo ArgsFacts.vo Cache.vo
CacheFacts.vio: CacheFacts.v Graph.vio GraphFacts.vio Sched.vio Dataflow.vio Args.vio ArgsFacts.vio Cache.vio
CacheFacts.vos CacheFacts.vok CacheFacts.required_vos: CacheFacts.v Graph.vos GraphFacts.vos Sched.vos Dataflow.vos Args.vos ArgsFacts.vos Cache.vos
Greedy.vo Greedy.glob Greedy.v.beautified Greedy.required_vo: Greedy.v Graph.vo Sched.vo
Greedy.vio: Greedy.v Graph.vio Sched.vio
Greedy.vos Greedy.vok Greedy.required_vos: Greedy.v Graph.vos Sched.vos
GreedyFacts.vo GreedyFacts.glob GreedyFacts.v.beautified GreedyFacts.required_vo: GreedyFacts.v Graph.vo GraphFacts.vo Sched.vo SchedInv.vo SchedGhost.vo SchedPrio.vo Greedy.vo
GreedyFacts.vio: GreedyFacts.v Graph.vio GraphFacts.vio Sched.vio SchedInv.vio SchedGhost.vio SchedPrio.vio Greedy.vio
GreedyFacts.vos GreedyFacts.vok GreedyFacts.required_vos: GreedyFacts.v Graph.vos GraphFacts.vos Sched.vos SchedInv.vos SchedGhost.vos SchedPrio.vos Greedy.vos
Concurrent.vo Concurrent.glob Concurrent.v.beautified Concurrent.required_vo: Concurrent.v Graph.vo Sched.vo Dataflow.vo
Concurrent.vio: Concurrent.v Graph.vio Sched.vio Dataflow.vio
Concurrent.vos Concurrent.vok Concurrent.required_vos: Concurrent.v Graph.vos Sched.vos Dataflow.vos
ConcurrentFacts.vo ConcurrentFacts.glob ConcurrentFacts.v.beautified ConcurrentFacts.required_vo: ConcurrentFacts.v Graph.vo Sched.vo SchedInv.vo Dataflow.vo DataflowFacts.vo Concurrent.vo
ConcurrentFacts.vio: ConcurrentFacts.v Graph.vio Sched.vio SchedInv.vio Dataflow.vio DataflowFacts.vio Concurrent.vio
ConcurrentFacts.vos ConcurrentFacts.vok ConcurrentFacts.required_vos: ConcurrentFacts.v Graph.vos Sched.vos SchedInv.vos Dataflow.vos DataflowFacts.vos Concurrent.vos
Properties/C01.vo Properties/C01.glob Properties/C01.v.beautified Properties/C01.required_vo: Properties/C01.v Graph.vo Sched.vo SchedInv.vo Dataflow.vo DataflowFacts.vo
Properties/C01.vio: Properties/C01.v Graph.vio Sched.vio SchedInv.vio Dataflow.vio DataflowFacts.vio
Properties/C01.vos Properties/C01.vok Properties/C01.required_vos: Properties/C01.v Graph.vos Sched.vos SchedInv.vos Dataflow.vos DataflowFacts.vos
Properties/C02.vo Properties/C02.glob Properties/C02.v.beautified Properties/C02.required_vo: Properties/C02.v Graph.vo Sched.vo SchedInv.vo SchedGhost.vo
Properties/C02.vio: Properties/C02.v Graph.vio Sched.vio SchedInv.vio SchedGhost.vio
Properties/C02.vos Properties/C02.vok Properties/C02.required_vos: Properties/C02.v Graph.vos Sched.vos SchedInv.vos SchedGhost.vos
Properties/C03.vo Properties/C03.glob Properties/C03.v.beautified Properties/C03.required_vo: Properties/C03.v Ids.vo IdsFacts.vo Graph.vo Sched.vo SchedInv.vo SchedGhost.vo
Properties/C03.vio: Properties/C03.v Ids.vio IdsFacts.vio Graph.vio Sched.vio SchedInv.vio SchedGhost.vio
Properties/C03.vos Properties/C03.vok Properties/C03.required_vos: Properties/C03.v Ids.vos IdsFacts.vos Graph.vos Sched.vos SchedInv.vos SchedGhost.vos
Properties/C04.vo Properties/C04.glob Properties/C04.v.beautified Properties/C04.required_vo: Properties/C04.v Graph.vo Sched.vo SchedInv.vo Reconf.vo ReconfFacts.vo
Properties/C04.vio: Properties/C04.v Graph.vio Sched.vio SchedInv.vio Reconf.vio ReconfFacts.vio
Properties/C04.vos Properties/C04.vok Properties/C04.required_vos: Properties/C04.v Graph.vos Sched.vos SchedInv.vos Reconf.vos ReconfFacts.vos
Properties/C05.vo Properties/C05.glob Properties/C05.v.beautified Properties/C05.required_vo: Properties/C05.v Graph.vo Sched.vo SchedInv.vo Reconf.vo ReconfFacts.vo
Properties/C05.vio: Properties/C05.v Graph.vio Sched.vio SchedInv.vio Reconf.vio ReconfFacts.vio
Properties/C05.vos Properties/C05.vok Properties/C05.required_vos: Properties/C05.v Graph.vos Sched.vos SchedInv.vos Reconf.vos ReconfFacts.vos
Properties/C06.vo Properties/C06.glob Properties/C06.v.beautified Properties/C06.required_vo: Properties/C06.v Graph.vo Sched.vo SchedInv.vo SchedPrio.vo
Properties/C06.vio: Properties/C06.v Graph.vio Sched.vio SchedInv.vio SchedPrio.vio
Properties/C06.vos Properties/C06.vok Properties/C06.required_vos: Properties/C06.v Graph.vos Sched.vos SchedInv.vos SchedPrio.vos
Properties/C07.vo Properties/C07.glob Properties/C07.v.beautified Properties/C07.required_vo: Properties/C07.v Graph.vo Closure.vo Priority.vo PriorityFacts.vo Sched.vo SchedInv.vo SchedPrio.vo Reconf.vo ReconfFacts.vo Greedy.vo GreedyFacts.vo
Properties/C07.vio: Properties/C07.v Graph.vio Closure.vio Priority.vio PriorityFacts.vio Sched.vio SchedInv.vio SchedPrio.vio Reconf.vio ReconfFacts.vio Greedy.vio GreedyFacts.vio
Properties/C07.vos Properties/C07.vok Properties/C07.required_vos: Properties/C07.v Graph.vos Closure.vos Priority.vos PriorityFacts.vos Sched.vos SchedInv.vos SchedPrio.vos Reconf.vos ReconfFacts.vos Greedy.vos GreedyFacts.vos
Properties/C08.vo Properties/C08.glob Properties/C08.v.beautified Properties/C08.required_vo: Properties/C08.v Graph.vo Sched.vo SchedInv.vo SchedPrio.vo Reconf.vo ReconfFacts.vo
Properties/C08.vio: Properties/C08.v Graph.vio Sched.vio SchedInv.vio SchedPrio.vio Reconf.vio ReconfFacts.vio
Properties/C08.vos Properties/C08.vok Properties/C08.required_vos: Properties/C08.v Graph.vos Sched.vos SchedInv.vos SchedPrio.vos Reconf.vos ReconfFacts.vos
Properties/C09.vo Properties/C09.glob Properties/C09.v.beautified Properties/C09.required_vo: Properties/C09.v Graph.vo Sched.vo SchedInv.vo SchedGhost.vo SchedProgress.vo
Properties/C09.vio: Properties/C09.v Graph.vio Sched.vio SchedInv.vio SchedGhost.vio SchedProgress.vio
Properties/C09.vos Properties/C09.vok Properties/C09.required_vos: Properties/C09.v Graph.vos Sched.vos SchedInv.vos SchedGhost.vos SchedProgress.vos
Properties/C10.vo Properties/C10.glob Properties/C10.v.beautified Properties/C10.required_vo: Properties/C10.v Graph.vo Sched.vo SchedInv.vo SchedGhost.vo Dataflow.vo DataflowFacts.vo
Properties/C10.vio: Properties/C10.v Graph.vio Sched.vio SchedInv.vio SchedGhost.vio Dataflow.vio DataflowFacts.vio
Properties/C10.vos Properties/C10.vok Properties/C10.required_vos: Properties/C10.v Graph.vos Sched.vos SchedInv.vos SchedGhost.vos Dataflow.vos DataflowFacts.vos
Properties/C11.vo Properties/C11.glob Properties/C11.v.beautified Properties/C11.required_vo: Properties/C11.v Graph.vo Select.vo SelectFacts.vo History.vo HistoryFacts.vo
Properties/C11.vio: Properties/C11.v Graph.vio Select.vio SelectFacts.vio History.vio HistoryFacts.vio
Properties/C11.vos Properties/C11.vok Properties/C11.required_vos: Properties/C11.v Graph.vos Select.vos SelectFacts.vos History.vos HistoryFacts.vos
Properties/C12.vo Properties/C12.glob Properties/C12.v.beautified Properties/C12.required_vo: Properties/C12.v Graph.vo Closure.vo Select.vo SelectFacts.vo SelectSpec.vo
Properties/C12.vio: Properties/C12.v Graph.vio Closure.vio Select.vio SelectFacts.vio SelectSpec.vio
Properties/C12.vos Properties/C12.vok Properties/C12.required_vos: Properties/C12.v Graph.vos Closure.vos Select.vos SelectFacts.vos SelectSpec.vos
Properties/C13.vo Properties/C13.glob Properties/C13.v.beautified Properties/C13.required_vo: Properties/C13.v Graph.vo Select.vo SelectFacts.vo
Properties/C13.vio: Properties/C13.v Graph.vio Select.vio SelectFacts.vio
Properties/C13.vos Properties/C13.vok Properties/C13.required_vos: Properties/C13.v Graph.vos Select.vos SelectFacts.vos
Properties/C14.vo Properties/C14.glob Properties/C14.v.beautified Properties/C14.required_vo: Properties/C14.v Graph.vo Sched.vo SchedInv.vo SchedGhost.vo
Properties/C14.vio: Properties/C14.v Graph.vio Sched.vio SchedInv.vio SchedGhost.vio
Properties/C14.vos Properties/C14.vok Properties/C14.required_vos: Properties/C14.v Graph.vos Sched.vos SchedInv.vos SchedGhost.vos
Properties/C15.vo Properties/C15.glob Properties/C15.v.beautified Properties/C15.required_vo: Properties/C15.v Graph.vo Sched.vo SchedInv.vo Dataflow.vo DataflowFacts.vo DenPre.vo Args.vo ArgsFacts.vo
Properties/C15.vio: Properties/C15.v Graph.vio Sched.vio SchedInv.vio Dataflow.vio DataflowFacts.vio DenPre.vio Args.vio ArgsFacts.vio
Properties/C15.vos Properties/C15.vok Properties/C15.required_vos: Properties/C15.v Graph.vos Sched.vos SchedInv.vos Dataflow.vos DataflowFacts.vos DenPre.vos Args.vos ArgsFacts.vos
Properties/C16.vo Properties/C16.glob Properties/C16.v.beautified Properties/C16.required_vo: Properties/C16.v Threads.vo ThreadsFacts.vo Graph.vo Sched.vo SchedInv.vo Dataflow.vo DataflowFacts.vo Concurrent.vo ConcurrentFacts.vo
Properties/C16.vio: Properties/C16.v Threads.vio ThreadsFacts.vio Graph.vio Sched.vio SchedInv.vio Dataflow.vio DataflowFacts.vio Concurrent.vio ConcurrentFacts.vio
Properties/C16.vos Properties/C16.vok Properties/C16.required_vos: Properties/C16.v Threads.vos ThreadsFacts.vos Graph.vos Sched.vos SchedInv.vos Dataflow.vos DataflowFacts.vos Concurrent.vos ConcurrentFacts.vos
Properties/C17.vo Properties/C17.glob Properties/C17.v.beautified Properties/C17.required_vo: Properties/C17.v Graph.vo Sched.vo SchedInv.vo SchedGhost.vo Dataflow.vo DataflowFacts.vo SameNodes.vo SchedAsync.vo Concurrent.vo ConcurrentFacts.vo
Properties/C17.vio: Properties/C17.v Graph.vio Sched.vio SchedInv.vio SchedGhost.vio Dataflow.vio DataflowFacts.vio SameNodes.vio SchedAsync.vio Concurrent.vio ConcurrentFacts.vio
Properties/C17.vos Properties/C17.vok Properties/C17.required_vos: Properties/C17.v Graph.vos Sched.vos SchedInv.vos SchedGhost.vos Dataflow.vos DataflowFacts.vos SameNodes.vos SchedAsync.vos Concurrent.vos ConcurrentFacts.vos
Properties/C18.vo Properties/C18.glob Properties/C18.v.beautified Properties/C18.required_vo: Properties/C18.v Graph.vo Select.vo SelectFacts.vo History.vo HistoryFacts.vo Dataflow.vo Args.vo ArgsFacts.vo Cache.vo CacheFacts.vo
Properties/C18.vio: Properties/C18.v Graph.vio Select.vio SelectFacts.vio History.vio HistoryFacts.vio Dataflow.vio Args.vio ArgsFacts.vio Cache.vio CacheFacts.vio
Properties/C18.vos Properties/C18.vok Properties/C18.required_vos: Properties/C18.v Graph.vos Select.vos SelectFacts.vos History.vos HistoryFacts.vos Dataflow.vos Args.vos ArgsFacts.vos Cache.vos CacheFacts.vos
Properties/C19.vo Properties/C19.glob Properties/C19.v.beautified Properties/C19.required_vo: Properties/C19.v Graph.vo Closure.vo Sched.vo SchedInv.vo Dataflow.vo DataflowFacts.vo Terms.vo Iso.vo IsoFacts.vo IsoCheck.vo IsoCheckFacts.vo Compose.vo ComposeFacts.vo
Properties/C19.vio: Properties/C19.v Graph.vio Closure.vio Sched.vio SchedInv.vio Dataflow.vio DataflowFacts.vio Terms.vio Iso.vio IsoFacts.vio IsoCheck.vio IsoCheckFacts.vio Compose.vio ComposeFacts.vio
Properties/C19.vos Properties/C19.vok Properties/C19.required_vos: Properties/C19.v Graph.vos Closure.vos Sched.vos SchedInv.vos Dataflow.vos DataflowFacts.vos Terms.vos Iso.vos IsoFacts.vos IsoCheck.vos IsoCheckFacts.vos Compose.vos ComposeFacts.vos
Properties/C20.vo Properties/C20.glob Properties/C20.v.beautified Properties/C20.required_vo: Properties/C20.v Args.vo ArgsFacts.vo Graph.vo Sched.vo SchedInv.vo Dataflow.vo DataflowFacts.vo Terms.vo Iso.vo IsoFacts.vo IsoCheck.vo IsoCheckFacts.vo
Properties/C20.vio: Properties/C20.v Args.vio ArgsFacts.vio Graph.vio Sched.vio SchedInv.vio Dataflow.vio DataflowFacts.vio Terms.vio Iso.vio IsoFacts.vio IsoCheck.vio IsoCheckFacts.vio
Properties/C20.vos Properties/C20.vok Properties/C20.required_vos: Properties/C20.v Args.vos ArgsFacts.vos Graph.vos Sched.vos SchedInv.vos Dataflow.vos DataflowFacts.vos Terms.vos Iso.vos IsoFacts.vos IsoCheck.vos IsoCheckFacts.vos
