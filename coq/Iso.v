(* Iso.v — simulation between two node tables ("system 1 is embedded in system 2 through the renaming
   rho"): the relation behind compose() (C19: the composed DAG is embedded in the original pipeline with
   the input nodes overridden), nested DAG calls (C20: the inner DAG, with its parameters bound, is
   embedded in the outer DAG through the id prefix; C10: under an additional activation flag) and the
   build of a describing function (C01: the program's own table is embedded in the table tawazi built).
   Definitions only; the theorem (an embedded node has the same denotation) is in IsoFacts.v. *)
From Coq Require Import List Arith Bool PeanoNat.
From Tawazi Require Import Graph Sched Dataflow.
Import ListNotations.

Section Iso.
Variable val : Type.
Variable vnone : val.
Variable truthy : val -> bool.
Variable index : val -> nat -> option val.
Variables tbl1 tbl2 : nat -> nodeT val.
Variables c1 c2 : cfg.
Variables res1 res2 : results val.
Variable rho : nat -> nat.

Definition rename_ref (r : ref) : ref := mkref (rho (r_id r)) (r_keys r).
Definition refs_of (n : nodeT val) : list ref :=
  n_args val n ++ match n_active val n with Some r => [r] | None => [] end.

Notation D2 := (fst (den_eval val vnone truthy index tbl2 c2 res2)).

(* system 2 may put an additional activation flag on an embedded node that has none in system 1
   (twz_active on a nested DAG call: the flag of the call, or one constant holder per node when the flag
   is a Python constant).  Such a flag must be DECIDED and TRUTHY in the denotation of system 2 for the
   embedding to preserve values. *)
Definition flag_on (g : ref) : Prop :=
  (exists v, rd val vnone index D2 g = Some v /\ truthy v = true) /\
  (In (r_id g) (R0 c2) -> has val D2 (r_id g) = true).

Record embeds : Prop := {
  em_nodes : forall n, In n (R0 c1) -> In (rho n) (R0 c2);
  em_fn : forall n vs, In n (R0 c1) -> n_fn val (tbl2 (rho n)) vs = n_fn val (tbl1 n) vs;
  em_args : forall n, In n (R0 c1) -> n_args val (tbl2 (rho n)) = map rename_ref (n_args val (tbl1 n));
  em_active : forall n, In n (R0 c1) ->
      match n_active val (tbl1 n) with
      | Some r => n_active val (tbl2 (rho n)) = Some (rename_ref r)
      | None => n_active val (tbl2 (rho n)) = None \/
                (exists g, n_active val (tbl2 (rho n)) = Some g /\ flag_on g)
      end;
  (* what is pre-computed in system 1 is what its image denotes in system 2 *)
  em_pre : forall p v, lookup val res1 p = Some v ->
      den val vnone truthy index tbl2 c2 res2 (rho p) = Some v;
  (* an id without value and outside the graph in system 1 (it reads as None) is so in system 2 *)
  em_absent : forall n r, In n (R0 c1) -> In r (refs_of (tbl1 n)) ->
      ~ In (r_id r) (R0 c1) -> has val res1 (r_id r) = false ->
      ~ In (rho (r_id r)) (R0 c2) /\ has val res2 (rho (r_id r)) = false
}.

(* a set of nodes of system 2 each carrying a flag whose value is falsy in the denotation *)
Definition flag_off (g : ref) : Prop := exists v, rd val vnone index D2 g = Some v /\ truthy v = false.
Definition all_flagged_off (Sd : list nat) : Prop :=
  forall n, In n Sd -> In n (R0 c2) /\ exists g, n_active val (tbl2 n) = Some g /\ flag_off g.
End Iso.
