(* Closure.v — the fuelled closures of Graph.v ([descendants_refl], [ancestors_refl]) compute
   reachability inside the node list: the fuel [length nodes] is enough (pigeonhole on the length of
   a duplicate-free accumulator included in [nodes]).  No acyclicity, no NoDup assumption on [nodes]. *)
From Coq Require Import List Arith Bool Lia PeanoNat.
From Tawazi Require Import Graph GraphFacts.
Import ListNotations.

Lemma iter_succ_r {A} k (f : A -> A) x : iter (S k) f x = f (iter k f x).
Proof.
  revert x. induction k as [|k IH]; intros x; [reflexivity|].
  change (iter (S k) f (f x) = f (iter k f (f x))). apply IH.
Qed.

(* ---- generic part: an extensive, monotone, NoDup-preserving step that stays inside [nodes]
        reaches a fixpoint (as a set) after [length nodes] iterations *)
Section Fix.
Variable nodes : list nat.
Variable f : list nat -> list nat.
Hypothesis f_ext : forall acc, incl acc (f acc).
Hypothesis f_nodup : forall acc, NoDup acc -> NoDup (f acc).
Hypothesis f_sub : forall acc, incl acc nodes -> incl (f acc) nodes.
Hypothesis f_mono : forall a b, incl a b -> incl (f a) (f b).

Lemma iter_nodup k acc : NoDup acc -> NoDup (iter k f acc).
Proof. revert acc. induction k as [|k IH]; intros acc H; simpl; auto. Qed.

Lemma iter_sub k acc : incl acc nodes -> incl (iter k f acc) nodes.
Proof. revert acc. induction k as [|k IH]; intros acc H; simpl; auto. Qed.

Lemma iter_ext k acc : incl acc (iter k f acc).
Proof.
  revert acc. induction k as [|k IH]; intros acc; simpl.
  - apply incl_refl.
  - eapply incl_tran; [apply f_ext|apply IH].
Qed.

Lemma iter_mono k a b : incl a b -> incl (iter k f a) (iter k f b).
Proof. revert a b. induction k as [|k IH]; intros a b H; simpl; auto. Qed.

Lemma grow_or_closed X : NoDup X -> incl (f X) X \/ length X < length (f X).
Proof.
  intros Hnd. destruct (le_lt_dec (length (f X)) (length X)) as [Hle|Hlt]; [left|right; exact Hlt].
  apply NoDup_length_incl; auto.
Qed.

Lemma iter_progress k acc : NoDup acc -> incl acc nodes ->
  incl (f (iter k f acc)) (iter k f acc) \/ length acc + k <= length (iter k f acc).
Proof.
  intros Hnd Hsub. induction k as [|k IH].
  - right. simpl. lia.
  - rewrite iter_succ_r. destruct IH as [Hc|Hl].
    + left. apply f_mono. exact Hc.
    + destruct (grow_or_closed (iter k f acc)) as [Hc|Hg].
      * apply iter_nodup; exact Hnd.
      * left. apply f_mono. exact Hc.
      * right. lia.
Qed.

(* the fuel is sufficient *)
Lemma iter_fixpoint acc : NoDup acc -> incl acc nodes ->
  incl (f (iter (length nodes) f acc)) (iter (length nodes) f acc).
Proof.
  intros Hnd Hsub. destruct (iter_progress (length nodes) acc Hnd Hsub) as [Hc|Hl]; [exact Hc|].
  set (X := iter (length nodes) f acc) in *.
  assert (HX : incl X nodes) by (apply iter_sub; exact Hsub).
  assert (HndX : NoDup X) by (apply iter_nodup; exact Hnd).
  assert (Hall : incl nodes X).
  { apply NoDup_length_incl; auto. lia. }
  eapply incl_tran; [apply f_sub; exact HX|exact Hall].
Qed.
End Fix.

Section C.
Variable preds : nat -> list nat.

(* path of length >= 0 inside the node list [nodes]: every node on it is in [nodes] *)
Inductive reach (nodes : list nat) : nat -> nat -> Prop :=
| reach_refl n : In n nodes -> reach nodes n n
| reach_step n m k : reach nodes n m -> In k nodes -> In m (preds k) -> reach nodes n k.

Lemma reach_in_l nodes a b : reach nodes a b -> In a nodes.
Proof. intros H. induction H as [n Hn|n m k Hnm IH Hk Hmk]; auto. Qed.

Lemma reach_in_r nodes a b : reach nodes a b -> In b nodes.
Proof. intros H. destruct H as [n Hn|n m k Hnm Hk Hmk]; auto. Qed.

Lemma reach_trans nodes a b c : reach nodes a b -> reach nodes b c -> reach nodes a c.
Proof.
  intros H1 H2. revert H1. induction H2 as [n Hn|n m k Hnm IH Hk Hmk]; intros H1; auto.
  apply (reach_step nodes a m k); auto.
Qed.

Lemma reach_edge nodes a b : In a nodes -> In b nodes -> In a (preds b) -> reach nodes a b.
Proof. intros Ha Hb Hab. apply (reach_step nodes a a b); auto. apply reach_refl; exact Ha. Qed.

Lemma reach_step_l nodes a b c : In a nodes -> In a (preds b) -> reach nodes b c -> reach nodes a c.
Proof.
  intros Ha Hab Hbc. eapply reach_trans; [|exact Hbc].
  apply reach_edge; auto. eapply reach_in_l; eauto.
Qed.

(* induction from the target side *)
Lemma reach_ind_l nodes (t : nat) (P : nat -> Prop) :
  (In t nodes -> P t) ->
  (forall a b, In a nodes -> In a (preds b) -> reach nodes b t -> P b -> P a) ->
  forall x, reach nodes x t -> P x.
Proof.
  intros Hr Hs x H. revert P Hr Hs.
  induction H as [n Hn|n m k Hnm IH Hk Hmk]; intros P Hr Hs.
  - apply Hr; exact Hn.
  - apply IH.
    + intros Hm. apply (Hs m k); auto. apply reach_refl; exact Hk.
    + intros a b Ha Hab Hbm Pb. apply (Hs a b); auto. apply (reach_step nodes b m k); auto.
Qed.

(* reach only depends on the element set of [nodes] *)
Lemma reach_ext nodes nodes' a b :
  (forall x, In x nodes <-> In x nodes') -> reach nodes a b -> reach nodes' a b.
Proof.
  intros He H. induction H as [n Hn|n m k Hnm IH Hk Hmk].
  - apply reach_refl. apply He; exact Hn.
  - apply (reach_step nodes' n m k); auto. apply He; exact Hk.
Qed.

Lemma reach_incl nodes nodes' a b : incl nodes nodes' -> reach nodes a b -> reach nodes' a b.
Proof.
  intros He H. induction H as [n Hn|n m k Hnm IH Hk Hmk].
  - apply reach_refl. apply He; exact Hn.
  - apply (reach_step nodes' n m k); auto.
Qed.

(* ---- the start set *)
Lemma In_start nodes srcs x : In x (inter (nodup Nat.eq_dec srcs) nodes) <-> In x srcs /\ In x nodes.
Proof. rewrite In_inter, nodup_In. tauto. Qed.
Lemma NoDup_start nodes srcs : NoDup (inter (nodup Nat.eq_dec srcs) nodes).
Proof. unfold inter. apply NoDup_filter, NoDup_nodup. Qed.
Lemma start_sub nodes srcs : incl (inter (nodup Nat.eq_dec srcs) nodes) nodes.
Proof. intros x Hx. apply In_start in Hx. tauto. Qed.

(* ---- descendants *)
Lemma In_step_desc nodes acc x :
  In x (step_desc preds nodes acc) <->
  In x acc \/ (In x nodes /\ exists p, In p (preds x) /\ In p acc).
Proof.
  unfold step_desc. rewrite In_union, filter_In, existsb_exists. split.
  - intros [H|[Hn [p [Hp Hm]]]]; [left; exact H|right]. split; [exact Hn|].
    exists p. split; [exact Hp|]. apply mem_In; exact Hm.
  - intros [H|[Hn [p [Hp Hm]]]]; [left; exact H|right]. split; [exact Hn|].
    exists p. split; [exact Hp|]. apply mem_In; exact Hm.
Qed.

Lemma step_desc_ext nodes acc : incl acc (step_desc preds nodes acc).
Proof. intros x Hx. apply In_step_desc. left; exact Hx. Qed.
Lemma step_desc_nodup nodes acc : NoDup acc -> NoDup (step_desc preds nodes acc).
Proof. intros H. unfold step_desc. apply NoDup_union; exact H. Qed.
Lemma step_desc_sub nodes acc : incl acc nodes -> incl (step_desc preds nodes acc) nodes.
Proof. intros H x Hx. apply In_step_desc in Hx. destruct Hx as [Hx|[Hx _]]; auto. Qed.
Lemma step_desc_mono nodes a b : incl a b -> incl (step_desc preds nodes a) (step_desc preds nodes b).
Proof.
  intros H x Hx. apply In_step_desc in Hx. apply In_step_desc.
  destruct Hx as [Hx|[Hn [p [Hp Hpa]]]]; [left; auto|right].
  split; [exact Hn|]. exists p. split; auto.
Qed.

Lemma iter_desc_sound nodes (S0 : list nat) k acc :
  (forall y, In y acc -> exists s, In s S0 /\ reach nodes s y) ->
  forall y, In y (iter k (step_desc preds nodes) acc) -> exists s, In s S0 /\ reach nodes s y.
Proof.
  revert acc. induction k as [|k IH]; intros acc Hacc y Hy; simpl in Hy; [auto|].
  apply (IH (step_desc preds nodes acc)); [|exact Hy].
  intros z Hz. apply In_step_desc in Hz. destruct Hz as [Hz|[Hn [p [Hp Hpa]]]]; [auto|].
  destruct (Hacc p Hpa) as [s [Hs Hr]]. exists s. split; [exact Hs|].
  apply (reach_step nodes s p z); auto.
Qed.

(* a fixpoint of the step that contains the sources contains everything reachable from them *)
Lemma desc_closed_complete nodes X s x :
  incl (step_desc preds nodes X) X -> In s X -> reach nodes s x -> In x X.
Proof.
  intros Hc Hs H. induction H as [n Hn|n m k Hnm IH Hk Hmk]; [exact Hs|].
  apply Hc. apply In_step_desc. right. split; [exact Hk|]. exists m. split; auto.
Qed.

Theorem descendants_refl_spec nodes srcs x :
  In x (descendants_refl preds nodes srcs) <-> exists s, In s srcs /\ reach nodes s x.
Proof.
  unfold descendants_refl. split.
  - apply iter_desc_sound. intros y Hy. apply In_start in Hy. destruct Hy as [Hs Hn].
    exists y. split; [exact Hs|]. apply reach_refl; exact Hn.
  - intros [s [Hs Hr]].
    apply (desc_closed_complete nodes _ s x).
    + apply iter_fixpoint.
      * apply step_desc_ext.
      * apply step_desc_nodup.
      * apply step_desc_sub.
      * apply step_desc_mono.
      * apply NoDup_start.
      * apply start_sub.
    + apply iter_ext; [apply step_desc_ext|]. apply In_start. split; [exact Hs|].
      eapply reach_in_l; eauto.
    + exact Hr.
Qed.

Theorem NoDup_descendants_refl nodes srcs : NoDup (descendants_refl preds nodes srcs).
Proof. unfold descendants_refl. apply iter_nodup; [apply step_desc_nodup|apply NoDup_start]. Qed.

Lemma descendants_refl_subset nodes srcs x : In x (descendants_refl preds nodes srcs) -> In x nodes.
Proof. intros H. apply descendants_refl_spec in H. destruct H as [s [_ Hr]]. eapply reach_in_r; eauto. Qed.

Lemma descendants_refl_mono nodes srcs srcs' :
  incl srcs srcs' -> incl (descendants_refl preds nodes srcs) (descendants_refl preds nodes srcs').
Proof.
  intros H x Hx. apply descendants_refl_spec in Hx. apply descendants_refl_spec.
  destruct Hx as [s [Hs Hr]]. exists s. split; auto.
Qed.

Lemma descendants_refl_src nodes srcs x : In x srcs -> In x nodes -> In x (descendants_refl preds nodes srcs).
Proof. intros Hs Hn. apply descendants_refl_spec. exists x. split; [exact Hs|apply reach_refl; exact Hn]. Qed.

(* ---- ancestors *)
Lemma In_step_anc nodes acc x :
  In x (step_anc preds nodes acc) <->
  In x acc \/ (In x nodes /\ exists m, In m nodes /\ In m acc /\ In x (preds m)).
Proof.
  unfold step_anc. rewrite In_union, filter_In, existsb_exists. split.
  - intros [H|[Hn [m [Hm Hb]]]]; [left; exact H|right]. split; [exact Hn|].
    apply andb_true_iff in Hb. destruct Hb as [Hb1 Hb2]. apply mem_In in Hb1. apply mem_In in Hb2.
    exists m. auto.
  - intros [H|[Hn [m [Hm [Hma Hxm]]]]]; [left; exact H|right]. split; [exact Hn|].
    exists m. split; [exact Hm|]. apply andb_true_iff. split; apply mem_In; assumption.
Qed.

Lemma step_anc_ext nodes acc : incl acc (step_anc preds nodes acc).
Proof. intros x Hx. apply In_step_anc. left; exact Hx. Qed.
Lemma step_anc_nodup nodes acc : NoDup acc -> NoDup (step_anc preds nodes acc).
Proof. intros H. unfold step_anc. apply NoDup_union; exact H. Qed.
Lemma step_anc_sub nodes acc : incl acc nodes -> incl (step_anc preds nodes acc) nodes.
Proof. intros H x Hx. apply In_step_anc in Hx. destruct Hx as [Hx|[Hx _]]; auto. Qed.
Lemma step_anc_mono nodes a b : incl a b -> incl (step_anc preds nodes a) (step_anc preds nodes b).
Proof.
  intros H x Hx. apply In_step_anc in Hx. apply In_step_anc.
  destruct Hx as [Hx|[Hn [m [Hm [Hma Hxm]]]]]; [left; auto|right].
  split; [exact Hn|]. exists m. auto.
Qed.

Lemma iter_anc_sound nodes (S0 : list nat) k acc :
  (forall y, In y acc -> exists t, In t S0 /\ reach nodes y t) ->
  forall y, In y (iter k (step_anc preds nodes) acc) -> exists t, In t S0 /\ reach nodes y t.
Proof.
  revert acc. induction k as [|k IH]; intros acc Hacc y Hy; simpl in Hy; [auto|].
  apply (IH (step_anc preds nodes acc)); [|exact Hy].
  intros z Hz. apply In_step_anc in Hz. destruct Hz as [Hz|[Hn [m [Hm [Hma Hzm]]]]]; [auto|].
  destruct (Hacc m Hma) as [t [Ht Hr]]. exists t. split; [exact Ht|].
  apply (reach_step_l nodes z m t); auto.
Qed.

Lemma anc_closed_complete nodes X t x :
  incl (step_anc preds nodes X) X -> In t X -> reach nodes x t -> In x X.
Proof.
  intros Hc Ht H. revert x H. apply reach_ind_l.
  - intros _. exact Ht.
  - intros a b Ha Hab Hbt Hb. apply Hc. apply In_step_anc. right. split; [exact Ha|].
    exists b. split; [eapply reach_in_l; eauto|]. auto.
Qed.

Theorem ancestors_refl_spec nodes srcs x :
  In x (ancestors_refl preds nodes srcs) <-> exists t, In t srcs /\ reach nodes x t.
Proof.
  unfold ancestors_refl. split.
  - apply iter_anc_sound. intros y Hy. apply In_start in Hy. destruct Hy as [Hs Hn].
    exists y. split; [exact Hs|]. apply reach_refl; exact Hn.
  - intros [t [Ht Hr]].
    apply (anc_closed_complete nodes _ t x).
    + apply iter_fixpoint.
      * apply step_anc_ext.
      * apply step_anc_nodup.
      * apply step_anc_sub.
      * apply step_anc_mono.
      * apply NoDup_start.
      * apply start_sub.
    + apply iter_ext; [apply step_anc_ext|]. apply In_start. split; [exact Ht|].
      eapply reach_in_r; eauto.
    + exact Hr.
Qed.

Theorem NoDup_ancestors_refl nodes srcs : NoDup (ancestors_refl preds nodes srcs).
Proof. unfold ancestors_refl. apply iter_nodup; [apply step_anc_nodup|apply NoDup_start]. Qed.

Lemma ancestors_refl_subset nodes srcs x : In x (ancestors_refl preds nodes srcs) -> In x nodes.
Proof. intros H. apply ancestors_refl_spec in H. destruct H as [t [_ Hr]]. eapply reach_in_l; eauto. Qed.

Lemma ancestors_refl_mono nodes srcs srcs' :
  incl srcs srcs' -> incl (ancestors_refl preds nodes srcs) (ancestors_refl preds nodes srcs').
Proof.
  intros H x Hx. apply ancestors_refl_spec in Hx. apply ancestors_refl_spec.
  destruct Hx as [t [Ht Hr]]. exists t. split; auto.
Qed.

Lemma ancestors_refl_src nodes srcs x : In x srcs -> In x nodes -> In x (ancestors_refl preds nodes srcs).
Proof. intros Hs Hn. apply ancestors_refl_spec. exists x. split; [exact Hs|apply reach_refl; exact Hn]. Qed.

(* duality: x is an ancestor of some t in srcs iff t ... *)
Lemma desc_anc_dual nodes a b :
  In b (descendants_refl preds nodes [a]) <-> In a (ancestors_refl preds nodes [b]).
Proof.
  rewrite descendants_refl_spec, ancestors_refl_spec. split.
  - intros [s [[Hs|[]] Hr]]. subst s. exists b. split; [left; reflexivity|exact Hr].
  - intros [t [[Ht|[]] Hr]]. subst t. exists a. split; [left; reflexivity|exact Hr].
Qed.

End C.

Print Assumptions descendants_refl_spec.
Print Assumptions ancestors_refl_spec.
Print Assumptions NoDup_descendants_refl.
Print Assumptions NoDup_ancestors_refl.
Print Assumptions descendants_refl_subset.
Print Assumptions ancestors_refl_subset.
