(* GreedyFacts.v — the documented execution order of a max_concurrency = 1 run (Greedy.v) IS the order in which
   every complete run of the scheduler model resolves its nodes.

   Main results
     greedy_order_perm        : wf c -> Permutation (greedy_order c) R0      (no duplicates, exactly the nodes to run)
     greedy_order_topological : wf c -> every node of greedy_order comes after its dependencies that are in R0
     greedy_is_the_order      : max_concurrency = 1, injective priorities, complete failure-free run
                                -> order_of ls = greedy_order c
     greedy_is_the_order_strong : the same without the hypothesis [Forall (good act) ls] (a run that reaches
                                PFinished cannot contain a failure, and the activation flags do not matter)
     greedy_example           : a concrete diamond on which all hypotheses hold (non-vacuity). *)
From Coq Require Import List Arith Bool Lia PeanoNat ZArith.
From Tawazi Require Import Graph GraphFacts Sched SchedInv SchedGhost SchedPrio Greedy.
Import ListNotations.
From Coq Require Import Permutation.

Section X.
Variable c : cfg.
Notation R0 := (diff (c_nodes c) (c_pre c)).

(* ------------------------------------------------------------------ argmax / pick_greedy *)
Lemma argmax_spec l : forall best,
  In (argmax c l best) (best :: l) /\
  forall m, In m (best :: l) -> (c_prio c m <= c_prio c (argmax c l best))%Z.
Proof.
  induction l as [|x l IH]; intros best; cbn [argmax].
  - split; [left; reflexivity|]. intros m [E|[]]. subst m. apply Z.le_refl.
  - destruct (Z.ltb (c_prio c best) (c_prio c x)) eqn:E.
    + apply Z.ltb_lt in E. destruct (IH x) as [Hin Hmax]. split.
      * destruct Hin as [Hin|Hin]; [right; left; exact Hin|right; right; exact Hin].
      * intros m [Hm|[Hm|Hm]].
        -- subst m. apply Z.le_trans with (c_prio c x); [apply Z.lt_le_incl; exact E|].
           apply Hmax. left. reflexivity.
        -- subst m. apply Hmax. left. reflexivity.
        -- apply Hmax. right. exact Hm.
    + apply Z.ltb_ge in E. destruct (IH best) as [Hin Hmax]. split.
      * destruct Hin as [Hin|Hin]; [left; exact Hin|right; right; exact Hin].
      * intros m [Hm|[Hm|Hm]].
        -- subst m. apply Hmax. left. reflexivity.
        -- subst m. apply Z.le_trans with (c_prio c best); [exact E|].
           apply Hmax. left. reflexivity.
        -- apply Hmax. right. exact Hm.
Qed.

Lemma pick_greedy_some rem n : pick_greedy c rem = Some n ->
  In n (roots (c_preds c) rem) /\
  forall m, In m (roots (c_preds c) rem) -> (c_prio c m <= c_prio c n)%Z.
Proof.
  unfold pick_greedy. destruct (roots (c_preds c) rem) as [|x r]; [discriminate|].
  intros H. inversion H; subst n. apply argmax_spec.
Qed.

Lemma pick_greedy_none rem : pick_greedy c rem = None -> roots (c_preds c) rem = [].
Proof. unfold pick_greedy. destruct (roots (c_preds c) rem); [reflexivity|discriminate]. Qed.

Lemma pick_greedy_root rem n : pick_greedy c rem = Some n -> is_root (c_preds c) rem n = true.
Proof. intros H. destruct (pick_greedy_some rem n H) as [Hn _]. apply In_roots. exact Hn. Qed.

Lemma pick_greedy_in rem n : pick_greedy c rem = Some n -> In n rem.
Proof. intros H. apply pick_greedy_root in H. apply is_root_spec in H. tauto. Qed.

(* without priority ties inside rem, a root of maximal priority is THE node pick_greedy returns *)
Lemma pick_greedy_unique rem n :
  (forall a b, In a rem -> In b rem -> c_prio c a = c_prio c b -> a = b) ->
  is_root (c_preds c) rem n = true ->
  (forall m, is_root (c_preds c) rem m = true -> (c_prio c m <= c_prio c n)%Z) ->
  pick_greedy c rem = Some n.
Proof.
  intros J Hn Hmax. destruct (pick_greedy c rem) as [a|] eqn:E.
  - destruct (pick_greedy_some rem a E) as [Ha Hamax]. f_equal. apply J.
    + apply (pick_greedy_in rem a E).
    + apply is_root_spec in Hn. tauto.
    + apply Z.le_antisymm.
      * apply Hmax. apply In_roots. exact Ha.
      * apply Hamax. apply In_roots. exact Hn.
  - apply pick_greedy_none in E. apply In_roots in Hn. rewrite E in Hn. destruct Hn.
Qed.

(* ------------------------------------------------------------------ greedy: a duplicate-free enumeration *)
Lemma greedy_sub k : forall rem m, In m (greedy c k rem) -> In m rem.
Proof.
  induction k as [|k IH]; intros rem m H; cbn [greedy] in H; [destruct H|].
  destruct (pick_greedy c rem) as [n|] eqn:E; [|destruct H].
  destruct H as [H|H].
  - subst m. apply (pick_greedy_in rem n E).
  - apply IH in H. apply In_remove1 in H. tauto.
Qed.

Lemma greedy_nodup k : forall rem, NoDup (greedy c k rem).
Proof.
  induction k as [|k IH]; intros rem; cbn [greedy]; [constructor|].
  destruct (pick_greedy c rem) as [n|]; [|constructor]. constructor; [|apply IH].
  intros H. apply greedy_sub in H. apply In_remove1 in H. destruct H as [_ H]. apply H. reflexivity.
Qed.

Lemma greedy_complete (rank : nat -> nat) k : forall rem, NoDup rem -> length rem <= k ->
  (forall n p, In n rem -> In p (c_preds c n) -> In p rem -> rank p < rank n) ->
  forall m, In m rem -> In m (greedy c k rem).
Proof.
  induction k as [|k IH]; intros rem Hnd Hlen Hrk m Hm.
  - destruct rem; [destruct Hm|simpl in Hlen; lia].
  - cbn [greedy]. destruct (pick_greedy c rem) as [n|] eqn:E.
    + pose proof (pick_greedy_in rem n E) as Hn.
      destruct (Nat.eq_dec m n) as [->|Hne]; [left; reflexivity|right].
      apply IH.
      * apply NoDup_remove1. exact Hnd.
      * pose proof (length_remove1_In n rem Hnd Hn). lia.
      * intros a p Ha Hp Hpr. apply In_remove1 in Ha. apply In_remove1 in Hpr. apply Hrk; tauto.
      * apply In_remove1. split; assumption.
    + exfalso. apply pick_greedy_none in E.
      assert (Hne : rem <> []) by (intros X; rewrite X in Hm; destruct Hm).
      destruct (exists_root (c_preds c) rank rem Hrk Hne) as [r Hr].
      apply In_roots in Hr. rewrite E in Hr. destruct Hr.
Qed.

(* every element comes after its dependencies that are still in the list handed to greedy *)
Lemma greedy_topological k : forall rem pre n post,
  greedy c k rem = pre ++ n :: post ->
  forall p, In p (c_preds c n) -> In p rem -> In p pre.
Proof.
  induction k as [|k IH]; intros rem pre n post H p Hp Hpr; cbn [greedy] in H.
  - destruct pre; discriminate.
  - destruct (pick_greedy c rem) as [a|] eqn:E; [|destruct pre; discriminate].
    destruct pre as [|b pre]; simpl in H; inversion H; subst.
    + exfalso. apply pick_greedy_root in E. apply is_root_spec in E. destruct E as [_ E]. apply (E p Hp Hpr).
    + destruct (Nat.eq_dec b p) as [->|Hne]; [left; reflexivity|right].
      apply (IH (remove1 b rem) pre n post H2 p Hp). apply In_remove1. split; [exact Hpr|]. congruence.
Qed.

Lemma greedy_order_sub m : In m (greedy_order c) -> In m R0.
Proof. unfold greedy_order. cbv zeta. apply greedy_sub. Qed.

Lemma greedy_order_nodup : NoDup (greedy_order c).
Proof. unfold greedy_order. cbv zeta. apply greedy_nodup. Qed.

Lemma acyclic_R0 : wf c -> exists rank : nat -> nat,
  forall n p, In n R0 -> In p (c_preds c n) -> In p R0 -> rank p < rank n.
Proof.
  intros W. destruct (wf_acyclic c W) as [rank Hrk]. exists rank.
  intros n p Hn Hp Hpr. apply In_diff in Hn. apply In_diff in Hpr. apply Hrk; tauto.
Qed.

Lemma greedy_order_complete m : wf c -> In m R0 -> In m (greedy_order c).
Proof.
  intros W Hm. destruct (acyclic_R0 W) as [rank Hrk]. unfold greedy_order. cbv zeta.
  apply (greedy_complete rank); auto.
  apply NoDup_diff. apply (wf_nodup c W).
Qed.

Theorem greedy_order_perm : wf c -> Permutation (greedy_order c) R0.
Proof.
  intros W. apply NoDup_Permutation.
  - apply greedy_order_nodup.
  - apply NoDup_diff. apply (wf_nodup c W).
  - intros x. split; [apply greedy_order_sub|apply greedy_order_complete; exact W].
Qed.

Corollary greedy_order_length : wf c -> length (greedy_order c) = length R0.
Proof. intros W. apply Permutation_length. apply greedy_order_perm. exact W. Qed.

Theorem greedy_order_topological pre n post p :
  greedy_order c = pre ++ n :: post -> In p (c_preds c n) -> In p R0 -> In p pre.
Proof. unfold greedy_order. cbv zeta. intros H Hp Hpr. apply (greedy_topological _ _ _ _ _ H p Hp Hpr). Qed.

(* ------------------------------------------------------------------ the unresolved nodes of a state *)
(* the nodes the scheduler has not yet resolved: the remaining graph minus the (at most one, when
   max_concurrency = 1) node handed to the pool / the event loop and not yet observed finished *)
Definition unres (s : state) : list nat :=
  match infl s with [] => rem s | n :: _ => remove1 n (rem s) end.

(* what is left of the documented order in state s *)
Definition rest (s : state) : list nat := greedy c (length (unres s)) (unres s).

Lemma unres_eq s' s : rem s' = rem s -> conc s' = conc s -> asyn s' = asyn s -> unres s' = unres s.
Proof. unfold unres, infl. intros -> -> ->. reflexivity. Qed.

Lemma single_infl s n : running s <= 1 -> In n (infl s) -> infl s = [n].
Proof.
  rewrite running_infl. intros L Hn. destruct (infl s) as [|a [|b l]]; simpl in *.
  - destruct Hn.
  - destruct Hn as [->|[]]. reflexivity.
  - lia.
Qed.

Lemma complete_unres k s n : running s <= 1 -> In n (inflight s k) ->
  unres (complete c k s n) = unres s /\ running (complete c k s n) <= 1.
Proof.
  intros L Hn. split.
  - pose proof (single_infl s n L (inflight_infl s k n Hn)) as E.
    unfold unres. rewrite (infl_single_complete c k s n E Hn), E, complete_rem. reflexivity.
  - pose proof (running_complete c k s n Hn). lia.
Qed.

Lemma completes_unres k ns s : running s <= 1 ->
  (forall pre n post, ns = pre ++ n :: post -> In n (inflight (completes c k s pre) k)) ->
  unres (completes c k s ns) = unres s.
Proof.
  intros L Hin.
  assert (H : unres (completes c k s ns) = unres s /\ running (completes c k s ns) <= 1).
  { apply (completes_ind c (fun t => unres t = unres s /\ running t <= 1) k); auto.
    intros t n [Ha Hb] Hn. destruct (complete_unres k t n Hb Hn) as [E1 E2]. split; [congruence|exact E2]. }
  tauto.
Qed.

(* the node the scheduler holds (after the pick, before it is resolved) is the greedy choice, and nothing is in flight *)
Lemma held_is_greedy s n : wf c -> c_maxc c = 1 -> prio_injective c -> reachable c s ->
  (pc s = PActive n \/ pc s = PDisp n) ->
  infl s = [] /\ pick_greedy c (rem s) = Some n /\ S (length (remove1 n (rem s))) = length (rem s).
Proof.
  intros W M J R P.
  pose proof (reachable_Inv c s W R) as I.
  assert (A : alive s) by (intros x E; destruct P as [P|P]; rewrite P in E; discriminate).
  pose proof (inv1 c s I A) as I1. pose proof (inv2 c s I) as I2.
  assert (Hinfl : infl s = []).
  { assert (L : running s < c_maxc c) by (apply (j_lt c s I2); destruct P as [P|P]; rewrite P; reflexivity).
    rewrite M, running_infl in L. destruct (infl s); [reflexivity|simpl in L; lia]. }
  destruct (held_target_in_graph c s n I P) as [Hin Hroot].
  split; [exact Hinfl|]. split.
  - apply pick_greedy_unique.
    + intros a b Ha Hb. apply J.
      * apply (i_sub c s I1) in Ha. apply In_diff in Ha. tauto.
      * apply (i_sub c s I1) in Hb. apply In_diff in Hb. tauto.
    + exact Hroot.
    + intros m Hm.
      assert (Hr : ready c s m).
      { split; [exact Hm|]. change (conc s ++ asyn s) with (infl s). rewrite Hinfl. intros []. }
      apply (ready_iff c s m W R A) in Hr.
      assert (Hc : cur (pc s) = [n]) by (destruct P as [P|P]; rewrite P; reflexivity).
      rewrite Hc in Hr. destruct Hr as [Hr|[Hr|[]]].
      * apply (p_cur c s (reachable_InvP c s R) n P m Hr).
      * subst m. apply Z.le_refl.
  - apply length_remove1_In; [apply (i_rem c s I1)|exact Hin].
Qed.

(* ------------------------------------------------------------------ one step *)
Definition res_of (l : label) : list nat :=
  match l with
  | LSubmit _ n => [n]
  | LInline n _ => [n]
  | LActive n false => [n]
  | _ => []
  end.

Lemma order_of_cons l ls : order_of (l :: ls) = res_of l ++ order_of ls.
Proof. reflexivity. Qed.

Lemma step_greedy s l s1 : wf c -> c_maxc c = 1 -> prio_injective c -> reachable c s ->
  step c s l = Some s1 -> alive s1 -> rest s = res_of l ++ rest s1.
Proof.
  intros W M J R H A1. apply step_trans in H.
  pose proof (reachable_Inv c s W R) as I. pose proof (inv2 c s I) as I2.
  assert (L : running s <= 1) by (rewrite <- M; apply (j_bound c s I2)).
  assert (Same : forall t, unres t = unres s -> rest s = rest t).
  { intros t E. unfold rest. rewrite E. reflexivity. }
  assert (Res : forall n t, (pc s = PActive n \/ pc s = PDisp n) ->
            (infl s = [] -> unres t = remove1 n (rem s)) -> rest s = n :: rest t).
  { intros n t P E. destruct (held_is_greedy s n W M J R P) as [Hi [Hp Hl]].
    unfold rest. rewrite (E Hi).
    assert (Es : unres s = rem s) by (unfold unres; rewrite Hi; reflexivity).
    rewrite Es, <- Hl. cbn [greedy]. rewrite Hp. reflexivity. }
  destruct H as [ t Hpc Hrem
                | t k m nx Hws Hinf
                | t k m nx dones ns t1 Hws Hinf Hdn Hdones Ht1 Hpre Hall
                | t k m nx dones ns f t1 Hws Hinf Hdones Ht1 Hpre Hf
                | t n Hpc Hmax Hseq Hrn
                | t n Hpc Hmax Hrn
                | t n Hpc
                | t n Hpc
                | t n Hpc Hres
                | t n Hpc Hres
                | t n Hpc Hres
                | t n Hpc Hres ]; cbn [res_of app].
  - apply Same. apply unres_eq; reflexivity.
  - apply Same. apply unres_eq; reflexivity.
  - subst t1. apply Same. transitivity (unres (completes c k t ns)).
    + apply unres_eq; reflexivity.
    + apply completes_unres; auto.
  - subst t1. apply Same. transitivity (unres (completes c k t ns)).
    + apply unres_eq; reflexivity.
    + apply completes_unres; auto.
  - apply Same. apply unres_eq; reflexivity.
  - apply Same. apply unres_eq; reflexivity.
  - apply Same. apply unres_eq; reflexivity.
  - (* skip *) apply Res; [left; exact Hpc|]. intros Hi. unfold unres, infl.
    cbn [set_pc mark_skipped conc asyn rem]. rewrite remove_node_conc, remove_node_asyn, remove_node_rem.
    fold (infl t). rewrite Hi. reflexivity.
  - (* submit thread *) apply Res; [right; exact Hpc|]. intros Hi. apply infl_nil in Hi. destruct Hi as [Hc Ha].
    unfold unres, infl. cbn [set_pc mark_started set_inflight conc asyn rem]. rewrite Ha. reflexivity.
  - (* submit async *) apply Res; [right; exact Hpc|]. intros Hi. apply infl_nil in Hi. destruct Hi as [Hc Ha].
    unfold unres, infl. cbn [set_pc mark_started set_inflight conc asyn rem]. rewrite Hc. reflexivity.
  - (* inline ok *) apply Res; [right; exact Hpc|]. intros Hi. unfold unres, infl.
    cbn [set_pc mark_finished conc asyn rem]. rewrite remove_node_conc, remove_node_asyn, remove_node_rem.
    cbn [mark_started conc asyn rem]. fold (infl t). rewrite Hi. reflexivity.
  - (* inline fail *) exfalso. apply (A1 n). reflexivity.
Qed.

(* ------------------------------------------------------------------ whole runs *)
Lemma run_alive ls s s' : run c s ls = Some s' -> pc s' = PFinished -> alive s.
Proof.
  destruct ls as [|l ls]; simpl; intros H P.
  - inversion H; subst s'. intros n E. rewrite P in E. discriminate.
  - destruct (step c s l) as [s1|] eqn:E; [|discriminate]. apply (step_alive c s l s1 E).
Qed.

(* from ANY reachable state: the rest of a complete run resolves the rest of the documented order *)
Theorem greedy_from ls : wf c -> c_maxc c = 1 -> prio_injective c ->
  forall s s', reachable c s -> run c s ls = Some s' -> pc s' = PFinished -> order_of ls = rest s.
Proof.
  intros W M J. induction ls as [|l ls IH]; intros s s' R H P.
  - simpl in H. inversion H; subst s'.
    destruct (finished_means_all_ran c s W R P) as [Hr [Hc [Ha _]]].
    unfold rest, unres, infl. rewrite Hc, Ha, Hr. reflexivity.
  - simpl in H. destruct (step c s l) as [s1|] eqn:E; [|discriminate].
    rewrite order_of_cons. rewrite (IH s1 s' (reachable_step c s l s1 R E) H P).
    symmetry. apply step_greedy; auto. apply (run_alive ls s1 s' H P).
Qed.

Lemma rest_init : rest (init c) = greedy_order c.
Proof. reflexivity. Qed.

(* the hypothesis that no node fails is implied by the run reaching PFinished; the activation flags are free *)
Theorem greedy_is_the_order_strong (ls : list label) (s : state) :
  wf c -> c_maxc c = 1 -> prio_injective c ->
  run c (init c) ls = Some s -> pc s = PFinished ->
  order_of ls = greedy_order c.
Proof.
  intros W M J H P. rewrite <- rest_init.
  apply (greedy_from ls W M J (init c) s); auto. exists []. reflexivity.
Qed.

Theorem greedy_is_the_order (act : nat -> bool) (ls : list label) (s : state) :
  wf c -> c_maxc c = 1 -> prio_injective c ->
  run c (init c) ls = Some s -> pc s = PFinished ->
  Forall (good act) ls ->
  order_of ls = greedy_order c.
Proof. intros W M J H P _. apply (greedy_is_the_order_strong ls s W M J H P). Qed.

(* consequences: the resolved nodes of a complete run are exactly R0, each once *)
Corollary order_of_perm (ls : list label) (s : state) :
  wf c -> c_maxc c = 1 -> prio_injective c ->
  run c (init c) ls = Some s -> pc s = PFinished ->
  Permutation (order_of ls) R0.
Proof. intros W M J H P. rewrite (greedy_is_the_order_strong ls s W M J H P). apply greedy_order_perm. exact W. Qed.

End X.

(* ------------------------------------------------------------------ non-vacuity: a diamond *)
(* 0 -> {1, 2} -> 3; priorities 0:1, 1:2, 2:5, 3:0; node 0 on the thread pool, node 2 on the event loop,
   node 1 deactivated by its flag, node 3 executed inline *)
Definition cfgD : cfg :=
  {| c_nodes := [0; 1; 2; 3]; c_pre := [];
     c_preds := fun n => match n with 1 => [0] | 2 => [0] | 3 => [1; 2] | _ => [] end;
     c_seq := fun _ => false;
     c_res := fun n => match n with 0 => RThread | 2 => RAsync | _ => RMain end;
     c_prio := fun n => match n with 0 => 1%Z | 1 => 2%Z | 2 => 5%Z | _ => 0%Z end;
     c_maxc := 1 |}.
Definition actD (n : nat) : bool := negb (Nat.eqb n 1).
Definition lsD : list label :=
  [ LPick 0; LActive 0 true; LSubmit KC 0;
    LWait KA MFirst []; LWait KC MFirst [(0, true)];
    LPick 2; LActive 2 true; LSubmit KA 2;
    LWait KA MFirst [(2, true)]; LWait KC MFirst [];
    LPick 1; LActive 1 false;
    LPick 3; LActive 3 true; LInline 3 true;
    LEnd ].

Lemma wf_cfgD : wf cfgD.
Proof. constructor.
  - repeat constructor; simpl; intuition discriminate.
  - simpl. lia.
  - exists (fun n => match n with 0 => 0 | 3 => 2 | _ => 1 end). simpl.
    intros n p Hn Hp _.
    destruct Hn as [<-|[<-|[<-|[<-|[]]]]]; simpl in Hp;
      repeat (destruct Hp as [<-|Hp]; [lia|]); destruct Hp.
Qed.

Lemma inj_cfgD : prio_injective cfgD.
Proof.
  intros a b Ha Hb. simpl in Ha, Hb.
  destruct Ha as [<-|[<-|[<-|[<-|[]]]]]; destruct Hb as [<-|[<-|[<-|[<-|[]]]]]; simpl; intros E;
    try reflexivity; discriminate.
Qed.

Lemma good_lsD : Forall (good actD) lsD.
Proof.
  unfold lsD.
  repeat (apply Forall_cons;
          [cbn [good]; try exact I; try reflexivity;
           try (intros x b H; simpl in H; intuition congruence)|]).
  apply Forall_nil.
Qed.

Example greedy_order_cfgD : greedy_order cfgD = [0; 2; 1; 3].
Proof. vm_compute. reflexivity. Qed.

Example greedy_example_direct : order_of lsD = greedy_order cfgD.
Proof. vm_compute. reflexivity. Qed.

(* all the hypotheses of the theorem hold of this run, so the theorem is not vacuous *)
Example greedy_example : exists s,
  wf cfgD /\ c_maxc cfgD = 1 /\ prio_injective cfgD /\
  run cfgD (init cfgD) lsD = Some s /\ pc s = PFinished /\ Forall (good actD) lsD /\
  order_of lsD = greedy_order cfgD.
Proof.
  eexists. split; [exact wf_cfgD|]. split; [reflexivity|]. split; [exact inj_cfgD|].
  split; [vm_compute; reflexivity|]. split; [reflexivity|]. split; [exact good_lsD|].
  reflexivity.
Qed.

Example greedy_example_by_theorem : order_of lsD = greedy_order cfgD.
Proof.
  destruct greedy_example as [s [W [M [J [H [P [G _]]]]]]].
  exact (greedy_is_the_order cfgD actD lsD s W M J H P G).
Qed.

Print Assumptions greedy_is_the_order.
Print Assumptions greedy_is_the_order_strong.
Print Assumptions greedy_from.
Print Assumptions greedy_order_perm.
Print Assumptions greedy_order_topological.
Print Assumptions order_of_perm.
Print Assumptions greedy_example.
Print Assumptions greedy_example_by_theorem.
