(* History.v — what a DAG instance carries from one operation to the next (tawazi/_dag/dag.py:
   DAG.__call__ / run_subgraph 631-668, DAG.setup 597-628, DAGExecution 941-1148) at the level of node
   sets: which nodes an operation executes, given what the instance already holds.  Definitions only.

   The only state of an instance is the set of setup nodes whose result is stored in dag.results
   ([i_done]); constants / defaults are stored at build time ([d_const]).  An operation hands
   async_execute a graph (Select.v) and a results dict; the scheduler starts exactly the graph nodes
   without a result (Sched: started = nodes \ pre, theorem C03_exactly_once). *)
From Coq Require Import List Arith Bool PeanoNat.
From Tawazi Require Import Graph Select.
Import ListNotations.

Record dagT := mkdag {
  d_nodes : list nat;
  d_preds : nat -> list nat;
  d_debug : nat -> bool;
  d_setup : nat -> bool;
  d_const : list nat;        (* ids with a value at build time: constants, defaults of DAG parameters *)
  d_inputs : list nat        (* ArgExecNode ids of the DAG parameters, in order *)
}.

Record inst := mkinst { i_done : list nat }.   (* setup nodes whose result is stored on the instance *)

Inductive op :=
| OCall (nargs : nat) (run_debug : bool) (ok : bool)
| OSetup (target exclude root : option (list nat)) (ok : bool)
| OExec (target exclude root : option (list nat)) (run_debug : bool) (nargs : nat)
        (from_cache : list nat)      (* keys of the cache file loaded by from_cache ([] = none) *)
        (ok : bool).

Definition op_ok (o : op) : bool :=
  match o with OCall _ _ ok => ok | OSetup _ _ _ ok => ok | OExec _ _ _ _ _ _ ok => ok end.

Definition op_graph (d : dagT) (o : op) : sel_result :=
  match o with
  | OCall _ dbg _ => SelOk (call_graph (d_preds d) (d_debug d) (d_nodes d) dbg)
  | OSetup t x r _ => setup_graph (d_preds d) (d_setup d) (d_nodes d) t x r
  | OExec t x r dbg _ _ _ => executor_graph (d_preds d) (d_debug d) (d_nodes d) t x r dbg
  end.

(* ids that have a result when the scheduler starts *)
Definition op_pre (d : dagT) (i : inst) (o : op) : list nat :=
  d_const d ++ i_done i ++
  match o with
  | OCall nargs _ _ => firstn nargs (d_inputs d)
  | OSetup _ _ _ _ => []
  | OExec _ _ _ _ nargs cache _ => firstn nargs (d_inputs d) ++ cache
  end.

(* nodes whose function is entered by a SUCCESSFUL operation (a failing one enters a subset);
   None: the operation is refused with ValueError before anything runs *)
Definition op_executes (d : dagT) (i : inst) (o : op) : option (list nat) :=
  match op_graph d o with
  | SelValueError => None
  | SelOk g => Some (diff g (op_pre d i o))
  end.

(* a successful operation stores the results of the setup nodes it executed; a failing one stores nothing *)
Definition op_step (d : dagT) (i : inst) (o : op) : inst :=
  match op_executes d i o with
  | Some ex => if op_ok o then mkinst (i_done i ++ filter (d_setup d) ex) else i
  | None => i
  end.

Fixpoint hist_run (d : dagT) (i : inst) (ops : list op) : list (option (list nat)) * inst :=
  match ops with
  | [] => ([], i)
  | o :: r => let '(l, i') := hist_run d (op_step d i o) r in (op_executes d i o :: l, i')
  end.

(* the results a run leaves in its cache file (dag.py:1036-1056): everything the execution holds at the
   end, minus the nodes named by cache_deps_of *)
Definition cache_keys (d : dagT) (i : inst) (o : op) (deps_of : list nat) : list nat :=
  match op_graph d o with
  | SelValueError => []
  | SelOk g => diff (nodup Nat.eq_dec (op_pre d i o ++ g)) deps_of
  end.

(* flat encoding for the harness: per operation 0 = ValueError, 1 :: executed ids; operations separated by 999999 is avoided: lengths first *)
Definition enc_exec (r : option (list nat)) : list nat :=
  match r with None => [0] | Some l => 1 :: length l :: l end.
Definition khist (d : dagT) (ops : list op) : list nat :=
  flat_map enc_exec (fst (hist_run d (mkinst []) ops)).
