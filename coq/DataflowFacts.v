(* DataflowFacts.v — every schedule computes the same values: the denotation (C01/C02/C10).
   T1 vrun_run, T2 results_grow / results_keys / results_extend, T3 sched_computes_den,
   T4 finished_run_equals_den, T5 schedule_independent, T6 sequential_equals_den,
   T7 flag_label_is_truthiness. *)
From Coq Require Import List Arith Bool Lia PeanoNat ZArith Permutation.
From Tawazi Require Import Graph GraphFacts Sched SchedInv SchedGhost Dataflow.
Import ListNotations.

(* ------------------------------------------------------------------ generic list facts *)
Lemma fold_left_inv {A B} (f : A -> B -> A) (P : A -> Prop) (l : list B) :
  (forall a b, In b l -> P a -> P (f a b)) -> forall a, P a -> P (fold_left f l a).
Proof.
  induction l as [|b l IH]; intros Hf a Ha; simpl; [exact Ha|].
  apply IH.
  - intros a0 b0 Hb0. apply Hf. right. exact Hb0.
  - apply Hf; [left; reflexivity|exact Ha].
Qed.

Lemma iter_inv {A} (f : A -> A) (P : A -> Prop) :
  (forall a, P a -> P (f a)) -> forall k a, P a -> P (iter k f a).
Proof. intros Hf. induction k as [|k IH]; intros a Ha; simpl; [exact Ha|]. apply IH. apply Hf. exact Ha. Qed.

Lemma iter_fix {A} (f : A -> A) x : f x = x -> forall k, iter k f x = x.
Proof. intros E. induction k as [|k IH]; simpl; [reflexivity|]. rewrite E. exact IH. Qed.

Lemma filter_len_le (f g : nat -> bool) l :
  (forall x, In x l -> f x = true -> g x = true) -> length (filter f l) <= length (filter g l).
Proof.
  induction l as [|a l IH]; intros H; simpl; [lia|].
  assert (IH' : length (filter f l) <= length (filter g l)) by (apply IH; intros x Hx; apply H; right; exact Hx).
  destruct (f a) eqn:Ef.
  - rewrite (H a (or_introl eq_refl) Ef). simpl. lia.
  - destruct (g a); simpl; lia.
Qed.

Lemma filter_len_lt (f g : nat -> bool) l x :
  (forall y, In y l -> f y = true -> g y = true) -> In x l -> f x = false -> g x = true ->
  length (filter f l) < length (filter g l).
Proof.
  induction l as [|a l IH]; intros H Hx Hf Hg; simpl; [destruct Hx|].
  assert (Hsub : forall y, In y l -> f y = true -> g y = true) by (intros y Hy; apply H; right; exact Hy).
  pose proof (filter_len_le f g l Hsub) as Hle.
  destruct Hx as [->|Hx].
  - rewrite Hf, Hg. simpl. lia.
  - specialize (IH Hsub Hx Hf Hg). destruct (f a) eqn:Ef.
    + rewrite (H a (or_introl eq_refl) Ef). simpl. lia.
    + destruct (g a); simpl; lia.
Qed.

Lemma filter_len_all (f : nat -> bool) l : length (filter f l) <= length l.
Proof. induction l as [|a l IH]; simpl; [lia|]. destruct (f a); simpl; lia. Qed.

Lemma filter_nil_all (f : nat -> bool) l : length (filter f l) = 0 -> forall x, In x l -> f x = false.
Proof.
  induction l as [|a l IH]; intros H x Hx; simpl in *; [destruct Hx|].
  destruct (f a) eqn:Ef; simpl in H; [lia|]. destruct Hx as [<-|Hx]; [exact Ef|apply IH; assumption].
Qed.

Section DF.
Variable val : Type.
Variable vnone : val.
Variable truthy : val -> bool.
Variable index : val -> nat -> option val.
Variable tbl : nat -> nodeT val.
Variable c : cfg.
Variable res0 : results val.

Notation lookup' := (lookup val).
Notation has' := (has val).
Notation rd' := (rd val vnone index).
Notation rd_all' := (rd_all val vnone index).
Notation exec' := (exec_node val vnone index tbl).
Notation flag' := (flag val vnone truthy index tbl).
Notation deps' := (deps_of val tbl).
Notation store' := (store_dones val vnone index tbl).
Notation vlabel' := (vlabel val vnone truthy index tbl).
Notation vstep' := (vstep val vnone truthy index tbl c).
Notation vrun' := (vrun val vnone truthy index tbl c).
Notation consistent' := (consistent val tbl c).
Notation computable' := (computable val tbl c).
Notation eval_one' := (eval_one val vnone truthy index tbl c).
Notation sweep' := (sweep val vnone truthy index tbl c).
Notation den_eval' := (den_eval val vnone truthy index tbl c).
Notation den' := (den val vnone truthy index tbl c).
Notation R0 := (diff (c_nodes c) (c_pre c)).
Notation acc := (results val * list nat)%type.

(* ------------------------------------------------------------------ results as finite maps *)
Lemma lookup_cons (A : results val) k v n :
  lookup' ((k, v) :: A) n = if Nat.eqb k n then Some v else lookup' A n.
Proof. reflexivity. Qed.

Lemma has_true (A : results val) n : has' A n = true <-> exists v, lookup' A n = Some v.
Proof. unfold has. destruct (lookup' A n) as [v|]; split.
  - intros _. exists v. reflexivity.
  - intros _. reflexivity.
  - discriminate.
  - intros [v E]. discriminate.
Qed.
Lemma has_false (A : results val) n : has' A n = false <-> lookup' A n = None.
Proof. unfold has. destruct (lookup' A n); split; congruence. Qed.
Lemma lookup_has (A : results val) n v : lookup' A n = Some v -> has' A n = true.
Proof. intros E. apply has_true. exists v. exact E. Qed.

Lemma has_cons (A : results val) k v n : has' ((k, v) :: A) n = Nat.eqb k n || has' A n.
Proof. unfold has. rewrite lookup_cons. destruct (Nat.eqb k n); reflexivity. Qed.

Definition ext (A B : results val) : Prop := forall n v, lookup' A n = Some v -> lookup' B n = Some v.
(* B extends A by ids of selected nodes only *)
Definition le (A B : results val) : Prop :=
  ext A B /\ forall n, has' B n = true -> has' A n = true \/ In n R0.

Lemma ext_refl A : ext A A.
Proof. intros n v E. exact E. Qed.
Lemma ext_trans A B C : ext A B -> ext B C -> ext A C.
Proof. intros H1 H2 n v E. apply H2, H1, E. Qed.
Lemma le_refl A : le A A.
Proof. split; [apply ext_refl|]. intros n H. left. exact H. Qed.

Lemma ext_cons A n v : has' A n = false -> ext A ((n, v) :: A).
Proof.
  intros Hn k w E. rewrite lookup_cons. destruct (Nat.eqb_spec n k) as [->|Hne]; [|exact E].
  apply has_false in Hn. congruence.
Qed.
Lemma le_cons A n v : has' A n = false -> In n R0 -> le A ((n, v) :: A).
Proof.
  intros Hn HR. split; [apply ext_cons; exact Hn|]. intros k Hk. rewrite has_cons in Hk.
  destruct (Nat.eqb_spec n k) as [->|Hne]; [right; exact HR|left; exact Hk].
Qed.

(* ------------------------------------------------------------------ reading depends on the dependencies only *)
Definition agree (A B : results val) (n : nat) : Prop := forall p, In p (deps' n) -> lookup' A p = lookup' B p.

Lemma agree_sym A B n : agree A B n -> agree B A n.
Proof. intros H p Hp. symmetry. apply H. exact Hp. Qed.

Lemma rd_agree A B r : lookup' A (r_id r) = lookup' B (r_id r) -> rd' A r = rd' B r.
Proof. intros E. unfold rd. rewrite E. reflexivity. Qed.

Lemma rd_all_agree A B rs : (forall r, In r rs -> lookup' A (r_id r) = lookup' B (r_id r)) ->
  rd_all' A rs = rd_all' B rs.
Proof.
  induction rs as [|r rs IH]; intros H; simpl; [reflexivity|].
  rewrite (rd_agree A B r) by (apply H; left; reflexivity).
  rewrite IH by (intros r0 Hr0; apply H; right; exact Hr0). reflexivity.
Qed.

Lemma exec_agree A B n : agree A B n -> exec' A n = exec' B n.
Proof.
  intros H. unfold exec_node. rewrite (rd_all_agree A B (n_args val (tbl n))); [reflexivity|].
  intros r Hr. apply H. unfold deps_of. apply in_or_app. left. apply in_map. exact Hr.
Qed.

Lemma flag_agree A B n : agree A B n -> flag' A n = flag' B n.
Proof.
  intros H. unfold flag. destruct (n_active val (tbl n)) as [r|] eqn:E; [|reflexivity].
  rewrite (rd_agree A B r); [reflexivity|]. apply H. unfold deps_of. rewrite E. apply in_or_app. right. left. reflexivity.
Qed.

Lemma computable_spec A n :
  computable' A n = true <-> forall p, In p (deps' n) -> In p R0 -> has' A p = true.
Proof.
  unfold computable, Dataflow.R0. rewrite forallb_forall. split.
  - intros H p Hp HR. specialize (H p Hp). apply orb_true_iff in H. destruct H as [H|H]; [|exact H].
    apply negb_true_iff, mem_false in H. contradiction.
  - intros H p Hp. destruct (mem p R0) eqn:E; simpl; [|reflexivity]. apply H; [exact Hp|]. apply mem_In. exact E.
Qed.

Lemma computable_agree A B n : agree A B n -> computable' A n = true -> computable' B n = true.
Proof.
  intros H HA. apply computable_spec. intros p Hp HR. unfold has. rewrite <- (H p Hp).
  exact (proj1 (computable_spec A n) HA p Hp HR).
Qed.

(* a computable node reads the same in every extension by selected ids *)
Lemma le_agree A B n : le A B -> computable' A n = true -> agree A B n.
Proof.
  intros [He Hk] HA p Hp. destruct (lookup' A p) as [v|] eqn:E.
  - symmetry. apply He. exact E.
  - destruct (lookup' B p) as [w|] eqn:EB; [|reflexivity]. exfalso.
    destruct (Hk p (lookup_has B p w EB)) as [H|H].
    + apply has_false in E. congruence.
    + pose proof (proj1 (computable_spec A n) HA p Hp H) as X. apply has_false in E. congruence.
Qed.

(* the value of n is determined by the results of its dependencies: v / an exception *)
Definition detval (A : results val) (n : nat) (v : val) : Prop :=
  computable' A n = true /\
  ((flag' A n = Some false /\ v = vnone) \/ (flag' A n = Some true /\ exec' A n = Some v)).
Definition detfail (A : results val) (n : nat) : Prop :=
  computable' A n = true /\ (flag' A n = None \/ (flag' A n = Some true /\ exec' A n = None)).

Lemma detval_agree A B n v : agree A B n -> detval A n v -> detval B n v.
Proof.
  intros H [Hc Hv]. split; [apply (computable_agree A B n H Hc)|].
  rewrite <- (flag_agree A B n H), <- (exec_agree A B n H). exact Hv.
Qed.
Lemma detfail_agree A B n : agree A B n -> detfail A n -> detfail B n.
Proof.
  intros H [Hc Hv]. split; [apply (computable_agree A B n H Hc)|].
  rewrite <- (flag_agree A B n H), <- (exec_agree A B n H). exact Hv.
Qed.
Lemma detval_fun A n v w : detval A n v -> detval A n w -> v = w.
Proof. intros [_ [[H1 ->]|[H1 H2]]] [_ [[H3 ->]|[H3 H4]]]; congruence. Qed.
Lemma detval_detfail A n v : detval A n v -> detfail A n -> False.
Proof. intros [_ [[H1 _]|[H1 H2]]] [_ [H3|[H3 H4]]]; congruence. Qed.

(* ------------------------------------------------------------------ sound result tables *)
Record Sound (A : results val) : Prop := {
  sd_ext : ext res0 A;
  sd_keys : forall n, has' A n = true -> has' res0 n = true \/ In n R0;
  sd_val : forall n v, lookup' A n = Some v -> has' res0 n = false -> detval A n v
}.

Lemma Sound_res0 : Sound res0.
Proof.
  constructor.
  - apply ext_refl.
  - intros n H. left. exact H.
  - intros n v E H. apply has_false in H. congruence.
Qed.

Lemma Sound_outside A p : Sound A -> ~ In p R0 -> lookup' A p = lookup' res0 p.
Proof.
  intros S Hp. destruct (lookup' res0 p) as [v|] eqn:E; [apply (sd_ext A S); exact E|].
  destruct (lookup' A p) as [w|] eqn:EA; [|reflexivity]. exfalso.
  destruct (sd_keys A S p (lookup_has A p w EA)) as [H|H]; [|exact (Hp H)].
  apply has_false in E. congruence.
Qed.

Lemma Sound_cons A n v : Sound A -> has' A n = false -> In n R0 -> detval A n v -> Sound ((n, v) :: A).
Proof.
  intros S Hn HR Hv. pose proof (le_cons A n v Hn HR) as L. constructor.
  - apply (ext_trans res0 A); [apply (sd_ext A S)|apply (proj1 L)].
  - intros k Hk. destruct (proj2 L k Hk) as [H|H]; [apply (sd_keys A S); exact H|right; exact H].
  - intros k w E H0. rewrite lookup_cons in E. destruct (Nat.eqb_spec n k) as [<-|Hne].
    + inversion E; subst w. apply (detval_agree A); [apply le_agree; [exact L|apply Hv]|exact Hv].
    + pose proof (sd_val A S k w E H0) as Hk. apply (detval_agree A); [apply le_agree; [exact L|apply Hk]|exact Hk].
Qed.

Lemma agree_Sound A B n : Sound A -> Sound B ->
  (forall p, In p (deps' n) -> In p R0 -> lookup' A p = lookup' B p) -> agree A B n.
Proof.
  intros SA SB H p Hp. destruct (in_dec Nat.eq_dec p R0) as [HR|HR]; [apply H; assumption|].
  rewrite (Sound_outside A p SA HR), (Sound_outside B p SB HR). reflexivity.
Qed.

(* ------------------------------------------------------------------ the evaluator *)
Definition decided (a : acc) (n : nat) : bool := has' (fst a) n || mem n (snd a).
Definition skipb (a : acc) (n : nat) : bool := has' (fst a) n || mem n (snd a) || negb (computable' (fst a) n).

Record EvInv (a : acc) : Prop := {
  ev_sound : Sound (fst a);
  ev_fail : forall n, In n (snd a) -> detfail (fst a) n;
  ev_fail_nokey : forall n, In n (snd a) -> has' (fst a) n = false;
  ev_fail_R0 : forall n, In n (snd a) -> In n R0
}.
(* every selected node whose dependencies all have values is decided *)
Definition EvComplete (a : acc) : Prop :=
  forall n, In n R0 -> computable' (fst a) n = true -> decided a n = true.

Lemma EvInv_init : EvInv (res0, []).
Proof. constructor; simpl; [apply Sound_res0| | |]; intros n []. Qed.

Lemma eval_one_skip a n : skipb a n = true -> eval_one' a n = a.
Proof. destruct a as [D F]. unfold skipb, eval_one. simpl. intros ->. reflexivity. Qed.

Lemma eval_one_cases (D : results val) F n : skipb (D, F) n = false ->
  has' D n = false /\ mem n F = false /\ computable' D n = true /\
  ((flag' D n = None /\ eval_one' (D, F) n = (D, n :: F)) \/
   (flag' D n = Some false /\ eval_one' (D, F) n = ((n, vnone) :: D, F)) \/
   (flag' D n = Some true /\ exec' D n = None /\ eval_one' (D, F) n = (D, n :: F)) \/
   (exists v, flag' D n = Some true /\ exec' D n = Some v /\ eval_one' (D, F) n = ((n, v) :: D, F))).
Proof.
  unfold skipb, eval_one. simpl. intros H. rewrite H.
  apply orb_false_iff in H. destruct H as [H H3]. apply orb_false_iff in H. destruct H as [H1 H2].
  apply negb_false_iff in H3. split; [exact H1|]. split; [exact H2|]. split; [exact H3|].
  destruct (flag' D n) as [[|]|].
  - destruct (exec' D n) as [v|].
    + right. right. right. exists v. auto.
    + right. right. left. auto.
  - right. left. auto.
  - left. auto.
Qed.

Lemma eval_one_inv a n : EvInv a -> In n R0 -> EvInv (eval_one' a n).
Proof.
  intros I HR. destruct (skipb a n) eqn:Es; [rewrite eval_one_skip by exact Es; exact I|].
  destruct a as [D F]. destruct I as [S Hf Hk HFR]. cbn [fst snd] in *.
  destruct (eval_one_cases D F n Es) as [Hn [HnF [Hc Hcase]]].
  assert (Hadd : forall v, detval D n v -> EvInv ((n, v) :: D, F)).
  { intros v Hv. pose proof (le_cons D n v Hn HR) as L. constructor; simpl.
    - apply Sound_cons; assumption.
    - intros k Hk0. pose proof (Hf k Hk0) as X. apply (detfail_agree D); [apply le_agree; [exact L|apply X]|exact X].
    - intros k Hk0. rewrite has_cons. destruct (Nat.eqb_spec n k) as [<-|Hne]; simpl; [|apply Hk; exact Hk0].
      apply mem_false in HnF. contradiction.
    - exact HFR. }
  assert (Hfail : detfail D n -> EvInv (D, n :: F)).
  { intros X. constructor; simpl.
    - exact S.
    - intros k [<-|Hk0]; [exact X|apply Hf; exact Hk0].
    - intros k [<-|Hk0]; [exact Hn|apply Hk; exact Hk0].
    - intros k [<-|Hk0]; [exact HR|apply HFR; exact Hk0]. }
  destruct Hcase as [[E1 ->]|[[E1 ->]|[[E1 [E2 ->]]|[v [E1 [E2 ->]]]]]].
  - apply Hfail. split; [exact Hc|left; exact E1].
  - apply Hadd. split; [exact Hc|left; auto].
  - apply Hfail. split; [exact Hc|right; auto].
  - apply Hadd. split; [exact Hc|right; auto].
Qed.

Lemma eval_one_decides a n : skipb a n = false -> decided (eval_one' a n) n = true.
Proof.
  destruct a as [D F]. intros Es. destruct (eval_one_cases D F n Es) as [_ [_ [_ Hcase]]].
  unfold decided.
  destruct Hcase as [[E1 ->]|[[E1 ->]|[[E1 [E2 ->]]|[v [E1 [E2 ->]]]]]]; simpl;
    rewrite ?has_cons, ?Nat.eqb_refl, ?orb_true_r; reflexivity.
Qed.

Lemma eval_one_mono a n x : decided a x = true -> decided (eval_one' a n) x = true.
Proof.
  intros Hx. destruct (skipb a n) eqn:Es; [rewrite eval_one_skip by exact Es; exact Hx|].
  destruct a as [D F]. destruct (eval_one_cases D F n Es) as [_ [_ [_ Hcase]]].
  unfold decided in *. simpl in Hx. apply orb_true_iff in Hx.
  destruct Hcase as [[E1 ->]|[[E1 ->]|[[E1 [E2 ->]]|[v [E1 [E2 ->]]]]]]; simpl; rewrite ?has_cons;
    destruct Hx as [Hx|Hx]; rewrite Hx, ?orb_true_r; reflexivity.
Qed.

(* the only key eval_one adds is the node it evaluates *)
Lemma eval_one_keys a n x : has' (fst (eval_one' a n)) x = true -> has' (fst a) x = true \/ x = n.
Proof.
  destruct (skipb a n) eqn:Es; [rewrite eval_one_skip by exact Es; auto|].
  destruct a as [D F]. destruct (eval_one_cases D F n Es) as [_ [_ [_ Hcase]]].
  destruct Hcase as [[E1 ->]|[[E1 ->]|[[E1 [E2 ->]]|[v [E1 [E2 ->]]]]]]; simpl; rewrite ?has_cons; auto;
    (destruct (Nat.eqb_spec n x) as [->|Hne]; simpl; auto).
Qed.

Lemma fold_mono l : forall a x, decided a x = true -> decided (fold_left eval_one' l a) x = true.
Proof. induction l as [|n l IH]; intros a x H; simpl; [exact H|]. apply IH. apply eval_one_mono. exact H. Qed.

Lemma fold_keys l : forall a x, has' (fst (fold_left eval_one' l a)) x = true -> has' (fst a) x = true \/ In x l.
Proof.
  induction l as [|n l IH]; intros a x H; simpl in *; [left; exact H|].
  destruct (IH _ _ H) as [H1|H1]; [|right; right; exact H1].
  destruct (eval_one_keys a n x H1) as [H2|H2]; [left; exact H2|right; left; symmetry; exact H2].
Qed.

Lemma fold_EvInv l : (forall n, In n l -> In n R0) -> forall a, EvInv a -> EvInv (fold_left eval_one' l a).
Proof. intros Hl. apply fold_left_inv. intros a n Hn I. apply eval_one_inv; [exact I|apply Hl; exact Hn]. Qed.

(* ---- the fuel suffices: count the undecided selected nodes *)
Definition undec (a : acc) : nat := length (filter (fun n => negb (decided a n)) R0).

Lemma undec_mono a b : (forall x, decided a x = true -> decided b x = true) -> undec b <= undec a.
Proof.
  intros H. unfold undec. apply filter_len_le. intros x _ Hx. apply negb_true_iff in Hx. apply negb_true_iff.
  destruct (decided a x) eqn:E; [|reflexivity]. rewrite (H x E) in Hx. discriminate.
Qed.

Lemma undec_eval_one a n : undec (eval_one' a n) <= undec a.
Proof. apply undec_mono. intros x. apply eval_one_mono. Qed.
Lemma undec_fold l a : undec (fold_left eval_one' l a) <= undec a.
Proof. apply undec_mono. intros x. apply fold_mono. Qed.

Lemma skipb_false_undecided a n : skipb a n = false -> decided a n = false.
Proof. unfold skipb, decided. intros H. apply orb_false_iff in H. tauto. Qed.

Lemma undec_eval_one_lt a n : In n R0 -> skipb a n = false -> undec (eval_one' a n) < undec a.
Proof.
  intros HR Es. unfold undec. apply (filter_len_lt _ _ R0 n).
  - intros x _ Hx. apply negb_true_iff in Hx. apply negb_true_iff.
    destruct (decided a x) eqn:E; [|reflexivity]. rewrite (eval_one_mono a n x E) in Hx. discriminate.
  - exact HR.
  - rewrite (eval_one_decides a n Es). reflexivity.
  - rewrite (skipb_false_undecided a n Es). reflexivity.
Qed.

Lemma fold_dich l : (forall n, In n l -> In n R0) -> forall a,
  ((forall n, In n l -> skipb a n = true) /\ fold_left eval_one' l a = a) \/
  undec (fold_left eval_one' l a) < undec a.
Proof.
  induction l as [|n l IH]; intros Hl a; simpl.
  - left. split; [intros n []|reflexivity].
  - assert (Hl' : forall x, In x l -> In x R0) by (intros x Hx; apply Hl; right; exact Hx).
    destruct (skipb a n) eqn:Es.
    + rewrite (eval_one_skip a n Es). destruct (IH Hl' a) as [[H1 H2]|H1]; [left|right; exact H1].
      split; [|exact H2]. intros x [<-|Hx]; [exact Es|apply H1; exact Hx].
    + right. pose proof (undec_eval_one_lt a n (Hl n (or_introl eq_refl)) Es).
      pose proof (undec_fold l (eval_one' a n)). lia.
Qed.

Lemma sweep_dich a :
  ((forall n, In n R0 -> skipb a n = true) /\ sweep' a = a) \/ undec (sweep' a) < undec a.
Proof. unfold sweep, Dataflow.R0. apply fold_dich. auto. Qed.

Lemma iter_dich : forall k a,
  (forall n, In n R0 -> skipb (iter k sweep' a) n = true) \/ undec (iter k sweep' a) + k <= undec a.
Proof.
  induction k as [|k IH]; intros a; simpl.
  - right. lia.
  - destruct (sweep_dich a) as [[H1 H2]|H1].
    + left. rewrite H2. rewrite (iter_fix sweep' a H2). exact H1.
    + destruct (IH (sweep' a)) as [H2|H2]; [left; exact H2|right; lia].
Qed.

Lemma EvInv_den : EvInv (den_eval' res0).
Proof.
  unfold den_eval. apply iter_inv; [|apply EvInv_init].
  intros a I. unfold sweep, Dataflow.R0. apply fold_EvInv; auto.
Qed.

Lemma EvComplete_den : EvComplete (den_eval' res0).
Proof.
  intros n HR Hc. unfold den_eval, Dataflow.R0 in *.
  destruct (iter_dich (length R0) (res0, [])) as [H|H].
  - specialize (H n HR). unfold skipb in H. rewrite Hc in H. simpl in H. rewrite orb_false_r in H. exact H.
  - assert (Hz : undec (iter (length R0) sweep' (res0, [])) = 0).
    { assert (undec (res0, []) <= length R0) by (unfold undec; apply filter_len_all). lia. }
    pose proof (filter_nil_all _ _ Hz n HR) as X. apply negb_false_iff in X. exact X.
Qed.


(* ------------------------------------------------------------------ a sound table agrees with a complete evaluation *)
Lemma R0_not_pre n : consistent' res0 -> In n R0 -> has' res0 n = false.
Proof.
  intros Cs HR. apply In_diff in HR. destruct HR as [Hn Hp]. destruct (has' res0 n) eqn:E; [|reflexivity].
  exfalso. apply Hp. apply (cs_pre val tbl c res0 Cs n Hn). exact E.
Qed.

Lemma sound_unique A a : wf c -> consistent' res0 -> Sound A -> EvInv a -> EvComplete a ->
  forall n v, lookup' A n = Some v -> lookup' (fst a) n = Some v.
Proof.
  intros W Cs SA I Cm. destruct (wf_acyclic c W) as [rank Hrank].
  destruct a as [D F]. pose proof (ev_sound _ I) as SD. cbn [fst] in *.
  assert (H : forall k n v, rank n < k -> lookup' A n = Some v -> lookup' D n = Some v).
  { induction k as [|k IH]; intros n v Hk E; [lia|].
    destruct (has' res0 n) eqn:E0.
    - apply has_true in E0. destruct E0 as [w E0]. pose proof (sd_ext A SA n w E0) as X.
      rewrite E in X. inversion X; subst w. apply (sd_ext D SD). exact E0.
    - assert (HR : In n R0).
      { destruct (sd_keys A SA n (lookup_has A n v E)) as [X|X]; [congruence|exact X]. }
      pose proof (sd_val A SA n v E E0) as Hv.
      assert (Hag : agree A D n).
      { apply agree_Sound; [exact SA|exact SD|]. intros p Hp HpR.
        pose proof (proj1 (computable_spec A n) (proj1 Hv) p Hp HpR) as Hh.
        apply has_true in Hh. destruct Hh as [w Hw]. rewrite Hw. symmetry. apply (IH p w); [|exact Hw].
        assert (rank p < rank n); [|lia]. apply In_diff in HR. apply In_diff in HpR.
        apply Hrank; try tauto. apply (cs_deps val tbl c res0 Cs n); tauto. }
      pose proof (detval_agree A D n v Hag Hv) as HvD.
      pose proof (Cm n HR (proj1 HvD)) as Hd. unfold decided in Hd. cbn [fst snd] in Hd.
      apply orb_true_iff in Hd. destruct Hd as [Hd|Hd].
      + apply has_true in Hd. destruct Hd as [w Hw]. pose proof (sd_val D SD n w Hw E0) as HwD.
        rewrite Hw. f_equal. apply (detval_fun D n w v HwD HvD).
      + exfalso. apply mem_In in Hd. apply (detval_detfail D n v HvD). apply (ev_fail _ I). exact Hd. }
  intros n v. apply (H (S (rank n))). lia.
Qed.

(* ------------------------------------------------------------------ T1: projection to the value-free LTS *)
Lemma vstep_inv s res l s' res' :
  vstep' (s, res) l = Some (s', res') -> step c s l = Some s' /\ vlabel' res l = Some res'.
Proof.
  unfold vstep. cbn [fst snd]. destruct (step c s l) as [s1|]; [|discriminate].
  destruct (vlabel' res l) as [r1|]; [|discriminate]. intros H. inversion H. auto.
Qed.

Theorem vrun_run ls : forall s res s' res',
  vrun' (s, res) ls = Some (s', res') -> run c s ls = Some s'.
Proof.
  induction ls as [|l ls IH]; intros s res s' res' H; simpl in H.
  - inversion H. reflexivity.
  - destruct (vstep' (s, res) l) as [[s1 res1]|] eqn:E; [|discriminate].
    apply vstep_inv in E. destruct E as [E _]. simpl. rewrite E. apply (IH s1 res1 s' res'). exact H.
Qed.

Theorem vrun_reachable ls s res : vrun' (init c, res0) ls = Some (s, res) -> reachable c s.
Proof. intros H. exists ls. apply (vrun_run ls _ _ _ _ H). Qed.

(* ------------------------------------------------------------------ the invariant of valued runs *)
Record RI (s : state) (res : results val) : Prop := {
  ri_sound : Sound res;
  ri_keys : forall n, has' res n = true <-> has' res0 n = true \/ In n (finished s) \/ In n (skipped s);
  ri_flag : forall n, In n (started s) \/ pc s = PDisp n -> flag' res n = Some true
}.

Lemma RI_init : RI (init c) res0.
Proof.
  constructor.
  - apply Sound_res0.
  - intros n. cbn [init finished skipped]. simpl. tauto.
  - intros n [H|H]; [destruct H|discriminate].
Qed.

Lemma resolved_has s res p : Inv4 c s -> RI s res -> In p R0 -> ~ In p (rem s) -> has' res p = true.
Proof. intros G I HR Hn. apply (ri_keys s res I). right. apply (not_rem_resolved c s p G HR Hn). Qed.

Lemma resolved_computable s res n : consistent' res0 -> Inv4 c s -> RI s res -> In n (c_nodes c) ->
  (forall p, In p (c_preds c n) -> ~ In p (rem s)) -> computable' res n = true.
Proof.
  intros Cs G I Hn Hp. apply computable_spec. intros p Hd HR. apply (resolved_has s res p G I HR).
  apply Hp. apply (cs_deps val tbl c res0 Cs n Hn). exact Hd.
Qed.

Lemma started_computable s res n : consistent' res0 -> Inv4 c s -> RI s res -> In n (started s) ->
  computable' res n = true.
Proof.
  intros Cs G I Hs. pose proof (g_started_R0 c s G n Hs) as HR.
  apply (resolved_computable s res n Cs G I); [apply In_diff in HR; tauto|].
  apply (g_closed c s G n HR). right. exact Hs.
Qed.

Lemma RI_same s s' res : RI s res -> finished s' = finished s -> skipped s' = skipped s ->
  (forall x, In x (started s') \/ pc s' = PDisp x -> flag' res x = Some true) -> RI s' res.
Proof.
  intros [I1 I2 I3] E1 E2 Hf. constructor; [exact I1| |exact Hf]. intros n. rewrite E1, E2. apply I2.
Qed.

(* a root n of the remaining graph leaves it and its value is stored *)
Lemma RI_store s s' res n v : consistent' res0 -> Inv4 c s -> RI s res ->
  In n (rem s) -> (forall p, In p (c_preds c n) -> ~ In p (rem s)) ->
  ((flag' res n = Some false /\ v = vnone) \/ (flag' res n = Some true /\ exec' res n = Some v)) ->
  ((finished s' = n :: finished s /\ skipped s' = skipped s) \/
   (finished s' = finished s /\ skipped s' = n :: skipped s)) ->
  (forall x, In x (started s') \/ pc s' = PDisp x -> In x (started s) \/ (x = n /\ flag' res n = Some true)) ->
  RI s' ((n, v) :: res) /\ ext res ((n, v) :: res).
Proof.
  intros Cs G I Hr Hp Hv Hfs Hst.
  pose proof (proj1 (g_rem c s G n) Hr) as [HR [Hnf Hnk]].
  assert (Hn : has' res n = false).
  { destruct (has' res n) eqn:E; [|reflexivity]. exfalso. apply (ri_keys s res I) in E.
    destruct E as [E|[E|E]]; [|exact (Hnf E)|exact (Hnk E)]. rewrite (R0_not_pre n Cs HR) in E. discriminate. }
  assert (Hc : computable' res n = true).
  { apply (resolved_computable s res n Cs G I); [apply In_diff in HR; tauto|exact Hp]. }
  pose proof (le_cons res n v Hn HR) as L.
  split; [|apply (proj1 L)]. constructor.
  - apply Sound_cons; [apply (ri_sound s res I)|exact Hn|exact HR|]. split; [exact Hc|exact Hv].
  - intros k. rewrite has_cons, orb_true_iff, (ri_keys s res I k), Nat.eqb_eq.
    destruct Hfs as [[-> ->]|[-> ->]]; simpl; intuition.
  - intros x Hx. destruct (Hst x Hx) as [Hs|[-> Hf]].
    + rewrite <- (flag_agree res ((n, v) :: res) x); [apply (ri_flag s res I); left; exact Hs|].
      apply le_agree; [exact L|]. apply (started_computable s res x Cs G I Hs).
    + rewrite <- (flag_agree res ((n, v) :: res) n); [exact Hf|]. apply le_agree; [exact L|exact Hc].
Qed.

Lemma store_app res a : forall b,
  store' res (a ++ b) = match store' res a with Some r => store' r b | None => None end.
Proof.
  revert res. induction a as [|[n [|]] a IH]; intros res b; simpl; [reflexivity| |].
  - destruct (exec' res n) as [v|]; [apply IH|reflexivity].
  - destruct (exec' res n) as [v|]; [reflexivity|apply IH].
Qed.

(* the for-loop of a wait helper: the futures that returned, in inspection order *)
Lemma RI_completes k : consistent' res0 -> forall ns s res res',
  Inv1 c s -> cur (pc s) = [] -> alive s -> Inv4 c s -> RI s res ->
  (forall pre n post, ns = pre ++ n :: post -> In n (inflight (completes c k s pre) k)) ->
  store' res (map (fun n => (n, true)) ns) = Some res' ->
  RI (completes c k s ns) res' /\ ext res res'.
Proof.
  intros Cs. induction ns as [|n ns IH]; intros s res res' I1 Hc A G I Hpre Hst.
  - simpl in Hst. inversion Hst; subst res'. split; [exact I|apply ext_refl].
  - simpl in Hst. destruct (exec' res n) as [v|] eqn:Ev; [|discriminate].
    assert (Hn : In n (inflight s k)) by (apply (Hpre [] n ns); reflexivity).
    assert (Hi : In n (conc s ++ asyn s)) by (apply (inflight_infl s k n Hn)).
    destruct (infl_root c s n I1 Hi) as [Hr Hp].
    assert (Hs : In n (started s)) by (apply (g_infl_started c s G n Hi)).
    destruct (RI_store s (complete c k s n) res n v Cs G I Hr Hp) as [I' Hext].
    + right. split; [|exact Ev]. apply (ri_flag s res I). left. exact Hs.
    + left. rewrite complete_finished, complete_skipped. auto.
    + intros x. rewrite complete_started, complete_pc. intros [Hx|Hx]; [left; exact Hx|].
      rewrite Hx in Hc. discriminate.
    + rewrite completes_cons.
      destruct (IH (complete c k s n) ((n, v) :: res) res') as [I'' Hext'].
      * apply complete_Inv1; assumption.
      * rewrite complete_pc. exact Hc.
      * intros x. rewrite complete_pc. apply A.
      * apply complete_Inv4; assumption.
      * exact I'.
      * intros pre x post E. apply (Hpre (n :: pre) x post). simpl. congruence.
      * exact Hst.
      * split; [exact I''|]. apply (ext_trans res ((n, v) :: res) res'); assumption.
Qed.

Ltac dtrans T :=
  destruct T as [ t Hpc Hrem
                | t k m nx Hws Hinf
                | t k m nx dones ns t1 Hws Hinf Hdn Hdones Ht1 Hpre Hall
                | t k m nx dones ns f t1 Hws Hinf Hdones Ht1 Hpre Hf
                | t n Hpc Hmax Hseq Hrun
                | t n Hpc Hmax Hrun
                | t n Hpc
                | t n Hpc
                | t n Hpc Hres
                | t n Hpc Hres
                | t n Hpc Hres
                | t n Hpc Hres ].

Lemma after_dispatch_not_disp n x : after_dispatch c n <> PDisp x.
Proof. unfold after_dispatch. destruct (c_seq c n); discriminate. Qed.

Lemma vstep_RI s res l s' res' : wf c -> consistent' res0 -> reachable c s -> RI s res ->
  vstep' (s, res) l = Some (s', res') -> RI s' res' /\ ext res res'.
Proof.
  intros W Cs R I H. apply vstep_inv in H. destruct H as [Hs Hv].
  destruct (reachable_Inv_Inv4 c s W R) as [IV G]. apply step_trans in Hs.
  pose proof (trans_alive c _ _ _ Hs) as A. pose proof (inv1 c s IV A) as I1.
  dtrans Hs; cbn [vlabel store_dones] in Hv.
  - (* end *) inversion Hv; subst res'. split; [|apply ext_refl]. apply (RI_same t); auto.
    cbn [set_pc started pc]. intros x [Hx|Hx]; [apply (ri_flag t res I); left; exact Hx|discriminate].
  - (* empty wait *) inversion Hv; subst res'. split; [|apply ext_refl]. apply (RI_same t); auto.
    destruct (wait_site_cur c _ _ _ _ Hws) as [_ Hnx].
    cbn [set_pc started pc]. intros x [Hx|Hx]; [apply (ri_flag t res I); left; exact Hx|].
    specialize (Hnx [] t). rewrite Hx in Hnx. discriminate.
  - (* wait ok *) subst t1 dones. destruct (wait_site_cur c _ _ _ _ Hws) as [Hc Hnx].
    destruct (RI_completes k Cs ns t res res' I1 Hc A G I Hpre Hv) as [I' Hext]. split; [|exact Hext].
    apply (RI_same (completes c k t ns)); auto.
    cbn [set_pc started pc]. intros x [Hx|Hx].
    + apply (ri_flag _ res' I'). left. exact Hx.
    + specialize (Hnx (map (fun n : nat => (n, true)) ns) (completes c k t ns)). rewrite Hx in Hnx. discriminate.
  - (* wait fail *) subst t1 dones. destruct (wait_site_cur c _ _ _ _ Hws) as [Hc Hnx].
    rewrite store_app in Hv. destruct (store' res (map (fun n : nat => (n, true)) ns)) as [res1|] eqn:E1; [|discriminate].
    cbn [store_dones] in Hv. destruct (exec' res1 f); [discriminate|]. inversion Hv; subst res'.
    destruct (RI_completes k Cs ns t res res1 I1 Hc A G I Hpre E1) as [I' Hext]. split; [|exact Hext].
    apply (RI_same (completes c k t ns)); auto.
    cbn [set_pc started pc]. intros x [Hx|Hx]; [|discriminate]. apply (ri_flag _ res1 I'). left. exact Hx.
  - (* defer *) inversion Hv; subst res'. split; [|apply ext_refl]. apply (RI_same t); auto.
    cbn [set_pc started pc]. intros x [Hx|Hx]; [apply (ri_flag t res I); left; exact Hx|discriminate].
  - (* take *) inversion Hv; subst res'. split; [|apply ext_refl]. apply (RI_same t); auto.
    cbn [set_pc take_runnable started pc]. intros x [Hx|Hx]; [apply (ri_flag t res I); left; exact Hx|discriminate].
  - (* active *) destruct (flag' res n) as [[|]|] eqn:Ef; cbn [Bool.eqb] in Hv; try discriminate.
    inversion Hv; subst res'. split; [|apply ext_refl]. apply (RI_same t); auto.
    cbn [set_pc started pc]. intros x [Hx|Hx]; [apply (ri_flag t res I); left; exact Hx|].
    inversion Hx; subst x. exact Ef.
  - (* skip *) destruct (flag' res n) as [[|]|] eqn:Ef; cbn [Bool.eqb] in Hv; try discriminate.
    inversion Hv; subst res'.
    destruct (held_Inv c t n IV (or_introl Hpc)) as [Hr [Hp _]].
    apply (RI_store t _ res n vnone Cs G I Hr Hp).
    + left. auto.
    + right. cbn [set_pc mark_skipped finished skipped]. rewrite remove_node_finished, remove_node_skipped. auto.
    + cbn [set_pc mark_skipped started pc]. rewrite remove_node_started. intros x [Hx|Hx]; [left; exact Hx|discriminate].
  - (* submit thread *) inversion Hv; subst res'. split; [|apply ext_refl]. apply (RI_same t); auto.
    cbn [set_pc mark_started set_inflight started pc]. intros x [[<-|Hx]|Hx].
    + apply (ri_flag t res I). right. exact Hpc.
    + apply (ri_flag t res I). left. exact Hx.
    + exfalso. exact (after_dispatch_not_disp n x Hx).
  - (* submit async *) inversion Hv; subst res'. split; [|apply ext_refl]. apply (RI_same t); auto.
    cbn [set_pc mark_started set_inflight started pc]. intros x [[<-|Hx]|Hx].
    + apply (ri_flag t res I). right. exact Hpc.
    + apply (ri_flag t res I). left. exact Hx.
    + exfalso. exact (after_dispatch_not_disp n x Hx).
  - (* inline ok *) destruct (exec' res n) as [v|] eqn:Ev; [|discriminate]. inversion Hv; subst res'.
    destruct (held_Inv c t n IV (or_intror Hpc)) as [Hr [Hp _]].
    assert (Hf : flag' res n = Some true) by (apply (ri_flag t res I); right; exact Hpc).
    apply (RI_store t _ res n v Cs G I Hr Hp).
    + right. auto.
    + left. cbn [set_pc mark_finished finished skipped]. rewrite remove_node_finished, remove_node_skipped.
      cbn [mark_started finished skipped]. auto.
    + cbn [set_pc mark_finished started pc]. rewrite remove_node_started. cbn [mark_started started].
      intros x [[<-|Hx]|Hx]; [right; auto|left; exact Hx|].
      exfalso. exact (after_dispatch_not_disp n x Hx).
  - (* inline fail *) destruct (exec' res n) as [v|] eqn:Ev; [discriminate|]. inversion Hv; subst res'.
    split; [|apply ext_refl]. apply (RI_same t); auto.
    cbn [set_pc mark_started started pc]. intros x [[<-|Hx]|Hx]; [| |discriminate].
    + apply (ri_flag t res I). right. exact Hpc.
    + apply (ri_flag t res I). left. exact Hx.
Qed.

Lemma reachable_step s l s' : reachable c s -> step c s l = Some s' -> reachable c s'.
Proof. intros [ls H] E. exists (ls ++ [l]). rewrite run_app, H. simpl. rewrite E. reflexivity. Qed.

Lemma vrun_RI : wf c -> consistent' res0 -> forall ls s res s' res',
  reachable c s -> RI s res -> vrun' (s, res) ls = Some (s', res') ->
  reachable c s' /\ RI s' res' /\ ext res res'.
Proof.
  intros W Cs. induction ls as [|l ls IH]; intros s res s' res' R I H; simpl in H.
  - inversion H; subst. split; [exact R|]. split; [exact I|apply ext_refl].
  - destruct (vstep' (s, res) l) as [[s1 res1]|] eqn:E; [|discriminate].
    destruct (vstep_RI s res l s1 res1 W Cs R I E) as [I1 X1].
    apply vstep_inv in E. destruct E as [E _]. pose proof (reachable_step s l s1 R E) as R1.
    destruct (IH s1 res1 s' res' R1 I1 H) as [R2 [I2 X2]]. split; [exact R2|]. split; [exact I2|].
    apply (ext_trans res res1 res'); assumption.
Qed.

Lemma vrun_init_RI ls s res : wf c -> consistent' res0 -> vrun' (init c, res0) ls = Some (s, res) ->
  reachable c s /\ RI s res.
Proof.
  intros W Cs H. destruct (vrun_RI W Cs ls (init c) res0 s res) as [R [I _]]; auto.
  - exists []. reflexivity.
  - apply RI_init.
Qed.

(* ------------------------------------------------------------------ T2: results only grow, keys = resolved nodes *)
Theorem results_grow ls s res : wf c -> consistent' res0 -> vrun' (init c, res0) ls = Some (s, res) ->
  forall n v, lookup' res0 n = Some v -> lookup' res n = Some v.
Proof. intros W Cs H. destruct (vrun_init_RI ls s res W Cs H) as [_ I]. apply (sd_ext res (ri_sound s res I)). Qed.

Theorem results_keys ls s res : wf c -> consistent' res0 -> vrun' (init c, res0) ls = Some (s, res) ->
  forall n, has' res n = true <-> has' res0 n = true \/ In n (finished s) \/ In n (skipped s).
Proof. intros W Cs H. destruct (vrun_init_RI ls s res W Cs H) as [_ I]. apply (ri_keys s res I). Qed.

Theorem results_extend ls s res ls2 s2 res2 : wf c -> consistent' res0 ->
  vrun' (init c, res0) ls = Some (s, res) -> vrun' (s, res) ls2 = Some (s2, res2) ->
  forall n v, lookup' res n = Some v -> lookup' res2 n = Some v.
Proof.
  intros W Cs H H2. destruct (vrun_init_RI ls s res W Cs H) as [R I].
  destruct (vrun_RI W Cs ls2 s res s2 res2 R I H2) as [_ [_ X]]. exact X.
Qed.

(* ------------------------------------------------------------------ T3: every schedule computes the denotation *)
Theorem sched_computes_den ls s res : wf c -> consistent' res0 -> vrun' (init c, res0) ls = Some (s, res) ->
  forall n v, lookup' res n = Some v -> den' res0 n = Some v.
Proof.
  intros W Cs H. destruct (vrun_init_RI ls s res W Cs H) as [_ I]. unfold den.
  apply (sound_unique res (den_eval' res0) W Cs (ri_sound s res I) EvInv_den EvComplete_den).
Qed.

(* ------------------------------------------------------------------ T4: a run that ends normally computed all of it *)
Theorem finished_run_equals_den ls s res : wf c -> consistent' res0 ->
  vrun' (init c, res0) ls = Some (s, res) -> pc s = PFinished ->
  (forall n, In n R0 -> exists v, lookup' res n = Some v /\ den' res0 n = Some v) /\
  (forall n, lookup' res n = den' res0 n) /\
  snd (den_eval' res0) = [].
Proof.
  intros W Cs H P. destruct (vrun_init_RI ls s res W Cs H) as [R I].
  destruct (finished_means_all_ran c s W R P) as [_ [_ [_ Hall]]].
  assert (H1 : forall n, In n R0 -> exists v, lookup' res n = Some v /\ den' res0 n = Some v).
  { intros n HR. assert (Hh : has' res n = true) by (apply (ri_keys s res I); right; apply Hall; exact HR).
    apply has_true in Hh. destruct Hh as [v Hv]. exists v. split; [exact Hv|].
    apply (sched_computes_den ls s res W Cs H n v Hv). }
  split; [exact H1|]. split.
  - intros n. destruct (in_dec Nat.eq_dec n R0) as [HR|HR].
    + destruct (H1 n HR) as [v [E1 E2]]. congruence.
    + unfold den. rewrite (Sound_outside res n (ri_sound s res I) HR).
      rewrite (Sound_outside _ n (ev_sound _ EvInv_den) HR). reflexivity.
  - destruct (snd (den_eval' res0)) as [|f F] eqn:EF; [reflexivity|]. exfalso.
    assert (Hf : In f (snd (den_eval' res0))) by (rewrite EF; left; reflexivity).
    pose proof (ev_fail_R0 _ EvInv_den f Hf) as HR. pose proof (ev_fail_nokey _ EvInv_den f Hf) as Hk.
    destruct (H1 f HR) as [v [_ E2]]. unfold den in E2. apply has_false in Hk. congruence.
Qed.

(* ------------------------------------------------------------------ T5 *)
Theorem schedule_independent ls1 s1 res1 ls2 s2 res2 : wf c -> consistent' res0 ->
  vrun' (init c, res0) ls1 = Some (s1, res1) -> vrun' (init c, res0) ls2 = Some (s2, res2) ->
  (forall n v1 v2, lookup' res1 n = Some v1 -> lookup' res2 n = Some v2 -> v1 = v2) /\
  (pc s1 = PFinished -> pc s2 = PFinished -> forall n, lookup' res1 n = lookup' res2 n).
Proof.
  intros W Cs H1 H2. split.
  - intros n v1 v2 E1 E2. pose proof (sched_computes_den ls1 s1 res1 W Cs H1 n v1 E1).
    pose proof (sched_computes_den ls2 s2 res2 W Cs H2 n v2 E2). congruence.
  - intros P1 P2 n.
    destruct (finished_run_equals_den ls1 s1 res1 W Cs H1 P1) as [_ [X1 _]].
    destruct (finished_run_equals_den ls2 s2 res2 W Cs H2 P2) as [_ [X2 _]]. rewrite X1, X2. reflexivity.
Qed.

(* ------------------------------------------------------------------ T6: one pass in dependency order *)
Definition topo (order : list nat) : Prop :=
  forall pre n post, order = pre ++ n :: post -> forall p, In p (deps' n) -> In p R0 -> In p pre.

Lemma pass_EvInv order : (forall n, In n order -> In n R0) -> EvInv (fold_left eval_one' order (res0, [])).
Proof. intros Hsub. apply fold_EvInv; [exact Hsub|apply EvInv_init]. Qed.

Lemma pass_EvComplete order : wf c -> Permutation order R0 -> topo order ->
  EvComplete (fold_left eval_one' order (res0, [])).
Proof.
  intros W HP HT n HR Hc.
  assert (Hnd : NoDup order).
  { apply (Permutation_NoDup (Permutation_sym HP)). apply NoDup_diff. apply (wf_nodup c W). }
  assert (Hn : In n order) by (apply (Permutation_in n (Permutation_sym HP)); exact HR).
  destruct (in_split n order Hn) as [pre [post E]].
  rewrite E, fold_left_app. cbn [fold_left]. set (a := fold_left eval_one' pre (res0, [])).
  rewrite E, fold_left_app in Hc. cbn [fold_left] in Hc. fold a in Hc.
  apply fold_mono.
  assert (Hca : computable' (fst a) n = true).
  { apply computable_spec. intros p Hp HpR.
    pose proof (proj1 (computable_spec _ n) Hc p Hp HpR) as Hh.
    destruct (fold_keys post (eval_one' a n) p Hh) as [X|X].
    - destruct (eval_one_keys a n p X) as [Y|Y]; [exact Y|]. exfalso. subst p.
      pose proof (HT pre n post E n Hp HpR) as Hin. rewrite E in Hnd.
      apply (NoDup_app_disj pre (n :: post) n Hnd Hin). left. reflexivity.
    - exfalso. pose proof (HT pre n post E p Hp HpR) as Hin. rewrite E in Hnd.
      apply (NoDup_app_disj pre (n :: post) p Hnd Hin). right. exact X. }
  destruct (skipb a n) eqn:Es.
  - rewrite (eval_one_skip a n Es). unfold skipb in Es. rewrite Hca in Es. simpl in Es.
    rewrite orb_false_r in Es. exact Es.
  - apply eval_one_decides. exact Es.
Qed.

Theorem sequential_equals_den order : wf c -> consistent' res0 -> Permutation order R0 -> topo order ->
  forall n, lookup' (fst (fold_left eval_one' order (res0, []))) n = den' res0 n.
Proof.
  intros W Cs HP HT n. unfold den.
  assert (Hsub : forall x, In x order -> In x R0) by (intros x; apply (Permutation_in x HP)).
  pose proof (pass_EvInv order Hsub) as I1. pose proof (pass_EvComplete order W HP HT) as C1.
  set (a := fold_left eval_one' order (res0, [])) in *.
  pose proof (sound_unique (fst a) (den_eval' res0) W Cs (ev_sound _ I1) EvInv_den EvComplete_den n) as X1.
  pose proof (sound_unique (fst (den_eval' res0)) a W Cs (ev_sound _ EvInv_den) I1 C1 n) as X2.
  destruct (lookup' (fst a) n) as [v|] eqn:E1.
  - symmetry. apply X1. reflexivity.
  - destruct (lookup' (fst (den_eval' res0)) n) as [w|] eqn:E2; [|reflexivity].
    specialize (X2 w eq_refl). congruence.
Qed.

(* ------------------------------------------------------------------ T7 (C10) *)
Lemma agree_run_den s res n : wf c -> consistent' res0 -> Inv4 c s -> RI s res -> In n (c_nodes c) ->
  (forall p, In p (c_preds c n) -> ~ In p (rem s)) -> agree res (fst (den_eval' res0)) n.
Proof.
  intros W Cs G I Hn Hp. apply agree_Sound; [apply (ri_sound s res I)|apply (ev_sound _ EvInv_den)|].
  intros p Hd HR.
  assert (Hh : has' res p = true).
  { apply (resolved_has s res p G I HR). apply Hp. apply (cs_deps val tbl c res0 Cs n Hn). exact Hd. }
  apply has_true in Hh. destruct Hh as [w Hw]. rewrite Hw. symmetry.
  apply (sound_unique res (den_eval' res0) W Cs (ri_sound s res I) EvInv_den EvComplete_den p w Hw).
Qed.

Theorem flag_label_local s res n b s' res' : vstep' (s, res) (LActive n b) = Some (s', res') ->
  flag' res n = Some b /\ (b = false -> lookup' res' n = Some vnone).
Proof.
  intros H. apply vstep_inv in H. destruct H as [_ Hv]. cbn [vlabel] in Hv.
  destruct (flag' res n) as [b'|]; [|discriminate].
  destruct (Bool.eqb b b') eqn:E; [|discriminate]. apply eqb_prop in E. subst b'. split; [reflexivity|].
  intros ->. inversion Hv. rewrite lookup_cons, Nat.eqb_refl. reflexivity.
Qed.

Theorem flag_label_is_truthiness ls s res n b s' res' : wf c -> consistent' res0 ->
  vrun' (init c, res0) ls = Some (s, res) -> vstep' (s, res) (LActive n b) = Some (s', res') ->
  flag' res n = Some b /\
  flag' (fst (den_eval' res0)) n = Some b /\
  match n_active val (tbl n) with
  | Some r => exists v, rd' (fst (den_eval' res0)) r = Some v /\ b = truthy v
  | None => b = true
  end /\
  (b = false -> lookup' res' n = Some vnone).
Proof.
  intros W Cs H Hst. destruct (vrun_init_RI ls s res W Cs H) as [R I].
  destruct (flag_label_local s res n b s' res' Hst) as [Hf Hn].
  destruct (reachable_Inv_Inv4 c s W R) as [IV G].
  pose proof Hst as Hst'. apply vstep_inv in Hst'. destruct Hst' as [Hs _].
  pose proof (active_needs_deps c s n b s' W R Hs) as Hp.
  assert (Hpc : pc s = PActive n) by (apply step_trans in Hs; inversion Hs; subst; assumption).
  destruct (held_Inv c s n IV (or_introl Hpc)) as [Hr _].
  assert (Hnode : In n (c_nodes c)). { apply (g_rem c s G n) in Hr. destruct Hr as [HR _]. apply In_diff in HR. tauto. }
  pose proof (agree_run_den s res n W Cs G I Hnode Hp) as Hag.
  assert (HfD : flag' (fst (den_eval' res0)) n = Some b) by (rewrite <- (flag_agree _ _ n Hag); exact Hf).
  split; [exact Hf|]. split; [exact HfD|]. split; [|exact Hn].
  unfold flag in HfD. destruct (n_active val (tbl n)) as [r|].
  - destruct (rd' (fst (den_eval' res0)) r) as [v|]; [|discriminate]. exists v. simpl in HfD. inversion HfD. auto.
  - inversion HfD. reflexivity.
Qed.

End DF.

Print Assumptions vrun_run.
Print Assumptions vrun_reachable.
Print Assumptions results_grow.
Print Assumptions results_keys.
Print Assumptions results_extend.
Print Assumptions sched_computes_den.
Print Assumptions finished_run_equals_den.
Print Assumptions schedule_independent.
Print Assumptions sequential_equals_den.
Print Assumptions flag_label_local.
Print Assumptions flag_label_is_truthiness.
