(* Compose.v — node-set part of BaseDAG.compose (tawazi/_dag/dag.py:210-423).  Definitions only.
   The value part (the composed DAG computes what the original would with the inputs overridden) is the
   embedding relation of Iso.v, checked on the composed table by the correspondence. *)
From Coq Require Import List Arith Bool PeanoNat.
From Tawazi Require Import Graph.
Import ListNotations.

Section Cmp.
Variable preds : nat -> list nat.
Variable nodes : list nat.
Variable required : list nat.     (* DAG parameters of the original without default value *)

(* nx.ancestors: strict ancestors *)
Definition strict_anc (n : nat) : list nat := remove1 n (ancestors_refl preds nodes [n]).

(* one round of _add_missing_deps: predecessors (inside the graph) of the nodes to expand that are not yet
   collected; None if one of them is a required DAG parameter *)
Definition cmp_step (acc : option (list nat * list nat)) : option (list nat * list nat) :=
  match acc with
  | None => None
  | Some (acc_s, E) =>
      let new := nodup Nat.eq_dec (filter (fun p => mem p nodes && negb (mem p acc_s)) (flat_map preds E)) in
      if existsb (fun p => mem p required) new then None else Some (acc_s ++ new, new)
  end.

(* dag.py:303-369: in_ids, out_ids already resolved to single ids *)
Definition compose_set (ins outs : list nat) : option (list nat) :=
  if existsb (fun i => existsb (fun j => mem i (strict_anc j)) ins) ins then None
  else match iter (S (length nodes)) cmp_step (Some (nodup Nat.eq_dec (ins ++ outs), nodup Nat.eq_dec outs)) with
       | Some (acc_s, _) => Some acc_s
       | None => None
       end.
End Cmp.

Definition enc_cmp (r : option (list nat)) : list nat := match r with None => [0] | Some l => 1 :: l end.
