(* GraphFacts.v — lemmas about the list-as-set operations and the graph primitives of Graph.v *)
From Coq Require Import List Arith Bool Lia PeanoNat Permutation.
From Tawazi Require Import Graph.
Import ListNotations.

Lemma mem_In x l : mem x l = true <-> In x l.
Proof. unfold mem. rewrite existsb_exists. split.
 - intros [y [Hy He]]. apply Nat.eqb_eq in He. subst. exact Hy.
 - intros H. exists x. split; [exact H|apply Nat.eqb_refl]. Qed.
Lemma mem_false x l : mem x l = false <-> ~ In x l.
Proof. rewrite <- mem_In. destruct (mem x l); split; congruence. Qed.

Lemma In_remove1 x y l : In y (remove1 x l) <-> In y l /\ y <> x.
Proof. unfold remove1. rewrite filter_In. rewrite negb_true_iff, Nat.eqb_neq. tauto. Qed.
Lemma NoDup_remove1 x l : NoDup l -> NoDup (remove1 x l).
Proof. apply NoDup_filter. Qed.
Lemma In_diff a b y : In y (diff a b) <-> In y a /\ ~ In y b.
Proof. unfold diff. rewrite filter_In, negb_true_iff, mem_false. tauto. Qed.
Lemma NoDup_diff a b : NoDup a -> NoDup (diff a b).
Proof. apply NoDup_filter. Qed.
Lemma In_inter a b y : In y (inter a b) <-> In y a /\ In y b.
Proof. unfold inter. rewrite filter_In, mem_In. tauto. Qed.
Lemma In_union a b y : In y (union a b) <-> In y a \/ In y b.
Proof. unfold union. rewrite in_app_iff, filter_In, negb_true_iff, mem_false, nodup_In.
  destruct (in_dec Nat.eq_dec y a); tauto. Qed.
Lemma NoDup_app_intro {A} (a b : list A) :
  NoDup a -> NoDup b -> (forall x, In x a -> ~ In x b) -> NoDup (a ++ b).
Proof. induction a as [|x a IH]; simpl; intros Ha Hb Hd; auto.
  inversion Ha; subst. constructor.
  - rewrite in_app_iff. intros [H|H]; [tauto|]. apply (Hd x); auto.
  - apply IH; auto. Qed.
Lemma NoDup_app_l {A} (a b : list A) : NoDup (a ++ b) -> NoDup a.
Proof. induction a; simpl; intros H; [constructor|]. inversion H; subst. constructor; auto.
  rewrite in_app_iff in *. tauto. Qed.
Lemma NoDup_app_r {A} (a b : list A) : NoDup (a ++ b) -> NoDup b.
Proof. induction a; simpl; intros H; auto. inversion H; auto. Qed.
Lemma NoDup_app_disj {A} (a b : list A) x : NoDup (a ++ b) -> In x a -> ~ In x b.
Proof. induction a; simpl; intros H Hx; [tauto|]. inversion H; subst. destruct Hx.
  - subst. rewrite in_app_iff in *. tauto.
  - auto. Qed.

Lemma NoDup_union a b : NoDup a -> NoDup (union a b).
Proof. intros Ha. unfold union. apply NoDup_app_intro; auto.
  - apply NoDup_filter, NoDup_nodup.
  - intros x Hx. rewrite filter_In, negb_true_iff, mem_false. tauto. Qed.

Lemma subset_spec a b : subset a b = true <-> (forall x, In x a -> In x b).
Proof. unfold subset. rewrite forallb_forall. split; intros H x Hx; [apply mem_In|apply mem_In]; auto. Qed.
Lemma seteq_spec a b : seteq a b = true <-> (forall x, In x a <-> In x b).
Proof. unfold seteq. rewrite andb_true_iff, !subset_spec. firstorder. Qed.
Lemma isnil_spec {A} (l : list A) : isnil l = true <-> l = [].
Proof. destruct l; simpl; split; congruence. Qed.
Lemma isnil_false {A} (l : list A) : isnil l = false <-> l <> [].
Proof. destruct l; simpl; split; congruence. Qed.

Lemma remove1_notin x l : ~ In x l -> remove1 x l = l.
Proof. induction l as [|y l IH]; simpl; intros H; auto.
  destruct (Nat.eqb_spec y x); simpl; [subst; tauto|]. f_equal. apply IH. tauto. Qed.
Lemma length_remove1_In x l : NoDup l -> In x l -> S (length (remove1 x l)) = length l.
Proof. induction l as [|y l IH]; simpl; intros Hn Hi; [tauto|]. inversion Hn; subst.
  destruct (Nat.eqb_spec y x).
  - subst. simpl. f_equal. fold (remove1 x l). rewrite remove1_notin; auto.
  - simpl. f_equal. apply IH; auto. destruct Hi; congruence. Qed.
Lemma length_remove1_le x l : length (remove1 x l) <= length l.
Proof. unfold remove1. induction l as [|y l IH]; simpl; auto. destruct (negb (y =? x)); simpl; lia. Qed.

Section G.
Variable preds : nat -> list nat.

Lemma is_root_spec rem n :
  is_root preds rem n = true <-> In n rem /\ forall p, In p (preds n) -> ~ In p rem.
Proof. unfold is_root. rewrite andb_true_iff, mem_In, forallb_forall.
 split; intros [H1 H2]; split; auto.
 - intros p Hp. specialize (H2 p Hp). rewrite negb_true_iff in H2. apply mem_false; auto.
 - intros p Hp. rewrite negb_true_iff. apply mem_false; auto. Qed.

Lemma In_roots rem n : In n (roots preds rem) <-> is_root preds rem n = true.
Proof. unfold roots. rewrite filter_In. split; [tauto|]. intros H; split; auto.
  apply is_root_spec in H. tauto. Qed.
Lemma NoDup_roots rem : NoDup rem -> NoDup (roots preds rem).
Proof. apply NoDup_filter. Qed.

Lemma in_deg_one rem r m : In r rem -> In r (preds m) ->
  (in_deg preds rem m = 1 <-> forall p, In p (preds m) -> In p rem -> p = r).
Proof.
  intros Hr Hrm. unfold in_deg.
  set (l := filter (fun p => mem p rem) (nodup Nat.eq_dec (preds m))).
  assert (Hnd : NoDup l) by (apply NoDup_filter, NoDup_nodup).
  assert (Hin : forall p, In p l <-> In p (preds m) /\ In p rem).
  { intros p. unfold l. rewrite filter_In, nodup_In, mem_In. tauto. }
  assert (Hrl : In r l) by (apply Hin; auto).
  split.
  - intros Hlen p Hp Hprem. assert (Hpl : In p l) by (apply Hin; auto).
    destruct l as [|a [|b l']]; simpl in *; try lia; destruct Hrl, Hpl; try tauto; congruence.
  - intros Hall. destruct l as [|a [|b l']]; simpl in *; try tauto; try reflexivity.
    exfalso. assert (a = r) by (apply Hall; apply Hin; simpl; auto).
    assert (b = r) by (apply Hall; apply Hin; simpl; auto). subst.
    inversion Hnd; subst. simpl in *. tauto.
Qed.

Lemma In_generated rem r m : In r rem ->
  In m (snd (remove_root_node preds rem r)) <->
  In m rem /\ In r (preds m) /\ forall p, In p (preds m) -> In p rem -> p = r.
Proof. intros Hr. unfold remove_root_node, succs_in; simpl.
  rewrite !filter_In, mem_In, Nat.eqb_eq. split.
  - intros [[H1 H2] H3]. repeat split; auto. apply (in_deg_one rem r m Hr H2); auto.
  - intros [H1 [H2 H3]]. repeat split; auto. apply (in_deg_one rem r m Hr H2); auto. Qed.

(* removing a root r: new roots = old roots minus r, plus the generated ones *)
Lemma roots_after_remove rem r n : is_root preds rem r = true ->
  is_root preds (fst (remove_root_node preds rem r)) n = true <->
  (is_root preds rem n = true /\ n <> r) \/ In n (snd (remove_root_node preds rem r)).
Proof.
  intros Hr. apply is_root_spec in Hr. destruct Hr as [Hr Hrp].
  rewrite In_generated by auto. simpl. rewrite !is_root_spec.
  split.
  - intros [Hn Hp]. apply In_remove1 in Hn. destruct Hn as [Hn Hne].
    destruct (in_dec Nat.eq_dec r (preds n)) as [E|E].
    + right. repeat split; auto. intros p Hpp Hprem. destruct (Nat.eq_dec p r); auto. exfalso.
      apply (Hp p Hpp). apply In_remove1; auto.
    + left. repeat split; auto. intros p Hpp Hprem. apply (Hp p Hpp).
      apply In_remove1. split; auto. intro; subst; auto.
  - intros [[[Hn Hp] Hne] | [Hn [Hrn Hdeg]]].
    + split; [apply In_remove1; auto|]. intros p Hpp Hq. apply In_remove1 in Hq. apply (Hp p Hpp). tauto.
    + assert (n <> r). { intro; subst. apply (Hrp r Hrn Hr). }
      split; [apply In_remove1; auto|]. intros p Hpp Hq. apply In_remove1 in Hq. destruct Hq as [Hq Hne].
      apply Hne. apply Hdeg; auto.
Qed.

(* generated nodes were not roots before *)
Lemma generated_not_root rem r m : In r rem ->
  In m (snd (remove_root_node preds rem r)) -> is_root preds rem m = false.
Proof. intros Hr H. apply In_generated in H; auto. destruct H as [H1 [H2 _]].
  destruct (is_root preds rem m) eqn:E; auto. apply is_root_spec in E. destruct E as [_ E].
  exfalso. apply (E r); auto. Qed.

(* an acyclic non-empty remaining graph has a root *)
Lemma exists_root (rank : nat -> nat) rem :
  (forall n p, In n rem -> In p (preds n) -> In p rem -> rank p < rank n) ->
  rem <> [] -> exists r, is_root preds rem r = true.
Proof.
  intros Hrk Hne.
  assert (H : forall k n, In n rem -> rank n <= k -> exists r, is_root preds rem r = true).
  { induction k as [|k IH]; intros n Hn Hk.
    - exists n. apply is_root_spec. split; auto. intros p Hp Hpr. specialize (Hrk n p Hn Hp Hpr). lia.
    - destruct (forallb (fun p => negb (mem p rem)) (preds n)) eqn:E.
      + exists n. unfold is_root. rewrite E. rewrite andb_true_r. apply mem_In; auto.
      + assert (exists p, In p (preds n) /\ In p rem) as [p [Hp Hpr]].
        { destruct (existsb (fun p => mem p rem) (preds n)) eqn:E2.
          - apply existsb_exists in E2. destruct E2 as [p [H1 H2]]. exists p. split; auto. apply mem_In; auto.
          - exfalso. rewrite <- not_true_iff_false in E. apply E. apply forallb_forall. intros p Hp.
            rewrite negb_true_iff. destruct (mem p rem) eqn:E3; auto.
            rewrite <- not_true_iff_false in E2. exfalso. apply E2. apply existsb_exists. exists p; auto. }
        apply (IH p Hpr). specialize (Hrk n p Hn Hp Hpr). lia. }
  destruct rem as [|n rem']; [congruence|]. apply (H (rank n) n); simpl; auto. Qed.

End G.

(* ---- counting occurrences: the scheduler invariants are stated with count_occ so that
        NoDup, disjointness and membership become linear arithmetic *)
Notation cnt := (count_occ Nat.eq_dec).
Definition b2n (b : bool) : nat := if b then 1 else 0.

Lemma cnt_remove1 n l x : cnt (remove1 n l) x = if Nat.eqb x n then 0 else cnt l x.
Proof. induction l as [|y l IH]; simpl.
  - destruct (x =? n); auto.
  - destruct (Nat.eqb_spec y n); simpl; rewrite ?IH;
    destruct (Nat.eq_dec y x); destruct (Nat.eqb_spec x n); subst; try congruence; auto. Qed.

Lemma cnt_In l x : In x l <-> 1 <= cnt l x.
Proof. rewrite (count_occ_In Nat.eq_dec). lia. Qed.
Lemma cnt_notIn l x : ~ In x l <-> cnt l x = 0.
Proof. rewrite (count_occ_not_In Nat.eq_dec). tauto. Qed.
Lemma cnt_NoDup l : NoDup l <-> forall x, cnt l x <= 1.
Proof. apply NoDup_count_occ. Qed.
Lemma cnt_filter_le f l x : cnt (filter f l) x <= cnt l x.
Proof. induction l as [|y l IH]; simpl; auto. destruct (f y); simpl; destruct (Nat.eq_dec y x); lia. Qed.

Lemma cnt_union a b x : cnt (union a b) x = cnt a x + (if mem x a then 0 else b2n (mem x b)).
Proof. unfold union. rewrite count_occ_app. f_equal.
  set (l := filter (fun y => negb (mem y a)) (nodup Nat.eq_dec b)).
  assert (Hnd : NoDup l) by (apply NoDup_filter, NoDup_nodup).
  assert (Hin : In x l <-> ~ In x a /\ In x b).
  { unfold l. rewrite filter_In, nodup_In, negb_true_iff, mem_false. tauto. }
  destruct (mem x a) eqn:Ea.
  - apply mem_In in Ea. apply cnt_notIn. tauto.
  - apply mem_false in Ea. destruct (mem x b) eqn:Eb; simpl.
    + apply mem_In in Eb. assert (In x l) by tauto. apply cnt_In in H.
      apply (proj1 (cnt_NoDup l)) with (x := x) in Hnd. lia.
    + apply mem_false in Eb. apply cnt_notIn. tauto. Qed.

Lemma length_remove1_cnt x l : length (remove1 x l) + cnt l x = length l.
Proof. induction l as [|y l IH]; simpl; auto. destruct (Nat.eqb_spec y x); simpl.
  - subst. destruct (Nat.eq_dec x x); [|congruence]. lia.
  - destruct (Nat.eq_dec y x); [congruence|]. lia. Qed.
