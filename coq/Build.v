(* Build.v — the dependency rules enforced when a DAG is built (node.py:417-432, digraph.py:60-64):
   a non-debug node may not depend — through a positional argument, a keyword argument or its activation
   flag — on a debug node; a setup node may only depend on setup nodes and constants, never on a DAG
   parameter.  A DAG violating them is rejected at build time. *)
From Coq Require Import List Arith Bool PeanoNat.
From Tawazi Require Import Graph.
Import ListNotations.

Section B.
Variable deps : nat -> list nat.          (* args, kwargs and flag *)
Variables debug setup is_const is_input : nat -> bool.

Definition node_ok (n : nat) : bool :=
  (debug n || forallb (fun p => negb (debug p)) (deps n)) &&
  (negb (setup n) || forallb (fun p => (setup p || is_const p) && negb (is_input p)) (deps n)).
Definition build_ok (nodes : list nat) : bool := forallb node_ok nodes.

Lemma build_ok_no_debug_dep nodes : build_ok nodes = true ->
  forall n, In n nodes -> debug n = false -> forall p, In p (deps n) -> debug p = false.
Proof.
  unfold build_ok. rewrite forallb_forall. intros H n Hn Hd p Hp.
  specialize (H n Hn). unfold node_ok in H. rewrite Hd in H. simpl in H.
  apply andb_true_iff in H. destruct H as [H _]. rewrite forallb_forall in H.
  specialize (H p Hp). destruct (debug p); simpl in H; congruence.
Qed.
Lemma build_ok_setup_deps nodes : build_ok nodes = true ->
  forall n, In n nodes -> setup n = true -> forall p, In p (deps n) ->
    (setup p = true \/ is_const p = true) /\ is_input p = false.
Proof.
  unfold build_ok. rewrite forallb_forall. intros H n Hn Hs p Hp.
  specialize (H n Hn). unfold node_ok in H. rewrite Hs in H. simpl in H.
  apply andb_true_iff in H. destruct H as [_ H]. rewrite forallb_forall in H.
  specialize (H p Hp). apply andb_true_iff in H. destruct H as [H1 H2].
  apply orb_true_iff in H1. destruct (is_input p); simpl in H2; try discriminate. tauto.
Qed.
End B.
Print Assumptions build_ok_no_debug_dep.
Print Assumptions build_ok_setup_deps.
Definition kbuild deps debug setup is_const is_input nodes : list nat :=
  [if build_ok deps debug setup is_const is_input nodes then 1 else 0].
