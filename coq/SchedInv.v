(* SchedInv.v — invariants of the scheduler LTS of Sched.v and the theorems the properties rest on. *)
From Coq Require Import List Arith Bool Lia PeanoNat ZArith.
From Tawazi Require Import Graph GraphFacts Sched.
Import ListNotations.
Arguments remove_root_node : simpl never.

Section Inv.
Variable c : cfg.
Let preds := c_preds c.
Notation R0 := (diff (c_nodes c) (c_pre c)).

(* well-formed configuration: what DAG construction guarantees (digraph.py:66-71, dag.py:104-108) *)
Record wf : Prop := {
  wf_nodup : NoDup (c_nodes c);
  wf_maxc : 1 <= c_maxc c;
  wf_acyclic : exists rank : nat -> nat,
      forall n p, In n (c_nodes c) -> In p (preds n) -> In p (c_nodes c) -> rank p < rank n
}.

(* ------------------------------------------------------------------ transitions as a relation *)
Definition completes (k : kind) (s : state) (ns : list nat) : state := fold_left (complete c k) ns s.

Inductive wait_site : state -> kind -> mode -> (list (nat * bool) -> state -> pcT) -> Prop :=
| ws_top s : pc s = PTop -> rem s <> [] -> gate c s = true ->
    wait_site s KA MFirst (fun d _ => PGateC (nonempty_bool d))
| ws_gatec s b : pc s = PGateC b -> wait_site s KC MFirst (fun _ s' => after_gate s')
| ws_defera s n : pc s = PDeferA n -> wait_site s KA MFirst (fun d _ => PDeferC n (nonempty_bool d))
| ws_deferc s n b : pc s = PDeferC n b -> wait_site s KC MFirst (fun _ _ => PTop)
| ws_draina s n : pc s = PDrainA n -> wait_site s KA MAll (fun _ _ => PDrainC n)
| ws_drainc s n : pc s = PDrainC n -> wait_site s KC MAll (fun _ _ => PTop).

Inductive trans : state -> label -> state -> Prop :=
| t_end s : pc s = PTop -> rem s = [] -> trans s LEnd (set_pc s PFinished)
| t_wait_empty s k m nx : wait_site s k m nx -> inflight s k = [] ->
    trans s (LWait k m []) (set_pc s (nx [] s))
| t_wait_ok s k m nx dones ns s1 : wait_site s k m nx -> inflight s k <> [] -> dones <> [] ->
    dones = map (fun n => (n, true)) ns -> s1 = completes k s ns ->
    (forall pre n post, ns = pre ++ n :: post -> In n (inflight (completes k s pre) k)) ->
    (m = MAll -> inflight s1 k = []) ->
    trans s (LWait k m dones) (set_pc s1 (nx dones s1))
| t_wait_fail s k m nx dones ns f s1 : wait_site s k m nx -> inflight s k <> [] ->
    dones = map (fun n => (n, true)) ns ++ [(f, false)] -> s1 = completes k s ns ->
    (forall pre n post, ns = pre ++ n :: post -> In n (inflight (completes k s pre) k)) ->
    In f (inflight s1 k) ->
    trans s (LWait k m dones) (set_pc s1 (PRaised f))
| t_pick_defer s n : (pc s = PPick \/ (pc s = PTop /\ rem s <> [] /\ gate c s = false)) ->
    is_max c n (runnable s) = true -> c_seq c n = true -> running s <> 0 ->
    trans s (LPick n) (set_pc s (PDeferA n))
| t_pick_take s n : (pc s = PPick \/ (pc s = PTop /\ rem s <> [] /\ gate c s = false)) ->
    is_max c n (runnable s) = true -> (c_seq c n = true -> running s = 0) ->
    trans s (LPick n) (set_pc (take_runnable s n) (PActive n))
| t_active s n : pc s = PActive n -> trans s (LActive n true) (set_pc s (PDisp n))
| t_skip s n : pc s = PActive n ->
    trans s (LActive n false) (set_pc (mark_skipped (remove_node c s n) n) PTop)
| t_submit_c s n : pc s = PDisp n -> c_res c n = RThread ->
    trans s (LSubmit KC n) (set_pc (mark_started (set_inflight s KC (n :: conc s)) n) (after_dispatch c n))
| t_submit_a s n : pc s = PDisp n -> c_res c n = RAsync ->
    trans s (LSubmit KA n) (set_pc (mark_started (set_inflight s KA (n :: asyn s)) n) (after_dispatch c n))
| t_inline_ok s n : pc s = PDisp n -> c_res c n = RMain ->
    trans s (LInline n true)
          (set_pc (mark_finished (remove_node c (mark_started s n) n) n) (after_dispatch c n))
| t_inline_fail s n : pc s = PDisp n -> c_res c n = RMain ->
    trans s (LInline n false) (set_pc (mark_started s n) (PRaised n)).

Lemma inspect_spec k : forall dones s s1 r,
  inspect c k s dones = Some (s1, r) ->
  exists ns, s1 = completes k s ns /\
    (forall pre n post, ns = pre ++ n :: post -> In n (inflight (completes k s pre) k)) /\
    match r with
    | None => dones = map (fun n => (n, true)) ns
    | Some f => dones = map (fun n => (n, true)) ns ++ [(f, false)] /\ In f (inflight s1 k)
    end.
Proof.
  induction dones as [|[n b] ds IH]; intros s s1 r H; simpl in H.
  - inversion H; subst. exists []. split; [reflexivity|]. split; [|reflexivity].
    intros pre n post E. exfalso. exact (app_cons_not_nil _ _ _ E).
  - destruct b; (destruct (mem n (inflight s k)) eqn:Hm; [|discriminate]); apply mem_In in Hm.
    + apply IH in H. destruct H as [ns [H1 [H2 H3]]]. exists (n :: ns). split; [exact H1|]. split.
      * intros pre x post E. destruct pre as [|y pre]; simpl in E; inversion E; subst; simpl; auto.
        apply (H2 pre x post); auto.
      * destruct r as [f|]; simpl; [destruct H3 as [H3 H4]; split; auto|]; rewrite H3; auto.
    + destruct ds; [|discriminate]. inversion H; subst. exists []. simpl.
      split; [reflexivity|]. split; [|split; auto].
      intros pre x post E. exfalso. exact (app_cons_not_nil _ _ _ E).
Qed.

Lemma step_trans s l s' : step c s l = Some s' -> trans s l s'.
Proof.
  unfold step. intros H.
  assert (Hw : forall k m nx dones, wait_site s k m (fun d s' => nx d s') ->
               do_wait c s k m dones (nx dones) = Some s' -> trans s (LWait k m dones) s').
  { clear H. intros k m nx dones Hs H. unfold do_wait in H.
    destruct (isnil (inflight s k)) eqn:E1.
    - destruct (isnil dones) eqn:E2; [|discriminate]. apply isnil_spec in E1, E2. subst. inversion H; subst.
      apply (t_wait_empty s k m _ Hs E1).
    - destruct (isnil dones) eqn:E2; [discriminate|]. apply isnil_false in E1, E2.
      destruct (inspect c k s dones) as [[s1 r]|] eqn:E3; [|discriminate].
      apply inspect_spec in E3. destruct E3 as [ns [H1 [H2 H3]]].
      destruct r as [f|].
      + destruct H3 as [H3 H4]. inversion H; subst s'. eapply t_wait_fail; eauto.
      + destruct m.
        * inversion H; subst s'. eapply (t_wait_ok s k MFirst _ dones ns s1); eauto. discriminate.
        * destruct (isnil (inflight s1 k)) eqn:E4; [|discriminate]. apply isnil_spec in E4.
          inversion H; subst s'. eapply (t_wait_ok s k MAll _ dones ns s1); eauto. }
  assert (Hp : forall n, (pc s = PPick \/ (pc s = PTop /\ rem s <> [] /\ gate c s = false)) ->
               do_pick c s n = Some s' -> trans s (LPick n) s').
  { clear H Hw. intros n Hs H. unfold do_pick in H. destruct (is_max c n (runnable s)) eqn:E1; [|discriminate].
    destruct (c_seq c n) eqn:E2; simpl in H.
    - destruct (running s =? 0) eqn:E3; simpl in H; inversion H; subst.
      + apply Nat.eqb_eq in E3. apply t_pick_take; auto.
      + apply Nat.eqb_neq in E3. apply t_pick_defer; auto.
    - inversion H; subst. apply t_pick_take; auto. congruence. }
  destruct (pc s) eqn:Hpc; destruct l; try discriminate.
  - (* PTop wait *) destruct k; try discriminate. destruct m; try discriminate.
    destruct (isnil (rem s)) eqn:E1; [discriminate|]. destruct (gate c s) eqn:E2; [|discriminate].
    apply isnil_false in E1.
    apply (Hw KA MFirst (fun d _ => PGateC (nonempty_bool d))); auto. constructor; auto.
  - (* PTop pick *) destruct (isnil (rem s)) eqn:E1; [discriminate|]. destruct (gate c s) eqn:E2; [discriminate|].
    apply isnil_false in E1. apply Hp; auto.
  - (* PTop end *) destruct (isnil (rem s)) eqn:E1; [|discriminate]. apply isnil_spec in E1.
    inversion H; subst. constructor; auto.
  - destruct k; try discriminate. destruct m; try discriminate.
    apply (Hw KC MFirst (fun _ s' => after_gate s')); auto. econstructor; eauto.
  - apply Hp; auto.
  - destruct k; try discriminate. destruct m; try discriminate.
    apply (Hw KA MFirst (fun d _ => PDeferC n (nonempty_bool d))); auto. econstructor; eauto.
  - destruct k; try discriminate. destruct m; try discriminate.
    apply (Hw KC MFirst (fun _ _ => PTop)); auto. econstructor; eauto.
  - destruct (Nat.eqb_spec n n0); [|discriminate]. subst. destruct b; inversion H; subst; constructor; auto.
  - destruct k; (destruct (Nat.eqb_spec n n0); [|discriminate]); subst;
    destruct (c_res c n0) eqn:E; try discriminate; inversion H; subst; constructor; auto.
  - destruct (Nat.eqb_spec n n0); [|discriminate]. subst.
    destruct (c_res c n0) eqn:E; try discriminate. destruct ok; inversion H; subst; constructor; auto.
  - destruct k; try discriminate. destruct m; try discriminate.
    apply (Hw KA MAll (fun _ _ => PDrainC n)); auto. econstructor; eauto.
  - destruct k; try discriminate. destruct m; try discriminate.
    apply (Hw KC MAll (fun _ _ => PTop)); auto. econstructor; eauto.
Qed.

(* ------------------------------------------------------------------ field projections *)
Lemma complete_rem k s n : rem (complete c k s n) = remove1 n (rem s).
Proof. destruct k; reflexivity. Qed.
Lemma complete_runnable k s n :
  runnable (complete c k s n) = union (runnable s) (snd (remove_root_node preds (rem s) n)).
Proof. destruct k; reflexivity. Qed.
Lemma complete_conc k s n : conc (complete c k s n) = match k with KC => remove1 n (conc s) | KA => conc s end.
Proof. destruct k; reflexivity. Qed.
Lemma complete_asyn k s n : asyn (complete c k s n) = match k with KA => remove1 n (asyn s) | KC => asyn s end.
Proof. destruct k; reflexivity. Qed.
Lemma complete_pc k s n : pc (complete c k s n) = pc s.
Proof. destruct k; reflexivity. Qed.
Lemma complete_started k s n : started (complete c k s n) = started s.
Proof. destruct k; reflexivity. Qed.
Lemma complete_finished k s n : finished (complete c k s n) = n :: finished s.
Proof. destruct k; reflexivity. Qed.
Lemma complete_skipped k s n : skipped (complete c k s n) = skipped s.
Proof. destruct k; reflexivity. Qed.
Lemma remove_node_conc s n : conc (remove_node c s n) = conc s.
Proof. unfold remove_node. destruct (remove_root_node (c_preds c) (rem s) n). reflexivity. Qed.
Lemma remove_node_asyn s n : asyn (remove_node c s n) = asyn s.
Proof. unfold remove_node. destruct (remove_root_node (c_preds c) (rem s) n). reflexivity. Qed.
Lemma remove_node_pc s n : pc (remove_node c s n) = pc s.
Proof. unfold remove_node. destruct (remove_root_node (c_preds c) (rem s) n). reflexivity. Qed.
Lemma remove_node_rem s n : rem (remove_node c s n) = remove1 n (rem s).
Proof. reflexivity. Qed.
Lemma remove_node_runnable s n : runnable (remove_node c s n) = union (runnable s) (snd (remove_root_node preds (rem s) n)).
Proof. reflexivity. Qed.
Lemma remove_node_started s n : started (remove_node c s n) = started s.
Proof. unfold remove_node. destruct (remove_root_node (c_preds c) (rem s) n). reflexivity. Qed.
Lemma remove_node_finished s n : finished (remove_node c s n) = finished s.
Proof. unfold remove_node. destruct (remove_root_node (c_preds c) (rem s) n). reflexivity. Qed.
Lemma remove_node_skipped s n : skipped (remove_node c s n) = skipped s.
Proof. unfold remove_node. destruct (remove_root_node (c_preds c) (rem s) n). reflexivity. Qed.
Lemma completes_pc k ns : forall s, pc (completes k s ns) = pc s.
Proof. unfold completes. induction ns as [|n ns IH]; intros s; simpl; auto. rewrite IH. apply complete_pc. Qed.
Lemma completes_started k ns : forall s, started (completes k s ns) = started s.
Proof. unfold completes. induction ns as [|n ns IH]; intros s; simpl; auto. rewrite IH. apply complete_started. Qed.
Lemma completes_skipped k ns : forall s, skipped (completes k s ns) = skipped s.
Proof. unfold completes. induction ns as [|n ns IH]; intros s; simpl; auto. rewrite IH. apply complete_skipped. Qed.

(* induction principle for a property preserved by each completion of a wait *)
Lemma completes_ind (P : state -> Prop) k :
  (forall s n, P s -> In n (inflight s k) -> P (complete c k s n)) ->
  forall ns s, P s ->
    (forall pre n post, ns = pre ++ n :: post -> In n (inflight (completes k s pre) k)) ->
    P (completes k s ns).
Proof.
  intros Hstep. induction ns as [|n ns IH]; intros s Hs Hin; simpl; auto.
  apply IH.
  - apply Hstep; auto. apply (Hin [] n ns); auto.
  - intros pre x post E. apply (Hin (n :: pre) x post). simpl. congruence.
Qed.

(* ------------------------------------------------------------------ Inv1: structure *)
Definition cur (p : pcT) : list nat := match p with PActive n | PDisp n => [n] | _ => [] end.
Definition live (s : state) : list nat := runnable s ++ conc s ++ asyn s ++ cur (pc s).
Definition alive (s : state) : Prop := forall n, pc s <> PRaised n.

Record Inv1 (s : state) : Prop := {
  i_rem : NoDup (rem s);
  i_sub : forall x, In x (rem s) -> In x R0;
  i_cnt : forall x, cnt (live s) x = b2n (is_root preds (rem s) x)
}.

Lemma cnt_live s x :
  cnt (live s) x = cnt (runnable s) x + cnt (conc s) x + cnt (asyn s) x + cnt (cur (pc s)) x.
Proof. unfold live. rewrite !count_occ_app. lia. Qed.

Lemma init_Inv1 : wf -> Inv1 (init c).
Proof.
  intros W. constructor; simpl.
  - apply NoDup_diff, (wf_nodup W).
  - auto.
  - intros x. rewrite cnt_live. simpl. fold preds.
    assert (Hnd : NoDup (roots preds R0)) by (apply NoDup_roots, NoDup_diff, (wf_nodup W)).
    destruct (is_root preds R0 x) eqn:E; simpl.
    + apply In_roots in E. apply cnt_In in E. apply (proj1 (cnt_NoDup _)) with (x := x) in Hnd. lia.
    + assert (~ In x (roots preds R0)) by (rewrite In_roots; congruence).
      apply cnt_notIn in H. lia.
Qed.

Lemma root_not_generated rem r m :
  In r rem -> is_root preds rem m = true -> ~ In m (snd (remove_root_node preds rem r)).
Proof. intros Hr Hm Hg. apply generated_not_root in Hg; auto. congruence. Qed.

Lemma is_root_in rem x : is_root preds rem x = true -> In x rem.
Proof. intros H. apply is_root_spec in H. tauto. Qed.

(* removing a root n from the graph: how root-ness of x changes *)
Lemma root_after rem n x : is_root preds rem n = true ->
  b2n (is_root preds (remove1 n rem) x) =
  (if Nat.eqb x n then 0 else b2n (is_root preds rem x)) + b2n (mem x (snd (remove_root_node preds rem n))).
Proof.
  intros Hn. pose proof (roots_after_remove preds rem n x Hn) as H.
  change (fst (remove_root_node preds rem n)) with (remove1 n rem) in H.
  pose proof (is_root_in _ _ Hn) as Hin.
  pose proof (fun m => root_not_generated rem n m Hin) as Hng.
  pose proof (fun m => generated_not_root preds rem n m Hin) as Hgn.
  set (g := snd (remove_root_node preds rem n)) in *. clearbody g.
  destruct (is_root preds (remove1 n rem) x) eqn:E1.
  - destruct (proj1 H eq_refl) as [[H1 H2]|H1].
    + rewrite H1. apply Nat.eqb_neq in H2. rewrite H2.
      assert (mem x g = false) as ->; auto. apply mem_false. apply Hng; auto.
    + rewrite (Hgn x H1). apply mem_In in H1. rewrite H1. destruct (x =? n); auto.
  - destruct (mem x g) eqn:E2.
    + apply mem_In in E2. assert (false = true) by (apply H; auto). discriminate.
    + destruct (Nat.eqb_spec x n); auto. destruct (is_root preds rem x) eqn:E3; auto.
      assert (false = true) by (apply H; auto). discriminate.
Qed.

Lemma complete_Inv1 k s n : Inv1 s -> cur (pc s) = [] -> In n (inflight s k) -> Inv1 (complete c k s n).
Proof.
  intros [H1 H2 H3] Hc Hn.
  assert (Hroot : is_root preds (rem s) n = true).
  { specialize (H3 n). rewrite cnt_live in H3. destruct (is_root preds (rem s) n); auto. simpl in H3.
    destruct k; simpl in Hn; apply cnt_In in Hn; lia. }
  constructor.
  - rewrite complete_rem. apply NoDup_remove1; auto.
  - intros x. rewrite complete_rem, In_remove1. intros [Hx _]. auto.
  - intros x. rewrite cnt_live, complete_rem, complete_runnable, complete_conc, complete_asyn, complete_pc, Hc.
    rewrite (root_after _ _ _ Hroot). specialize (H3 x). rewrite cnt_live, Hc in H3.
    rewrite cnt_union.
    pose proof (fun m => root_not_generated (rem s) n m (is_root_in _ _ Hroot)) as Hng.
    pose proof (fun m => generated_not_root preds (rem s) n m (is_root_in _ _ Hroot)) as Hgn.
    set (g := snd (remove_root_node preds (rem s) n)) in *. clearbody g.
    destruct (Nat.eqb_spec x n) as [->|Hne].
    + (* x = n: it was in flight, hence in no other list, and it is not generated *)
      rewrite Hroot in H3. cbn [b2n] in H3.
      assert (Hg : mem n g = false) by (apply mem_false; apply Hng; auto).
      rewrite Hg. cbn [b2n cnt cur].
      destruct k; cbn [inflight] in Hn; apply cnt_In in Hn; rewrite cnt_remove1, Nat.eqb_refl;
        (destruct (mem n (runnable s)) eqn:Em; [apply mem_In, cnt_In in Em; cbn [count_occ] in *; lia|]);
        cbn [count_occ] in *; lia.
    + assert (Hk : cnt (match k with KC => remove1 n (conc s) | KA => conc s end) x = cnt (conc s) x).
      { destruct k; auto. rewrite cnt_remove1. apply Nat.eqb_neq in Hne. rewrite Hne. auto. }
      assert (Hk' : cnt (match k with KA => remove1 n (asyn s) | KC => asyn s end) x = cnt (asyn s) x).
      { destruct k; auto. rewrite cnt_remove1. apply Nat.eqb_neq in Hne. rewrite Hne. auto. }
      rewrite Hk, Hk'. cbn [count_occ] in *.
      destruct (mem x g) eqn:Eg; cbn [b2n].
      * apply mem_In in Eg. rewrite (Hgn x Eg) in *. cbn [b2n] in *.
        destruct (mem x (runnable s)) eqn:Em; [apply mem_In, cnt_In in Em; lia|]. lia.
      * destruct (mem x (runnable s)); lia.
Qed.

Lemma Inv1_set_pc s p : Inv1 s -> cur (pc s) = cur p -> Inv1 (set_pc s p).
Proof. intros [H1 H2 H3] E. constructor; auto. intros x. specialize (H3 x).
  rewrite cnt_live in *. cbn [set_pc rem runnable conc asyn pc]. rewrite <- E. auto. Qed.

Lemma wait_site_cur s k m nx : wait_site s k m nx -> cur (pc s) = [] /\ forall d s', cur (nx d s') = [].
Proof. intros H. destruct H as [s H|s b H|s n H|s n b H|s n H|s n H]; rewrite H; split; auto.
  intros d s'. unfold after_gate. destruct (isnil (runnable s')); auto. Qed.

Lemma completes_Inv1 k ns s : Inv1 s -> cur (pc s) = [] ->
  (forall pre n post, ns = pre ++ n :: post -> In n (inflight (completes k s pre) k)) ->
  Inv1 (completes k s ns).
Proof.
  intros H1 H2 H3.
  apply (completes_ind (fun s => Inv1 s /\ cur (pc s) = []) k) with (ns := ns) (s := s); auto.
  intros s0 n [Ha Hb] Hn. split; [apply complete_Inv1; auto|]. rewrite complete_pc; auto.
Qed.

(* the node held by the scheduler (cur) or in runnable is a root and occurs nowhere else *)
Lemma cnt_root_of_live s x : Inv1 s -> 1 <= cnt (live s) x -> is_root preds (rem s) x = true /\ cnt (live s) x = 1.
Proof. intros [_ _ H] Hx. specialize (H x). destruct (is_root preds (rem s) x); cbn [b2n] in H; split; auto; lia. Qed.

(* removal of the node n currently held by the scheduler (skip / inline execution) *)
Lemma remove_cur_Inv1 s n p : Inv1 s -> cur (pc s) = [n] -> cur p = [] ->
  forall s', rem s' = remove1 n (rem s) ->
    runnable s' = union (runnable s) (snd (remove_root_node preds (rem s) n)) ->
    conc s' = conc s -> asyn s' = asyn s -> pc s' = p -> Inv1 s'.
Proof.
  intros I Hc Hp s' E1 E2 E3 E4 E5.
  assert (Hl : 1 <= cnt (live s) n).
  { rewrite cnt_live, Hc. cbn [count_occ]. destruct (Nat.eq_dec n n); [lia|congruence]. }
  destruct (cnt_root_of_live s n I Hl) as [Hroot Hone].
  destruct I as [H1 H2 H3]. constructor.
  - rewrite E1. apply NoDup_remove1; auto.
  - intros x. rewrite E1, In_remove1. intros [Hx _]; auto.
  - intros x. rewrite cnt_live, E1, E2, E3, E4, E5, Hp.
    rewrite (root_after _ _ _ Hroot). specialize (H3 x). rewrite cnt_live, Hc in H3. rewrite cnt_live, Hc in Hone.
    rewrite cnt_union.
    pose proof (fun m => root_not_generated (rem s) n m (is_root_in _ _ Hroot)) as Hng.
    pose proof (fun m => generated_not_root preds (rem s) n m (is_root_in _ _ Hroot)) as Hgn.
    set (g := snd (remove_root_node preds (rem s) n)) in *. clearbody g.
    cbn [count_occ] in *.
    destruct (Nat.eqb_spec x n) as [->|Hne].
    + destruct (Nat.eq_dec n n); [|congruence].
      assert (Hg : mem n g = false) by (apply mem_false; apply Hng; auto). rewrite Hg. cbn [b2n].
      destruct (mem n (runnable s)) eqn:Em; [apply mem_In, cnt_In in Em; lia|]. lia.
    + destruct (Nat.eq_dec n x); [congruence|].
      destruct (mem x g) eqn:Eg; cbn [b2n].
      * apply mem_In in Eg. rewrite (Hgn x Eg) in *. cbn [b2n] in *.
        destruct (mem x (runnable s)) eqn:Em; [apply mem_In, cnt_In in Em; lia|]. lia.
      * destruct (mem x (runnable s)); lia.
Qed.

Lemma is_max_In n l : is_max c n l = true -> In n l.
Proof. unfold is_max. rewrite andb_true_iff, mem_In. tauto. Qed.

Lemma trans_Inv1 s l s' : Inv1 s -> trans s l s' -> alive s' -> Inv1 s'.
Proof.
  intros I T A. destruct T.
  - apply Inv1_set_pc; auto. rewrite H; auto.
  - destruct (wait_site_cur _ _ _ _ H) as [Hc Hn]. apply Inv1_set_pc; auto. rewrite Hc, Hn; auto.
  - destruct (wait_site_cur _ _ _ _ H) as [Hc Hn]. subst s1. apply Inv1_set_pc.
    + apply completes_Inv1; auto.
    + rewrite completes_pc, Hc, Hn; auto.
  - exfalso. apply (A f). reflexivity.
  - apply Inv1_set_pc; auto. destruct H as [H|[H _]]; rewrite H; auto.
  - (* take *)
    assert (Hc : cur (pc s) = []) by (destruct H as [H|[H _]]; rewrite H; auto).
    apply is_max_In in H0. destruct I as [Ia Ib Ic]. constructor; auto.
    intros x. specialize (Ic x). rewrite cnt_live in *. rewrite Hc in Ic.
    cbn [set_pc take_runnable rem runnable conc asyn pc cur]. rewrite cnt_remove1.
    cbn [count_occ] in *. apply cnt_In in H0.
    destruct (Nat.eqb_spec x n) as [->|Hne].
    + destruct (Nat.eq_dec n n); [|congruence]. destruct (is_root preds (rem s) n); cbn [b2n] in *; lia.
    + destruct (Nat.eq_dec n x); [congruence|]. lia.
  - apply Inv1_set_pc; auto. rewrite H; auto.
  - (* skip *) apply (remove_cur_Inv1 s n PTop); auto. rewrite H; auto.
  - (* submit thread *)
    destruct I as [Ia Ib Ic]. constructor; auto. intros x. specialize (Ic x). rewrite cnt_live in *. rewrite H in Ic.
    cbn [set_pc mark_started set_inflight rem runnable conc asyn pc cur count_occ] in *.
    assert (Hc : cur (after_dispatch c n) = []) by (unfold after_dispatch; destruct (c_seq c n); auto).
    rewrite Hc. cbn [count_occ]. destruct (Nat.eq_dec n x); lia.
  - destruct I as [Ia Ib Ic]. constructor; auto. intros x. specialize (Ic x). rewrite cnt_live in *. rewrite H in Ic.
    cbn [set_pc mark_started set_inflight rem runnable conc asyn pc cur count_occ] in *.
    assert (Hc : cur (after_dispatch c n) = []) by (unfold after_dispatch; destruct (c_seq c n); auto).
    rewrite Hc. cbn [count_occ]. destruct (Nat.eq_dec n x); lia.
  - (* inline ok *) apply (remove_cur_Inv1 s n (after_dispatch c n)); auto.
    + rewrite H; auto.
    + unfold after_dispatch; destruct (c_seq c n); auto.
  - exfalso. apply (A n). reflexivity.
Qed.

(* ------------------------------------------------------------------ Inv2: resources and the concurrency bound *)
Definition lt_pc (p : pcT) : bool :=
  match p with PPick | PActive _ | PDisp _ | PGateC true => true | _ => false end.

Record Inv2 (s : state) : Prop := {
  j_conc_res : forall x, In x (conc s) -> c_res c x = RThread;
  j_asyn_res : forall x, In x (asyn s) -> c_res c x = RAsync;
  j_bound : running s <= c_maxc c;
  j_lt : lt_pc (pc s) = true -> running s < c_maxc c;
  j_gatec : pc s = PGateC false -> gate c s = true /\ asyn s = []
}.

Lemma init_Inv2 : wf -> Inv2 (init c).
Proof. intros W. constructor; simpl; try tauto; try discriminate. unfold running; simpl. lia. Qed.

Lemma running_complete k s n : In n (inflight s k) -> S (running (complete c k s n)) <= running s.
Proof. intros H. unfold running. rewrite complete_conc, complete_asyn. apply cnt_In in H.
  destruct k; cbn [inflight] in H.
  - pose proof (length_remove1_cnt n (asyn s)). lia.
  - pose proof (length_remove1_cnt n (conc s)). lia. Qed.

Definition InvRes (s : state) : Prop :=
  (forall x, In x (conc s) -> c_res c x = RThread) /\ (forall x, In x (asyn s) -> c_res c x = RAsync).

Lemma complete_InvRes k s n : InvRes s -> InvRes (complete c k s n).
Proof. intros [H1 H2]. split; intros x; rewrite ?complete_conc, ?complete_asyn; destruct k;
  rewrite ?In_remove1; intros; try tauto; auto; apply H1 || apply H2; tauto. Qed.

Lemma completes_Inv2 k ns s :
  (forall pre n post, ns = pre ++ n :: post -> In n (inflight (completes k s pre) k)) ->
  InvRes s -> InvRes (completes k s ns) /\ running (completes k s ns) + length ns <= running s.
Proof.
  intros Hin HR.
  assert (H := completes_ind (fun s' => InvRes s' /\ True) k). 
  revert s Hin HR. induction ns as [|n ns IH]; intros s Hin HR; simpl.
  - split; auto. lia.
  - assert (Hn : In n (inflight s k)) by (apply (Hin [] n ns); auto).
    destruct (IH (complete c k s n)) as [H1 H2].
    + intros pre x post E. apply (Hin (n :: pre) x post). simpl; congruence.
    + apply complete_InvRes; auto.
    + split; auto. pose proof (running_complete k s n Hn). fold (completes k (complete c k s n) ns). lia.
Qed.

Lemma map_nonempty {A B} (f : A -> B) l : map f l <> [] -> 1 <= length l.
Proof. destruct l; simpl; [congruence|lia]. Qed.

Lemma trans_Inv2 s l s' : wf -> Inv2 s -> trans s l s' -> Inv2 s'.
Proof.
  intros W [Ja Jb Jc Jd Je] T.
  assert (HR : InvRes s) by (split; auto).
  destruct T.
  - constructor; cbn [set_pc conc asyn pc lt_pc]; auto; discriminate.
  - (* empty wait *)
    constructor; cbn [set_pc conc asyn pc]; auto.
    + intros Hlt. destruct H as [s H Hr Hg|s b H|s n H|s n b H|s n H|s n H]; cbn [lt_pc nonempty_bool isnil negb] in Hlt; try discriminate.
      (* after_gate *) destruct b.
      * apply Jd. rewrite H. reflexivity.
      * destruct (Je H) as [_ Ea]. cbn [inflight] in H0. unfold running. cbn [set_pc conc asyn]. rewrite Ea, H0. simpl. apply (wf_maxc W).
    + intros Hp. destruct H as [s H Hr Hg|s b H|s n H|s n b H|s n H|s n H]; try discriminate.
      * unfold gate, running in *. cbn [set_pc conc asyn runnable]. split; auto.
      * unfold after_gate in Hp. destruct (isnil (runnable s)); discriminate.
  - (* wait ok *)
    subst s1. destruct (completes_Inv2 k ns s H4 HR) as [[R1 R2] RL].
    assert (Hlen : 1 <= length ns) by (subst dones; eapply map_nonempty; eauto).
    constructor; cbn [set_pc conc asyn pc]; auto.
    + unfold running in *. cbn [set_pc conc asyn]. lia.
    + intros _. unfold running in *. cbn [set_pc conc asyn]. lia.
    + intros Hp. exfalso.
      destruct H as [s H Hr Hg|s b H|s n H|s n b H|s n H|s n H]; try discriminate.
      * destruct dones; [congruence|discriminate].
      * unfold after_gate in Hp. destruct (isnil (runnable (completes KC s ns))); discriminate.
  - (* wait fail *)
    subst s1. destruct (completes_Inv2 k ns s H3 HR) as [[R1 R2] RL].
    constructor; cbn [set_pc conc asyn pc lt_pc]; auto; try discriminate.
    unfold running in *. cbn [set_pc conc asyn]. lia.
  - constructor; cbn [set_pc conc asyn pc lt_pc]; auto; discriminate.
  - (* take *)
    constructor; cbn [set_pc take_runnable conc asyn pc lt_pc]; auto; try discriminate.
    intros _. destruct H as [H|[H [Hr Hg]]].
    + apply Jd. rewrite H. reflexivity.
    + unfold gate in Hg. apply orb_false_iff in Hg. destruct Hg as [Hg _]. apply Nat.eqb_neq in Hg.
      unfold running in *. cbn [set_pc take_runnable conc asyn] in *. lia.
  - constructor; cbn [set_pc conc asyn pc lt_pc]; auto; try discriminate.
    intros _. apply Jd. rewrite H. reflexivity.
  - constructor; cbn [set_pc mark_skipped remove_node conc asyn pc lt_pc]; auto; try discriminate;
      destruct (remove_root_node (c_preds c) (rem s) n); cbn [conc asyn pc]; auto; discriminate.
  - (* submit thread *)
    assert (Hlt : running s < c_maxc c) by (apply Jd; rewrite H; reflexivity).
    assert (Hp : forall b, after_dispatch c n <> PGateC b) by (intros b; unfold after_dispatch; destruct (c_seq c n); discriminate).
    constructor; cbn [set_pc mark_started set_inflight conc asyn pc]; auto.
    all: try (intros x [<-|Hx]; auto; fail).
    all: try (unfold after_dispatch; destruct (c_seq c n); cbn [lt_pc]; discriminate).
    all: try (intros E; exfalso; apply (Hp false); auto; fail).
    all: try (unfold running in *; cbn [set_pc mark_started set_inflight conc asyn length] in *; lia).
  - assert (Hlt : running s < c_maxc c) by (apply Jd; rewrite H; reflexivity).
    assert (Hp : forall b, after_dispatch c n <> PGateC b) by (intros b; unfold after_dispatch; destruct (c_seq c n); discriminate).
    constructor; cbn [set_pc mark_started set_inflight conc asyn pc]; auto.
    all: try (intros x [<-|Hx]; auto; fail).
    all: try (unfold after_dispatch; destruct (c_seq c n); cbn [lt_pc]; discriminate).
    all: try (intros E; exfalso; apply (Hp false); auto; fail).
    all: try (unfold running in *; cbn [set_pc mark_started set_inflight conc asyn length] in *; lia).
  - (* inline ok *)
    assert (Hp : forall b, after_dispatch c n <> PGateC b) by (intros b; unfold after_dispatch; destruct (c_seq c n); discriminate).
    constructor; cbn [set_pc mark_finished mark_started remove_node rem conc asyn pc];
      destruct (remove_root_node (c_preds c) (rem s) n); cbn [conc asyn pc]; auto.
    all: try (unfold after_dispatch; destruct (c_seq c n); cbn [lt_pc]; discriminate).
    all: try (intros E; exfalso; apply (Hp false); auto; fail).
  - constructor; cbn [set_pc mark_started conc asyn pc lt_pc]; auto; discriminate.
Qed.

(* ------------------------------------------------------------------ Inv3: sequential nodes run alone *)
Definition infl (s : state) : list nat := conc s ++ asyn s.

Record Inv3 (s : state) : Prop := {
  q_excl : forall x, In x (infl s) -> c_seq c x = true ->
           infl s = [x] /\ (pc s = PDrainA x \/ pc s = PDrainC x \/ pc s = PRaised x);
  q_cur : forall n, (pc s = PActive n \/ pc s = PDisp n) -> c_seq c n = true -> infl s = [];
  q_drain : forall n, (pc s = PDrainA n \/ pc s = PDrainC n) -> c_seq c n = true /\ forall x, In x (infl s) -> x = n;
  q_drainc : forall n, pc s = PDrainC n -> asyn s = []
}.

Lemma init_Inv3 : Inv3 (init c).
Proof. constructor; simpl; try tauto; try discriminate; intros n [H|H]; discriminate. Qed.

Lemma infl_nil s : infl s = [] <-> conc s = [] /\ asyn s = [].
Proof. unfold infl. split; [apply app_eq_nil|intros [-> ->]; auto]. Qed.
Lemma running_infl s : running s = length (infl s).
Proof. unfold running, infl. rewrite app_length. auto. Qed.

Lemma infl_complete_sub k s n x : In x (infl (complete c k s n)) -> In x (infl s).
Proof. unfold infl. rewrite complete_conc, complete_asyn, !in_app_iff. destruct k; rewrite ?In_remove1; tauto. Qed.

Lemma infl_single_complete k s n : infl s = [n] -> In n (inflight s k) -> infl (complete c k s n) = [].
Proof. unfold infl. rewrite complete_conc, complete_asyn. intros E Hn.
  destruct (conc s) as [|a l] eqn:Ec; simpl in E.
  - destruct k; simpl in Hn; rewrite ?Ec in Hn; [|simpl in Hn; tauto]. rewrite E. simpl. rewrite Nat.eqb_refl. reflexivity.
  - inversion E; subst. apply app_eq_nil in H1. destruct H1 as [-> Ha]. rewrite Ha in *.
    destruct k; simpl in Hn; rewrite ?Ha in Hn; [simpl in Hn; tauto|]. simpl. rewrite Nat.eqb_refl. reflexivity. Qed.

(* while a wait is in progress (pc fixed, not PActive/PDisp), each completion preserves Inv3 *)
Lemma complete_Inv3 k s n : Inv3 s -> In n (inflight s k) -> Inv3 (complete c k s n).
Proof.
  intros [Qa Qb Qc Qd] Hn.
  assert (Hni : In n (infl s)) by (unfold infl; rewrite in_app_iff; destruct k; simpl in Hn; auto).
  constructor; rewrite ?complete_pc.
  - intros x Hx Hseq. exfalso. pose proof (infl_complete_sub _ _ _ _ Hx) as Hin.
    destruct (Qa x Hin Hseq) as [E _]. rewrite E in Hni. simpl in Hni. destruct Hni as [<-|[]].
    rewrite (infl_single_complete k s x E Hn) in Hx. simpl in Hx. auto.
  - intros m Hp Hseq. specialize (Qb m Hp Hseq). rewrite Qb in Hni. simpl in Hni. tauto.
  - intros m Hp. destruct (Qc m Hp) as [Hs Hall]. split; auto. intros x Hx.
    apply infl_complete_sub in Hx. apply Hall. tauto.
  - intros m Hp. rewrite complete_asyn. specialize (Qd m Hp). destruct k; auto. rewrite Qd. reflexivity.
Qed.

Lemma completes_Inv3 k ns s : Inv3 s ->
  (forall pre n post, ns = pre ++ n :: post -> In n (inflight (completes k s pre) k)) ->
  Inv3 (completes k s ns).
Proof. intros. apply (completes_ind Inv3 k); auto. intros; apply complete_Inv3; auto. Qed.

Lemma completes_infl_sub k ns : forall s x, In x (infl (completes k s ns)) -> In x (infl s).
Proof. unfold completes. induction ns as [|n ns IH]; intros s x H; simpl in *; auto.
  apply IH in H. apply infl_complete_sub in H. auto. Qed.

Ltac pc_contra Qa Hpc :=
  match goal with
  | [ Hs : c_seq c ?x = true |- _ ] =>
      let E := fresh "E" in
      destruct (Qa x ltac:(assumption) Hs) as [_ [E|[E|E]]]; rewrite Hpc in E; discriminate
  end.

Lemma inflight_infl s k x : In x (inflight s k) -> In x (infl s).
Proof. unfold infl. rewrite in_app_iff. destruct k; simpl; auto. Qed.

(* after a wait at site (k, m, nx) whose result state s1 satisfies Inv3 with the wait's pc *)
Lemma wait_done_Inv3 s k m nx s1 dones :
  wait_site s k m nx -> Inv3 s1 -> pc s1 = pc s ->
  conc s1 = conc s1 -> (m = MAll -> inflight s1 k = []) -> (k = KA -> m = MFirst -> True) ->
  Inv3 (set_pc s1 (nx dones s1)).
Proof.
  intros W [Qa Qb Qc Qd] Hpc _ Hall _.
  assert (Hnx : forall n, nx dones s1 <> PActive n /\ nx dones s1 <> PDisp n /\ nx dones s1 <> PDrainA n).
  { intros n. destruct W; repeat split; try discriminate; unfold after_gate; destruct (isnil (runnable s1)); discriminate. }
  constructor; cbn [set_pc pc]; unfold infl in *; cbn [set_pc conc asyn] in *.
  - intros x Hx Hs. destruct (Qa x Hx Hs) as [E [P|[P|P]]]; rewrite Hpc in P.
    + destruct W; rewrite P in *; try discriminate. inversion H; subst. auto.
    + exfalso. destruct W; rewrite P in *; try discriminate. inversion H; subst.
      specialize (Hall eq_refl). cbn [inflight] in Hall. rewrite (Qd n) in Hx by (rewrite Hpc; auto).
      rewrite Hall in Hx. simpl in Hx. auto.
    + exfalso. destruct W; rewrite P in *; discriminate.
  - intros n [P|P]; exfalso; destruct (Hnx n) as [A [B _]]; auto.
  - intros n [P|P]; [exfalso; destruct (Hnx n) as [_ [_ C]]; auto|].
    destruct W; try discriminate; try (unfold after_gate in P; destruct (isnil (runnable s1)); discriminate).
    inversion P; subst. apply Qc. left. rewrite Hpc. auto.
  - intros n P.
    destruct W; try discriminate; try (unfold after_gate in P; destruct (isnil (runnable s1)); discriminate).
    specialize (Hall eq_refl). cbn [inflight] in Hall. auto.
Qed.

Lemma trans_Inv3 s l s' : Inv3 s -> trans s l s' -> Inv3 s'.
Proof.
  intros I T. pose proof I as [Qa Qb Qc Qd]. destruct T.
  - constructor; cbn [set_pc pc]; unfold infl in *; cbn [set_pc conc asyn] in *; try discriminate.
    + intros x Hx Hs. pc_contra Qa H.
    + intros n [P|P]; discriminate.
    + intros n [P|P]; discriminate.
  - (* empty wait *) apply (wait_done_Inv3 s k m nx s []); auto; try (intros E; subst; cbn [inflight] in *; auto).
  - (* wait ok *) subst s1. apply (wait_done_Inv3 s k m nx _ dones); auto.
    + apply completes_Inv3; auto.
    + apply completes_pc.
  - (* wait fail *) subst s1.
    pose proof (completes_Inv3 k ns s I H3) as [Ra Rb Rc Rd].
    constructor; cbn [set_pc pc]; unfold infl in *; cbn [set_pc conc asyn] in *; try discriminate.
    + intros x Hx Hs. destruct (Ra x Hx Hs) as [E _]. split; auto. right; right.
      apply inflight_infl in H4. unfold infl in H4. rewrite E in H4. simpl in H4. destruct H4 as [<-|[]]. reflexivity.
    + intros n [P|P]; discriminate.
    + intros n [P|P]; discriminate.
  - (* defer *)
    assert (Hpc : pc s = PPick \/ pc s = PTop) by tauto.
    constructor; cbn [set_pc pc]; unfold infl in *; cbn [set_pc conc asyn] in *; try discriminate.
    + intros x Hx Hs. destruct Hpc as [P|P]; pc_contra Qa P.
    + intros m [P|P]; discriminate.
    + intros m [P|P]; discriminate.
  - (* take *)
    assert (Hpc : pc s = PPick \/ pc s = PTop) by tauto.
    constructor; cbn [set_pc pc]; unfold infl in *; cbn [set_pc take_runnable conc asyn] in *; try discriminate.
    + intros x Hx Hs. destruct Hpc as [P|P]; pc_contra Qa P.
    + intros m [P|P] Hs; inversion P; subst. specialize (H1 Hs). rewrite running_infl in H1.
      unfold infl in H1. destruct (conc s ++ asyn s); [auto|discriminate].
    + intros m [P|P]; discriminate.
  - (* active *)
    constructor; cbn [set_pc pc]; unfold infl in *; cbn [set_pc conc asyn] in *; try discriminate.
    + intros x Hx Hs. pc_contra Qa H.
    + intros m [P|P] Hs; inversion P; subst. apply (Qb m); auto.
    + intros m [P|P]; discriminate.
  - (* skip *)
    constructor; cbn [set_pc pc]; unfold infl in *;
      cbn [set_pc mark_skipped conc asyn] in *; rewrite ?remove_node_conc, ?remove_node_asyn in *; try discriminate.
    + intros x Hx Hs. pc_contra Qa H.
    + intros m [P|P]; discriminate.
    + intros m [P|P]; discriminate.
  - (* submit thread *)
    assert (Hnx : forall m, after_dispatch c n <> PActive m /\ after_dispatch c n <> PDisp m /\ after_dispatch c n <> PDrainC m)
      by (intros m; unfold after_dispatch; destruct (c_seq c n); repeat split; discriminate).
    constructor; cbn [set_pc pc]; unfold infl in *; cbn [set_pc mark_started set_inflight conc asyn] in *.
    + intros x Hx Hs. simpl in Hx. destruct Hx as [<-|Hx]; [|pc_contra Qa H].
      assert (E : conc s ++ asyn s = []) by (apply (Qb n); auto).
      apply app_eq_nil in E. destruct E as [-> ->]. split; auto. left. unfold after_dispatch. rewrite Hs. auto.
    + intros m [P|P]; exfalso; destruct (Hnx m) as [A [B _]]; auto.
    + intros m [P|P]; [|exfalso; destruct (Hnx m) as [_ [_ C]]; auto].
      unfold after_dispatch in P. destruct (c_seq c n) eqn:Hs; [|discriminate]. inversion P; subst. split; auto.
      assert (E : conc s ++ asyn s = []) by (apply (Qb m); auto).
      apply app_eq_nil in E. destruct E as [-> ->]. simpl. intros x [<-|[]]; auto.
    + intros m P. exfalso; destruct (Hnx m) as [_ [_ C]]; auto.
  - (* submit async *)
    assert (Hnx : forall m, after_dispatch c n <> PActive m /\ after_dispatch c n <> PDisp m /\ after_dispatch c n <> PDrainC m)
      by (intros m; unfold after_dispatch; destruct (c_seq c n); repeat split; discriminate).
    constructor; cbn [set_pc pc]; unfold infl in *; cbn [set_pc mark_started set_inflight conc asyn] in *.
    + intros x Hx Hs. rewrite in_app_iff in Hx. simpl in Hx.
      assert (Hx' : x = n \/ In x (conc s ++ asyn s)) by (rewrite in_app_iff; destruct Hx as [Hx|[Hx|Hx]]; auto). clear Hx.
      destruct Hx' as [->|Hx]; [|pc_contra Qa H].
      assert (E : conc s ++ asyn s = []) by (apply (Qb n); auto).
      apply app_eq_nil in E. destruct E as [-> ->]. split; auto. left. unfold after_dispatch. rewrite Hs. auto.
    + intros m [P|P]; exfalso; destruct (Hnx m) as [A [B _]]; auto.
    + intros m [P|P]; [|exfalso; destruct (Hnx m) as [_ [_ C]]; auto].
      unfold after_dispatch in P. destruct (c_seq c n) eqn:Hs; [|discriminate]. inversion P; subst. split; auto.
      assert (E : conc s ++ asyn s = []) by (apply (Qb m); auto).
      apply app_eq_nil in E. destruct E as [-> ->]. simpl. intros x [<-|[]]; auto.
    + intros m P. exfalso; destruct (Hnx m) as [_ [_ C]]; auto.
  - (* inline ok *)
    assert (Hnx : forall m, after_dispatch c n <> PActive m /\ after_dispatch c n <> PDisp m /\ after_dispatch c n <> PDrainC m)
      by (intros m; unfold after_dispatch; destruct (c_seq c n); repeat split; discriminate).
    constructor; cbn [set_pc pc]; unfold infl in *;
      cbn [set_pc mark_finished conc asyn] in *; rewrite ?remove_node_conc, ?remove_node_asyn in *;
      cbn [mark_started conc asyn] in *.
    + intros x Hx Hs. pc_contra Qa H.
    + intros m [P|P]; exfalso; destruct (Hnx m) as [A [B _]]; auto.
    + intros m [P|P]; [|exfalso; destruct (Hnx m) as [_ [_ C]]; auto].
      unfold after_dispatch in P. destruct (c_seq c n) eqn:Hs; [|discriminate]. inversion P; subst. split; auto.
      assert (E : conc s ++ asyn s = []) by (apply (Qb m); auto). rewrite E. simpl. tauto.
    + intros m P. exfalso; destruct (Hnx m) as [_ [_ C]]; auto.
  - (* inline fail *)
    constructor; cbn [set_pc pc]; unfold infl in *; cbn [set_pc mark_started conc asyn] in *; try discriminate.
    + intros x Hx Hs. pc_contra Qa H.
    + intros m [P|P]; discriminate.
    + intros m [P|P]; discriminate.
Qed.

(* ------------------------------------------------------------------ the combined invariant *)
Record Inv (s : state) : Prop := {
  inv1 : alive s -> Inv1 s;
  inv2 : Inv2 s;
  inv3 : Inv3 s
}.

Lemma trans_alive s l s' : trans s l s' -> alive s.
Proof.
  intros T n E. destruct T;
    try (match goal with [ W : wait_site _ _ _ _ |- _ ] => destruct W end);
    try (match goal with [ H : _ \/ _ |- _ ] => destruct H as [H|[H _]] end); congruence.
Qed.

Lemma init_Inv : wf -> Inv (init c).
Proof. intros W. constructor; [intros _; apply init_Inv1; auto|apply init_Inv2; auto|apply init_Inv3]. Qed.

Lemma trans_Inv s l s' : wf -> Inv s -> trans s l s' -> Inv s'.
Proof. intros W [I1 I2 I3] T. pose proof (trans_alive _ _ _ T) as A. constructor.
  - intros A'. apply (trans_Inv1 s l s'); auto.
  - apply (trans_Inv2 s l s'); auto.
  - apply (trans_Inv3 s l s'); auto. Qed.

Lemma run_preserves (P : state -> Prop) :
  (forall s l s', P s -> step c s l = Some s' -> P s') ->
  forall ls s s', P s -> run c s ls = Some s' -> P s'.
Proof. intros Hs. induction ls as [|l ls IH]; intros s s' HP H; simpl in H.
  - inversion H; subst; auto.
  - destruct (step c s l) as [s1|] eqn:E; [|discriminate]. apply (IH s1); auto. apply (Hs s l); auto. Qed.

Theorem reachable_Inv s : wf -> reachable c s -> Inv s.
Proof. intros W [ls H]. apply (run_preserves Inv) with (ls := ls) (s := init c); auto.
  - intros s0 l s1 I E. apply (trans_Inv s0 l s1); auto. apply step_trans; auto.
  - apply init_Inv; auto. Qed.

Lemma run_app ls1 : forall ls2 s, run c s (ls1 ++ ls2) = match run c s ls1 with Some s1 => run c s1 ls2 | None => None end.
Proof. induction ls1 as [|l ls1 IH]; intros ls2 s; simpl; auto. destruct (step c s l); auto. Qed.

(* ------------------------------------------------------------------ C04 *)
Theorem inflight_bounded s : wf -> reachable c s ->
  length (conc s) + length (asyn s) <= c_maxc c /\
  (forall x, In x (conc s) -> c_res c x = RThread) /\
  (forall x, In x (asyn s) -> c_res c x = RAsync).
Proof. intros W R. destruct (reachable_Inv s W R) as [_ [Ja Jb Jc _ _] _]. unfold running in Jc. auto. Qed.

(* main-thread nodes are only ever executed by the inline transition, pooled nodes never are *)
Theorem inline_only_main s n ok s' : step c s (LInline n ok) = Some s' -> c_res c n = RMain.
Proof. intros H. apply step_trans in H. inversion H; subst; auto. Qed.
Theorem submit_matches_resource s k n s' : step c s (LSubmit k n) = Some s' ->
  c_res c n = match k with KC => RThread | KA => RAsync end.
Proof. intros H. apply step_trans in H. inversion H; subst; auto. Qed.

(* ------------------------------------------------------------------ C05 *)
Theorem sequential_exclusive s x : wf -> reachable c s -> In x (conc s ++ asyn s) -> c_seq c x = true ->
  conc s ++ asyn s = [x] /\ (pc s = PDrainA x \/ pc s = PDrainC x \/ pc s = PRaised x).
Proof. intros W R Hx Hs. destruct (reachable_Inv s W R) as [_ _ [Qa _ _ _]]. apply Qa; auto. Qed.

(* a sequential node is dispatched (also inline) only when nothing is in flight *)
Theorem sequential_starts_alone s n : wf -> reachable c s -> (pc s = PActive n \/ pc s = PDisp n) ->
  c_seq c n = true -> conc s ++ asyn s = [].
Proof. intros W R Hp Hs. destruct (reachable_Inv s W R) as [_ _ [_ Qb _ _]]. apply (Qb n); auto. Qed.

(* while a sequential node is in flight the only enabled labels are the drain waits *)
Theorem sequential_blocks_dispatch s x l s' : wf -> reachable c s -> In x (conc s ++ asyn s) -> c_seq c x = true ->
  step c s l = Some s' -> exists k dones, l = LWait k MAll dones.
Proof.
  intros W R Hx Hs H. destruct (sequential_exclusive s x W R Hx Hs) as [_ [P|[P|P]]];
    unfold step in H; rewrite P in H; destruct l; try discriminate.
  - destruct k; try discriminate. destruct m; try discriminate. eauto.
  - destruct k; try discriminate. destruct m; try discriminate. eauto.
Qed.

End Inv.
