(* Graph.v — model of the DiGraphEx primitives the scheduler uses (tawazi/_dag/digraph.py).
   Definitions only; lemmas are in GraphFacts.v so that the model still runs when a proof breaks.

   ids are nat (the harness maps tawazi's string ids to small numbers per case).
   A graph is given by [preds : nat -> list nat] (dependency ids of a node: positional, keyword
   and activation-flag references, node.py:196-211); the scheduler's mutable graph is the list
   of remaining node ids [rem]; its edges are [preds] restricted to [rem]. *)
From Coq Require Import List Arith Bool PeanoNat.
Import ListNotations.

Definition mem (x : nat) (l : list nat) : bool := existsb (Nat.eqb x) l.
Definition remove1 (x : nat) (l : list nat) : list nat := filter (fun y => negb (Nat.eqb y x)) l.
Definition diff (a b : list nat) : list nat := filter (fun y => negb (mem y b)) a.
Definition inter (a b : list nat) : list nat := filter (fun y => mem y b) a.
(* python's  a |= b  on sets *)
Definition union (a b : list nat) : list nat := a ++ filter (fun y => negb (mem y a)) (nodup Nat.eq_dec b).
Definition subset (a b : list nat) : bool := forallb (fun x => mem x b) a.
Definition seteq (a b : list nat) : bool := subset a b && subset b a.
Definition isnil {A} (l : list A) : bool := match l with [] => true | _ => false end.

Section G.
Variable preds : nat -> list nat.

(* root of the remaining graph: remaining, and no predecessor remaining (in_degree == 0,
   digraph.py:122-129; nx.DiGraph collapses parallel edges) *)
Definition is_root (rem : list nat) (n : nat) : bool :=
  mem n rem && forallb (fun p => negb (mem p rem)) (preds n).
Definition roots (rem : list nat) : list nat := filter (is_root rem) rem.

(* in-degree inside the remaining graph; predecessors deduplicated as nx.DiGraph does *)
Definition in_deg (rem : list nat) (n : nat) : nat :=
  length (filter (fun p => mem p rem) (nodup Nat.eq_dec (preds n))).

Definition succs_in (rem : list nat) (r : nat) : list nat := filter (fun m => mem r (preds m)) rem.

(* digraph.py:131-139  remove_root_node: returns (graph without r, generated root nodes) *)
Definition remove_root_node (rem : list nat) (r : nat) : list nat * list nat :=
  (remove1 r rem, filter (fun m => Nat.eqb (in_deg rem m) 1) (succs_in rem r)).

(* reflexive-transitive successors / predecessors inside a node list, by fuelled closure *)
Definition step_desc (nodes acc : list nat) : list nat :=
  union acc (filter (fun m => existsb (fun p => mem p acc) (preds m)) nodes).
Fixpoint iter {A} (k : nat) (f : A -> A) (x : A) : A :=
  match k with 0 => x | S k' => iter k' f (f x) end.
(* nx.dfs_tree(g, n).nodes() for each n in srcs, united (multiple_nodes_successors) *)
Definition descendants_refl (nodes srcs : list nat) : list nat :=
  iter (length nodes) (step_desc nodes) (inter (nodup Nat.eq_dec srcs) nodes).
Definition step_anc (nodes acc : list nat) : list nat :=
  union acc (filter (fun p => existsb (fun m => mem m acc && mem p (preds m)) nodes) nodes).
Definition ancestors_refl (nodes srcs : list nat) : list nat :=
  iter (length nodes) (step_anc nodes) (inter (nodup Nat.eq_dec srcs) nodes).
End G.
