(* Args.v — how a call binds its arguments (tawazi/_dag/helpers.py:419-455, extend_results_with_args): the
   results map handed to the scheduler is a COPY of the DAG-level map (constants, parameter defaults, setup
   results) in which the i-th positional argument overrides the entry of the i-th input node — whatever the
   argument is (None included) and whether or not the parameter has a default; more arguments than
   parameters raise TypeError.  A DAG call takes positional arguments only: keyword arguments are refused with
   TawaziUsageError before this point (dag.py:695-700; checked by K-bind on every generated program).  Definitions only; facts in ArgsFacts.v. *)
From Coq Require Import List Arith Bool PeanoNat.
From Tawazi Require Import Graph Sched Dataflow.
Import ListNotations.

Section Args.
Variable val : Type.

(* force_set: the new binding shadows an existing one *)
Definition force_set (res : results val) (n : nat) (v : val) : results val := (n, v) :: res.

Fixpoint bind_go (res : results val) (inputs : list nat) (args : list val) : results val :=
  match inputs, args with
  | i :: ir, a :: ar => bind_go (force_set res i a) ir ar
  | _, _ => res
  end.

(* None: TypeError (more arguments than parameters) *)
Definition bind (res : results val) (inputs : list nat) (args : list val) : option (results val) :=
  if Nat.leb (length args) (length inputs) then Some (bind_go res inputs args) else None.
End Args.
