(* SchedAsync.v — facts for C17: where the scheduler can block the thread that runs the event loop. *)
From Coq Require Import List Arith Bool Lia PeanoNat ZArith.
From Tawazi Require Import Graph GraphFacts Sched SchedInv SchedPrio.
Import ListNotations.

Section A.
Variable c : cfg.

(* the points at which async_execute does not yield to the event loop: an inline (main-thread) node and
   a wait on concurrent.futures thread futures that actually blocks *)
Definition blocks_loop (s : state) (l : label) : bool :=
  match l with
  | LInline _ _ => true
  | LWait KC _ _ => negb (isnil (conc s))
  | _ => false
  end.

(* in a DAG whose executed nodes are all async-thread nodes, no accepted step blocks the loop: every wait
   that blocks is an `await asyncio.wait(...)`, during which the loop serves other coroutines *)
Theorem loop_free_while_async s l s' :
  wf c -> (forall n, c_res c n = RAsync) -> reachable c s -> step c s l = Some s' -> blocks_loop s l = false.
Proof.
  intros W HA R H. destruct l; simpl; auto.
  - destruct k; auto.
    assert (E : conc s = []).
    { apply (no_thread_conc_empty c s W); auto. intros n _ E. rewrite HA in E. discriminate. }
    rewrite E. reflexivity.
  - apply inline_only_main in H. rewrite HA in H. discriminate.
Qed.

(* in general: the loop is blocked only by main-thread nodes and by waits on THREAD-resource nodes *)
Theorem loop_blocked_only_by_threads s l s' :
  wf c -> reachable c s -> step c s l = Some s' -> blocks_loop s l = true ->
  (exists n ok, l = LInline n ok /\ c_res c n = RMain) \/
  (exists m dones x, l = LWait KC m dones /\ In x (conc s) /\ c_res c x = RThread).
Proof.
  intros W R H B. destruct l; simpl in B; try discriminate.
  - destruct k; try discriminate. right. destruct (conc s) as [|x r] eqn:E; [discriminate|].
    exists m, dones, x. split; auto. split; [left; auto|].
    destruct (inflight_bounded c s W R) as [_ [Hc _]]. apply Hc. rewrite E. left; auto.
  - left. exists n, ok. split; auto. apply (inline_only_main c s n ok s'); auto.
Qed.
End A.
Print Assumptions loop_free_while_async.
Print Assumptions loop_blocked_only_by_threads.
