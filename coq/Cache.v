(* Cache.v — the results map an executor started with from_cache hands to the scheduler
   (tawazi/_dag/dag.py, BaseDAGExecution._pre_call + run_subgraph + extend_results_with_args): a copy of the
   DAG-level map in which every entry of the cache file is force-set, then the call's arguments bound on top.
   Precedence: explicit argument > cache file > DAG-level map (constants, defaults, setup results).
   Definitions only; facts in CacheFacts.v. *)
From Coq Require Import List Arith Bool PeanoNat.
From Tawazi Require Import Graph Sched Dataflow Args.
Import ListNotations.

Section Cache.
Variable val : Type.

(* force_set of every cached entry: a cached binding shadows a stored one *)
Definition overlay (res cache : results val) : results val := cache ++ res.

Definition start_map (res cache : results val) (inputs : list nat) (args : list val) : option (results val) :=
  bind val (overlay res cache) inputs args.
End Cache.

(* which source an id of the start map is read from: 3 argument, 2 cache file, 1 DAG-level map, 0 none *)
Definition source (resk cachek inputs : list nat) (nargs : nat) (n : nat) : nat :=
  if mem n (firstn nargs inputs) then 3 else if mem n cachek then 2 else if mem n resk then 1 else 0.

Definition ksource (resk cachek inputs : list nat) (nargs : nat) (show : list nat) : list nat :=
  map (source resk cachek inputs nargs) show.
