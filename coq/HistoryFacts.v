(* HistoryFacts.v — facts about the instance history model of History.v.
   C11: a setup node runs at most once per DAG instance.
   C18: a restart from a cache file re-executes nothing that the cache file holds. *)
From Coq Require Import List Arith Bool Lia PeanoNat.
From Tawazi Require Import Graph GraphFacts Select SelectFacts History.
Import ListNotations.

(* ---- generic helpers ---- *)
Lemma diff_nil_of_incl a b : (forall x, In x a -> In x b) -> diff a b = [].
Proof. unfold diff. induction a as [|y a IH]; simpl; intros H; [reflexivity|].
  assert (E : mem y b = true) by (apply mem_In; apply H; auto). rewrite E. simpl.
  apply IH. intros x Hx. apply H. auto. Qed.

Lemma NoDup_inter a b : NoDup a -> NoDup (inter a b).
Proof. apply NoDup_filter. Qed.

Lemma nth_error_nil_None {A} k : nth_error (@nil A) k = None.
Proof. destruct k; reflexivity. Qed.

(* ---- duplicate-freeness of the executor / call graphs (not in SelectFacts) ---- *)
Section N.
Variable preds : nat -> list nat.
Variable debug : nat -> bool.

Lemma include_debug_nodes_NoDup nodes L : NoDup L -> NoDup (include_debug_nodes preds debug nodes L).
Proof. intros HL. unfold include_debug_nodes.
  apply (iter_inv (fun acc => NoDup acc) (debug_step preds debug nodes)); [|exact HL].
  intros acc Hacc. unfold debug_step. apply NoDup_union. exact Hacc. Qed.

Lemma extend_with_debug_NoDup nodes g b : NoDup g -> NoDup (extend_with_debug preds debug nodes g b).
Proof. intros Hg. unfold extend_with_debug. destruct b.
  - apply NoDup_inter, NoDup_union, include_debug_nodes_NoDup. unfold leaf_nodes.
    apply NoDup_filter. exact Hg.
  - apply NoDup_inter, NoDup_diff. exact Hg. Qed.

Lemma executor_graph_NoDup nodes t x r b g :
  NoDup nodes -> executor_graph preds debug nodes t x r b = SelOk g -> NoDup g.
Proof. intros Hn. unfold executor_graph.
  destruct (make_subgraph preds nodes t x r) as [g0|] eqn:E; [|discriminate].
  intros H. apply SelOk_inj in H. subst g. apply extend_with_debug_NoDup.
  eapply make_subgraph_NoDup; [exact Hn|exact E]. Qed.

Lemma call_graph_NoDup nodes b : NoDup nodes -> NoDup (call_graph preds debug nodes b).
Proof. intros Hn. unfold call_graph. apply extend_with_debug_NoDup. exact Hn. Qed.
End N.

Section H.
Variable d : dagT.

(* ---- basic shape of an operation ---- *)
Lemma op_executes_Some i o ex : op_executes d i o = Some ex ->
  exists g, op_graph d o = SelOk g /\ ex = diff g (op_pre d i o).
Proof. unfold op_executes. destruct (op_graph d o) as [g|]; [|discriminate].
  intros H. inversion H; subst. exists g. auto. Qed.

Lemma op_executes_of_graph i o g : op_graph d o = SelOk g ->
  op_executes d i o = Some (diff g (op_pre d i o)).
Proof. unfold op_executes. intros E. rewrite E. reflexivity. Qed.

Lemma op_graph_incl_nodes o g : op_graph d o = SelOk g -> forall n, In n g -> In n (d_nodes d).
Proof. destruct o as [nargs dbg ok|t x r ok|t x r dbg nargs cache ok]; simpl; intros H n Hn.
  - apply SelOk_inj in H. subst g. apply (debug_on_incl_nodes (d_preds d) (d_debug d) (d_setup d) _ _ _ _ Hn).
  - apply (setup_graph_only_setup (d_preds d) (d_debug d) (d_setup d) _ _ _ _ _ H n Hn).
  - apply (executor_subset (d_preds d) (d_debug d) (d_setup d) _ _ _ _ _ _ H n Hn). Qed.

Lemma op_graph_NoDup o g : NoDup (d_nodes d) -> op_graph d o = SelOk g -> NoDup g.
Proof. intros Hnd. destruct o as [nargs dbg ok|t x r ok|t x r dbg nargs cache ok]; simpl; intros H.
  - apply SelOk_inj in H. subst g. apply call_graph_NoDup. exact Hnd.
  - eapply setup_graph_NoDup; exact H.
  - eapply executor_graph_NoDup; [exact Hnd|exact H]. Qed.

(* 1. what is executed had no result and belongs to the operation's graph *)
Theorem executes_not_done i o ex : op_executes d i o = Some ex ->
  forall n, In n ex -> ~ In n (i_done i) /\ ~ In n (d_const d).
Proof. intros H n Hn. apply op_executes_Some in H. destruct H as [g [_ He]]. subst ex.
  apply In_diff in Hn. destruct Hn as [_ Hn]. unfold op_pre in Hn. rewrite !in_app_iff in Hn. tauto. Qed.

Theorem executes_not_pre i o ex : op_executes d i o = Some ex ->
  forall n, In n ex -> ~ In n (op_pre d i o).
Proof. intros H n Hn. apply op_executes_Some in H. destruct H as [g [_ He]]. subst ex.
  apply In_diff in Hn. tauto. Qed.

Theorem executes_in_graph i o ex : op_executes d i o = Some ex ->
  forall n, In n ex -> exists g, op_graph d o = SelOk g /\ In n g.
Proof. intros H n Hn. apply op_executes_Some in H. destruct H as [g [Hg He]]. subst ex.
  apply In_diff in Hn. exists g. tauto. Qed.

Theorem executes_in_nodes i o ex : op_executes d i o = Some ex ->
  forall n, In n ex -> In n (d_nodes d).
Proof. intros H n Hn. destruct (executes_in_graph i o ex H n Hn) as [g [Hg Hng]].
  apply (op_graph_incl_nodes o g Hg n Hng). Qed.

Theorem executes_NoDup i o ex : NoDup (d_nodes d) -> op_executes d i o = Some ex -> NoDup ex.
Proof. intros Hnd H. apply op_executes_Some in H. destruct H as [g [Hg He]]. subst ex.
  apply NoDup_diff. apply (op_graph_NoDup o g Hnd Hg). Qed.

(* 3. the stored set only grows and holds only setup nodes *)
Lemma i_done_op_step i o :
  i_done (op_step d i o) =
  i_done i ++ match op_executes d i o with
              | Some ex => if op_ok o then filter (d_setup d) ex else []
              | None => []
              end.
Proof. unfold op_step. destruct (op_executes d i o) as [ex|]; [destruct (op_ok o)|];
    simpl; rewrite ?app_nil_r; reflexivity. Qed.

Theorem done_only_grows i o n : In n (i_done i) -> In n (i_done (op_step d i o)).
Proof. intros H. rewrite i_done_op_step. apply in_app_iff. auto. Qed.

Theorem done_are_setup i o : (forall n, In n (i_done i) -> d_setup d n = true) ->
  forall n, In n (i_done (op_step d i o)) -> d_setup d n = true.
Proof. intros Hi n Hn. rewrite i_done_op_step in Hn. apply in_app_iff in Hn.
  destruct Hn as [Hn|Hn]; [auto|].
  destruct (op_executes d i o) as [ex|]; [destruct (op_ok o)|]; simpl in Hn; try tauto.
  apply filter_In in Hn. tauto. Qed.

Theorem done_in_nodes i o : (forall n, In n (i_done i) -> In n (d_nodes d)) ->
  forall n, In n (i_done (op_step d i o)) -> In n (d_nodes d).
Proof. intros Hi n Hn. rewrite i_done_op_step in Hn. apply in_app_iff in Hn.
  destruct Hn as [Hn|Hn]; [auto|].
  destruct (op_executes d i o) as [ex|] eqn:E; [destruct (op_ok o)|]; simpl in Hn; try tauto.
  apply filter_In in Hn. apply (executes_in_nodes i o ex E n). tauto. Qed.

Theorem step_stores_executed_setup i o ex n : op_executes d i o = Some ex -> op_ok o = true ->
  In n ex -> d_setup d n = true -> In n (i_done (op_step d i o)).
Proof. intros He Hok Hn Hs. rewrite i_done_op_step, He, Hok. apply in_app_iff. right.
  apply filter_In. auto. Qed.

Theorem done_NoDup_step i o : NoDup (d_nodes d) -> NoDup (i_done i) -> NoDup (i_done (op_step d i o)).
Proof. intros Hnd Hi. rewrite i_done_op_step.
  destruct (op_executes d i o) as [ex|] eqn:E; [destruct (op_ok o)|]; rewrite ?app_nil_r; auto.
  apply NoDup_app_intro; [exact Hi|apply NoDup_filter, (executes_NoDup i o ex Hnd E)|].
  intros n Hn Hf. apply filter_In in Hf. destruct Hf as [Hf _].
  apply (proj1 (executes_not_done i o ex E n Hf)). exact Hn. Qed.

(* ---- hist_run, projections ---- *)
Lemma hist_run_cons_fst i o r :
  fst (hist_run d i (o :: r)) = op_executes d i o :: fst (hist_run d (op_step d i o) r).
Proof. simpl. destruct (hist_run d (op_step d i o) r) as [l i']. reflexivity. Qed.
Lemma hist_run_cons_snd i o r :
  snd (hist_run d i (o :: r)) = snd (hist_run d (op_step d i o) r).
Proof. simpl. destruct (hist_run d (op_step d i o) r) as [l i']. reflexivity. Qed.

Lemma hist_run_length i ops : length (fst (hist_run d i ops)) = length ops.
Proof. revert i. induction ops as [|o r IH]; intros i; [reflexivity|].
  rewrite hist_run_cons_fst. simpl. f_equal. apply IH. Qed.

Theorem hist_done_only_grows ops i n :
  In n (i_done i) -> In n (i_done (snd (hist_run d i ops))).
Proof. revert i. induction ops as [|o r IH]; intros i H; [exact H|].
  rewrite hist_run_cons_snd. apply IH. apply done_only_grows. exact H. Qed.

Theorem hist_done_are_setup ops i : (forall n, In n (i_done i) -> d_setup d n = true) ->
  forall n, In n (i_done (snd (hist_run d i ops))) -> d_setup d n = true.
Proof. revert i. induction ops as [|o r IH]; intros i H; [exact H|].
  rewrite hist_run_cons_snd. apply IH. apply done_are_setup. exact H. Qed.

Theorem hist_done_in_nodes ops i : (forall n, In n (i_done i) -> In n (d_nodes d)) ->
  forall n, In n (i_done (snd (hist_run d i ops))) -> In n (d_nodes d).
Proof. revert i. induction ops as [|o r IH]; intros i H; [exact H|].
  rewrite hist_run_cons_snd. apply IH. apply done_in_nodes. exact H. Qed.

Corollary hist_done_are_setup_fresh ops n :
  In n (i_done (snd (hist_run d (mkinst []) ops))) -> d_setup d n = true /\ In n (d_nodes d).
Proof. intros H. split.
  - apply (hist_done_are_setup ops (mkinst [])); [intros m []|exact H].
  - apply (hist_done_in_nodes ops (mkinst [])); [intros m []|exact H]. Qed.

(* a node with a stored result is never executed again by this instance *)
Lemma done_never_executed ops i n : In n (i_done i) ->
  forall k ex, nth_error (fst (hist_run d i ops)) k = Some (Some ex) -> ~ In n ex.
Proof. revert i. induction ops as [|o r IH]; intros i Hn k ex Hk.
  - simpl in Hk. rewrite nth_error_nil_None in Hk. discriminate.
  - rewrite hist_run_cons_fst in Hk. destruct k as [|k]; simpl in Hk.
    + inversion Hk as [E]. intros Hx. apply (proj1 (executes_not_done i o ex E n Hx)). exact Hn.
    + apply (IH (op_step d i o) (done_only_grows i o n Hn) k ex Hk). Qed.

(* 2. C11: a setup node executed by a successful operation is not executed by any later operation
      of the same instance (whatever the start instance) *)
Theorem setup_at_most_once_from i ops k1 k2 o1 ex1 ex2 n :
  k1 < k2 ->
  nth_error ops k1 = Some o1 -> op_ok o1 = true ->
  nth_error (fst (hist_run d i ops)) k1 = Some (Some ex1) ->
  nth_error (fst (hist_run d i ops)) k2 = Some (Some ex2) ->
  d_setup d n = true -> In n ex1 -> ~ In n ex2.
Proof. revert i k1 k2. induction ops as [|o r IH]; intros i k1 k2 Hlt Ho1 Hok H1 H2 Hs Hn.
  - rewrite nth_error_nil_None in Ho1. discriminate.
  - rewrite hist_run_cons_fst in H1, H2. destruct k2 as [|k2]; [lia|]. simpl in H2.
    destruct k1 as [|k1]; simpl in Ho1, H1.
    + inversion Ho1; subst o1. inversion H1 as [E].
      apply (done_never_executed r (op_step d i o) n
               (step_stores_executed_setup i o ex1 n E Hok Hn Hs) k2 ex2 H2).
    + apply (IH (op_step d i o) k1 k2); auto; lia. Qed.

Theorem setup_at_most_once ops k1 k2 o1 o2 ex1 ex2 n :
  k1 < k2 ->
  nth_error ops k1 = Some o1 -> nth_error ops k2 = Some o2 -> op_ok o1 = true ->
  nth_error (fst (hist_run d (mkinst []) ops)) k1 = Some (Some ex1) ->
  nth_error (fst (hist_run d (mkinst []) ops)) k2 = Some (Some ex2) ->
  d_setup d n = true -> In n ex1 -> ~ In n ex2.
Proof. intros Hlt Ho1 _ Hok H1 H2 Hs Hn.
  apply (setup_at_most_once_from (mkinst []) ops k1 k2 o1 ex1 ex2 n); assumption. Qed.

(* the same in NoDup form: the log of the setup nodes executed by successful operations *)
Fixpoint setup_log (ops : list op) (exs : list (option (list nat))) : list nat :=
  match ops, exs with
  | o :: r, e :: l =>
      match e with
      | Some ex => if op_ok o then filter (d_setup d) ex else []
      | None => []
      end ++ setup_log r l
  | _, _ => []
  end.

Theorem done_is_log ops i :
  i_done (snd (hist_run d i ops)) = i_done i ++ setup_log ops (fst (hist_run d i ops)).
Proof. revert i. induction ops as [|o r IH]; intros i.
  - simpl. rewrite app_nil_r. reflexivity.
  - rewrite hist_run_cons_snd, hist_run_cons_fst, IH, i_done_op_step. simpl.
    rewrite app_assoc. reflexivity. Qed.

Theorem hist_done_NoDup ops i : NoDup (d_nodes d) -> NoDup (i_done i) ->
  NoDup (i_done (snd (hist_run d i ops))).
Proof. intros Hnd. revert i. induction ops as [|o r IH]; intros i H; [exact H|].
  rewrite hist_run_cons_snd. apply IH. apply done_NoDup_step; assumption. Qed.

Theorem setup_log_NoDup ops : NoDup (d_nodes d) ->
  NoDup (setup_log ops (fst (hist_run d (mkinst []) ops))).
Proof. intros Hnd. pose proof (hist_done_NoDup ops (mkinst []) Hnd (NoDup_nil _)) as H.
  rewrite done_is_log in H. exact H. Qed.

(* 4. setup(...) executes only setup nodes, and with explicit targets only ancestors-or-self of
      the targets inside the pruned graph *)
Theorem setup_op_only_selected_setup i t x r ok ex :
  op_executes d i (OSetup t x r ok) = Some ex ->
  forall n, In n ex -> d_setup d n = true /\ In n (d_nodes d).
Proof. intros H n Hn. destruct (executes_in_graph _ _ _ H n Hn) as [g [Hg Hng]]. simpl in Hg.
  apply (setup_graph_only_setup (d_preds d) (d_debug d) (d_setup d) _ _ _ _ _ Hg n Hng). Qed.

Theorem setup_op_targets_only i T x r ok ex :
  op_executes d i (OSetup (Some T) x r ok) = Some ex ->
  forall n, In n ex ->
    In n (ancestors_refl (d_preds d) (g2_of (d_preds d) (d_nodes d) x r) T).
Proof. intros H n Hn. destruct (executes_in_graph _ _ _ H n Hn) as [g [Hg Hng]]. simpl in Hg.
  unfold setup_graph in Hg.
  destruct (make_subgraph (d_preds d) (d_nodes d) (Some T) x r) as [g0|] eqn:E; [|discriminate].
  apply SelOk_inj in Hg. subst g. apply filter_In in Hng. destruct Hng as [Hng _].
  apply (proj1 (make_subgraph_spec (d_preds d) (d_debug d) (d_setup d) _ _ _ _ _ E n)) in Hng. destruct Hng as [_ [_ [_ Ht]]].
  apply (Ht T eq_refl). Qed.

(* target None: ancestors-or-self of the setup nodes *)
Theorem setup_op_all_only i x r ok ex :
  op_executes d i (OSetup None x r ok) = Some ex ->
  forall n, In n ex ->
    In n (ancestors_refl (d_preds d) (g2_of (d_preds d) (d_nodes d) x r)
            (filter (d_setup d) (d_nodes d))).
Proof. intros H n Hn. destruct (executes_in_graph _ _ _ H n Hn) as [g [Hg Hng]]. simpl in Hg.
  unfold setup_graph in Hg.
  destruct (make_subgraph (d_preds d) (d_nodes d) (Some (filter (d_setup d) (d_nodes d))) x r)
    as [g0|] eqn:E; [|discriminate].
  apply SelOk_inj in Hg. subst g. apply filter_In in Hng. destruct Hng as [Hng _].
  apply (proj1 (make_subgraph_spec (d_preds d) (d_debug d) (d_setup d) _ _ _ _ _ E n)) in Hng. destruct Hng as [_ [_ [_ Ht]]].
  apply (Ht _ eq_refl). Qed.

(* 5. instances are independent: the history of an instance is a function of (d, i, ops) only;
      a deep copy continues exactly as the original would, whatever the original does afterwards *)
Lemma hist_run_app i ops1 ops2 :
  hist_run d i (ops1 ++ ops2) =
  (fst (hist_run d i ops1) ++ fst (hist_run d (snd (hist_run d i ops1)) ops2),
   snd (hist_run d (snd (hist_run d i ops1)) ops2)).
Proof. revert i. induction ops1 as [|o r IH]; intros i.
  - simpl. destruct (hist_run d i ops2). reflexivity.
  - simpl. rewrite IH. destruct (hist_run d (op_step d i o) r) as [l i']. reflexivity. Qed.

Theorem independent_instances i ops1 ops2 ops3 :
  let i1 := snd (hist_run d i ops1) in
  let copy := mkinst (i_done i1) in
  hist_run d copy ops2 = hist_run d i1 ops2 /\
  fst (hist_run d i (ops1 ++ ops3)) = fst (hist_run d i ops1) ++ fst (hist_run d i1 ops3).
Proof. intros i1 copy. split.
  - unfold copy. destruct i1 as [dn]. reflexivity.
  - rewrite hist_run_app. reflexivity. Qed.

(* ---- 6. C18 ---- *)
Lemma In_cache_keys i o deps g : op_graph d o = SelOk g ->
  forall n, In n (cache_keys d i o deps) <-> (In n (op_pre d i o) \/ In n g) /\ ~ In n deps.
Proof. intros Hg n. unfold cache_keys. rewrite Hg, In_diff, nodup_In, in_app_iff. tauto. Qed.

(* whatever is selected, nothing that the loaded cache holds is executed *)
Theorem restart_never_runs_cached i2 t x r dbg nargs keys ok ex :
  op_executes d i2 (OExec t x r dbg nargs keys ok) = Some ex ->
  forall n, In n ex -> ~ In n keys.
Proof. intros H n Hn Hk. apply (executes_not_pre _ _ _ H n Hn). unfold op_pre.
  rewrite !in_app_iff. auto. Qed.

(* same selection, whole results cached: nothing at all is executed *)
Theorem restart_skips_cached i i2 t x r dbg nargs nargs' ok2 :
  let o1 := OExec t x r dbg nargs [] true in
  let keys := cache_keys d i o1 [] in
  let o2 := OExec t x r dbg nargs' keys ok2 in
  forall ex, op_executes d i2 o2 = Some ex -> ex = [].
Proof. intros o1 keys o2 ex H. apply op_executes_Some in H. destruct H as [g [Hg He]]. subst ex.
  apply diff_nil_of_incl. intros n Hn. unfold op_pre, o2. rewrite !in_app_iff.
  right. right. right. unfold keys. apply (In_cache_keys i o1 [] g Hg). split; [auto|intros []]. Qed.

Theorem restart_skips_cached_ok i i2 t x r dbg nargs nargs' ok2 g :
  let o1 := OExec t x r dbg nargs [] true in
  let keys := cache_keys d i o1 [] in
  let o2 := OExec t x r dbg nargs' keys ok2 in
  op_graph d o1 = SelOk g -> op_executes d i2 o2 = Some [].
Proof. intros o1 keys o2 Hg.
  destruct (op_executes d i2 o2) as [ex|] eqn:E.
  - f_equal. apply (restart_skips_cached i i2 t x r dbg nargs nargs' ok2 ex E).
  - unfold op_executes in E. change (op_graph d o2) with (op_graph d o1) in E. rewrite Hg in E.
    discriminate. Qed.

(* cache_deps_of = D: the cache file holds everything but D; the restart re-executes exactly D *)
Theorem cache_deps_of_restart i i2 D dbg nargs nargs' ok2 g :
  let o1 := OExec (Some D) None None dbg nargs [] true in
  let keys := cache_keys d i o1 D in
  let o2 := OExec (Some D) None None dbg nargs' keys ok2 in
  op_graph d o1 = SelOk g ->
  (forall n, In n D -> ~ In n keys) /\
  (forall n, In n g -> ~ In n D -> In n keys) /\
  exists ex, op_executes d i2 o2 = Some ex /\
    (forall n, In n ex <->
       In n g /\ In n D /\ ~ In n (d_const d ++ i_done i2 ++ firstn nargs' (d_inputs d))).
Proof. intros o1 keys o2 Hg.
  assert (Hk : forall n, In n keys <-> (In n (op_pre d i o1) \/ In n g) /\ ~ In n D)
    by (apply In_cache_keys; exact Hg).
  split; [intros n Hn Hkn; apply Hk in Hkn; tauto|].
  split; [intros n Hn HD; apply Hk; tauto|].
  exists (diff g (op_pre d i2 o2)). split.
  - apply op_executes_of_graph. exact Hg.
  - intros n. rewrite In_diff. unfold op_pre, o2. rewrite !in_app_iff, Hk.
    destruct (in_dec Nat.eq_dec n D) as [HD|HD]; tauto. Qed.

(* the two directions of (c) in the form asked for *)
Corollary cache_deps_of_restart_only_D i i2 D dbg nargs nargs' ok2 ex :
  let o1 := OExec (Some D) None None dbg nargs [] true in
  let keys := cache_keys d i o1 D in
  op_executes d i2 (OExec (Some D) None None dbg nargs' keys ok2) = Some ex ->
  forall n, In n ex -> In n D.
Proof. intros o1 keys H n Hn. destruct (executes_in_graph _ _ _ H n Hn) as [g [Hg _]].
  destruct (cache_deps_of_restart i i2 D dbg nargs nargs' ok2 g Hg) as [_ [_ [ex' [He Hiff]]]].
  fold o1 keys in He. rewrite H in He. inversion He; subst ex'. apply Hiff in Hn. tauto. Qed.

Corollary cache_deps_of_restart_all_D i i2 D dbg nargs nargs' ok2 ex g :
  let o1 := OExec (Some D) None None dbg nargs [] true in
  let keys := cache_keys d i o1 D in
  op_graph d o1 = SelOk g ->
  op_executes d i2 (OExec (Some D) None None dbg nargs' keys ok2) = Some ex ->
  forall n, In n D -> In n g ->
    ~ In n (d_const d ++ i_done i2 ++ firstn nargs' (d_inputs d)) -> In n ex.
Proof. intros o1 keys Hg H n HD Hng Hp.
  destruct (cache_deps_of_restart i i2 D dbg nargs nargs' ok2 g Hg) as [_ [_ [ex' [He Hiff]]]].
  fold o1 keys in He. rewrite H in He. inversion He; subst ex'. apply Hiff. tauto. Qed.

(* the members of D are in the selected graph (they are its targets) *)
Lemma cache_deps_of_targets_in_graph D dbg nargs cache ok g :
  op_graph d (OExec (Some D) None None dbg nargs cache ok) = SelOk g ->
  forall n, In n D -> (dbg = true \/ d_debug d n = false) -> In n g.
Proof. intros Hg n Hn Hdbg. simpl in Hg. unfold executor_graph in Hg.
  destruct (make_subgraph (d_preds d) (d_nodes d) (Some D) None None) as [g0|] eqn:E; [|discriminate].
  apply SelOk_inj in Hg. subst g.
  assert (H0 : In n g0) by (eapply make_subgraph_targets_in; [exact E|exact Hn]).
  assert (H1 : In n (d_nodes d)) by (apply (make_subgraph_subset (d_preds d) (d_debug d) (d_setup d) _ _ _ _ _ E n H0)).
  destruct dbg.
  - apply (debug_on_superset (d_preds d) (d_debug d) (d_setup d)); assumption.
  - destruct Hdbg as [Hd|Hd]; [discriminate|]. apply (debug_off_keeps_production (d_preds d) (d_debug d) (d_setup d)); assumption. Qed.

End H.

Print Assumptions executes_not_done.
Print Assumptions executes_in_graph.
Print Assumptions setup_at_most_once_from.
Print Assumptions setup_at_most_once.
Print Assumptions setup_log_NoDup.
Print Assumptions done_is_log.
Print Assumptions done_only_grows.
Print Assumptions done_are_setup.
Print Assumptions hist_done_only_grows.
Print Assumptions hist_done_are_setup_fresh.
Print Assumptions setup_op_only_selected_setup.
Print Assumptions setup_op_targets_only.
Print Assumptions setup_op_all_only.
Print Assumptions independent_instances.
Print Assumptions restart_never_runs_cached.
Print Assumptions restart_skips_cached.
Print Assumptions restart_skips_cached_ok.
Print Assumptions cache_deps_of_restart.
Print Assumptions cache_deps_of_restart_only_D.
Print Assumptions cache_deps_of_restart_all_D.
Print Assumptions cache_deps_of_targets_in_graph.
