(* IsoCheck.v — executable check of the embedding relation of Iso.v on concrete (term-valued) tables,
   used by the correspondence on the tables the implementation built.  No proofs here. *)
From Coq Require Import List Arith Bool PeanoNat.
From Tawazi Require Import Graph Sched Dataflow Terms.
Import ListNotations.

Definition b2 (b : bool) : nat := if b then 1 else 0.
Definition enc_fcode (f : fcode) : list nat :=
  match f with
  | FApp g b => [1; g; b2 b]
  | FTuple g ts => 2 :: g :: map b2 ts
  | FDictOf g ks => 3 :: g :: flat_map (fun p : nat * bool => [fst p; b2 (snd p)]) ks
  | FFail => [4] | FIdent => [5] | FAnd => [6] | FOr => [7] | FNot => [8]
  | FOp o => [9; o] | FMissing => [10]
  end.
Definition list_eqb (a b : list nat) : bool := if list_eq_dec Nat.eq_dec a b then true else false.
Definition ref_eqb (a b : ref) : bool := Nat.eqb (r_id a) (r_id b) && list_eqb (r_keys a) (r_keys b).
Fixpoint refs_eqb (a b : list ref) : bool :=
  match a, b with
  | [], [] => true
  | x :: a', y :: b' => ref_eqb x y && refs_eqb a' b'
  | _, _ => false
  end.

Definition rho_of (l : list (nat * nat)) (x : nat) : nat :=
  match find (fun p => Nat.eqb (fst p) x) l with Some (_, y) => y | None => x end.

Definition spec_of (specs : list (nat * nspec)) (n : nat) : nspec :=
  match find (fun p => Nat.eqb (fst p) n) specs with
  | Some (_, sp) => sp
  | None => mknspec [] None FMissing
  end.

(* list of (code, node) failures; [] = system 1 is embedded in system 2.
   codes: 1 image not a participating node, 2 function differs, 3 arguments differ, 4 flag differs (or
          the additional flag of system 2 is not truthy / not decided), 5 a pre-computed value differs
          from the denotation of its image, 6 an absent id is present in system 2.
   [bound]: ids of system 1 (parameters of a nested DAG) whose value is DEFINED to be the denotation of
   their image in system 2; they are added to the pre-computed results of system 1. *)
Definition bind_inputs (d2 : results term) (rho : nat -> nat) (bound : list nat) : results term :=
  flat_map (fun p => match lookup term d2 (rho p) with Some v => [(p, v)] | None => [] end) bound.

Definition embed_check (specs1 specs2 : list (nat * nspec)) (c1 c2 : cfg) (res1 res2 : results term)
           (rho_l : list (nat * nat)) (bound : list nat) : list nat :=
  let rho := rho_of rho_l in
  let ren (r : ref) := mkref (rho (r_id r)) (r_keys r) in
  let r02 := R0 c2 in
  let d2 := fst (t_den specs2 c2 res2) in
  let res1f := bind_inputs d2 rho bound ++ res1 in
  let r01 := diff (R0 c1) bound in
  let flag_on (g : ref) := match t_rd d2 g with
                           | Some v => t_truthy v && (negb (mem (r_id g) r02) || has term d2 (r_id g))
                           | None => false
                           end in
  flat_map (fun n =>
     let s1 := spec_of specs1 n in
     let s2 := spec_of specs2 (rho n) in
     (if mem (rho n) r02 then [] else [1; n]) ++
     (if list_eqb (enc_fcode (s_fn s1)) (enc_fcode (s_fn s2)) then [] else [2; n]) ++
     (if refs_eqb (s_args s2) (map ren (s_args s1)) then [] else [3; n]) ++
     (match s_active s1, s_active s2 with
      | Some r, Some r' => if ref_eqb r' (ren r) then [] else [4; n]
      | None, None => []
      | None, Some g => if flag_on g then [] else [4; n]
      | Some _, None => [4; n]
      end) ++
     flat_map (fun r : ref =>
        let p := r_id r in
        if mem p r01 || has term res1f p then []
        else if mem (rho p) r02 || has term res2 (rho p) then [6; n] else [])
       (s_args s1 ++ match s_active s1 with Some r => [r] | None => [] end))
    r01 ++
  flat_map (fun pv : nat * term =>
     match lookup term d2 (rho (fst pv)) with
     | Some v => if list_eqb (enc_term v) (enc_term (snd pv)) then [] else [5; fst pv]
     | None => [5; fst pv]
     end) res1.

(* the nodes of system 2 that are images of system 1 all denote None (deactivated nested DAG) *)
Definition all_none_check (specs2 : list (nat * nspec)) (c2 : cfg) (res2 : results term)
           (rho_l : list (nat * nat)) (nodes1 : list nat) : list nat :=
  let rho := rho_of rho_l in
  let d2 := fst (t_den specs2 c2 res2) in
  flat_map (fun n => if mem (rho n) (R0 c2)
                     then match lookup term d2 (rho n) with
                          | Some TNone => []
                          | _ => [8; n]
                          end
                     else []) nodes1.
