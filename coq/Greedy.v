(* Greedy.v — the DOCUMENTED execution order of a max_concurrency = 1 run without priority ties: always the
   ready node (all its dependencies resolved, itself not yet resolved) of greatest compound priority.
   A function of the declared configuration only (nodes, pre-computed nodes, dependencies, compound
   priorities).  Definitions only; the theorem that every complete failure-free run of the scheduler model
   resolves its nodes in exactly this order is in GreedyFacts.v. *)
From Coq Require Import List Arith Bool PeanoNat ZArith.
From Tawazi Require Import Graph Sched.
Import ListNotations.

Section Greedy.
Variable c : cfg.

(* the greatest element of x :: l for the priority order (the first one among equals) *)
Fixpoint argmax (l : list nat) (best : nat) : nat :=
  match l with
  | [] => best
  | x :: r => argmax r (if Z.ltb (c_prio c best) (c_prio c x) then x else best)
  end.

Definition pick_greedy (rem : list nat) : option nat :=
  match roots (c_preds c) rem with
  | [] => None
  | x :: r => Some (argmax r x)
  end.

Fixpoint greedy (fuel : nat) (rem : list nat) : list nat :=
  match fuel with
  | 0 => []
  | S k => match pick_greedy rem with
           | None => []
           | Some n => n :: greedy k (remove1 n rem)
           end
  end.

Definition greedy_order : list nat :=
  let r0 := diff (c_nodes c) (c_pre c) in greedy (length r0) r0.
End Greedy.

(* the order in which a run RESOLVES its nodes: handed to the pool / the event loop, executed inline, or skipped
   because its activation flag is false *)
Definition order_of (ls : list label) : list nat :=
  flat_map (fun l => match l with
                     | LSubmit _ n => [n]
                     | LInline n _ => [n]
                     | LActive n false => [n]
                     | _ => []
                     end) ls.

(* flat encoding for the harness *)
Definition kgreedy (c : cfg) : list nat := greedy_order c.
