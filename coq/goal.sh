#!/bin/sh
# usage: goal.sh File.v LINE  — show the proof state just before LINE
f=$1; n=$2
head -n $((n-1)) $f > /tmp/_goal.v
echo "Show." >> /tmp/_goal.v
cd /verif/coq && timeout 120 coqc -Q . Tawazi /tmp/_goal.v 2>&1 | tail -${3:-60}
rm -f /tmp/_goal.vo /tmp/_goal.glob /tmp/._goal.aux /tmp/_goal.vok /tmp/_goal.vos
