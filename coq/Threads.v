(* Threads.v — the build lock and the decision "is this call part of a DAG description?"
   (tawazi/node/node.py:41-47, 380-389, 417-420; tawazi/_dag/dag.py:685-694;
   tawazi/_dag/constructor.py:95-124).  Definitions only.

   A DAG is built by running the describing function while a process-global table records the calls of
   decorated functions (and of finished DAGs) made inside it; a process-global lock serialises builds.
   A call of a decorated function / finished DAG is RECORDED if the caller "is describing", and
   EXECUTED (or refused, per configuration) otherwise.  [mine]: the repaired predicate — the lock is held
   BY THE CALLING THREAD; [anyone]: the predicate of the pinned commit — the lock is held by some thread
   (defect F8). *)
From Coq Require Import List Arith Bool PeanoNat.
Import ListNotations.

Inductive action :=
| ABegin              (* @dag starts: acquire the lock, reset the global table *)
| ADescribe (f : nat) (* inside the describing function: a call of decorated function / finished DAG f *)
| AEnd                (* the DAG is created from the table; table reset; lock released *)
| ACall (f : nat).    (* a call of decorated function / finished DAG f by a thread that is not building *)

Inductive obs :=
| ORecorded (f : nat)       (* the call returned a placeholder and a node was recorded *)
| OBuilt (tbl : list nat)   (* the DAG that was built: its node table *)
| OExecuted (f : nat).      (* the call behaved as outside any description: it ran (or was refused) *)

Record shared := mkshared { owner : option nat; table : list nat }.
Definition init_shared : shared := mkshared None [].

Definition pred := nat -> shared -> bool.
Definition mine : pred := fun t st => match owner st with Some o => Nat.eqb o t | None => false end.
Definition anyone : pred := fun _ st => match owner st with Some _ => true | None => false end.

(* one action of thread t; None: not enabled (ABegin blocks while the lock is held) *)
Definition act (describing : pred) (t : nat) (st : shared) (a : action) : option (shared * list obs) :=
  match a with
  | ABegin => match owner st with None => Some (mkshared (Some t) [], []) | Some _ => None end
  | ADescribe f | ACall f =>
      if describing t st
      then Some (mkshared (owner st) (table st ++ [f]), [ORecorded f])
      else Some (st, [OExecuted f])
  | AEnd => Some (mkshared None [], [OBuilt (table st)])
  end.

(* thread programs: thread id -> remaining actions; observations: thread id -> what it has seen *)
Definition progs := list (nat * list action).
Fixpoint get_prog (ps : progs) (t : nat) : list action :=
  match ps with [] => [] | (t', p) :: r => if Nat.eqb t' t then p else get_prog r t end.
Fixpoint set_prog (ps : progs) (t : nat) (p : list action) : progs :=
  match ps with [] => [] | (t', q) :: r => if Nat.eqb t' t then (t', p) :: r else (t', q) :: set_prog r t p end.

(* a schedule names the thread that moves next; a step of a thread with no action left, or not enabled,
   is not allowed (the schedule is then rejected) *)
Fixpoint run_sched (describing : pred) (ps : progs) (st : shared) (sched : list nat)
  : option (list (nat * obs) * progs * shared) :=
  match sched with
  | [] => Some ([], ps, st)
  | t :: r =>
      match get_prog ps t with
      | [] => None
      | a :: p =>
          match act describing t st a with
          | None => None
          | Some (st', os) =>
              match run_sched describing (set_prog ps t p) st' r with
              | Some (log, ps', st'') => Some (map (fun o => (t, o)) os ++ log, ps', st'')
              | None => None
              end
          end
      end
  end.

Definition obs_of (t : nat) (log : list (nat * obs)) : list obs :=
  map snd (filter (fun p => Nat.eqb (fst p) t) log).

(* a thread program is well bracketed: describing calls only between ABegin and AEnd, plain calls only
   outside, no nested ABegin *)
Fixpoint well_bracketed (inside : bool) (p : list action) : bool :=
  match p with
  | [] => negb inside
  | ABegin :: r => negb inside && well_bracketed true r
  | ADescribe _ :: r => inside && well_bracketed true r
  | AEnd :: r => inside && well_bracketed false r
  | ACall _ :: r => negb inside && well_bracketed false r
  end.

(* what a thread observes when it runs ALONE *)
Fixpoint alone (p : list action) (tbl : list nat) : list obs :=
  match p with
  | [] => []
  | ABegin :: r => alone r []
  | ADescribe f :: r => ORecorded f :: alone r (tbl ++ [f])
  | AEnd :: r => OBuilt tbl :: alone r []
  | ACall f :: r => OExecuted f :: alone r tbl
  end.

(* flat encodings for the harness *)
Definition enc_obs (o : obs) : list nat :=
  match o with ORecorded f => [1; f] | OBuilt t => 2 :: length t :: t | OExecuted f => [3; f] end.
Definition kthread (ps : progs) (sched : list nat) (t : nat) : list nat :=
  match run_sched mine ps init_shared sched with
  | Some (log, _, _) => 1 :: flat_map enc_obs (obs_of t log)
  | None => [0]
  end.
