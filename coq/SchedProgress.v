(* SchedProgress.v — C09: every execution terminates whatever order nodes finish in; the scheduler
   never deadlocks and never spins with nothing in flight.

   1. gate_implies_inflight: when the loop decides to block (helpers.py:291) something is in flight.
   2. a measure [mu] that every transition strictly decreases: all accepted label sequences
      (= all completion orders, failing nodes, tie-breaks, flag values) are finite, with an
      explicit bound linear in the number of nodes.
   3. progress: every reachable state that is not final has an enabled label, under the
      environment obligations (an in-flight future completes, max() returns a maximal element,
      the flag test and node functions return); no two consecutive empty FIRST_COMPLETED waits. *)
From Coq Require Import List Arith Bool Lia PeanoNat ZArith.
From Tawazi Require Import Graph GraphFacts Sched SchedInv.
Import ListNotations.
Arguments remove_root_node : simpl never.

Section Progress.
Variable c : cfg.
Notation R0 := (diff (c_nodes c) (c_pre c)).
Notation preds := (c_preds c).

Ltac pcs := cbn [set_pc mark_skipped mark_started mark_finished set_inflight take_runnable
                 rem runnable conc asyn pc] in *.

(* ------------------------------------------------------------------ reachability *)
Lemma reachable_init : reachable c (init c).
Proof. exists []. reflexivity. Qed.

Lemma reachable_step s l s' : reachable c s -> step c s l = Some s' -> reachable c s'.
Proof. intros [ls H] E. exists (ls ++ [l]). rewrite run_app, H. cbn [run]. rewrite E. reflexivity. Qed.

Lemma reachable_run ls : forall s s', reachable c s -> run c s ls = Some s' -> reachable c s'.
Proof. induction ls as [|l ls IH]; intros s s' R H; cbn [run] in H.
  - inversion H; subst; auto.
  - destruct (step c s l) as [s1|] eqn:E; [|discriminate]. apply (IH s1); auto.
    apply (reachable_step s l); auto. Qed.

(* ------------------------------------------------------------------ structure: in-flight nodes are
   distinct remaining nodes, and so is the node held by the scheduler *)
Lemma busy_le_rem s : Inv1 c s -> running s + length (cur (pc s)) <= length (rem s).
Proof.
  intros [Ha Hb Hc].
  set (l := conc s ++ asyn s ++ cur (pc s)).
  assert (Hl : forall x, cnt l x <= cnt (live s) x).
  { intros x. rewrite cnt_live. unfold l. rewrite !count_occ_app. lia. }
  assert (Hnd : NoDup l).
  { apply cnt_NoDup. intros x. specialize (Hl x). rewrite (Hc x) in Hl.
    destruct (is_root preds (rem s) x); cbn [b2n] in Hl; lia. }
  assert (Hin : incl l (rem s)).
  { intros x Hx. apply cnt_In in Hx. specialize (Hl x). rewrite Hc in Hl.
    destruct (is_root preds (rem s) x) eqn:E; cbn [b2n] in Hl; [|lia].
    apply is_root_spec in E. tauto. }
  pose proof (NoDup_incl_length Hnd Hin) as H. unfold l in H. rewrite !app_length in H.
  unfold running. lia.
Qed.

(* the remaining graph is a sub-graph of the acyclic input graph: it has a root when non-empty *)
Lemma rem_has_root s : wf c -> Inv1 c s -> rem s <> [] -> exists r, is_root preds (rem s) r = true.
Proof.
  intros W [Ha Hb Hc] Hne. destruct (wf_acyclic c W) as [rank Hrk].
  apply (exists_root preds rank); auto.
  intros n p Hn Hp Hpr. apply Hrk; auto.
  - apply Hb in Hn. apply In_diff in Hn. tauto.
  - apply Hb in Hpr. apply In_diff in Hpr. tauto.
Qed.

(* the heart of C09: if the scheduler holds no node, the graph is not empty and the gate
   condition of helpers.py:291 holds, then some future is in flight *)
Lemma gate_inflight_gen s : wf c -> Inv1 c s -> cur (pc s) = [] -> rem s <> [] -> gate c s = true ->
  conc s <> [] \/ asyn s <> [].
Proof.
  intros W I Hcur Hne Hg. unfold gate in Hg. apply orb_true_iff in Hg. destruct Hg as [Hg|Hg].
  - apply Nat.eqb_eq in Hg. pose proof (wf_maxc c W) as Hm. unfold running in Hg.
    destruct (conc s); [right|left; discriminate]. destruct (asyn s); [simpl in Hg; lia|discriminate].
  - apply isnil_spec in Hg. destruct (rem_has_root s W I Hne) as [r Hr].
    pose proof (i_cnt c s I r) as Hc. rewrite cnt_live, Hr, Hg, Hcur in Hc. cbn [count_occ b2n] in Hc.
    destruct (conc s); [right|left; discriminate]. destruct (asyn s); [simpl in Hc; lia|discriminate].
Qed.

Theorem gate_implies_inflight s : wf c -> reachable c s -> pc s = PTop -> rem s <> [] -> gate c s = true ->
  conc s <> [] \/ asyn s <> [].
Proof.
  intros W R Hpc Hne Hg. pose proof (reachable_Inv c s W R) as I.
  apply gate_inflight_gen; auto.
  - apply (inv1 c s I). intros n E. congruence.
  - rewrite Hpc. reflexivity.
Qed.

(* ------------------------------------------------------------------ a small extra invariant on
   the control points that follow an empty first wait / a pick *)
Record InvP (s : state) : Prop := {
  p_gatec : pc s = PGateC false -> rem s <> [];
  p_pick : pc s = PPick -> runnable s <> [];
  p_defera : forall n, pc s = PDeferA n -> running s <> 0;
  p_deferc : forall n, pc s = PDeferC n false -> asyn s = [] /\ conc s <> []
}.

Lemma init_InvP : InvP (init c).
Proof. constructor; cbn [init pc]; intros; discriminate. Qed.

Lemma trans_InvP s l s' : InvP s -> trans c s l s' -> InvP s'.
Proof.
  intros [Pa Pb Pc Pd] T. destruct T.
  - constructor; pcs; intros; discriminate.
  - (* empty wait *)
    destruct H as [s H Hr Hg|s b H|s n H|s n b H|s n H|s n H];
      constructor; pcs; cbn [nonempty_bool isnil negb inflight] in *; unfold after_gate;
      try (intros; discriminate); auto.
    + destruct (isnil (runnable s)); intros; discriminate.
    + destruct (isnil (runnable s)) eqn:E; intros; try discriminate. apply isnil_false; auto.
    + destruct (isnil (runnable s)); intros; discriminate.
    + destruct (isnil (runnable s)); intros; discriminate.
    + intros m _. split; auto. specialize (Pc n H). unfold running in Pc. rewrite H0 in Pc.
      destruct (conc s); [simpl in Pc; congruence|discriminate].
  - (* wait ok *)
    assert (Hd : nonempty_bool dones = true) by (destruct dones; [congruence|reflexivity]).
    destruct H as [s H Hr Hg|s b H|s n H|s n b H|s n H|s n H];
      constructor; pcs; rewrite ?Hd; unfold after_gate;
      try (intros; discriminate); auto.
    + destruct (isnil (runnable s1)); intros; discriminate.
    + destruct (isnil (runnable s1)) eqn:E; intros; try discriminate. apply isnil_false; auto.
    + destruct (isnil (runnable s1)); intros; discriminate.
    + destruct (isnil (runnable s1)); intros; discriminate.
  - constructor; pcs; intros; discriminate.
  - constructor; pcs; try (intros; discriminate). intros m _. unfold running in *. pcs. auto.
  - constructor; pcs; intros; discriminate.
  - constructor; pcs; intros; discriminate.
  - constructor; pcs; intros; discriminate.
  - constructor; pcs; unfold after_dispatch; destruct (c_seq c n); intros; discriminate.
  - constructor; pcs; unfold after_dispatch; destruct (c_seq c n); intros; discriminate.
  - constructor; pcs; unfold after_dispatch; destruct (c_seq c n); intros; discriminate.
  - constructor; pcs; intros; discriminate.
Qed.

Lemma reachable_InvP s : reachable c s -> InvP s.
Proof. intros [ls H]. apply (run_preserves c InvP) with (ls := ls) (s := init c); auto.
  - intros s0 l s1 I E. apply (trans_InvP s0 l s1); auto. apply step_trans; auto.
  - apply init_InvP. Qed.

(* ------------------------------------------------------------------ the measure *)
Definition wt (p : pcT) : nat :=
  match p with
  | PFinished | PRaised _ => 0
  | PDisp _ => 1
  | PActive _ => 2
  | PDeferC _ false => 3
  | PDeferA _ => 4
  | PPick | PGateC false => 5
  | PTop => 6
  | PGateC true | PDeferC _ true | PDrainC _ => 7
  | PDrainA _ => 8
  end.
(* two units per remaining node, one of which is consumed when the node is put in flight *)
Definition M (s : state) : nat := 2 * length (rem s) - running s.
Definition mu (s : state) : nat := 16 * M s + wt (pc s).

Lemma wt_le p : wt p <= 8.
Proof. destruct p as [| [|] | | | ? [|] | | | | | |]; cbn [wt]; lia. Qed.

Lemma wait_site_wt s k m nx : wait_site c s k m nx -> 3 <= wt (pc s).
Proof. intros H. destruct H as [s H Hr Hg|s b H|s n H|s n b H|s n H|s n H]; rewrite H;
  try destruct b; cbn [wt]; lia. Qed.

Lemma M_set_pc s p : M (set_pc s p) = M s.
Proof. reflexivity. Qed.

Lemma inflight_complete k s n : inflight (complete c k s n) k = remove1 n (inflight s k).
Proof. destruct k; reflexivity. Qed.

(* one completion: one node less in the graph, one future less in flight *)
Lemma complete_counts k s n : Inv1 c s -> cur (pc s) = [] -> In n (inflight s k) ->
  length (rem (complete c k s n)) + 1 = length (rem s) /\ running (complete c k s n) + 1 = running s.
Proof.
  intros I Hc Hn.
  assert (Hl : 1 <= cnt (inflight s k) n) by (apply cnt_In; auto).
  assert (Hlive : 1 <= cnt (live s) n).
  { rewrite cnt_live. destruct k; cbn [inflight] in Hl; lia. }
  destruct (cnt_root_of_live c s n I Hlive) as [Hroot Hone].
  rewrite cnt_live in Hone. split.
  - rewrite complete_rem. apply is_root_spec in Hroot. destruct Hroot as [Hin _].
    pose proof (length_remove1_In n (rem s) (i_rem c s I) Hin). lia.
  - unfold running. rewrite complete_conc, complete_asyn. destruct k; cbn [inflight] in Hl.
    + pose proof (length_remove1_cnt n (asyn s)). lia.
    + pose proof (length_remove1_cnt n (conc s)). lia.
Qed.

Lemma completes_counts k : forall ns s, Inv1 c s -> cur (pc s) = [] ->
  (forall pre n post, ns = pre ++ n :: post -> In n (inflight (completes c k s pre) k)) ->
  length (rem (completes c k s ns)) + length ns = length (rem s) /\
  running (completes c k s ns) + length ns = running s.
Proof.
  induction ns as [|n ns IH]; intros s I Hc Hin.
  - cbn [completes fold_left length]. lia.
  - assert (Hn : In n (inflight s k)) by (apply (Hin [] n ns); auto).
    destruct (complete_counts k s n I Hc Hn) as [E1 E2].
    destruct (IH (complete c k s n)) as [E3 E4].
    + apply complete_Inv1; auto.
    + rewrite complete_pc; auto.
    + intros pre x post E. apply (Hin (n :: pre) x post). simpl; congruence.
    + change (completes c k s (n :: ns)) with (completes c k (complete c k s n) ns).
      cbn [length]. lia.
Qed.

Lemma cur_in_rem s n : Inv1 c s -> cur (pc s) = [n] -> S (length (remove1 n (rem s))) = length (rem s).
Proof.
  intros I Hc.
  assert (Hl : 1 <= cnt (live s) n).
  { rewrite cnt_live, Hc. cbn [count_occ]. destruct (Nat.eq_dec n n); [lia|congruence]. }
  destruct (cnt_root_of_live c s n I Hl) as [Hroot _]. apply is_root_spec in Hroot.
  apply length_remove1_In; [apply (i_rem c s I)|tauto].
Qed.

Lemma trans_decreases s l s' : wf c -> Inv c s -> InvP s -> trans c s l s' -> mu s' < mu s.
Proof.
  intros W I P T. pose proof (trans_alive c s l s' T) as A.
  pose proof (inv1 c s I A) as I1. pose proof (inv2 c s I) as I2.
  pose proof (busy_le_rem s I1) as Hb.
  destruct T.
  - unfold mu. rewrite M_set_pc. pcs. rewrite H. cbn [wt]. lia.
  - (* empty wait: the pc weight decreases; a second empty wait of a pair is impossible *)
    unfold mu. rewrite M_set_pc. pcs.
    destruct H as [s H Hr Hg|s b H|s n H|s n b H|s n H|s n H]; rewrite H; cbn [inflight] in H0.
    + cbn [wt nonempty_bool isnil negb]. lia.
    + destruct b.
      * unfold after_gate. destruct (isnil (runnable s)); cbn [wt]; lia.
      * exfalso. destruct (j_gatec c s I2 H) as [Hg Ha].
        destruct (gate_inflight_gen s W I1) as [Hx|Hx]; auto.
        -- rewrite H. reflexivity.
        -- apply (p_gatec s P H).
    + cbn [wt nonempty_bool isnil negb]. lia.
    + destruct b; [cbn [wt]; lia|]. exfalso. destruct (p_deferc s P n H) as [_ Hx]. auto.
    + cbn [wt]. lia.
    + cbn [wt]. lia.
  - (* at least one completion *)
    destruct (wait_site_cur c _ _ _ _ H) as [Hc _]. rewrite Hc in Hb.
    assert (Hlen : 1 <= length ns) by (subst dones; eapply map_nonempty; eauto).
    subst s1. destruct (completes_counts k ns s I1 Hc H4) as [E1 E2].
    unfold mu. rewrite M_set_pc. pcs. unfold M.
    pose proof (wt_le (nx dones (completes c k s ns))). cbn [length] in Hb. lia.
  - (* a completion raised *)
    destruct (wait_site_cur c _ _ _ _ H) as [Hc _]. rewrite Hc in Hb.
    pose proof (wait_site_wt _ _ _ _ H) as Hw.
    subst s1. destruct (completes_counts k ns s I1 Hc H3) as [E1 E2].
    unfold mu. rewrite M_set_pc. pcs. unfold M. cbn [wt length] in *. lia.
  - unfold mu. rewrite M_set_pc. pcs. destruct H as [H|[H _]]; rewrite H; cbn [wt]; lia.
  - unfold mu. rewrite M_set_pc. pcs. change (M (take_runnable s n)) with (M s).
    destruct H as [H|[H _]]; rewrite H; cbn [wt]; lia.
  - unfold mu. rewrite M_set_pc. pcs. rewrite H; cbn [wt]; lia.
  - (* skip *)
    rewrite H in Hb. pose proof (cur_in_rem s n I1) as Hr. rewrite H in Hr. specialize (Hr eq_refl).
    unfold mu, M, running in *. pcs. rewrite remove_node_rem, remove_node_conc, remove_node_asyn.
    cbn [cur length wt] in *. rewrite H. cbn [wt]. lia.
  - (* submit thread *)
    rewrite H in Hb. pose proof (wt_le (after_dispatch c n)).
    unfold mu, M, running in *. pcs. rewrite H. cbn [cur length wt] in *. lia.
  - rewrite H in Hb. pose proof (wt_le (after_dispatch c n)).
    unfold mu, M, running in *. pcs. rewrite H. cbn [cur length wt] in *. lia.
  - (* inline ok *)
    rewrite H in Hb. pose proof (cur_in_rem s n I1) as Hr. rewrite H in Hr. specialize (Hr eq_refl).
    pose proof (wt_le (after_dispatch c n)).
    unfold mu, M, running in *. pcs. rewrite remove_node_rem, remove_node_conc, remove_node_asyn. pcs.
    cbn [cur length wt] in *. rewrite H. cbn [wt]. lia.
  - unfold mu. rewrite M_set_pc. pcs. change (M (mark_started s n)) with (M s). rewrite H. cbn [wt]. lia.
Qed.

Theorem step_decreases s l s' : wf c -> reachable c s -> step c s l = Some s' -> mu s' < mu s.
Proof. intros W R E. apply (trans_decreases s l s'); auto.
  - apply reachable_Inv; auto.
  - apply reachable_InvP; auto.
  - apply step_trans; auto. Qed.

Lemma run_decreases ls : forall s s', wf c -> reachable c s -> run c s ls = Some s' -> length ls + mu s' <= mu s.
Proof.
  induction ls as [|l ls IH]; intros s s' W R H; cbn [run] in H.
  - inversion H; subst. cbn [length]. lia.
  - destruct (step c s l) as [s1|] eqn:E; [|discriminate].
    pose proof (step_decreases s l s1 W R E). pose proof (reachable_step s l s1 R E) as R1.
    specialize (IH s1 s' W R1 H). cbn [length]. lia.
Qed.

Lemma length_diff_le a b : length (diff a b) <= length a.
Proof. unfold diff. induction a as [|x a IH]; simpl; auto. destruct (negb (mem x b)); simpl; lia. Qed.

Lemma mu_init_bound : mu (init c) <= 32 * length (c_nodes c) + 6.
Proof. unfold mu, M, running. cbn [init rem conc asyn pc length wt].
  pose proof (length_diff_le (c_nodes c) (c_pre c)). lia. Qed.

(* every accepted label sequence — every completion order, with or without failing nodes, every
   tie-break of max() and every flag value — is finite, with a bound linear in the graph size *)
Theorem run_length_bounded ls s : wf c -> run c (init c) ls = Some s -> length ls <= mu (init c).
Proof. intros W H. pose proof (run_decreases ls (init c) s W reachable_init H). lia. Qed.

Theorem run_length_linear ls s : wf c -> run c (init c) ls = Some s -> length ls <= 32 * length (c_nodes c) + 6.
Proof. intros W H. pose proof (run_length_bounded ls s W H). pose proof mu_init_bound. lia. Qed.

(* there is no infinite execution: every infinite label sequence is rejected after finitely many steps *)
Theorem no_infinite_run (f : nat -> label) : wf c -> exists n, run c (init c) (map f (seq 0 n)) = None.
Proof.
  intros W. exists (S (mu (init c))).
  destruct (run c (init c) (map f (seq 0 (S (mu (init c)))))) as [s|] eqn:E; auto.
  apply run_length_bounded in E; auto. rewrite map_length, seq_length in E. lia.
Qed.

(* ------------------------------------------------------------------ progress: environment obligations *)
(* max(runnable, key=compound_priority) returns some maximal element of a non-empty set *)
Lemma is_max_spec n l : is_max c n l = true <-> In n l /\ forall m, In m l -> (c_prio c m <= c_prio c n)%Z.
Proof. unfold is_max. rewrite andb_true_iff, mem_In, forallb_forall. split; intros [H1 H2]; split; auto;
  intros m Hm; specialize (H2 m Hm); apply Z.leb_le; auto. Qed.

Lemma exists_max l : l <> [] -> exists n, is_max c n l = true.
Proof.
  intros Hne.
  assert (H : exists n, In n l /\ forall m, In m l -> (c_prio c m <= c_prio c n)%Z).
  { induction l as [|a l IH]; [congruence|]. destruct l as [|b l].
    - exists a. split; [left; auto|]. intros m [<-|[]]. lia.
    - destruct IH as [n [Hn Hmax]]; [discriminate|].
      destruct (Z.leb (c_prio c n) (c_prio c a)) eqn:E.
      + apply Z.leb_le in E. exists a. split; [left; auto|]. intros m [<-|Hm]; [lia|].
        specialize (Hmax m Hm). lia.
      + apply Z.leb_gt in E. exists n. split; [right; auto|]. intros m [<-|Hm]; [lia|]. auto. }
  destruct H as [n H]. exists n. apply is_max_spec; auto.
Qed.

Lemma do_pick_ok s : runnable s <> [] -> exists n s', do_pick c s n = Some s'.
Proof. intros H. destruct (exists_max _ H) as [n Hn]. exists n. unfold do_pick. rewrite Hn.
  destruct (c_seq c n && negb (running s =? 0)); eauto. Qed.

(* any single in-flight future of the awaited kind may be the one a FIRST_COMPLETED wait returns,
   whether its node function returned or raised *)
Lemma do_wait_any s k x b next : In x (inflight s k) -> exists s', do_wait c s k MFirst [(x, b)] next = Some s'.
Proof.
  intros Hx. unfold do_wait.
  assert (E1 : isnil (inflight s k) = false) by (apply isnil_false; intro E; rewrite E in Hx; inversion Hx).
  rewrite E1. cbn [isnil inspect]. apply mem_In in Hx. rewrite Hx. destruct b; eauto.
Qed.

Lemma do_wait_first_ok s k (nx : list (nat * bool) -> state -> pcT) :
  exists dones s', do_wait c s k MFirst dones (nx dones) = Some s'.
Proof.
  destruct (inflight s k) as [|x l] eqn:E.
  - exists []. unfold do_wait. rewrite E. cbn [isnil]. eauto.
  - exists [(x, true)]. apply do_wait_any. rewrite E. left; auto.
Qed.

(* inspecting every in-flight future of a kind, all successful, empties that in-flight set *)
Lemma inspect_all k : forall l s, NoDup l -> (forall x, In x l -> In x (inflight s k)) ->
  exists s', inspect c k s (map (fun n => (n, true)) l) = Some (s', None) /\
             forall x, In x (inflight s' k) <-> In x (inflight s k) /\ ~ In x l.
Proof.
  induction l as [|a l IH]; intros s Hnd Hin; cbn [map inspect].
  - exists s. split; auto. intros x. simpl. tauto.
  - inversion Hnd as [|a' l' Ha Hl]; subst.
    assert (Hm : mem a (inflight s k) = true) by (apply mem_In, Hin; left; auto). rewrite Hm.
    destruct (IH (complete c k s a) Hl) as [s' [E Hs']].
    { intros x Hx. rewrite inflight_complete. apply In_remove1. split; [apply Hin; right; auto|].
      intro; subst; auto. }
    exists s'. split; auto. intros x. rewrite Hs', inflight_complete, In_remove1. simpl.
    split.
    + intros [[H1 H2] H3]. split; auto. intros [H4|H4]; [congruence|auto].
    + intros [H1 H2]. split; [split; [auto|intro; apply H2; left; auto]|intro; apply H2; right; auto].
Qed.

Lemma do_wait_all_ok s k (nx : list (nat * bool) -> state -> pcT) :
  exists dones s', do_wait c s k MAll dones (nx dones) = Some s'.
Proof.
  destruct (inflight s k) as [|x l0] eqn:E.
  - exists []. unfold do_wait. rewrite E. cbn [isnil]. eauto.
  - assert (Hl : exists l, NoDup l /\ forall y, In y l <-> In y (inflight s k)).
    { exists (nodup Nat.eq_dec (inflight s k)). split; [apply NoDup_nodup|]. intros y. apply nodup_In. }
    destruct Hl as [l [Hnd Hl]].
    destruct (inspect_all k l s Hnd) as [s' [Hi Hs']].
    { intros y Hy. apply Hl; auto. }
    assert (E2 : inflight s' k = []).
    { assert (Hno : forall z, ~ In z (inflight s' k)).
      { intros z Hz. apply Hs' in Hz. destruct Hz as [Hz1 Hz2]. apply Hz2. apply Hl; auto. }
      destruct (inflight s' k) as [|z l2]; auto. exfalso. apply (Hno z). left; auto. }
    assert (Hx : In x l) by (apply Hl; rewrite E; left; auto).
    exists (map (fun n => (n, true)) l). unfold do_wait. rewrite E. cbn [isnil]. rewrite Hi.
    destruct l as [|y l1]; [inversion Hx|]. cbn [map isnil].
    rewrite E2. cbn [isnil]. eauto.
Qed.

(* no deadlock: every reachable state that is not final has an enabled label *)
Theorem progress s : wf c -> reachable c s -> pc s <> PFinished -> (forall f, pc s <> PRaised f) ->
  exists l s', step c s l = Some s'.
Proof.
  intros W R Hf Hr. pose proof (reachable_InvP s R) as P.
  destruct (pc s) eqn:Hpc.
  - (* PTop *)
    destruct (isnil (rem s)) eqn:E1.
    + exists LEnd, (set_pc s PFinished). unfold step. rewrite Hpc, E1. reflexivity.
    + destruct (gate c s) eqn:E2.
      * destruct (do_wait_first_ok s KA (fun d _ => PGateC (nonempty_bool d))) as [dones [s' H]].
        exists (LWait KA MFirst dones), s'. unfold step. rewrite Hpc, E1, E2. exact H.
      * assert (Hrn : runnable s <> []).
        { unfold gate in E2. apply orb_false_iff in E2. destruct E2 as [_ E2]. apply isnil_false; auto. }
        destruct (do_pick_ok s Hrn) as [n [s' H]].
        exists (LPick n), s'. unfold step. rewrite Hpc, E1, E2. exact H.
  - destruct (do_wait_first_ok s KC (fun _ s' => after_gate s')) as [dones [s' H]].
    exists (LWait KC MFirst dones), s'. unfold step. rewrite Hpc. exact H.
  - destruct (do_pick_ok s (p_pick s P Hpc)) as [n [s' H]].
    exists (LPick n), s'. unfold step. rewrite Hpc. exact H.
  - destruct (do_wait_first_ok s KA (fun d _ => PDeferC n (nonempty_bool d))) as [dones [s' H]].
    exists (LWait KA MFirst dones), s'. unfold step. rewrite Hpc. exact H.
  - destruct (do_wait_first_ok s KC (fun _ _ => PTop)) as [dones [s' H]].
    exists (LWait KC MFirst dones), s'. unfold step. rewrite Hpc. exact H.
  - exists (LActive n true). eexists. unfold step. rewrite Hpc, Nat.eqb_refl. reflexivity.
  - destruct (c_res c n) eqn:Er.
    + exists (LSubmit KC n). eexists. unfold step. rewrite Hpc, Nat.eqb_refl, Er. reflexivity.
    + exists (LSubmit KA n). eexists. unfold step. rewrite Hpc, Nat.eqb_refl, Er. reflexivity.
    + exists (LInline n true). eexists. unfold step. rewrite Hpc, Nat.eqb_refl, Er. reflexivity.
  - destruct (do_wait_all_ok s KA (fun _ _ => PDrainC n)) as [dones [s' H]].
    exists (LWait KA MAll dones), s'. unfold step. rewrite Hpc. exact H.
  - destruct (do_wait_all_ok s KC (fun _ _ => PTop)) as [dones [s' H]].
    exists (LWait KC MAll dones), s'. unfold step. rewrite Hpc. exact H.
  - congruence.
  - exfalso. apply (Hr n). reflexivity.
Qed.

(* a run that cannot be extended has left the loop: returned, or raised a node's exception *)
Corollary stuck_is_final ls s : wf c -> run c (init c) ls = Some s -> (forall l, step c s l = None) ->
  pc s = PFinished \/ exists f, pc s = PRaised f.
Proof.
  intros W H Hst. assert (R : reachable c s) by (exists ls; auto).
  destruct (pc s) eqn:Hpc; eauto; exfalso;
    (destruct (progress s W R) as [l [s' E]]; [congruence|intros f; congruence|rewrite Hst in E; discriminate]).
Qed.

(* conversely the two final control points accept no label *)
Lemma final_is_stuck s l : pc s = PFinished \/ (exists f, pc s = PRaised f) -> step c s l = None.
Proof. intros [H|[f H]]; unfold step; rewrite H; destruct l; reflexivity. Qed.

(* whatever future finishes first, and whether it returned or raised, the scheduler accepts it *)
Theorem any_completion_accepted s k nx x b : wait_site c s k MFirst nx -> In x (inflight s k) ->
  exists s', step c s (LWait k MFirst [(x, b)]) = Some s'.
Proof.
  intros Hw Hx. unfold step. inversion Hw as [s0 H Hr Hg|s0 b0 H|s0 n H|s0 n b0 H|s0 n H|s0 n H]; subst; rewrite H.
  - apply isnil_false in Hr. rewrite Hr, Hg. apply do_wait_any; auto.
  - apply do_wait_any; auto.
  - apply do_wait_any; auto.
  - apply do_wait_any; auto.
Qed.

(* ------------------------------------------------------------------ never waiting on nothing *)
Lemma step_wait_nil s k m s' : step c s (LWait k m []) = Some s' ->
  exists nx, wait_site c s k m nx /\ inflight s k = [] /\ s' = set_pc s (nx [] s).
Proof.
  intros H. apply step_trans in H.
  inversion H as [| s0 k0 m0 nx Hw He | s0 k0 m0 nx dones ns s1 Hw He Hd | s0 k0 m0 nx dones ns f s1 Hw He Hd | | | | | | | | ]; subst.
  - exists nx. auto.
  - congruence.
  - destruct ns; discriminate.
Qed.

(* at the first wait of a blocking pair (gate at helpers.py:291-309, deferral at 328-337) something
   is in flight; at the second one too unless the first wait just completed a future *)
Theorem wait_pair_inflight s : wf c -> reachable c s ->
  (pc s = PTop /\ rem s <> [] /\ gate c s = true) \/ pc s = PGateC false \/
  (exists n, pc s = PDeferA n) \/ (exists n, pc s = PDeferC n false) ->
  conc s <> [] \/ asyn s <> [].
Proof.
  intros W R H. pose proof (reachable_Inv c s W R) as I. pose proof (reachable_InvP s R) as P.
  destruct H as [[H1 [H2 H3]]|[H|[[n H]|[n H]]]].
  - apply gate_implies_inflight; auto.
  - assert (A : alive s) by (intros f E; congruence).
    destruct (j_gatec c s (inv2 c s I) H) as [Hg Ha].
    apply gate_inflight_gen; auto.
    + apply (inv1 c s I A).
    + rewrite H. reflexivity.
    + apply (p_gatec s P H).
  - pose proof (p_defera s P n H) as Hr. unfold running in Hr.
    destruct (conc s); [right|left; discriminate]. destruct (asyn s); [simpl in Hr; congruence|discriminate].
  - left. apply (p_deferc s P n H).
Qed.

Theorem second_wait_blocks s : wf c -> reachable c s ->
  pc s = PGateC false \/ (exists n, pc s = PDeferC n false) -> conc s <> [].
Proof.
  intros W R H. pose proof (reachable_Inv c s W R) as I. pose proof (reachable_InvP s R) as P.
  destruct H as [H|[n H]].
  - destruct (wait_pair_inflight s W R) as [Hx|Hx]; auto.
    destruct (j_gatec c s (inv2 c s I) H) as [_ Ha]. congruence.
  - apply (p_deferc s P n H).
Qed.

(* two consecutive empty FIRST_COMPLETED waits never happen: the scheduler never "waits" on
   nothing and loops without progress *)
Theorem blocking_wait_has_inflight s s1 s2 : wf c -> reachable c s ->
  step c s (LWait KA MFirst []) = Some s1 -> step c s1 (LWait KC MFirst []) = Some s2 -> False.
Proof.
  intros W R E1 E2.
  destruct (step_wait_nil _ _ _ _ E1) as [nx1 [W1 [Ha ->]]].
  destruct (step_wait_nil _ _ _ _ E2) as [nx2 [W2 [Hc _]]].
  cbn [inflight set_pc conc] in Ha, Hc.
  assert (Hx : conc s <> [] \/ asyn s <> []).
  { apply (wait_pair_inflight s W R).
    inversion W1 as [s0 H Hr Hg|s0 b0 H|s0 n H|s0 n b0 H|s0 n H|s0 n H]; subst; eauto. }
  destruct Hx; auto.
Qed.

End Progress.

Print Assumptions gate_implies_inflight.
Print Assumptions step_decreases.
Print Assumptions run_length_bounded.
Print Assumptions run_length_linear.
Print Assumptions no_infinite_run.
Print Assumptions progress.
Print Assumptions stuck_is_final.
Print Assumptions final_is_stuck.
Print Assumptions any_completion_accepted.
Print Assumptions wait_pair_inflight.
Print Assumptions second_wait_blocks.
Print Assumptions blocking_wait_has_inflight.
