(* Terms.v — the concrete value domain used when the model is RUN by the correspondence: Herbrand
   terms.  Generated node functions on the Python side return the same terms (harness/terms.py), so
   "the value the implementation computed" and "the value the model computes" can be compared
   structurally.  Definitions only (executable). *)
From Coq Require Import List Arith Bool PeanoNat ZArith.
From Tawazi Require Import Graph Sched Dataflow.
Import ListNotations.

Inductive term :=
| TNone
| TConst (c : nat) (truth : bool)                   (* a constant / DAG argument with declared truthiness *)
| TApp (f : nat) (truth : bool) (args : list term)  (* result of opaque function f on these values *)
| TTup (elems : list term)                          (* tuple / list: indexable by position *)
| TDict (items : list (nat * term))                 (* dict: indexable by key *)
| TBool (b : bool).

Definition t_truthy (t : term) : bool :=
  match t with
  | TNone => false | TConst _ b => b | TApp _ b _ => b
  | TTup es => negb (isnil es) | TDict kv => negb (isnil kv) | TBool b => b
  end.
Fixpoint assoc (kv : list (nat * term)) (k : nat) : option term :=
  match kv with [] => None | (k', v) :: r => if Nat.eqb k' k then Some v else assoc r k end.
Definition t_index (t : term) (k : nat) : option term :=
  match t with TTup es => nth_error es k | TDict kv => assoc kv k | _ => None end.

(* what a node's function does, as data *)
Inductive fcode :=
| FApp (f : nat) (truth : bool)                 (* return App(f, args) *)
| FTuple (f : nat) (truths : list bool)         (* return a tuple of len(truths) applications (unpack_to / indexing) *)
| FDictOf (f : nat) (keys : list (nat * bool))  (* return a dict with these keys *)
| FFail                                         (* raise *)
| FIdent                                        (* lambda x: x  (argument stubs of nested DAGs) *)
| FAnd | FOr | FNot                             (* tawazi.and_ / or_ / not_ *)
| FOp (op : nat)                                (* an operator node: free binary/unary constructor, truth = xor of operand truths *)
| FMissing.                                     (* ArgExecNode without value: raises TawaziArgumentException *)

Definition is_term (t : term) : bool := match t with TConst _ _ | TApp _ _ _ => true | _ => false end.
Definition xor_truth (vs : list term) : bool := fold_left xorb (map t_truthy vs) false.
Fixpoint mk_elems (f : nat) (i : nat) (truths : list bool) (vs : list term) : list term :=
  match truths with [] => [] | b :: r => TApp f b (TConst i true :: vs) :: mk_elems f (S i) r vs end.
Fixpoint mk_items (f : nat) (keys : list (nat * bool)) (vs : list term) : list (nat * term) :=
  match keys with [] => [] | (k, b) :: r => (k, TApp f b (TConst k true :: vs)) :: mk_items f r vs end.

Definition apply_fcode (fc : fcode) (vs : list term) : option term :=
  match fc with
  | FApp f b => Some (TApp f b vs)
  | FTuple f truths => Some (TTup (mk_elems f 0 truths vs))
  | FDictOf f keys => Some (TDict (mk_items f keys vs))
  | FFail => None
  | FIdent => match vs with [v] => Some v | _ => None end
  | FAnd => match vs with [a; b] => Some (if t_truthy a then b else a) | _ => None end
  | FOr => match vs with [a; b] => Some (if t_truthy a then a else b) | _ => None end
  | FNot => match vs with [a] => Some (TBool (negb (t_truthy a))) | _ => None end
  | FOp op =>
      (* a free constructor; Python dispatches to the left operand's operator when it is a term, else to
         the right operand's reflected operator (same operand order for arithmetic); raises otherwise *)
      match vs with
      | [a] => if is_term a then Some (TApp op (xor_truth vs) vs) else None
      | [a; b] => if is_term a || is_term b then Some (TApp op (xor_truth vs) vs) else None
      | _ => None
      end
  | FMissing => None
  end.

(* a node table as data: id -> (args, active, fcode) *)
Record nspec := mknspec { s_args : list ref; s_active : option ref; s_fn : fcode }.
Definition spec_tbl (specs : list (nat * nspec)) (n : nat) : nodeT term :=
  match find (fun p => Nat.eqb (fst p) n) specs with
  | Some (_, sp) => mknode term (s_args sp) (s_active sp) (apply_fcode (s_fn sp))
  | None => mknode term [] None (fun _ => None)
  end.

(* ---- flat encoding of terms for the harness *)
Fixpoint enc_term (t : term) : list nat :=
  match t with
  | TNone => [0]
  | TConst c b => [1; c; if b then 1 else 0]
  | TApp f b args => [2; f; if b then 1 else 0; length args] ++ flat_map enc_term args
  | TTup es => [3; length es] ++ flat_map enc_term es
  | TDict kv => [5; length kv] ++ flat_map (fun p => fst p :: enc_term (snd p)) kv
  | TBool b => [4; if b then 1 else 0]
  end.
Definition enc_opt (o : option term) : list nat := match o with Some t => 1 :: enc_term t | None => [0] end.

Definition t_rd := rd term TNone t_index.
Definition t_den (specs : list (nat * nspec)) (c : cfg) (res0 : results term) :=
  den_eval_fast term TNone t_truthy t_index (spec_tbl specs) c res0.
Definition t_vrun (specs : list (nat * nspec)) (c : cfg) (res0 : results term) (ls : list label) :=
  vrun term TNone t_truthy t_index (spec_tbl specs) c (init c, res0) ls.

(* K-value: the model's value of every returned reference (None = reading it raises) and the list of
   nodes whose evaluation raises; 9 separates the items *)
Definition kvalue (specs : list (nat * nspec)) (c : cfg) (res0 : results term) (rets : list ref) : list nat :=
  let '(res, failed) := t_den specs c res0 in
  length failed :: failed ++ flat_map (fun r => enc_opt (t_rd res r)) rets.

(* K-sched with values: the observed labels are accepted by the valued LTS (flag truthiness, returned
   vs raised), and every value stored by the run equals the denotation *)
Definition agrees (res den : results term) (n : nat) : bool :=
  match lookup term res n, lookup term den n with
  | Some a, Some b => if list_eq_dec Nat.eq_dec (enc_term a) (enc_term b) then true else false
  | None, _ => true
  | Some _, None => false
  end.
Definition kvrun (specs : list (nat * nspec)) (c : cfg) (res0 : results term) (ls : list label) : list nat :=
  match t_vrun specs c res0 ls with
  | None => [0]
  | Some (s, res) =>
      let d := fst (t_den specs c res0) in
      [1; if forallb (agrees res d) (c_nodes c) then 1 else 0]
  end.
