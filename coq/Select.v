(* Select.v — model of sub-graph selection (tawazi/_dag/digraph.py:83-120, 243-346; dag.py:474-501,
   984-1018).  Definitions only.  Node sets are duplicate-free lists; their order is irrelevant.

   The extra tables of DiGraphEx (tag / debug / setup / compound_priority) are functions of the node
   id in the model: they cannot be "lost" by a selection.  (At the pinned commit
   nx.DiGraph.subgraph().copy() dropped them — defect F2; the repaired make_subgraph re-attaches
   them, which is what the model describes.) *)
From Coq Require Import List Arith Bool PeanoNat.
From Tawazi Require Import Graph.
Import ListNotations.

Inductive sel_result := SelOk (g : list nat) | SelValueError.

Section Sel.
Variable preds : nat -> list nat.
Variable debug : nat -> bool.      (* graph.debug of the ORIGINAL graph *)
Variable setup : nat -> bool.

(* digraph.py:83-120.  nodes: the full graph; arguments already resolved to id lists *)
Definition make_subgraph (nodes : list nat) (target exclude root : option (list nat)) : sel_result :=
  let r1 := match root with
            | None => SelOk nodes
            | Some R => if subset R (roots preds nodes)
                        then SelOk (descendants_refl preds nodes R) else SelValueError
            end in
  match r1 with
  | SelValueError => SelValueError
  | SelOk g1 =>
      let g2 := match exclude with
                | None => g1
                | Some X => diff g1 (descendants_refl preds g1 X)
                end in
      match target with
      | None => SelOk g2
      | Some T => if subset T g2 then SelOk (ancestors_refl preds g2 T) else SelValueError
      end
  end.

(* out_degree == 0 inside g (digraph.py:149-156) *)
Definition leaf_nodes (g : list nat) : list nat :=
  filter (fun n => negb (existsb (fun m => mem n (preds m)) g)) g.

(* digraph.py:243-275 on the original graph: least set containing the leaves and every debug node d
   that is a successor of a member and whose predecessors (in the original graph) are all members *)
Definition debug_step (nodes L : list nat) : list nat :=
  union L (filter (fun d => debug d && negb (mem d L)
                            && existsb (fun p => mem p L) (preds d)
                            && forallb (fun p => negb (mem p nodes) || mem p L) (preds d)) nodes).
Definition include_debug_nodes (nodes leaves : list nat) : list nat :=
  iter (length nodes) (debug_step nodes) leaves.

(* digraph.py:277-302 *)
Definition extend_with_debug (nodes g : list nat) (run_debug : bool) : list nat :=
  if run_debug
  then inter (union (include_debug_nodes nodes (leaf_nodes g)) g) nodes
  else inter (diff g (filter debug g)) nodes.

(* the graph an executor runs: dag.py:984-1018 *)
Definition executor_graph (nodes : list nat) (target exclude root : option (list nat)) (run_debug : bool) : sel_result :=
  match make_subgraph nodes target exclude root with
  | SelValueError => SelValueError
  | SelOk g => SelOk (extend_with_debug nodes g run_debug)
  end.

(* DAG.__call__: dag.py:801 *)
Definition call_graph (nodes : list nat) (run_debug : bool) : list nat := extend_with_debug nodes nodes run_debug.

(* DAG.setup: dag.py:474-501; target None means all setup nodes *)
Definition setup_graph (nodes : list nat) (target exclude root : option (list nat)) : sel_result :=
  let t := match target with Some T => T | None => filter setup nodes end in
  match make_subgraph nodes (Some t) exclude root with
  | SelValueError => SelValueError
  | SelOk g => SelOk (filter setup g)
  end.
End Sel.

(* ---- alias resolution: dag.py:425-472.  An alias is an ExecNode reference or a string; a string
        that is a tag wins over the same string being a node id. *)
Inductive alias := ARef (n : nat) | AStr (a : nat).
Fixpoint assoc_l {A} (t : list (nat * A)) (k : nat) : option A :=
  match t with [] => None | (k', v) :: r => if Nat.eqb k' k then Some v else assoc_l r k end.
Definition alias_to_ids (nodes : list nat) (tags : list (nat * list nat)) (ids : list (nat * nat)) (al : alias) : option (list nat) :=
  match al with
  | ARef n => if mem n nodes then Some [n] else None
  | AStr a => match assoc_l tags a with
              | Some (x :: l) => Some (x :: l)
              | _ => match assoc_l ids a with Some n => Some [n] | None => None end
              end
  end.
Fixpoint resolve_all (nodes : list nat) (tags : list (nat * list nat)) (ids : list (nat * nat)) (als : list alias) : option (list nat) :=
  match als with
  | [] => Some []
  | a :: r => match alias_to_ids nodes tags ids a, resolve_all nodes tags ids r with
              | Some x, Some y => Some (x ++ y) | _, _ => None end
  end.
