(* ReconfFacts.v — facts about the reconfiguration model of Reconf.v (config_from_dict): resources are never
   changed, frame, exact effect of an entry on a reached node, priority-only / sequential-only histories,
   max_concurrency, raising steps change nothing, alias resolution. *)
From Coq Require Import List Arith Bool Lia PeanoNat ZArith.
From Tawazi Require Import Reconf.
Import ListNotations.

(* ---------- specs of the boolean helpers ---------- *)

Lemma memb_spec : forall x l, memb x l = true <-> In x l.
Proof.
  intros x l. unfold memb. rewrite existsb_exists. split.
  - intros [y [Hin Heq]]. apply Nat.eqb_eq in Heq. subst y. exact Hin.
  - intros H. exists x. split; [exact H | apply Nat.eqb_refl].
Qed.

Lemma memb_false : forall x l, memb x l = false <-> ~ In x l.
Proof.
  intros x l. rewrite <- memb_spec. destruct (memb x l); split; intro H; try reflexivity;
    try discriminate; try (exfalso; apply H; reflexivity).
Qed.

Lemma nodupb_NoDup : forall l, nodupb l = true -> NoDup l.
Proof.
  induction l as [|x r IH]; simpl; intros H.
  - constructor.
  - apply andb_true_iff in H. destruct H as [H1 H2]. constructor.
    + intro Hin. apply memb_spec in Hin. rewrite Hin in H1. discriminate.
    + apply IH; exact H2.
Qed.

Lemma NoDup_nodupb : forall l, NoDup l -> nodupb l = true.
Proof.
  induction l as [|x r IH]; simpl; intros H.
  - reflexivity.
  - inversion H as [|y ys Hnin Hnd]; subst. apply andb_true_iff. split.
    + apply negb_true_iff. apply memb_false. exact Hnin.
    + apply IH; exact Hnd.
Qed.

(* ---------- apply_entries: unfolding ---------- *)

Lemma apply_entries_nil : forall f n, apply_entries f [] n = f n.
Proof. reflexivity. Qed.

Lemma apply_entries_cons : forall f p r n,
  apply_entries f (p :: r) n = apply_entries (upd f (fst p) (apply_entry (f (fst p)) (snd p))) r n.
Proof. reflexivity. Qed.

Lemma upd_same : forall f n v, upd f n v n = v.
Proof. intros f n v. unfold upd. rewrite Nat.eqb_refl. reflexivity. Qed.

Lemma upd_other : forall f n v m, m <> n -> upd f n v m = f m.
Proof.
  intros f n v m H. unfold upd. destruct (Nat.eqb m n) eqn:E.
  - apply Nat.eqb_eq in E. contradiction.
  - reflexivity.
Qed.

Lemma apply_entry_res : forall a e, a_res (apply_entry a e) = a_res a.
Proof. reflexivity. Qed.

Lemma apply_entry_seq_none : forall a e, e_seq e = None -> a_seq (apply_entry a e) = a_seq a.
Proof. intros a e H. unfold apply_entry. simpl. rewrite H. reflexivity. Qed.

Lemma apply_entry_prio_none : forall a e, e_prio e = None -> a_prio (apply_entry a e) = a_prio a.
Proof. intros a e H. unfold apply_entry. simpl. rewrite H. reflexivity. Qed.

(* ---------- 1. resources (list level) ---------- *)

Lemma apply_entries_res : forall l f n, a_res (apply_entries f l n) = a_res (f n).
Proof.
  induction l as [|p r IH]; intros f n.
  - reflexivity.
  - rewrite apply_entries_cons. rewrite IH.
    destruct (Nat.eq_dec n (fst p)) as [E|E].
    + subst n. rewrite upd_same. apply apply_entry_res.
    + rewrite upd_other by exact E. reflexivity.
Qed.

(* ---------- 2. frame (list level) ---------- *)

Lemma apply_entries_untouched : forall l f n, ~ In n (map fst l) -> apply_entries f l n = f n.
Proof.
  induction l as [|p r IH]; intros f n H.
  - reflexivity.
  - rewrite apply_entries_cons. simpl in H. rewrite IH.
    + apply upd_other. intro E. apply H. left. symmetry. exact E.
    + intro Hin. apply H. right. exact Hin.
Qed.

(* ---------- 3. touched (list level) ---------- *)

Lemma apply_entries_touched : forall l f n e,
  nodupb (map fst l) = true -> In (n, e) l -> apply_entries f l n = apply_entry (f n) e.
Proof.
  induction l as [|p r IH]; intros f n e Hnd Hin.
  - destruct Hin.
  - rewrite apply_entries_cons. simpl in Hnd. apply andb_true_iff in Hnd.
    destruct Hnd as [Hnm Hnd]. apply negb_true_iff in Hnm. apply memb_false in Hnm.
    destruct Hin as [Hhd|Htl].
    + subst p. simpl in *. rewrite apply_entries_untouched by exact Hnm.
      apply upd_same.
    + assert (Hne : n <> fst p).
      { intro E. apply Hnm. rewrite <- E. apply in_map_iff. exists (n, e). split; [reflexivity|exact Htl]. }
      rewrite (IH _ n e Hnd Htl). rewrite upd_other by exact Hne. reflexivity.
Qed.

Section F.
Variable nodes : list nat.
Variable tagged : nat -> list nat.

Local Notation step := (step nodes tagged).
Local Notation step_total := (step_total nodes tagged).
Local Notation run := (run nodes tagged).
Local Notation expand := (expand nodes tagged).
Local Notation resolve := (resolve nodes tagged).

(* inversion of a successful step *)
Lemma step_some_inv : forall st c st', step st c = Some st' ->
  exists l, expand (c_entries c) = Some l /\ nodupb (map fst l) = true /\
            st' = mkcstate (apply_entries (s_attr st) l)
                           (match c_max c with Some m => m | None => s_maxc st end).
Proof.
  intros st c st' H. unfold Reconf.step in H.
  destruct (expand (c_entries c)) as [l|] eqn:E; [|discriminate].
  destruct (nodupb (map fst l)) eqn:N; [|discriminate].
  inversion H; subst. exists l. repeat split. exact N.
Qed.

Lemma run_nil : forall st, run st [] = st.
Proof. reflexivity. Qed.

Lemma run_cons : forall st c cs, run st (c :: cs) = run (step_total st c) cs.
Proof. reflexivity. Qed.

Lemma run_app : forall st cs1 cs2, run st (cs1 ++ cs2) = run (run st cs1) cs2.
Proof. intros. unfold Reconf.run. apply fold_left_app. Qed.

Lemma step_total_some : forall st c st', step st c = Some st' -> step_total st c = st'.
Proof. intros st c st' H. unfold Reconf.step_total. rewrite H. reflexivity. Qed.

(* ---------- 1. resources ---------- *)

Lemma step_res : forall st c st' n, step st c = Some st' -> a_res (s_attr st' n) = a_res (s_attr st n).
Proof.
  intros st c st' n H. apply step_some_inv in H. destruct H as [l [_ [_ Hst]]]. subst st'. simpl.
  apply apply_entries_res.
Qed.

Lemma step_total_res : forall st c n, a_res (s_attr (step_total st c) n) = a_res (s_attr st n).
Proof.
  intros st c n. unfold Reconf.step_total. destruct (step st c) as [st'|] eqn:E.
  - eapply step_res; exact E.
  - reflexivity.
Qed.

Theorem run_res : forall cs st n, a_res (s_attr (run st cs) n) = a_res (s_attr st n).
Proof.
  induction cs as [|c cs IH]; intros st n.
  - reflexivity.
  - rewrite run_cons. rewrite IH. apply step_total_res.
Qed.

(* ---------- 2. frame ---------- *)

Theorem step_untouched : forall st c st' l n,
  step st c = Some st' -> expand (c_entries c) = Some l ->
  ~ In n (map fst l) -> s_attr st' n = s_attr st n.
Proof.
  intros st c st' l n H He Hn. apply step_some_inv in H. destruct H as [l' [He' [_ Hst]]].
  rewrite He in He'. inversion He'; subst l'. subst st'. simpl.
  apply apply_entries_untouched. exact Hn.
Qed.

(* ---------- 3. touched ---------- *)

Theorem step_touched : forall st c st' l n e,
  step st c = Some st' -> expand (c_entries c) = Some l ->
  In (n, e) l -> s_attr st' n = apply_entry (s_attr st n) e.
Proof.
  intros st c st' l n e H He Hin. apply step_some_inv in H. destruct H as [l' [He' [Hnd Hst]]].
  rewrite He in He'. inversion He'; subst l'. subst st'. simpl.
  apply apply_entries_touched; assumption.
Qed.

Corollary step_touched_seq_kept : forall st c st' l n e,
  step st c = Some st' -> expand (c_entries c) = Some l ->
  In (n, e) l -> e_seq e = None -> a_seq (s_attr st' n) = a_seq (s_attr st n).
Proof.
  intros st c st' l n e H He Hin Hs. rewrite (step_touched _ _ _ _ _ _ H He Hin).
  apply apply_entry_seq_none. exact Hs.
Qed.

Corollary step_touched_prio_kept : forall st c st' l n e,
  step st c = Some st' -> expand (c_entries c) = Some l ->
  In (n, e) l -> e_prio e = None -> a_prio (s_attr st' n) = a_prio (s_attr st n).
Proof.
  intros st c st' l n e H He Hin Hs. rewrite (step_touched _ _ _ _ _ _ H He Hin).
  apply apply_entry_prio_none. exact Hs.
Qed.

(* a reached node whose entry mentions a field gets exactly that value *)
Corollary step_touched_seq_set : forall st c st' l n e b,
  step st c = Some st' -> expand (c_entries c) = Some l ->
  In (n, e) l -> e_seq e = Some b -> a_seq (s_attr st' n) = b.
Proof.
  intros st c st' l n e b H He Hin Hs. rewrite (step_touched _ _ _ _ _ _ H He Hin).
  unfold apply_entry. simpl. rewrite Hs. reflexivity.
Qed.

Corollary step_touched_prio_set : forall st c st' l n e p,
  step st c = Some st' -> expand (c_entries c) = Some l ->
  In (n, e) l -> e_prio e = Some p -> a_prio (s_attr st' n) = p.
Proof.
  intros st c st' l n e p H He Hin Hs. rewrite (step_touched _ _ _ _ _ _ H He Hin).
  unfold apply_entry. simpl. rewrite Hs. reflexivity.
Qed.

(* ---------- 4. priority-only / sequential-only histories ---------- *)

Lemma expand_entries_from : forall es l n e,
  expand es = Some l -> In (n, e) l -> exists a, In (a, e) es.
Proof.
  induction es as [|[a e0] r IH]; intros l n e He Hin.
  - simpl in He. inversion He; subst. destruct Hin.
  - simpl in He. destruct (resolve a) as [ns|] eqn:Er; [|discriminate].
    destruct (expand r) as [rest|] eqn:Ex; [|discriminate].
    inversion He; subst l. apply in_app_or in Hin. destruct Hin as [Hin|Hin].
    + apply in_map_iff in Hin. destruct Hin as [m [Hm _]]. inversion Hm; subst.
      exists a. left. reflexivity.
    + destruct (IH rest n e eq_refl Hin) as [a' Ha']. exists a'. right. exact Ha'.
Qed.

(* converse direction: the nodes an alias resolves to are all reached, with that alias' entry *)
Lemma expand_entries_to : forall es l a e ns n,
  expand es = Some l -> In (a, e) es -> resolve a = Some ns -> In n ns -> In (n, e) l.
Proof.
  induction es as [|[a0 e0] r IH]; intros l a e ns n He Hin Hr Hn.
  - destruct Hin.
  - simpl in He. destruct (resolve a0) as [ns0|] eqn:Er; [|discriminate].
    destruct (expand r) as [rest|] eqn:Ex; [|discriminate].
    inversion He; subst l. apply in_or_app. destruct Hin as [Hin|Hin].
    + inversion Hin; subst. rewrite Hr in Er. inversion Er; subst ns0.
      left. apply in_map_iff. exists n. split; [reflexivity|exact Hn].
    + right. eapply IH; eauto.
Qed.

Theorem step_prio_only : forall st c st',
  step st c = Some st' -> (forall a e, In (a, e) (c_entries c) -> e_seq e = None) ->
  forall n, a_seq (s_attr st' n) = a_seq (s_attr st n).
Proof.
  intros st c st' H Hall n. destruct (step_some_inv _ _ _ H) as [l [He [_ _]]].
  destruct (in_dec Nat.eq_dec n (map fst l)) as [Hin|Hnin].
  - apply in_map_iff in Hin. destruct Hin as [[n' e] [Hfst Hin]]. simpl in Hfst. subst n'.
    destruct (expand_entries_from _ _ _ _ He Hin) as [a Ha].
    eapply step_touched_seq_kept; eauto.
  - rewrite (step_untouched _ _ _ _ _ H He Hnin). reflexivity.
Qed.

Theorem step_seq_only : forall st c st',
  step st c = Some st' -> (forall a e, In (a, e) (c_entries c) -> e_prio e = None) ->
  forall n, a_prio (s_attr st' n) = a_prio (s_attr st n).
Proof.
  intros st c st' H Hall n. destruct (step_some_inv _ _ _ H) as [l [He [_ _]]].
  destruct (in_dec Nat.eq_dec n (map fst l)) as [Hin|Hnin].
  - apply in_map_iff in Hin. destruct Hin as [[n' e] [Hfst Hin]]. simpl in Hfst. subst n'.
    destruct (expand_entries_from _ _ _ _ He Hin) as [a Ha].
    eapply step_touched_prio_kept; eauto.
  - rewrite (step_untouched _ _ _ _ _ H He Hnin). reflexivity.
Qed.

Theorem run_prio_only : forall cs st,
  (forall c a e, In c cs -> In (a, e) (c_entries c) -> e_seq e = None) ->
  forall n, a_seq (s_attr (run st cs) n) = a_seq (s_attr st n).
Proof.
  induction cs as [|c cs IH]; intros st Hall n.
  - reflexivity.
  - rewrite run_cons. rewrite IH.
    + unfold Reconf.step_total. destruct (step st c) as [st'|] eqn:E; [|reflexivity].
      apply (step_prio_only _ _ _ E). intros a e Hin. apply (Hall c a e); [left; reflexivity|exact Hin].
    + intros c' a e Hc Hin. apply (Hall c' a e); [right; exact Hc|exact Hin].
Qed.

Theorem run_seq_only : forall cs st,
  (forall c a e, In c cs -> In (a, e) (c_entries c) -> e_prio e = None) ->
  forall n, a_prio (s_attr (run st cs) n) = a_prio (s_attr st n).
Proof.
  induction cs as [|c cs IH]; intros st Hall n.
  - reflexivity.
  - rewrite run_cons. rewrite IH.
    + unfold Reconf.step_total. destruct (step st c) as [st'|] eqn:E; [|reflexivity].
      apply (step_seq_only _ _ _ E). intros a e Hin. apply (Hall c a e); [left; reflexivity|exact Hin].
    + intros c' a e Hc Hin. apply (Hall c' a e); [right; exact Hc|exact Hin].
Qed.

(* ---------- 5. max_concurrency ---------- *)

Theorem step_maxc : forall st c st', step st c = Some st' ->
  s_maxc st' = match c_max c with Some m => m | None => s_maxc st end.
Proof.
  intros st c st' H. apply step_some_inv in H. destruct H as [l [_ [_ Hst]]]. subst st'. reflexivity.
Qed.

Theorem run_no_max : forall cs st, (forall c, In c cs -> c_max c = None) -> s_maxc (run st cs) = s_maxc st.
Proof.
  induction cs as [|c cs IH]; intros st Hall.
  - reflexivity.
  - rewrite run_cons. rewrite IH.
    + unfold Reconf.step_total. destruct (step st c) as [st'|] eqn:E; [|reflexivity].
      rewrite (step_maxc _ _ _ E). rewrite (Hall c); [reflexivity|left; reflexivity].
    + intros c' Hc. apply Hall. right. exact Hc.
Qed.

Theorem run_last_max : forall cs c st st' m,
  step (run st cs) c = Some st' -> c_max c = Some m ->
  s_maxc (run st (cs ++ [c])) = m.
Proof.
  intros cs c st st' m H Hm. rewrite run_app. rewrite run_cons, run_nil.
  rewrite (step_total_some _ _ _ H). rewrite (step_maxc _ _ _ H). rewrite Hm. reflexivity.
Qed.

(* ---------- 6. raising steps, alias resolution ---------- *)

Theorem step_error_unchanged : forall st c, step st c = None -> step_total st c = st.
Proof. intros st c H. unfold Reconf.step_total. rewrite H. reflexivity. Qed.

Theorem resolve_tag_first : forall a, tagged a <> [] -> resolve a = Some (tagged a).
Proof.
  intros a H. unfold Reconf.resolve. destruct (tagged a) as [|x r].
  - exfalso. apply H. reflexivity.
  - reflexivity.
Qed.

Theorem resolve_id : forall a, tagged a = [] -> resolve a = if memb a nodes then Some [a] else None.
Proof. intros a H. unfold Reconf.resolve. rewrite H. reflexivity. Qed.

Theorem step_duplicate_raises : forall st c l,
  expand (c_entries c) = Some l -> nodupb (map fst l) = false -> step st c = None.
Proof. intros st c l He Hn. unfold Reconf.step. rewrite He. rewrite Hn. reflexivity. Qed.

Theorem step_unknown_raises : forall st c, expand (c_entries c) = None -> step st c = None.
Proof. intros st c He. unfold Reconf.step. rewrite He. reflexivity. Qed.

(* a step succeeds exactly when every key names something and no node is reached twice *)
Theorem step_ok_iff : forall st c,
  (exists st', step st c = Some st') <->
  (exists l, expand (c_entries c) = Some l /\ NoDup (map fst l)).
Proof.
  intros st c. split.
  - intros [st' H]. apply step_some_inv in H. destruct H as [l [He [Hnd _]]].
    exists l. split; [exact He|apply nodupb_NoDup; exact Hnd].
  - intros [l [He Hnd]]. unfold Reconf.step. rewrite He. rewrite (NoDup_nodupb _ Hnd).
    eexists. reflexivity.
Qed.

End F.

(* ---------- 7. non-vacuity ---------- *)

Definition ex_nodes : list nat := [0; 1; 2].
Definition ex_tagged (a : nat) : list nat := if Nat.eqb a 7 then [1; 2] else [].
Definition ex_st : cstate :=
  mkcstate (tbl_attr [(0, mkattr 10%Z false 100); (1, mkattr 11%Z true 101); (2, mkattr 12%Z false 102)]) 1%Z.
Definition ex_c : cstep :=
  mkcstep [(7, mkentry (Some 5%Z) None); (0, mkentry None (Some true))] (Some 3%Z).

(* ok; priority of 1 and 2 becomes 5 with their is_sequential flags (true, false) kept; node 0 becomes
   sequential with its priority 10 kept; max_concurrency 3; resources 100,101,102 kept *)
Example reconf_example :
  option_map (fun st' => (s_maxc st',
                          map (fun n => let a := s_attr st' n in (a_prio a, a_seq a, a_res a)) ex_nodes))
             (step ex_nodes ex_tagged ex_st ex_c)
  = Some (3%Z, [(10%Z, true, 100); (5%Z, true, 101); (5%Z, false, 102)]).
Proof. vm_compute. reflexivity. Qed.

(* the same key set given twice through a tag and an id raises, and the state is unchanged *)
Example reconf_example_dup :
  step ex_nodes ex_tagged ex_st
       (mkcstep [(7, mkentry (Some 5%Z) None); (1, mkentry None (Some true))] (Some 3%Z)) = None
  /\ s_maxc (step_total ex_nodes ex_tagged ex_st
       (mkcstep [(7, mkentry (Some 5%Z) None); (1, mkentry None (Some true))] (Some 3%Z))) = 1%Z.
Proof. vm_compute. split; reflexivity. Qed.

(* an unknown key raises *)
Example reconf_example_unknown :
  step ex_nodes ex_tagged ex_st (mkcstep [(9, mkentry (Some 5%Z) None)] None) = None.
Proof. vm_compute. reflexivity. Qed.

Print Assumptions run_res.
Print Assumptions step_untouched.
Print Assumptions step_touched.
Print Assumptions step_touched_seq_kept.
Print Assumptions step_touched_prio_kept.
Print Assumptions step_prio_only.
Print Assumptions step_seq_only.
Print Assumptions run_prio_only.
Print Assumptions run_seq_only.
Print Assumptions step_maxc.
Print Assumptions run_no_max.
Print Assumptions run_last_max.
Print Assumptions step_error_unchanged.
Print Assumptions resolve_tag_first.
Print Assumptions resolve_id.
Print Assumptions step_duplicate_raises.
Print Assumptions step_unknown_raises.
Print Assumptions step_ok_iff.
Print Assumptions apply_entries_res.
Print Assumptions apply_entries_untouched.
Print Assumptions apply_entries_touched.
Print Assumptions expand_entries_from.
Print Assumptions reconf_example.
