(* SameNodes.v — property C17: the AsyncDAG executes the same nodes as the DAG.  Both flavours run the
   same scheduler loop, so the statement is: any two runs that end normally start the same set of
   nodes and skip the same set of nodes.  The reason: whether a node is started or skipped is decided
   by the truthiness of its activation flag in the schedule-independent denotation. *)
From Coq Require Import List Arith Bool Lia PeanoNat ZArith.
From Tawazi Require Import Graph GraphFacts Sched SchedInv SchedGhost Dataflow DataflowFacts.
Import ListNotations.

Section SN.
Variable val : Type.
Variable vnone : val.
Variable truthy : val -> bool.
Variable index : val -> nat -> option val.
Variable tbl : nat -> nodeT val.
Variable c : cfg.
Variable res0 : results val.

Notation flag' := (flag val vnone truthy index tbl).
Notation vstep' := (vstep val vnone truthy index tbl c).
Notation vrun' := (vrun val vnone truthy index tbl c).
Notation consistent' := (consistent val tbl c).
Notation den_eval' := (den_eval val vnone truthy index tbl c).
Notation R0 := (diff (c_nodes c) (c_pre c)).
(* the denotation's result table *)
Notation D := (fst (den_eval' res0)).

Lemma vrun_app ls1 : forall ls2 sr,
  vrun' sr (ls1 ++ ls2) = match vrun' sr ls1 with Some sr1 => vrun' sr1 ls2 | None => None end.
Proof.
  induction ls1 as [|l ls1 IH]; intros ls2 sr; cbn [app vrun]; [reflexivity|].
  destruct (vstep' sr l) as [sr1|]; [apply IH|reflexivity].
Qed.

Lemma vrun_split ls1 l ls2 sr sr' : vrun' sr (ls1 ++ l :: ls2) = Some sr' ->
  exists sr1 sr2, vrun' sr ls1 = Some sr1 /\ vstep' sr1 l = Some sr2 /\ vrun' sr2 ls2 = Some sr'.
Proof.
  intros H. rewrite vrun_app in H. destruct (vrun' sr ls1) as [sr1|] eqn:E1; [|discriminate].
  cbn [vrun] in H. destruct (vstep' sr1 l) as [sr2|] eqn:E2; [|discriminate].
  exists sr1, sr2. auto.
Qed.

(* a node that some run starts has a truthy activation flag in the denotation *)
Theorem started_flag_true ls s res n : wf c -> consistent' res0 ->
  vrun' (init c, res0) ls = Some (s, res) -> In n (starts_of ls) -> flag' D n = Some true.
Proof.
  intros W Cs H Hn.
  destruct (vrun_init_RI val vnone truthy index tbl c res0 ls s res W Cs H) as [R I].
  pose proof (vrun_run val vnone truthy index tbl c ls _ _ _ _ H) as Hr.
  pose proof (reachable_Inv4 c s W R) as G.
  assert (Hs : In n (started s)) by (rewrite (started_trace c ls s Hr); apply in_rev in Hn; exact Hn).
  pose proof (g_started_R0 c s G n Hs) as HR.
  assert (Hnode : In n (c_nodes c)) by (apply In_diff in HR; tauto).
  assert (Hp : forall p, In p (c_preds c n) -> ~ In p (rem s)).
  { apply (g_closed c s G n HR). right. exact Hs. }
  rewrite <- (flag_agree val vnone truthy index tbl res D n
                (agree_run_den val vnone truthy index tbl c res0 s res n W Cs G I Hnode Hp)).
  apply (ri_flag val vnone truthy index tbl c res0 s res I). left. exact Hs.
Qed.

(* a node that some run skips has a falsy activation flag in the denotation *)
Theorem skipped_flag_false ls s res n : wf c -> consistent' res0 ->
  vrun' (init c, res0) ls = Some (s, res) -> In n (flat_map skips_of_label ls) -> flag' D n = Some false.
Proof.
  intros W Cs H Hn. apply in_flat_map in Hn. destruct Hn as [l [Hl Hn]].
  destruct (in_split l ls Hl) as [ls1 [ls2 E]]. subst ls.
  destruct l as [| |m b| | |]; cbn [skips_of_label] in Hn; try (destruct Hn).
  destruct b; [destruct Hn|]. destruct Hn as [<-|[]].
  destruct (vrun_split _ _ _ _ _ H) as [[s1 r1] [[s2 r2] [E1 [E2 _]]]].
  destruct (flag_label_is_truthiness val vnone truthy index tbl c res0 ls1 s1 r1 m false s2 r2 W Cs E1 E2)
    as [_ [X _]].
  exact X.
Qed.

(* in a run that ends normally, the started nodes are exactly the selected nodes whose flag is truthy
   in the denotation, the skipped ones exactly those whose flag is falsy *)
Theorem finished_run_nodes_by_flag ls s res : wf c -> consistent' res0 ->
  vrun' (init c, res0) ls = Some (s, res) -> pc s = PFinished ->
  forall n,
    (In n (starts_of ls) <-> In n R0 /\ flag' D n = Some true) /\
    (In n (flat_map skips_of_label ls) <-> In n R0 /\ flag' D n = Some false).
Proof.
  intros W Cs H P n.
  pose proof (vrun_run val vnone truthy index tbl c ls _ _ _ _ H) as Hr.
  split; split.
  - intros Hn. split; [apply (only_selected_start c ls s W Hr n Hn)|].
    apply (started_flag_true ls s res n W Cs H Hn).
  - intros [HR Hf]. destruct (exactly_once c ls s W Hr P n HR) as [[Hc _]|[_ Hk]].
    + apply (count_occ_In Nat.eq_dec). rewrite Hc. lia.
    + pose proof (skipped_flag_false ls s res n W Cs H Hk) as X. rewrite X in Hf. discriminate.
  - intros Hn. split; [apply (only_selected_skip c ls s W Hr n Hn)|].
    apply (skipped_flag_false ls s res n W Cs H Hn).
  - intros [HR Hf]. destruct (exactly_once c ls s W Hr P n HR) as [[Hc _]|[_ Hk]]; [|exact Hk].
    assert (Hn : In n (starts_of ls)) by (apply (count_occ_In Nat.eq_dec); rewrite Hc; lia).
    pose proof (started_flag_true ls s res n W Cs H Hn) as X. rewrite X in Hf. discriminate.
Qed.

(* C17 *)
Theorem finished_runs_same_nodes ls1 s1 res1 ls2 s2 res2 : wf c -> consistent' res0 ->
  vrun' (init c, res0) ls1 = Some (s1, res1) -> vrun' (init c, res0) ls2 = Some (s2, res2) ->
  pc s1 = PFinished -> pc s2 = PFinished ->
  (forall n, In n (starts_of ls1) <-> In n (starts_of ls2)) /\
  (forall n, In n (flat_map skips_of_label ls1) <-> In n (flat_map skips_of_label ls2)).
Proof.
  intros W Cs H1 H2 P1 P2. split; intros n;
    destruct (finished_run_nodes_by_flag ls1 s1 res1 W Cs H1 P1 n) as [A1 B1];
    destruct (finished_run_nodes_by_flag ls2 s2 res2 W Cs H2 P2 n) as [A2 B2].
  - rewrite A1, A2. reflexivity.
  - rewrite B1, B2. reflexivity.
Qed.

(* each node is started the same number of times (0 or 1) in both runs *)
Corollary finished_runs_same_start_counts ls1 s1 res1 ls2 s2 res2 : wf c -> consistent' res0 ->
  vrun' (init c, res0) ls1 = Some (s1, res1) -> vrun' (init c, res0) ls2 = Some (s2, res2) ->
  pc s1 = PFinished -> pc s2 = PFinished ->
  forall n, count_occ Nat.eq_dec (starts_of ls1) n = count_occ Nat.eq_dec (starts_of ls2) n.
Proof.
  intros W Cs H1 H2 P1 P2 n.
  destruct (finished_runs_same_nodes ls1 s1 res1 ls2 s2 res2 W Cs H1 H2 P1 P2) as [Hst _].
  pose proof (vrun_run val vnone truthy index tbl c ls1 _ _ _ _ H1) as Hr1.
  pose proof (vrun_run val vnone truthy index tbl c ls2 _ _ _ _ H2) as Hr2.
  pose proof (proj1 (NoDup_count_occ Nat.eq_dec _) (at_most_once c ls1 s1 W Hr1) n) as L1.
  pose proof (proj1 (NoDup_count_occ Nat.eq_dec _) (at_most_once c ls2 s2 W Hr2) n) as L2.
  destruct (in_dec Nat.eq_dec n (starts_of ls1)) as [Hi|Hi].
  - pose proof (proj1 (count_occ_In Nat.eq_dec _ _) Hi) as X1.
    pose proof (proj1 (count_occ_In Nat.eq_dec _ _) (proj1 (Hst n) Hi)) as X2. lia.
  - assert (Hi2 : ~ In n (starts_of ls2)) by (intros X; apply Hi, Hst, X).
    rewrite (proj1 (count_occ_not_In Nat.eq_dec _ _) Hi), (proj1 (count_occ_not_In Nat.eq_dec _ _) Hi2).
    reflexivity.
Qed.

End SN.

Print Assumptions started_flag_true.
Print Assumptions skipped_flag_false.
Print Assumptions finished_run_nodes_by_flag.
Print Assumptions finished_runs_same_nodes.
Print Assumptions finished_runs_same_start_counts.
