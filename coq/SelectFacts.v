(* SelectFacts.v — facts about the sub-graph selection model of Select.v
   (make_subgraph, include_debug_nodes, extend_with_debug, executor_graph, call_graph, setup_graph).

   All statements are about membership [In]; reachability is expressed by membership in
   [descendants_refl] / [ancestors_refl] (Closure.v relates those to an inductive relation). *)
From Coq Require Import List Arith Bool Lia PeanoNat.
From Tawazi Require Import Graph GraphFacts Select.
Import ListNotations.

(* ---- generic helpers ---- *)

Lemma iter_inv {A} (P : A -> Prop) (f : A -> A) :
  (forall y, P y -> P (f y)) -> forall k x, P x -> P (iter k f x).
Proof. intros Hf k. induction k as [|k IH]; simpl; intros x Hx; auto. Qed.

Lemma iter_S_out {A} (f : A -> A) k x : iter (S k) f x = f (iter k f x).
Proof. revert x. induction k as [|k IH]; intros x; [reflexivity|].
  change (iter (S (S k)) f x) with (iter (S k) f (f x)). rewrite IH. reflexivity. Qed.

Lemma subset_false a b : subset a b = false <-> exists x, In x a /\ ~ In x b.
Proof. unfold subset. induction a as [|y a IH]; simpl.
  - split; [congruence|]. intros [x [[] _]].
  - rewrite andb_false_iff, IH, mem_false. split.
    + intros [H|[x [H1 H2]]]; [exists y; auto | exists x; auto].
    + intros [x [[H1|H1] H2]]; [left; subst; auto | right; exists x; auto].
Qed.

Lemma SelOk_inj a b : SelOk a = SelOk b -> a = b.
Proof. intros H. congruence. Qed.

Lemma start_incl srcs nodes x : In x (inter (nodup Nat.eq_dec srcs) nodes) -> In x nodes.
Proof. rewrite In_inter. tauto. Qed.
Lemma start_NoDup srcs nodes : NoDup (inter (nodup Nat.eq_dec srcs) nodes).
Proof. unfold inter. apply NoDup_filter, NoDup_nodup. Qed.
Lemma In_start srcs nodes x : In x (inter (nodup Nat.eq_dec srcs) nodes) <-> In x srcs /\ In x nodes.
Proof. rewrite In_inter, nodup_In. tauto. Qed.

Section F.
Variable preds : nat -> list nat.
Variable debug setup : nat -> bool.

(* ---- the closures stay inside their node list, are duplicate free, and contain their sources ---- *)

Lemma step_desc_incl nodes acc x :
  (forall y, In y acc -> In y nodes) -> In x (step_desc preds nodes acc) -> In x nodes.
Proof. unfold step_desc. intros Hacc Hx. apply In_union in Hx. destruct Hx as [Hx|Hx]; auto.
  apply filter_In in Hx. tauto. Qed.
Lemma step_anc_incl nodes acc x :
  (forall y, In y acc -> In y nodes) -> In x (step_anc preds nodes acc) -> In x nodes.
Proof. unfold step_anc. intros Hacc Hx. apply In_union in Hx. destruct Hx as [Hx|Hx]; auto.
  apply filter_In in Hx. tauto. Qed.
Lemma step_desc_mono nodes acc x : In x acc -> In x (step_desc preds nodes acc).
Proof. unfold step_desc. intros Hx. apply In_union. auto. Qed.
Lemma step_anc_mono nodes acc x : In x acc -> In x (step_anc preds nodes acc).
Proof. unfold step_anc. intros Hx. apply In_union. auto. Qed.

Lemma descendants_refl_incl nodes srcs x :
  In x (descendants_refl preds nodes srcs) -> In x nodes.
Proof. unfold descendants_refl. intros Hx. revert x Hx.
  apply (iter_inv (fun acc => forall x, In x acc -> In x nodes) (step_desc preds nodes)).
  - intros acc Hacc x Hx. apply (step_desc_incl nodes acc x Hacc Hx).
  - intros x. apply start_incl. Qed.
Lemma ancestors_refl_incl nodes srcs x :
  In x (ancestors_refl preds nodes srcs) -> In x nodes.
Proof. unfold ancestors_refl. intros Hx. revert x Hx.
  apply (iter_inv (fun acc => forall x, In x acc -> In x nodes) (step_anc preds nodes)).
  - intros acc Hacc x Hx. apply (step_anc_incl nodes acc x Hacc Hx).
  - intros x. apply start_incl. Qed.

Lemma descendants_refl_NoDup nodes srcs : NoDup (descendants_refl preds nodes srcs).
Proof. unfold descendants_refl.
  apply (iter_inv (fun acc => NoDup acc) (step_desc preds nodes)).
  - intros acc Hacc. unfold step_desc. apply NoDup_union. exact Hacc.
  - apply start_NoDup. Qed.
Lemma ancestors_refl_NoDup nodes srcs : NoDup (ancestors_refl preds nodes srcs).
Proof. unfold ancestors_refl.
  apply (iter_inv (fun acc => NoDup acc) (step_anc preds nodes)).
  - intros acc Hacc. unfold step_anc. apply NoDup_union. exact Hacc.
  - apply start_NoDup. Qed.

Lemma descendants_refl_srcs nodes srcs x :
  In x srcs -> In x nodes -> In x (descendants_refl preds nodes srcs).
Proof. intros Hs Hn. unfold descendants_refl.
  apply (iter_inv (fun acc => In x acc) (step_desc preds nodes)).
  - intros acc Hacc. apply step_desc_mono. exact Hacc.
  - apply In_start. auto. Qed.
Lemma ancestors_refl_srcs nodes srcs x :
  In x srcs -> In x nodes -> In x (ancestors_refl preds nodes srcs).
Proof. intros Hs Hn. unfold ancestors_refl.
  apply (iter_inv (fun acc => In x acc) (step_anc preds nodes)).
  - intros acc Hacc. apply step_anc_mono. exact Hacc.
  - apply In_start. auto. Qed.

(* ---- make_subgraph as a composition of three steps ---- *)

Definition after_root (nodes : list nat) (root : option (list nat)) : sel_result :=
  match root with
  | None => SelOk nodes
  | Some R => if subset R (roots preds nodes)
              then SelOk (descendants_refl preds nodes R) else SelValueError
  end.
Definition after_exclude (g1 : list nat) (exclude : option (list nat)) : list nat :=
  match exclude with
  | None => g1
  | Some X => diff g1 (descendants_refl preds g1 X)
  end.
Definition after_target (g2 : list nat) (target : option (list nat)) : sel_result :=
  match target with
  | None => SelOk g2
  | Some T => if subset T g2 then SelOk (ancestors_refl preds g2 T) else SelValueError
  end.

(* the node sets after each step, when no error occurs *)
Definition g1_of (nodes : list nat) (root : option (list nat)) : list nat :=
  match root with None => nodes | Some R => descendants_refl preds nodes R end.
Definition g2_of (nodes : list nat) (exclude root : option (list nat)) : list nat :=
  after_exclude (g1_of nodes root) exclude.
Definition g3_of (nodes : list nat) (target exclude root : option (list nat)) : list nat :=
  match target with
  | None => g2_of nodes exclude root
  | Some T => ancestors_refl preds (g2_of nodes exclude root) T
  end.

Lemma make_subgraph_compose nodes target exclude root :
  make_subgraph preds nodes target exclude root =
  match after_root nodes root with
  | SelValueError => SelValueError
  | SelOk g1 => after_target (after_exclude g1 exclude) target
  end.
Proof. reflexivity. Qed.

Definition roots_ok (nodes : list nat) (root : option (list nat)) : Prop :=
  forall R, root = Some R -> forall r, In r R -> In r (roots preds nodes).
Definition targets_ok (g2 : list nat) (target : option (list nat)) : Prop :=
  forall T, target = Some T -> forall t, In t T -> In t g2.

Lemma after_root_ok nodes root g1 : after_root nodes root = SelOk g1 ->
  g1 = g1_of nodes root /\ roots_ok nodes root.
Proof. unfold after_root, g1_of, roots_ok. destruct root as [R|].
  - destruct (subset R (roots preds nodes)) eqn:E; intros H; [|discriminate].
    inversion H; subst. split; [reflexivity|]. intros R' HR'. inversion HR'; subst.
    apply subset_spec. exact E.
  - intros H. inversion H; subst. split; [reflexivity|]. intros R' HR'. discriminate. Qed.
Lemma after_root_ok_intro nodes root : roots_ok nodes root ->
  after_root nodes root = SelOk (g1_of nodes root).
Proof. unfold after_root, g1_of, roots_ok. destruct root as [R|]; intros H; [|reflexivity].
  assert (E : subset R (roots preds nodes) = true) by (apply subset_spec; apply (H R eq_refl)).
  rewrite E. reflexivity. Qed.
Lemma after_root_error_iff nodes root : after_root nodes root = SelValueError <->
  exists R, root = Some R /\ exists r, In r R /\ ~ In r (roots preds nodes).
Proof. unfold after_root. destruct root as [R|].
  - destruct (subset R (roots preds nodes)) eqn:E.
    + split; [discriminate|]. intros [R' [HR' [r [Hr Hn]]]]. inversion HR'; subst.
      exfalso. apply Hn. apply (proj1 (subset_spec _ _) E). exact Hr.
    + split; [|reflexivity]. intros _. exists R. split; [reflexivity|]. apply subset_false. exact E.
  - split; [discriminate|]. intros [R [HR _]]. discriminate. Qed.

Lemma after_target_ok g2 target g : after_target g2 target = SelOk g ->
  g = match target with None => g2 | Some T => ancestors_refl preds g2 T end /\ targets_ok g2 target.
Proof. unfold after_target, targets_ok. destruct target as [T|].
  - destruct (subset T g2) eqn:E; intros H; [|discriminate].
    inversion H; subst. split; [reflexivity|]. intros T' HT'. inversion HT'; subst.
    apply subset_spec. exact E.
  - intros H. inversion H; subst. split; [reflexivity|]. intros T' HT'. discriminate. Qed.
Lemma after_target_error_iff g2 target : after_target g2 target = SelValueError <->
  exists T, target = Some T /\ exists t, In t T /\ ~ In t g2.
Proof. unfold after_target. destruct target as [T|].
  - destruct (subset T g2) eqn:E.
    + split; [discriminate|]. intros [T' [HT' [t [Ht Hn]]]]. inversion HT'; subst.
      exfalso. apply Hn. apply (proj1 (subset_spec _ _) E). exact Ht.
    + split; [|reflexivity]. intros _. exists T. split; [reflexivity|]. apply subset_false. exact E.
  - split; [discriminate|]. intros [T [HT _]]. discriminate. Qed.

(* the result, when there is one, is g3_of; and there is one exactly when roots and targets are ok *)
Lemma make_subgraph_ok_eq nodes target exclude root g :
  make_subgraph preds nodes target exclude root = SelOk g ->
  g = g3_of nodes target exclude root /\ roots_ok nodes root /\
  targets_ok (g2_of nodes exclude root) target.
Proof. rewrite make_subgraph_compose. destruct (after_root nodes root) as [g1|] eqn:E1; [|discriminate].
  apply after_root_ok in E1. destruct E1 as [E1 Hr]. subst g1. intros H.
  apply after_target_ok in H. destruct H as [H Ht]. unfold g3_of, g2_of. auto. Qed.
Lemma make_subgraph_ok_iff nodes target exclude root :
  make_subgraph preds nodes target exclude root = SelOk (g3_of nodes target exclude root) <->
  roots_ok nodes root /\ targets_ok (g2_of nodes exclude root) target.
Proof. split.
  - intros H. apply make_subgraph_ok_eq in H. tauto.
  - intros [Hr Ht]. rewrite make_subgraph_compose, (after_root_ok_intro nodes root Hr).
    fold (g2_of nodes exclude root). unfold after_target, g3_of, targets_ok in *.
    destruct target as [T|]; [|reflexivity].
    assert (E : subset T (g2_of nodes exclude root) = true) by (apply subset_spec; apply (Ht T eq_refl)).
    rewrite E. reflexivity. Qed.

(* membership after each step *)
Lemma In_g1_of nodes root x : In x (g1_of nodes root) <->
  In x nodes /\ (forall R, root = Some R -> In x (descendants_refl preds nodes R)).
Proof. unfold g1_of. destruct root as [R|]; split.
  - intros H. split; [apply (descendants_refl_incl nodes R x H)|].
    intros R' HR'. inversion HR'; subst. exact H.
  - intros [_ H]. apply H. reflexivity.
  - intros H. split; [exact H|]. intros R HR. discriminate.
  - tauto. Qed.
Lemma In_after_exclude g1 exclude x : In x (after_exclude g1 exclude) <->
  In x g1 /\ (forall X, exclude = Some X -> ~ In x (descendants_refl preds g1 X)).
Proof. unfold after_exclude. destruct exclude as [X|]; split.
  - intros H. apply In_diff in H. destruct H as [H1 H2]. split; [exact H1|].
    intros X' HX'. inversion HX'; subst. exact H2.
  - intros [H1 H2]. apply In_diff. split; [exact H1|]. apply H2. reflexivity.
  - intros H. split; [exact H|]. intros X HX. discriminate.
  - tauto. Qed.
Lemma In_g2_of nodes exclude root x : In x (g2_of nodes exclude root) <->
  In x (g1_of nodes root) /\
  (forall X, exclude = Some X -> ~ In x (descendants_refl preds (g1_of nodes root) X)).
Proof. unfold g2_of. apply In_after_exclude. Qed.
Lemma In_g3_of nodes target exclude root x : In x (g3_of nodes target exclude root) <->
  In x (g2_of nodes exclude root) /\
  (forall T, target = Some T -> In x (ancestors_refl preds (g2_of nodes exclude root) T)).
Proof. unfold g3_of. destruct target as [T|]; split.
  - intros H. split; [apply (ancestors_refl_incl _ T x H)|].
    intros T' HT'. inversion HT'; subst. exact H.
  - intros [_ H]. apply H. reflexivity.
  - intros H. split; [exact H|]. intros T HT. discriminate.
  - tauto. Qed.

(* 1. exact characterisation of the selected node set *)
Theorem make_subgraph_spec nodes target exclude root g :
  make_subgraph preds nodes target exclude root = SelOk g ->
  forall x, In x g <->
    In x nodes /\
    (forall R, root = Some R -> In x (descendants_refl preds nodes R)) /\
    (forall X, exclude = Some X -> ~ In x (descendants_refl preds (g1_of nodes root) X)) /\
    (forall T, target = Some T -> In x (ancestors_refl preds (g2_of nodes exclude root) T)).
Proof. intros H x. apply make_subgraph_ok_eq in H. destruct H as [H _]. subst g.
  rewrite In_g3_of, In_g2_of, In_g1_of. tauto. Qed.

(* the same, instantiated for the four common shapes of the arguments *)
Corollary make_subgraph_spec_none nodes g :
  make_subgraph preds nodes None None None = SelOk g -> forall x, In x g <-> In x nodes.
Proof. intros H x. rewrite (make_subgraph_spec _ _ _ _ _ H). split; [tauto|].
  intros Hx. repeat split; auto; intros ? HH; discriminate. Qed.
Corollary make_subgraph_spec_target nodes T g :
  make_subgraph preds nodes (Some T) None None = SelOk g ->
  forall x, In x g <-> In x (ancestors_refl preds nodes T).
Proof. intros H x. rewrite (make_subgraph_spec _ _ _ _ _ H). split.
  - intros [_ [_ [_ H3]]]. apply (H3 T eq_refl).
  - intros Hx. split; [apply (ancestors_refl_incl _ _ _ Hx)|].
    split; [intros ? HH; discriminate|]. split; [intros ? HH; discriminate|].
    intros T' HT'. inversion HT'; subst. exact Hx. Qed.
Corollary make_subgraph_spec_root nodes R g :
  make_subgraph preds nodes None None (Some R) = SelOk g ->
  forall x, In x g <-> In x (descendants_refl preds nodes R).
Proof. intros H x. rewrite (make_subgraph_spec _ _ _ _ _ H). split.
  - intros [_ [H1 _]]. apply (H1 R eq_refl).
  - intros Hx. split; [apply (descendants_refl_incl _ _ _ Hx)|].
    split; [|split; intros ? HH; discriminate].
    intros R' HR'. inversion HR'; subst. exact Hx. Qed.
Corollary make_subgraph_spec_exclude nodes X g :
  make_subgraph preds nodes None (Some X) None = SelOk g ->
  forall x, In x g <-> In x nodes /\ ~ In x (descendants_refl preds nodes X).
Proof. intros H x. rewrite (make_subgraph_spec _ _ _ _ _ H). split.
  - intros [H0 [_ [H2 _]]]. split; [exact H0|]. apply (H2 X eq_refl).
  - intros [H0 Hx]. split; [exact H0|]. split; [intros ? HH; discriminate|].
    split; [|intros ? HH; discriminate].
    intros X' HX'. inversion HX'; subst. exact Hx. Qed.

(* 2. ValueError iff some requested root is not a root of the full graph, or (the roots being fine)
      some target is not in the pruned graph *)
Theorem make_subgraph_error_iff nodes target exclude root :
  make_subgraph preds nodes target exclude root = SelValueError <->
  (exists R, root = Some R /\ exists r, In r R /\ ~ In r (roots preds nodes)) \/
  (exists T g1, target = Some T /\ after_root nodes root = SelOk g1 /\
                exists t, In t T /\ ~ In t (after_exclude g1 exclude)).
Proof. rewrite make_subgraph_compose. destruct (after_root nodes root) as [g1|] eqn:E1.
  - rewrite after_target_error_iff. split.
    + intros [T [HT Ht]]. right. exists T, g1. auto.
    + intros [H|[T [g1' [HT [Hg Ht]]]]].
      * apply after_root_error_iff in H. congruence.
      * inversion Hg; subst. exists T. auto.
  - split; [|reflexivity]. intros _. left. apply after_root_error_iff. exact E1. Qed.

(* the same with the pruned graph named by g2_of *)
Theorem make_subgraph_error_iff' nodes target exclude root :
  make_subgraph preds nodes target exclude root = SelValueError <->
  (exists R, root = Some R /\ exists r, In r R /\ ~ In r (roots preds nodes)) \/
  (roots_ok nodes root /\
   exists T, target = Some T /\ exists t, In t T /\ ~ In t (g2_of nodes exclude root)).
Proof. rewrite make_subgraph_error_iff. split; (intros [H|H]; [left; exact H|right]).
  - destruct H as [T [g1 [HT [Hg Ht]]]]. apply after_root_ok in Hg. destruct Hg as [Hg Hr].
    subst g1. split; [exact Hr|]. exists T. auto.
  - destruct H as [Hr [T [HT Ht]]]. exists T, (g1_of nodes root).
    split; [exact HT|]. split; [apply after_root_ok_intro; exact Hr|exact Ht]. Qed.

(* 3. the selection is a duplicate-free subset of the graph, and contains the targets *)
Theorem make_subgraph_subset nodes target exclude root g :
  make_subgraph preds nodes target exclude root = SelOk g -> forall x, In x g -> In x nodes.
Proof. intros H x Hx. apply (make_subgraph_spec _ _ _ _ _ H) in Hx. tauto. Qed.

Lemma g1_of_NoDup nodes root : NoDup nodes -> NoDup (g1_of nodes root).
Proof. unfold g1_of. destruct root as [R|]; intros H; [apply descendants_refl_NoDup|exact H]. Qed.
Lemma g2_of_NoDup nodes exclude root : NoDup nodes -> NoDup (g2_of nodes exclude root).
Proof. unfold g2_of, after_exclude. intros H. apply (g1_of_NoDup nodes root) in H.
  destruct exclude as [X|]; [apply NoDup_diff|]; exact H. Qed.
Theorem make_subgraph_NoDup nodes target exclude root g :
  NoDup nodes -> make_subgraph preds nodes target exclude root = SelOk g -> NoDup g.
Proof. intros Hn H. apply make_subgraph_ok_eq in H. destruct H as [H _]. subst g.
  unfold g3_of. destruct target as [T|]; [apply ancestors_refl_NoDup|apply g2_of_NoDup; exact Hn]. Qed.

Theorem make_subgraph_targets_in nodes T exclude root g :
  make_subgraph preds nodes (Some T) exclude root = SelOk g -> forall t, In t T -> In t g.
Proof. intros H t Ht. apply make_subgraph_ok_eq in H. destruct H as [H [_ Htg]]. subst g.
  unfold g3_of. apply ancestors_refl_srcs; [exact Ht|]. apply (Htg T eq_refl t Ht). Qed.

(* ---- 4. debug rules (C13) ---- *)

Lemma leaf_nodes_incl g x : In x (leaf_nodes preds g) -> In x g.
Proof. unfold leaf_nodes. intros H. apply filter_In in H. tauto. Qed.

Lemma In_debug_step nodes L x : In x (debug_step preds debug nodes L) <->
  In x L \/ (In x nodes /\ debug x = true /\ ~ In x L /\
             (exists p, In p (preds x) /\ In p L) /\
             (forall p, In p (preds x) -> In p nodes -> In p L)).
Proof. unfold debug_step. rewrite In_union, filter_In, !andb_true_iff, negb_true_iff, mem_false,
    existsb_exists, forallb_forall. split; (intros [H|H]; [left; exact H|right]).
  - destruct H as [Hn [[[Hd Hl] [p [Hp Hpl]]] Hall]]. split; [exact Hn|]. split; [exact Hd|].
    split; [exact Hl|]. split; [exists p; split; [exact Hp|apply mem_In; exact Hpl]|].
    intros q Hq Hqn. specialize (Hall q Hq). apply orb_true_iff in Hall. destruct Hall as [Hall|Hall].
    + apply negb_true_iff, mem_false in Hall. tauto.
    + apply mem_In. exact Hall.
  - destruct H as [Hn [Hd [Hl [[p [Hp Hpl]] Hall]]]]. split; [exact Hn|]. split.
    + split; [split; [exact Hd|exact Hl]|]. exists p. split; [exact Hp|apply mem_In; exact Hpl].
    + intros q Hq. apply orb_true_iff. destruct (in_dec Nat.eq_dec q nodes) as [Hqn|Hqn].
      * right. apply mem_In. apply Hall; assumption.
      * left. apply negb_true_iff, mem_false. exact Hqn.
Qed.

Lemma debug_step_mono nodes L x : In x L -> In x (debug_step preds debug nodes L).
Proof. intros H. apply In_debug_step. left. exact H. Qed.

Lemma iter_debug_step_mono nodes k L x : In x L -> In x (iter k (debug_step preds debug nodes) L).
Proof. intros H. apply (iter_inv (fun acc => In x acc) (debug_step preds debug nodes)); [|exact H].
  intros acc Hacc. apply debug_step_mono. exact Hacc. Qed.

(* invariant of the iteration: whatever is not a start element is a debug node of [nodes] whose
   predecessors inside [nodes] have all been accumulated, and one of them at least *)
Definition pulled (nodes L0 L : list nat) : Prop :=
  forall x, In x L -> In x L0 \/
    (debug x = true /\ In x nodes /\
     (exists p, In p (preds x) /\ In p L) /\
     (forall p, In p (preds x) -> In p nodes -> In p L)).

Lemma pulled_step nodes L0 L : pulled nodes L0 L -> pulled nodes L0 (debug_step preds debug nodes L).
Proof. unfold pulled. intros IH x Hx. apply In_debug_step in Hx. destruct Hx as [Hx|Hx].
  - destruct (IH x Hx) as [H|[Hd [Hn [[p [Hp Hpl]] Hall]]]]; [left; exact H|right].
    split; [exact Hd|]. split; [exact Hn|]. split.
    + exists p. split; [exact Hp|apply debug_step_mono; exact Hpl].
    + intros q Hq Hqn. apply debug_step_mono. apply Hall; assumption.
  - right. destruct Hx as [Hn [Hd [_ [[p [Hp Hpl]] Hall]]]].
    split; [exact Hd|]. split; [exact Hn|]. split.
    + exists p. split; [exact Hp|apply debug_step_mono; exact Hpl].
    + intros q Hq Hqn. apply debug_step_mono. apply Hall; assumption.
Qed.

Lemma pulled_iter nodes L0 k : pulled nodes L0 (iter k (debug_step preds debug nodes) L0).
Proof. apply (iter_inv (pulled nodes L0) (debug_step preds debug nodes)).
  - apply pulled_step.
  - intros x Hx. left. exact Hx. Qed.

Lemma include_debug_nodes_pulled nodes L0 :
  pulled nodes L0 (include_debug_nodes preds debug nodes L0).
Proof. unfold include_debug_nodes. apply pulled_iter. Qed.

Lemma include_debug_nodes_mono nodes L x :
  In x L -> In x (include_debug_nodes preds debug nodes L).
Proof. unfold include_debug_nodes. apply iter_debug_step_mono. Qed.

Theorem include_debug_only_adds_debug nodes L x :
  In x (include_debug_nodes preds debug nodes L) -> In x L \/ (debug x = true /\ In x nodes).
Proof. intros H. destruct (include_debug_nodes_pulled nodes L x H) as [H1|H1]; tauto. Qed.

Lemma In_extend_off nodes g x : In x (extend_with_debug preds debug nodes g false) <->
  In x g /\ debug x = false /\ In x nodes.
Proof. unfold extend_with_debug. rewrite In_inter, In_diff, filter_In. split.
  - intros [[Hg Hd] Hn]. split; [exact Hg|]. split; [|exact Hn].
    destruct (debug x); [exfalso; apply Hd; auto|reflexivity].
  - intros [Hg [Hd Hn]]. split; [|exact Hn]. split; [exact Hg|]. intros [_ H]. congruence. Qed.
Lemma In_extend_on nodes g x : In x (extend_with_debug preds debug nodes g true) <->
  (In x (include_debug_nodes preds debug nodes (leaf_nodes preds g)) \/ In x g) /\ In x nodes.
Proof. unfold extend_with_debug. rewrite In_inter, In_union. tauto. Qed.

Theorem debug_off_no_debug_node nodes g x :
  In x (extend_with_debug preds debug nodes g false) -> debug x = false.
Proof. intros H. apply In_extend_off in H. tauto. Qed.

Theorem debug_off_keeps_production nodes g x :
  In x g -> In x nodes -> debug x = false -> In x (extend_with_debug preds debug nodes g false).
Proof. intros Hg Hn Hd. apply In_extend_off. tauto. Qed.

Theorem debug_off_subset nodes g x :
  In x (extend_with_debug preds debug nodes g false) -> In x g /\ In x nodes.
Proof. intros H. apply In_extend_off in H. tauto. Qed.

Theorem debug_on_superset nodes g x :
  In x g -> In x nodes -> In x (extend_with_debug preds debug nodes g true).
Proof. intros Hg Hn. apply In_extend_on. tauto. Qed.

Theorem debug_on_incl_nodes nodes g b x :
  In x (extend_with_debug preds debug nodes g b) -> In x nodes.
Proof. destruct b; intros H; [apply In_extend_on in H|apply In_extend_off in H]; tauto. Qed.

Theorem debug_on_call_all nodes x : In x (call_graph preds debug nodes true) <-> In x nodes.
Proof. unfold call_graph. rewrite In_extend_on. tauto. Qed.

Theorem debug_off_call nodes x :
  In x (call_graph preds debug nodes false) <-> In x nodes /\ debug x = false.
Proof. unfold call_graph. rewrite In_extend_off. tauto. Qed.

Theorem pulled_debug_has_inputs nodes g x :
  In x (extend_with_debug preds debug nodes g true) -> ~ In x g ->
  debug x = true /\
  forall p, In p (preds x) -> In p nodes -> In p (extend_with_debug preds debug nodes g true).
Proof. intros H Hng. apply In_extend_on in H. destruct H as [[H|H] Hn]; [|tauto].
  destruct (include_debug_nodes_pulled nodes _ x H) as [H1|[Hd [_ [_ Hall]]]].
  - exfalso. apply Hng. apply leaf_nodes_incl. exact H1.
  - split; [exact Hd|]. intros p Hp Hpn. apply In_extend_on. split; [|exact Hpn].
    left. apply Hall; assumption. Qed.

(* a pulled-in debug node is attached to the selection: one of its inputs is selected too *)
Theorem pulled_debug_has_selected_pred nodes g x :
  In x (extend_with_debug preds debug nodes g true) -> ~ In x g ->
  exists p, In p (preds x) /\ In p (include_debug_nodes preds debug nodes (leaf_nodes preds g)).
Proof. intros H Hng. apply In_extend_on in H. destruct H as [[H|H] Hn]; [|tauto].
  destruct (include_debug_nodes_pulled nodes _ x H) as [H1|[_ [_ [Hex _]]]].
  - exfalso. apply Hng. apply leaf_nodes_incl. exact H1.
  - exact Hex. Qed.

Theorem debug_on_only_adds_debug nodes g x :
  In x (extend_with_debug preds debug nodes g true) -> In x g \/ (debug x = true /\ In x nodes).
Proof. intros H. apply In_extend_on in H. destruct H as [[H|H] Hn]; [|tauto].
  apply include_debug_only_adds_debug in H. destruct H as [H|H]; [|tauto].
  left. apply leaf_nodes_incl. exact H. Qed.

(* executor-level corollaries *)
Theorem executor_off_no_debug nodes target exclude root g' :
  executor_graph preds debug nodes target exclude root false = SelOk g' ->
  forall x, In x g' -> debug x = false.
Proof. unfold executor_graph. destruct (make_subgraph preds nodes target exclude root) as [g|];
    [|discriminate]. intros H x Hx. apply SelOk_inj in H; subst g'. apply (debug_off_no_debug_node _ _ _ Hx). Qed.

Theorem executor_off_exact nodes target exclude root g' :
  executor_graph preds debug nodes target exclude root false = SelOk g' ->
  exists g, make_subgraph preds nodes target exclude root = SelOk g /\
            forall x, In x g' <-> In x g /\ debug x = false.
Proof. unfold executor_graph.
  destruct (make_subgraph preds nodes target exclude root) as [g|] eqn:E; [|discriminate].
  intros H. apply SelOk_inj in H; subst g'. exists g. split; [reflexivity|]. intros x. rewrite In_extend_off.
  split; [tauto|]. intros [Hg Hd]. split; [exact Hg|]. split; [exact Hd|].
  apply (make_subgraph_subset _ _ _ _ _ E x Hg). Qed.

Theorem executor_on_superset nodes target exclude root g' :
  executor_graph preds debug nodes target exclude root true = SelOk g' ->
  exists g, make_subgraph preds nodes target exclude root = SelOk g /\
            (forall x, In x g -> In x g') /\
            (forall x, In x g' -> ~ In x g ->
               debug x = true /\ In x nodes /\
               forall p, In p (preds x) -> In p nodes -> In p g').
Proof. unfold executor_graph.
  destruct (make_subgraph preds nodes target exclude root) as [g|] eqn:E; [|discriminate].
  intros H. apply SelOk_inj in H; subst g'. exists g. split; [reflexivity|]. split.
  - intros x Hx. apply debug_on_superset; [exact Hx|]. apply (make_subgraph_subset _ _ _ _ _ E x Hx).
  - intros x Hx Hng. destruct (pulled_debug_has_inputs nodes g x Hx Hng) as [Hd Hall].
    split; [exact Hd|]. split; [apply (debug_on_incl_nodes _ _ _ _ Hx)|exact Hall]. Qed.

Theorem executor_subset nodes target exclude root b g' :
  executor_graph preds debug nodes target exclude root b = SelOk g' ->
  forall x, In x g' -> In x nodes.
Proof. unfold executor_graph. destruct (make_subgraph preds nodes target exclude root) as [g|];
    [|discriminate]. intros H x Hx. apply SelOk_inj in H; subst g'. apply (debug_on_incl_nodes _ _ _ _ Hx). Qed.

Theorem executor_error_iff nodes target exclude root b :
  executor_graph preds debug nodes target exclude root b = SelValueError <->
  make_subgraph preds nodes target exclude root = SelValueError.
Proof. unfold executor_graph. destruct (make_subgraph preds nodes target exclude root) as [g|];
    split; intros H; try discriminate; reflexivity. Qed.

(* ---- 5. setup (C11) ---- *)
Theorem setup_graph_only_setup nodes target exclude root g :
  setup_graph preds setup nodes target exclude root = SelOk g ->
  forall x, In x g -> setup x = true /\ In x nodes.
Proof. unfold setup_graph.
  destruct (make_subgraph preds nodes
             (Some match target with Some T => T | None => filter setup nodes end) exclude root)
    as [g0|] eqn:E; [|discriminate].
  intros H x Hx. apply SelOk_inj in H; subst g. apply filter_In in Hx. destruct Hx as [Hx Hs].
  split; [exact Hs|]. apply (make_subgraph_subset _ _ _ _ _ E x Hx). Qed.

Theorem setup_graph_NoDup nodes target exclude root g :
  setup_graph preds setup nodes target exclude root = SelOk g -> NoDup g.
Proof. unfold setup_graph.
  destruct (make_subgraph preds nodes
             (Some match target with Some T => T | None => filter setup nodes end) exclude root)
    as [g0|] eqn:E; [|discriminate].
  intros H. apply SelOk_inj in H; subst g. apply NoDup_filter.
  apply make_subgraph_ok_eq in E. destruct E as [E _]. subst g0. unfold g3_of.
  apply ancestors_refl_NoDup. Qed.

End F.

Print Assumptions make_subgraph_compose.
Print Assumptions make_subgraph_spec.
Print Assumptions make_subgraph_ok_iff.
Print Assumptions make_subgraph_error_iff.
Print Assumptions make_subgraph_error_iff'.
Print Assumptions make_subgraph_subset.
Print Assumptions make_subgraph_NoDup.
Print Assumptions make_subgraph_targets_in.
Print Assumptions descendants_refl_incl.
Print Assumptions ancestors_refl_incl.
Print Assumptions debug_off_no_debug_node.
Print Assumptions debug_off_keeps_production.
Print Assumptions debug_on_call_all.
Print Assumptions include_debug_only_adds_debug.
Print Assumptions pulled_debug_has_inputs.
Print Assumptions pulled_debug_has_selected_pred.
Print Assumptions debug_on_superset.
Print Assumptions debug_on_only_adds_debug.
Print Assumptions executor_off_no_debug.
Print Assumptions executor_off_exact.
Print Assumptions executor_on_superset.
Print Assumptions executor_subset.
Print Assumptions setup_graph_only_setup.
Print Assumptions setup_graph_NoDup.
