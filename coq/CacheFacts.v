(* CacheFacts.v — facts about Cache.v *)
From Coq Require Import List Arith Bool Lia PeanoNat.
From Tawazi Require Import Graph GraphFacts Sched Dataflow Args ArgsFacts Cache.
Import ListNotations.

Section F.
Variable val : Type.

Lemma lookup_app (a b : results val) n :
  lookup val (a ++ b) n = match lookup val a n with Some v => Some v | None => lookup val b n end.
Proof.
  induction a as [|[k v] a IH]; cbn [app lookup]; [reflexivity|].
  destruct (Nat.eqb k n); [reflexivity| exact IH].
Qed.

(* a cached entry wins over a stored one; ids the file does not hold keep the stored value *)
Theorem overlay_cached (res cache : results val) n v :
  lookup val cache n = Some v -> lookup val (overlay val res cache) n = Some v.
Proof. intros H. unfold overlay. rewrite lookup_app, H. reflexivity. Qed.

Theorem overlay_other (res cache : results val) n :
  lookup val cache n = None -> lookup val (overlay val res cache) n = lookup val res n.
Proof. intros H. unfold overlay. rewrite lookup_app, H. reflexivity. Qed.

(* every id of the file is pre-computed for the restart (the scheduler prunes it: it is never executed) *)
Theorem overlay_has_cached (res cache : results val) n :
  has val cache n = true -> has val (overlay val res cache) n = true.
Proof.
  unfold has. destruct (lookup val cache n) as [v|] eqn:E; [|discriminate].
  intros _. rewrite (overlay_cached res cache n v E). reflexivity.
Qed.

(* the restart's map: an omitted argument is read from the file when the file holds it ... *)
Theorem start_map_omitted_reads_cache res cache inputs args r n v :
  start_map val res cache inputs args = Some r ->
  ~ In n (firstn (length args) inputs) -> lookup val cache n = Some v -> lookup val r n = Some v.
Proof.
  intros Hs Hn Hc. unfold start_map in Hs.
  rewrite (bind_lookup_other val inputs args _ r n Hs Hn). apply overlay_cached, Hc.
Qed.

(* ... otherwise from the DAG-level map ... *)
Theorem start_map_omitted_reads_dag res cache inputs args r n :
  start_map val res cache inputs args = Some r ->
  ~ In n (firstn (length args) inputs) -> lookup val cache n = None -> lookup val r n = lookup val res n.
Proof.
  intros Hs Hn Hc. unfold start_map in Hs.
  rewrite (bind_lookup_other val inputs args _ r n Hs Hn). apply overlay_other, Hc.
Qed.

(* ... and an explicit argument wins over both *)
Theorem start_map_argument_wins res cache inputs args r k i a :
  NoDup inputs -> start_map val res cache inputs args = Some r ->
  nth_error inputs k = Some i -> nth_error args k = Some a -> lookup val r i = Some a.
Proof. intros ND Hs Hi Ha. exact (bind_lookup_arg val inputs args _ r k i a ND Hs Hi Ha). Qed.

(* every id of the file is pre-computed in the restart's map, whatever the arguments *)
Theorem start_map_has_cached res cache inputs args r n :
  start_map val res cache inputs args = Some r -> has val cache n = true -> has val r n = true.
Proof.
  intros Hs Hc. unfold start_map in Hs.
  apply (proj2 (bind_has val inputs args _ r n Hs)). left. apply overlay_has_cached, Hc.
Qed.
End F.

(* the executable classification used by the correspondence agrees with the map *)
Lemma mem_In x l : mem x l = true <-> In x l.
Proof.
  unfold mem. rewrite existsb_exists. split.
  - intros [y [Hy E]]. apply Nat.eqb_eq in E. subst. exact Hy.
  - intros H. exists x. split; [exact H| apply Nat.eqb_refl].
Qed.

Theorem source_argument resk cachek inputs nargs n :
  source resk cachek inputs nargs n = 3 <-> In n (firstn nargs inputs).
Proof.
  unfold source. destruct (mem n (firstn nargs inputs)) eqn:E.
  - split; [intros _; apply mem_In, E| reflexivity].
  - split.
    + destruct (mem n cachek); [discriminate| destruct (mem n resk); discriminate].
    + intros H. apply mem_In in H. congruence.
Qed.

Example cache_example :
  start_map nat [(0, 5); (1, 6); (9, 7)] [(1, 60); (4, 40)] [0; 1] [42]
  = Some [(0, 42); (1, 60); (4, 40); (0, 5); (1, 6); (9, 7)]
  /\ ksource [0; 1; 9] [1; 4] [0; 1] 1 [0; 1; 4; 9; 8] = [3; 2; 2; 1; 0].
Proof. split; reflexivity. Qed.

Print Assumptions start_map_omitted_reads_cache.
Print Assumptions start_map_argument_wins.
Print Assumptions start_map_has_cached.
