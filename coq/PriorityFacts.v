(* PriorityFacts.v — theorems about the compound priority model of Priority.v.

   [cprio_spec]              cprio n = prio n + sum of prio over the SET of strict descendants of n
                             (each distinct descendant counted exactly once);
   [cprio_order_independent] the result does not depend on the iteration order / multiplicity of the
                             node container (hash-seed independence);
   [cprio_leaf]              a node without successors keeps its own priority;
   [legacy_*_refuted]        machine-checked record of defect F1 of the pinned commit's algorithm. *)
From Coq Require Import List Arith Bool Lia PeanoNat ZArith Permutation.
From Tawazi Require Import Graph GraphFacts Closure Priority.
Import ListNotations.

Lemma zsum_perm l l' : Permutation l l' -> zsum l = zsum l'.
Proof.
  intros H. induction H as [|x l l' Hp IH|x y l|l l' l'' H1 IH1 H2 IH2]; simpl.
  - reflexivity.
  - rewrite IH. reflexivity.
  - lia.
  - congruence.
Qed.

Lemma zsum_app l l' : zsum (l ++ l') = (zsum l + zsum l')%Z.
Proof. induction l as [|x l IH]; simpl; [reflexivity|]. rewrite IH. lia. Qed.

Section P.
Variable preds : nat -> list nat.
Variable prio : nat -> Z.

Lemma zsum_map_set l l' :
  NoDup l -> NoDup l' -> (forall x, In x l <-> In x l') -> zsum (map prio l) = zsum (map prio l').
Proof.
  intros Hl Hl' He. apply zsum_perm. apply Permutation_map. apply NoDup_Permutation; assumption.
Qed.

Lemma NoDup_strict_desc nodes n : NoDup (strict_desc preds nodes n).
Proof. unfold strict_desc. apply NoDup_remove1. apply NoDup_descendants_refl. Qed.

Lemma In_strict_desc nodes n m :
  In m (strict_desc preds nodes n) <-> (m <> n /\ reach preds nodes n m).
Proof.
  unfold strict_desc. rewrite In_remove1, descendants_refl_spec. split.
  - intros [[s [[Hs|[]] Hr]] Hne]. subst s. split; assumption.
  - intros [Hne Hr]. split; [|exact Hne]. exists n. split; [left; reflexivity|exact Hr].
Qed.

Lemma strict_desc_subset nodes n m : In m (strict_desc preds nodes n) -> In m nodes.
Proof. intros H. apply In_strict_desc in H. destruct H as [_ Hr]. eapply reach_in_r; eauto. Qed.

(* own priority plus the priorities of the set of distinct descendants, each counted once *)
Theorem cprio_spec nodes n :
  exists l, NoDup l /\ (forall m, In m l <-> (m <> n /\ reach preds nodes n m)) /\
            cprio preds prio nodes n = (prio n + zsum (map prio l))%Z.
Proof.
  exists (strict_desc preds nodes n). split; [apply NoDup_strict_desc|]. split.
  - intros m. apply In_strict_desc.
  - reflexivity.
Qed.

(* any duplicate-free enumeration of the strict descendants gives the same value *)
Theorem cprio_any_enumeration nodes n l :
  NoDup l -> (forall m, In m l <-> (m <> n /\ reach preds nodes n m)) ->
  cprio preds prio nodes n = (prio n + zsum (map prio l))%Z.
Proof.
  intros Hnd Hin. unfold cprio. f_equal. apply zsum_map_set.
  - apply NoDup_strict_desc.
  - exact Hnd.
  - intros x. rewrite In_strict_desc, Hin. tauto.
Qed.

(* the node container may be enumerated in any order (and with any multiplicity) *)
Theorem cprio_order_independent nodes nodes' n :
  (forall x, In x nodes <-> In x nodes') -> cprio preds prio nodes' n = cprio preds prio nodes n.
Proof.
  intros He. apply cprio_any_enumeration.
  - apply NoDup_strict_desc.
  - intros m. rewrite In_strict_desc. split.
    + intros [Hne Hr]. split; [exact Hne|]. apply (reach_ext preds nodes nodes'); assumption.
    + intros [Hne Hr]. split; [exact Hne|]. apply (reach_ext preds nodes' nodes); [|exact Hr].
      intros x. symmetry. apply He.
Qed.

Corollary cprio_perm nodes nodes' n :
  Permutation nodes nodes' -> cprio preds prio nodes' n = cprio preds prio nodes n.
Proof.
  intros Hp. apply cprio_order_independent. intros x. split.
  - apply Permutation_in; exact Hp.
  - apply Permutation_in; apply Permutation_sym; exact Hp.
Qed.

Corollary cprio_table_pointwise nodes nodes' :
  (forall x, In x nodes <-> In x nodes') ->
  forall n v, In (n, v) (cprio_table preds prio nodes') -> In (n, v) (cprio_table preds prio nodes).
Proof.
  intros He n v H. unfold cprio_table in *. apply in_map_iff in H. destruct H as [k [Hk Hin]].
  inversion Hk; subst. apply in_map_iff. exists n. split.
  - f_equal. symmetry. apply cprio_order_independent; exact He.
  - apply He; exact Hin.
Qed.

(* from a node without successor in [nodes], only the node itself is reachable *)
Lemma reach_leaf nodes n m :
  (forall k, In k nodes -> ~ In n (preds k)) -> reach preds nodes n m -> m = n.
Proof.
  intros Hleaf H. induction H as [n Hn|n m k Hnm IH Hk Hmk]; [reflexivity|].
  specialize (IH Hleaf). subst m. exfalso. apply (Hleaf k Hk Hmk).
Qed.

Theorem cprio_leaf nodes n :
  (forall k, In k nodes -> ~ In n (preds k)) -> cprio preds prio nodes n = prio n.
Proof.
  intros Hleaf. unfold cprio.
  assert (Hnone : forall m, ~ In m (strict_desc preds nodes n)).
  { intros m Hm. apply In_strict_desc in Hm. destruct Hm as [Hne Hr]. apply Hne.
    apply (reach_leaf nodes n m Hleaf Hr). }
  destruct (strict_desc preds nodes n) as [|m l].
  - simpl. lia.
  - exfalso. apply (Hnone m). left; reflexivity.
Qed.

(* a node that is not in the container has no descendants either *)
Lemma cprio_outside nodes n : ~ In n nodes -> cprio preds prio nodes n = prio n.
Proof.
  intros Hn. unfold cprio.
  assert (Hnone : forall m, ~ In m (strict_desc preds nodes n)).
  { intros m Hm. apply In_strict_desc in Hm. destruct Hm as [_ Hr]. apply Hn.
    eapply reach_in_l; eauto. }
  destruct (strict_desc preds nodes n) as [|m l].
  - simpl. lia.
  - exfalso. apply (Hnone m). left; reflexivity.
Qed.

End P.

(* ---- defect F1 of the pinned commit's epoch algorithm, on concrete witnesses *)

(* diamond 0 -> 1 -> 3, 0 -> 2 -> 3 *)
Definition f1_diamond_preds (n : nat) : list nat :=
  match n with
  | 1%nat => [0%nat]
  | 2%nat => [0%nat]
  | 3%nat => [1%nat; 2%nat]
  | _ => []
  end.
(* r=0 -> a=1 -> b=2 -> d=3, a=1 -> d=3 : two paths of different lengths to the leaf *)
Definition f1_skew_preds (n : nat) : list nat :=
  match n with
  | 1%nat => [0%nat]
  | 2%nat => [1%nat]
  | 3%nat => [2%nat; 1%nat]
  | _ => []
  end.
Definition f1_prio (n : nat) : Z :=
  match n with
  | 0%nat => 1%Z
  | 1%nat => 10%Z
  | 2%nat => 100%Z
  | 3%nat => 1000%Z
  | _ => 0%Z
  end.

(* the legacy algorithm counts the sink of the diamond once per path: 2111 instead of 1111 *)
Lemma legacy_diamond_values :
  tget (legacy_cprio f1_diamond_preds f1_prio (fun l => l) [0;1;2;3]%nat) 0%nat = 2111%Z /\
  cprio f1_diamond_preds f1_prio [0;1;2;3]%nat 0%nat = 1111%Z.
Proof. split; vm_compute; reflexivity. Qed.

Theorem legacy_counts_per_path_refuted :
  exists preds prio nodes n,
    tget (legacy_cprio preds prio (fun l => l) nodes) n <> cprio preds prio nodes n.
Proof.
  exists f1_diamond_preds, f1_prio, [0;1;2;3]%nat, 0%nat.
  vm_compute. discriminate.
Qed.

(* the legacy result depends on the iteration order of the Python sets: 3121 vs 4221
   (the values the real code produced under different hash seeds) *)
Lemma legacy_skew_values :
  tget (legacy_cprio f1_skew_preds f1_prio (fun l => l) [0;1;2;3]%nat) 0%nat = 4221%Z /\
  tget (legacy_cprio f1_skew_preds f1_prio (@rev nat) [0;1;2;3]%nat) 0%nat = 3121%Z /\
  cprio f1_skew_preds f1_prio [0;1;2;3]%nat 0%nat = 1111%Z.
Proof. repeat split; vm_compute; reflexivity. Qed.

Theorem legacy_order_dependent_refuted :
  exists preds prio nodes order1 order2 n,
    tget (legacy_cprio preds prio order1 nodes) n <> tget (legacy_cprio preds prio order2 nodes) n.
Proof.
  exists f1_skew_preds, f1_prio, [0;1;2;3]%nat, (fun l => l), (@rev nat), 0%nat.
  vm_compute. discriminate.
Qed.

Print Assumptions zsum_perm.
Print Assumptions zsum_map_set.
Print Assumptions cprio_spec.
Print Assumptions cprio_any_enumeration.
Print Assumptions cprio_order_independent.
Print Assumptions cprio_leaf.
Print Assumptions legacy_counts_per_path_refuted.
Print Assumptions legacy_order_dependent_refuted.
