(* ConcurrentFacts.v — concurrent executions of one DAG are isolated: whatever the interleaving, and
   whatever happens in the other calls (failures included), every call computes the denotation of ITS OWN
   start map. *)
From Coq Require Import List Arith Bool PeanoNat Lia.
From Tawazi Require Import Graph Sched SchedInv Dataflow DataflowFacts Concurrent.
Import ListNotations.

Section Facts.
Variable val : Type.
Variable vnone : val.
Variable truthy : val -> bool.
Variable index : val -> nat -> option val.
Variable tbl : nat -> nodeT val.
Variable c : cfg.

Notation vstep' := (vstep val vnone truthy index tbl c).
Notation vrun' := (vrun val vnone truthy index tbl c).
Notation gstep' := (gstep val vnone truthy index tbl c).
Notation grun' := (grun val vnone truthy index tbl c).
Notation den' := (den val vnone truthy index tbl c).
Notation upd' := (upd val).
Notation ginit' := (ginit val c).

Lemma nth_upd_same (g : gstate val) i x y : nth_error g i = Some y -> nth_error (upd' g i x) i = Some x.
Proof. revert i; induction g as [|z g IH]; intros [|i] H; simpl in *; try discriminate; [reflexivity|apply IH; exact H]. Qed.

Lemma nth_upd_other (g : gstate val) i j x : i <> j -> nth_error (upd' g i x) j = nth_error g j.
Proof.
  revert i j; induction g as [|z g IH]; intros [|i] [|j] H; simpl; try reflexivity; try congruence.
  apply IH. congruence.
Qed.

Lemma length_upd (g : gstate val) i x : length (upd' g i x) = length g.
Proof. revert i; induction g as [|z g IH]; intros [|i]; simpl; try reflexivity. rewrite IH. reflexivity. Qed.

Lemma vrun_app sr ls1 ls2 sr1 : vrun' sr ls1 = Some sr1 -> vrun' sr (ls1 ++ ls2) = vrun' sr1 ls2.
Proof.
  revert sr; induction ls1 as [|l ls IH]; intros sr H; simpl in *.
  - injection H as <-. reflexivity.
  - destruct (vstep' sr l) as [sr'|]; [apply IH; exact H|discriminate].
Qed.

(* the projection of a global run onto one call is a run of the single-call scheduler *)
Theorem grun_proj ils : forall g g' i sr, grun' g ils = Some g' -> nth_error g i = Some sr ->
  exists sr', nth_error g' i = Some sr' /\ vrun' sr (proj i ils) = Some sr'.
Proof.
  induction ils as [|[j l] ils IH]; intros g g' i sr H Hi; simpl in H.
  - injection H as <-. exists sr. split; [exact Hi|reflexivity].
  - unfold gstep in H; simpl in H. destruct (nth_error g j) as [srj|] eqn:Ej; [|discriminate].
    destruct (vstep' srj l) as [srj'|] eqn:Es; [|discriminate].
    unfold proj; simpl. destruct (Nat.eqb_spec j i) as [->|Hne].
    + assert (srj = sr) by congruence. subst srj.
      destruct (IH _ _ i srj' H (nth_upd_same g i srj' sr Hi)) as [sr' [A B]].
      exists sr'. split; [exact A|]. simpl. rewrite Es. exact B.
    + apply (IH _ _ i sr H). rewrite nth_upd_other by exact Hne. exact Hi.
Qed.

Lemma grun_length ils : forall g g', grun' g ils = Some g' -> length g' = length g.
Proof.
  induction ils as [|[j l] ils IH]; intros g g' H; simpl in H.
  - injection H as <-. reflexivity.
  - unfold gstep in H; simpl in H. destruct (nth_error g j) as [srj|]; [|discriminate].
    destruct (vstep' srj l) as [srj'|]; [|discriminate]. rewrite (IH _ _ H). apply length_upd.
Qed.

Lemma nth_ginit starts i r : nth_error starts i = Some r -> nth_error (ginit' starts) i = Some (init c, r).
Proof. intros H. unfold ginit. rewrite nth_error_map, H. reflexivity. Qed.

(* ISOLATION.  Any interleaving of any number of calls of one DAG, each with its own start map: whatever
   call i has computed is the denotation of ITS start map, and if call i finished it computed all of it —
   with no hypothesis at all on what the other calls do (they may fail, stall or finish). *)
Theorem concurrent_calls_isolated starts ils g' i r0 s res :
  wf c -> consistent val tbl c r0 ->
  grun' (ginit' starts) ils = Some g' ->
  nth_error starts i = Some r0 -> nth_error g' i = Some (s, res) ->
  (forall n v, lookup val res n = Some v -> den' r0 n = Some v) /\
  (pc s = PFinished -> forall n, lookup val res n = den' r0 n).
Proof.
  intros W Cs H Hi Hg. destruct (grun_proj ils _ _ i _ H (nth_ginit starts i r0 Hi)) as [sr' [A B]].
  assert (sr' = (s, res)) by congruence. subst sr'. split.
  - exact (sched_computes_den val vnone truthy index tbl c r0 (proj i ils) s res W Cs B).
  - intros P. destruct (finished_run_equals_den val vnone truthy index tbl c r0 (proj i ils) s res W Cs B P) as [_ [X _]]. exact X.
Qed.

(* two calls with the same start map that both finish hold the same results, however they were interleaved
   with each other and with the rest *)
Theorem concurrent_same_start_same_results starts ils g' i j r0 si resi sj resj :
  wf c -> consistent val tbl c r0 ->
  grun' (ginit' starts) ils = Some g' ->
  nth_error starts i = Some r0 -> nth_error starts j = Some r0 ->
  nth_error g' i = Some (si, resi) -> nth_error g' j = Some (sj, resj) ->
  pc si = PFinished -> pc sj = PFinished -> forall n, lookup val resi n = lookup val resj n.
Proof.
  intros W Cs H Hi Hj Gi Gj Pi Pj n.
  destruct (concurrent_calls_isolated starts ils g' i r0 si resi W Cs H Hi Gi) as [_ X].
  destruct (concurrent_calls_isolated starts ils g' j r0 sj resj W Cs H Hj Gj) as [_ Y].
  rewrite (X Pi), (Y Pj). reflexivity.
Qed.

(* a step of one call leaves every other call's state and results untouched *)
Theorem gstep_frame g j l g' i : gstep' g (j, l) = Some g' -> i <> j -> nth_error g' i = nth_error g i.
Proof.
  unfold gstep; simpl. intros H Hne. destruct (nth_error g j) as [srj|]; [|discriminate].
  destruct (vstep' srj l) as [srj'|]; [|discriminate]. injection H as <-. apply nth_upd_other. congruence.
Qed.

(* NON-VACUITY of the interleaving semantics: runs accepted one by one are accepted one after the other as
   a global run (so every family of single-call schedules is reachable), ending in the same per-call states *)
Lemma grun_app g ils1 ils2 g1 : grun' g ils1 = Some g1 -> grun' g (ils1 ++ ils2) = grun' g1 ils2.
Proof.
  revert g; induction ils1 as [|il ils IH]; intros g H; simpl in *.
  - injection H as <-. reflexivity.
  - destruct (gstep' g il) as [g2|]; [apply IH; exact H|discriminate].
Qed.

Lemma upd_id (g : gstate val) i sr : nth_error g i = Some sr -> upd' g i sr = g.
Proof.
  revert i; induction g as [|z g IHg]; intros [|i] Hi; simpl in *; try discriminate.
  - injection Hi as ->. reflexivity.
  - f_equal. apply IHg. exact Hi.
Qed.

Lemma upd_upd (g : gstate val) i x y : upd' (upd' g i x) i y = upd' g i y.
Proof. revert i; induction g as [|z g IHg]; intros [|i]; simpl; try reflexivity. f_equal. apply IHg. Qed.

Lemma grun_single i : forall ls g sr sr', nth_error g i = Some sr -> vrun' sr ls = Some sr' ->
  grun' g (map (fun l => (i, l)) ls) = Some (upd' g i sr').
Proof.
  induction ls as [|l ls IH]; intros g sr sr' Hi H; cbn [map grun vrun] in *.
  - injection H as <-. rewrite (upd_id g i sr Hi). reflexivity.
  - unfold gstep at 1; cbn [fst snd]. unfold call in *. rewrite Hi. destruct (vstep' sr l) as [sr1|] eqn:Es; [|discriminate].
    rewrite (IH (upd' g i sr1) sr1 sr' (nth_upd_same g i sr1 sr Hi) H). rewrite upd_upd. reflexivity.
Qed.

Theorem serial_accepted : forall runs i (g : gstate val) (finals : list (call val)),
  length runs = length finals ->
  (forall k ls, nth_error runs k = Some ls -> exists sr sr', nth_error g (i + k) = Some sr /\ nth_error finals k = Some sr' /\ vrun' sr ls = Some sr') ->
  exists g', grun' g (serial i runs) = Some g' /\
    (forall k sr', nth_error finals k = Some sr' -> nth_error g' (i + k) = Some sr') /\
    (forall m, m < i -> nth_error g' m = nth_error g m).
Proof.
  induction runs as [|ls runs IH]; intros i g finals HL H; simpl.
  - exists g. split; [reflexivity|]. destruct finals; [|discriminate]. split; [intros [|k] sr' E; discriminate|reflexivity].
  - destruct finals as [|f finals]; [discriminate|]. simpl in HL.
    destruct (H 0 ls eq_refl) as [sr [sr' [A [B C]]]]. simpl in B. injection B as <-. rewrite Nat.add_0_r in A.
    pose proof (grun_single i ls g sr f A C) as G1.
    destruct (IH (S i) (upd' g i f) finals) as [g' [G2 [G3 G4]]]; [lia| |].
    + intros k ls' E. destruct (H (S k) ls' E) as [sr2 [sr2' [A2 [B2 C2]]]]. simpl in B2.
      exists sr2, sr2'. split; [|split; assumption].
      rewrite nth_upd_other by lia. replace (S i + k) with (i + S k) by lia. exact A2.
    + exists g'. split; [rewrite (grun_app _ _ _ _ G1); exact G2|]. split.
      * intros [|k] sr2 E; simpl in E.
        -- injection E as <-. rewrite Nat.add_0_r. rewrite (G4 i) by lia. apply (nth_upd_same g i f sr A).
        -- replace (i + S k) with (S i + k) by lia. apply G3. exact E.
      * intros m Hm. rewrite (G4 m) by lia. apply nth_upd_other. lia.
Qed.
End Facts.
