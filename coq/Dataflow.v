(* Dataflow.v — values: ExecNode.execute (node.py:213-252), UsageExecNode.result (uxn.py:45-63),
   _xn_active_in_call (helpers.py:21-33, as repaired: the key path of the flag is applied),
   the results dictionary threaded through the scheduler run, and the schedule-independent
   denotation of a node table.  Definitions only.

   Values are abstract: theorems are proved for every value type with a None, a truthiness test and a
   partial indexing operation; the correspondence instantiates them with Herbrand terms (Terms.v). *)
From Coq Require Import List Arith Bool PeanoNat ZArith.
From Tawazi Require Import Graph Sched.
Import ListNotations.

(* a UsageExecNode: node id + key path written by the user (x[k1][k2], unpack_to) *)
Record ref := mkref { r_id : nat; r_keys : list nat }.

Section V.
Variable val : Type.
Variable vnone : val.
Variable truthy : val -> bool.
Variable index : val -> nat -> option val.      (* None: the __getitem__ raises *)

Record nodeT := mknode {
  n_args : list ref;                 (* positional then keyword arguments, in call order *)
  n_active : option ref;             (* twz_active *)
  n_fn : list val -> option val      (* the wrapped function; None: it raises *)
}.

Variable tbl : nat -> nodeT.

Definition results := list (nat * val).
Fixpoint lookup (res : results) (n : nat) : option val :=
  match res with [] => None | (k, v) :: r => if Nat.eqb k n then Some v else lookup r n end.
Definition has (res : results) (n : nat) : bool := match lookup res n with Some _ => true | None => false end.

Fixpoint index_path (v : val) (ks : list nat) : option val :=
  match ks with
  | [] => Some v
  | k :: ks' => match index v k with Some w => index_path w ks' | None => None end
  end.

(* uxn.py:59-63: an id without result reads as None; otherwise the key path is applied (may raise) *)
Definition rd (res : results) (r : ref) : option val :=
  match lookup res (r_id r) with None => Some vnone | Some v => index_path v (r_keys r) end.
Fixpoint rd_all (res : results) (rs : list ref) : option (list val) :=
  match rs with
  | [] => Some []
  | r :: rs' => match rd res r, rd_all res rs' with Some v, Some vs => Some (v :: vs) | _, _ => None end
  end.

(* node.py:227-248: materialise the arguments, call the function; None = an exception propagates *)
Definition exec_node (res : results) (n : nat) : option val :=
  match rd_all res (n_args (tbl n)) with Some vs => n_fn (tbl n) vs | None => None end.
(* helpers.py:31-33 (repaired): no flag = active; otherwise truthiness of the referenced value *)
Definition flag (res : results) (n : nat) : option bool :=
  match n_active (tbl n) with None => Some true | Some r => option_map truthy (rd res r) end.

(* ExecNode.dependencies: node.py:196-211 *)
Definition deps_of (n : nat) : list nat :=
  map r_id (n_args (tbl n)) ++ match n_active (tbl n) with Some r => [r_id r] | None => [] end.

(* ---- the scheduler run with values.  A label is consistent with the values when: a future reported
        as returned has a defined value (which is then stored), one reported as raised has none, and
        the flag test returned the truthiness of the flag's value. *)
Fixpoint store_dones (res : results) (dones : list (nat * bool)) : option results :=
  match dones with
  | [] => Some res
  | (n, true) :: ds => match exec_node res n with Some v => store_dones ((n, v) :: res) ds | None => None end
  | (n, false) :: ds => match exec_node res n with None => store_dones res ds | Some _ => None end
  end.

Definition vlabel (res : results) (l : label) : option results :=
  match l with
  | LWait _ _ dones => store_dones res dones
  | LActive n b =>
      match flag res n with
      | Some b' => if Bool.eqb b b' then Some (if b then res else (n, vnone) :: res) else None
      | None => None
      end
  | LInline n true => match exec_node res n with Some v => Some ((n, v) :: res) | None => None end
  | LInline n false => match exec_node res n with None => Some res | Some _ => None end
  | _ => Some res
  end.

Section Run.
Variable c : cfg.
Definition vstep (sr : state * results) (l : label) : option (state * results) :=
  match step c (fst sr) l, vlabel (snd sr) l with
  | Some s', Some r' => Some (s', r')
  | _, _ => None
  end.
Fixpoint vrun (sr : state * results) (ls : list label) : option (state * results) :=
  match ls with
  | [] => Some sr
  | l :: ls' => match vstep sr l with Some sr' => vrun sr' ls' | None => None end
  end.

(* the configuration and the node table describe the same DAG, and c_pre is what is already computed *)
Record consistent (res0 : results) : Prop := {
  cs_deps : forall n, In n (c_nodes c) -> forall p, In p (c_preds c n) <-> In p (deps_of n);
  cs_pre : forall n, In n (c_nodes c) -> (In n (c_pre c) <-> has res0 n = true)
}.

(* ---- the denotation: evaluation of the node table in dependency order, independent of any schedule.
        Sweeps over the participating nodes; a node is evaluated once every participating dependency
        has a value; nodes whose function (or argument / flag indexing) raises are remembered in
        [failed] and nothing depending on them is ever evaluated. *)
Definition R0 : list nat := diff (c_nodes c) (c_pre c).
Definition computable (res : results) (n : nat) : bool :=
  forallb (fun p => negb (mem p R0) || has res p) (deps_of n).

Definition eval_one (acc : results * list nat) (n : nat) : results * list nat :=
  let '(res, failed) := acc in
  if has res n || mem n failed || negb (computable res n) then acc
  else match flag res n with
       | None => (res, n :: failed)
       | Some false => ((n, vnone) :: res, failed)
       | Some true => match exec_node res n with
                      | Some v => ((n, v) :: res, failed)
                      | None => (res, n :: failed)
                      end
       end.
Definition sweep (acc : results * list nat) : results * list nat := fold_left eval_one R0 acc.
Definition den_eval (res0 : results) : results * list nat := iter (length R0) sweep (res0, []).
Definition den (res0 : results) (n : nat) : option val := lookup (fst (den_eval res0)) n.

(* the same evaluator with the participating node list computed once (call-by-value evaluation of
   [den_eval] recomputes R0 at every membership test); DataflowFast.v proves it equal to [den_eval] *)
Definition computable_in (r0 : list nat) (res : results) (n : nat) : bool :=
  forallb (fun p => negb (mem p r0) || has res p) (deps_of n).
Definition eval_one_in (r0 : list nat) (acc : results * list nat) (n : nat) : results * list nat :=
  let '(res, failed) := acc in
  if has res n || mem n failed || negb (computable_in r0 res n) then acc
  else match flag res n with
       | None => (res, n :: failed)
       | Some false => ((n, vnone) :: res, failed)
       | Some true => match exec_node res n with
                      | Some v => ((n, v) :: res, failed)
                      | None => (res, n :: failed)
                      end
       end.
Definition den_eval_fast (res0 : results) : results * list nat :=
  let r0 := R0 in iter (length r0) (fun acc => fold_left (eval_one_in r0) r0 acc) (res0, []).
End Run.
End V.
