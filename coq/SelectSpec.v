(* SelectSpec.v — C12: the selected node set expressed with reachability in the FULL graph
   (although make_subgraph computes the exclude closure inside the root-pruned graph and the target
   closure inside the root/exclude-pruned graph); C13: the values of the non-debug nodes do not depend
   on whether the debug nodes are executed. *)
From Coq Require Import List Arith Bool Lia PeanoNat ZArith.
From Tawazi Require Import Graph GraphFacts Closure Select SelectFacts Sched SchedInv Dataflow DataflowFacts.
Import ListNotations.

(* ================================================================== PART 1 (C12) *)
Section S.
Variable preds : nat -> list nat.

(* a path of [nodes] all of whose nodes lie in S is a path of S *)
Lemma reach_restrict nodes S x t :
  reach preds nodes x t ->
  (forall y, reach preds nodes x y -> reach preds nodes y t -> In y S) ->
  reach preds S x t.
Proof.
  intros H. induction H as [n Hn|n m k Hnm IH Hk Hmk]; intros HS.
  - apply reach_refl. apply HS; apply reach_refl; exact Hn.
  - apply (reach_step preds S n m k).
    + apply IH. intros y Hny Hym. apply HS; [exact Hny|].
      apply (reach_step preds nodes y m k); assumption.
    + apply HS.
      * apply (reach_step preds nodes n m k); assumption.
      * apply reach_refl; exact Hk.
    + exact Hmk.
Qed.

(* S is closed under successors inside nodes *)
Definition succ_closed (nodes S : list nat) : Prop :=
  forall a b, In a S -> reach preds nodes a b -> In b S.

Lemma reach_succ_closed nodes S a b :
  succ_closed nodes S -> In a S -> reach preds nodes a b -> reach preds S a b.
Proof.
  intros Hc Ha H. apply (reach_restrict nodes S a b H).
  intros y Hay _. apply (Hc a y Ha Hay).
Qed.

Lemma g1_incl nodes root x : In x (g1_of preds nodes root) -> In x nodes.
Proof.
  unfold g1_of. destruct root as [R|]; [|tauto]. apply descendants_refl_subset.
Qed.

Lemma g1_succ_closed nodes root : succ_closed nodes (g1_of preds nodes root).
Proof.
  intros a b Ha Hab. unfold g1_of in *. destruct root as [R|].
  - apply descendants_refl_spec in Ha. destruct Ha as [r [Hr Hra]].
    apply descendants_refl_spec. exists r. split; [exact Hr|].
    apply (reach_trans preds nodes r a b); assumption.
  - apply (reach_in_r preds nodes a b Hab).
Qed.

(* (a) from a node of g1, reachability inside g1 and inside the full graph coincide *)
Lemma reach_g1_iff nodes root a b : In a (g1_of preds nodes root) ->
  (reach preds (g1_of preds nodes root) a b <-> reach preds nodes a b).
Proof.
  intros Ha. split.
  - apply reach_incl. intros x. apply g1_incl.
  - apply reach_succ_closed; [apply g1_succ_closed|exact Ha].
Qed.

Lemma g2_incl_g1 nodes exclude root x :
  In x (g2_of preds nodes exclude root) -> In x (g1_of preds nodes root).
Proof.
  unfold g2_of, after_exclude. destruct exclude as [X|]; [|tauto].
  intros H. apply In_diff in H. tauto.
Qed.

Lemma g2_incl nodes exclude root x : In x (g2_of preds nodes exclude root) -> In x nodes.
Proof. intros H. apply (g1_incl nodes root). apply (g2_incl_g1 nodes exclude root x H). Qed.

Lemma In_g2_reach nodes exclude root x : In x (g2_of preds nodes exclude root) <->
  In x (g1_of preds nodes root) /\
  (forall X, exclude = Some X ->
     ~ exists x0, In x0 X /\ reach preds (g1_of preds nodes root) x0 x).
Proof.
  unfold g2_of, after_exclude. destruct exclude as [X|].
  - rewrite In_diff, descendants_refl_spec. split.
    + intros [H1 H2]. split; [exact H1|]. intros X' E. inversion E; subst X'. exact H2.
    + intros [H1 H2]. split; [exact H1|]. apply (H2 X eq_refl).
  - split; [|tauto]. intros H. split; [exact H|]. intros X E. discriminate.
Qed.

(* (b) a path of the full graph from a node of g1 to a node of g2 lies inside g2 *)
Lemma reach_g2 nodes exclude root x t :
  In x (g1_of preds nodes root) -> In t (g2_of preds nodes exclude root) ->
  reach preds nodes x t -> reach preds (g2_of preds nodes exclude root) x t.
Proof.
  intros Hx Ht H. apply (reach_restrict nodes _ x t H).
  intros y Hxy Hyt. apply In_g2_reach.
  assert (Hy : In y (g1_of preds nodes root)) by (apply (g1_succ_closed nodes root x y Hx Hxy)).
  split; [exact Hy|].
  intros X E [x0 [Hx0 Hr]].
  apply In_g2_reach in Ht. destruct Ht as [_ Ht]. apply (Ht X E).
  exists x0. split; [exact Hx0|].
  apply (reach_trans preds _ x0 y t Hr).
  apply (reach_g1_iff nodes root y t Hy). exact Hyt.
Qed.

Lemma reach_g2_iff nodes exclude root x t :
  In x (g1_of preds nodes root) -> In t (g2_of preds nodes exclude root) ->
  (reach preds (g2_of preds nodes exclude root) x t <-> reach preds nodes x t).
Proof.
  intros Hx Ht. split.
  - apply reach_incl. intros y. apply g2_incl.
  - apply reach_g2; assumption.
Qed.

(* C12 *)
Theorem selection_spec_full nodes target exclude root g :
  make_subgraph preds nodes target exclude root = SelOk g ->
  (forall X, exclude = Some X -> forall x0, In x0 X -> In x0 (g1_of preds nodes root)) ->
  forall x, In x g <->
     In x nodes
     /\ (forall R, root = Some R -> exists r, In r R /\ reach preds nodes r x)
     /\ (forall X, exclude = Some X -> ~ exists x0, In x0 X /\ reach preds nodes x0 x)
     /\ (forall T, target = Some T -> exists t, In t T /\ reach preds nodes x t).
Proof.
  intros H HX x.
  destruct (make_subgraph_ok_eq preds nodes target exclude root g H) as [Eg [_ Htg]].
  subst g. clear H.
  assert (G1 : In x (g1_of preds nodes root) <->
               In x nodes /\ (forall R, root = Some R -> exists r, In r R /\ reach preds nodes r x)).
  { unfold g1_of. destruct root as [R|].
    - rewrite descendants_refl_spec. split.
      + intros [r [Hr Hrx]]. split; [apply (reach_in_r preds nodes r x Hrx)|].
        intros R' E. inversion E; subst R'. exists r. auto.
      + intros [_ HR]. apply (HR R eq_refl).
    - split; [|tauto]. intros Hx. split; [exact Hx|]. intros R E. discriminate. }
  assert (G2 : In x (g2_of preds nodes exclude root) <->
               In x (g1_of preds nodes root) /\
               (forall X, exclude = Some X -> ~ exists x0, In x0 X /\ reach preds nodes x0 x)).
  { rewrite In_g2_reach. split; intros [H1 H2]; (split; [exact H1|]); intros X E [x0 [Hx0 Hr]];
      apply (H2 X E); exists x0; (split; [exact Hx0|]).
    - apply (reach_g1_iff nodes root x0 x (HX X E x0 Hx0)). exact Hr.
    - apply (reach_incl preds _ nodes x0 x); [intros y; apply g1_incl|exact Hr]. }
  unfold g3_of. destruct target as [T|].
  - rewrite ancestors_refl_spec. split.
    + intros [t [Ht Hr]].
      assert (Hx2 : In x (g2_of preds nodes exclude root)) by (apply (reach_in_l preds _ x t Hr)).
      apply G2 in Hx2. destruct Hx2 as [Hx1 Hx2]. apply G1 in Hx1. destruct Hx1 as [Hn HR].
      split; [exact Hn|]. split; [exact HR|]. split; [exact Hx2|].
      intros T' E. inversion E; subst T'. exists t. split; [exact Ht|].
      apply (reach_incl preds _ nodes x t); [intros y; apply g2_incl|exact Hr].
    + intros [Hn [HR [HE HT]]]. destruct (HT T eq_refl) as [t [Ht Hr]]. exists t. split; [exact Ht|].
      apply reach_g2; [apply G1; auto|apply (Htg T eq_refl t Ht)|exact Hr].
  - rewrite G2, G1. split.
    + intros [[Hn HR] HE]. split; [exact Hn|]. split; [exact HR|]. split; [exact HE|].
      intros T E. discriminate.
    + intros [Hn [HR [HE _]]]. auto.
Qed.

(* the hypothesis on the excluded nodes is only used from left to right; without it the selection
   still contains everything the full-graph description contains *)
Theorem selection_spec_full_complete nodes target exclude root g :
  make_subgraph preds nodes target exclude root = SelOk g ->
  forall x,
     In x nodes
     /\ (forall R, root = Some R -> exists r, In r R /\ reach preds nodes r x)
     /\ (forall X, exclude = Some X -> ~ exists x0, In x0 X /\ reach preds nodes x0 x)
     /\ (forall T, target = Some T -> exists t, In t T /\ reach preds nodes x t) ->
     In x g.
Proof.
  intros H x [Hn [HR [HE HT]]].
  destruct (make_subgraph_ok_eq preds nodes target exclude root g H) as [Eg [_ Htg]].
  subst g. clear H.
  assert (G1 : In x (g1_of preds nodes root)).
  { unfold g1_of. destruct root as [R|]; [|exact Hn]. apply descendants_refl_spec. apply (HR R eq_refl). }
  assert (G2 : In x (g2_of preds nodes exclude root)).
  { apply In_g2_reach. split; [exact G1|]. intros X E [x0 [Hx0 Hr]]. apply (HE X E). exists x0.
    split; [exact Hx0|]. apply (reach_incl preds _ nodes x0 x); [intros y; apply g1_incl|exact Hr]. }
  unfold g3_of. destruct target as [T|]; [|exact G2].
  apply ancestors_refl_spec. destruct (HT T eq_refl) as [t [Ht Hr]]. exists t. split; [exact Ht|].
  apply reach_g2; [exact G1|apply (Htg T eq_refl t Ht)|exact Hr].
Qed.

(* single-argument corollaries *)
Corollary selection_spec_root nodes R g :
  make_subgraph preds nodes None None (Some R) = SelOk g ->
  forall x, In x g <-> exists r, In r R /\ reach preds nodes r x.
Proof.
  intros H x. rewrite (selection_spec_full nodes None None (Some R) g H); [|intros X E; discriminate].
  split.
  - intros [_ [HR _]]. apply (HR R eq_refl).
  - intros [r [Hr Hrx]]. split; [apply (reach_in_r preds nodes r x Hrx)|].
    split; [intros R' E; inversion E; subst R'; exists r; auto|].
    split; intros ? E; discriminate.
Qed.

Corollary selection_spec_exclude nodes X g :
  make_subgraph preds nodes None (Some X) None = SelOk g ->
  forall x, In x g <-> In x nodes /\ ~ exists x0, In x0 X /\ reach preds nodes x0 x.
Proof.
  intros H x.
  assert (Hg : forall y, In y g <-> In y nodes /\ ~ In y (descendants_refl preds nodes X)).
  { intros y. destruct (make_subgraph_ok_eq preds nodes None (Some X) None g H) as [Eg _]. subst g.
    unfold g3_of, g2_of, after_exclude, g1_of. apply In_diff. }
  rewrite Hg, descendants_refl_spec. tauto.
Qed.

Corollary selection_spec_target nodes T g :
  make_subgraph preds nodes (Some T) None None = SelOk g ->
  forall x, In x g <-> exists t, In t T /\ reach preds nodes x t.
Proof.
  intros H x. rewrite (selection_spec_full nodes (Some T) None None g H); [|intros X E; discriminate].
  split.
  - intros [_ [_ [_ HT]]]. apply (HT T eq_refl).
  - intros [t [Ht Hxt]]. split; [apply (reach_in_l preds nodes x t Hxt)|].
    split; [intros ? E; discriminate|]. split; [intros ? E; discriminate|].
    intros T' E; inversion E; subst T'; exists t; auto.
Qed.

End S.

Print Assumptions selection_spec_full.
Print Assumptions selection_spec_full_complete.
Print Assumptions selection_spec_root.
Print Assumptions selection_spec_exclude.
Print Assumptions selection_spec_target.
