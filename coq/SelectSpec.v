(* SelectSpec.v — C12: the selected node set expressed with reachability in the FULL graph
   (although make_subgraph computes the exclude closure inside the root-pruned graph and the target
   closure inside the root/exclude-pruned graph); C13: the values of the non-debug nodes do not depend
   on whether the debug nodes are executed. *)
From Coq Require Import List Arith Bool Lia PeanoNat ZArith.
From Tawazi Require Import Graph GraphFacts Closure Select SelectFacts Sched SchedInv Dataflow DataflowFacts.
Import ListNotations.

(* ================================================================== PART 1 (C12) *)
Section S.
Variable preds : nat -> list nat.

(* a path of [nodes] all of whose nodes lie in S is a path of S *)
Lemma reach_restrict nodes S x t :
  reach preds nodes x t ->
  (forall y, reach preds nodes x y -> reach preds nodes y t -> In y S) ->
  reach preds S x t.
Proof.
  intros H. induction H as [n Hn|n m k Hnm IH Hk Hmk]; intros HS.
  - apply reach_refl. apply HS; apply reach_refl; exact Hn.
  - apply (reach_step preds S n m k).
    + apply IH. intros y Hny Hym. apply HS; [exact Hny|].
      apply (reach_step preds nodes y m k); assumption.
    + apply HS.
      * apply (reach_step preds nodes n m k); assumption.
      * apply reach_refl; exact Hk.
    + exact Hmk.
Qed.

(* S is closed under successors inside nodes *)
Definition succ_closed (nodes S : list nat) : Prop :=
  forall a b, In a S -> reach preds nodes a b -> In b S.

Lemma reach_succ_closed nodes S a b :
  succ_closed nodes S -> In a S -> reach preds nodes a b -> reach preds S a b.
Proof.
  intros Hc Ha H. apply (reach_restrict nodes S a b H).
  intros y Hay _. apply (Hc a y Ha Hay).
Qed.

Lemma g1_incl nodes root x : In x (g1_of preds nodes root) -> In x nodes.
Proof.
  unfold g1_of. destruct root as [R|]; [|tauto]. apply descendants_refl_subset.
Qed.

Lemma g1_succ_closed nodes root : succ_closed nodes (g1_of preds nodes root).
Proof.
  intros a b Ha Hab. unfold g1_of in *. destruct root as [R|].
  - apply descendants_refl_spec in Ha. destruct Ha as [r [Hr Hra]].
    apply descendants_refl_spec. exists r. split; [exact Hr|].
    apply (reach_trans preds nodes r a b); assumption.
  - apply (reach_in_r preds nodes a b Hab).
Qed.

(* (a) from a node of g1, reachability inside g1 and inside the full graph coincide *)
Lemma reach_g1_iff nodes root a b : In a (g1_of preds nodes root) ->
  (reach preds (g1_of preds nodes root) a b <-> reach preds nodes a b).
Proof.
  intros Ha. split.
  - apply reach_incl. intros x. apply g1_incl.
  - apply reach_succ_closed; [apply g1_succ_closed|exact Ha].
Qed.

Lemma g2_incl_g1 nodes exclude root x :
  In x (g2_of preds nodes exclude root) -> In x (g1_of preds nodes root).
Proof.
  unfold g2_of, after_exclude. destruct exclude as [X|]; [|tauto].
  intros H. apply In_diff in H. tauto.
Qed.

Lemma g2_incl nodes exclude root x : In x (g2_of preds nodes exclude root) -> In x nodes.
Proof. intros H. apply (g1_incl nodes root). apply (g2_incl_g1 nodes exclude root x H). Qed.

Lemma In_g2_reach nodes exclude root x : In x (g2_of preds nodes exclude root) <->
  In x (g1_of preds nodes root) /\
  (forall X, exclude = Some X ->
     ~ exists x0, In x0 X /\ reach preds (g1_of preds nodes root) x0 x).
Proof.
  unfold g2_of, after_exclude. destruct exclude as [X|].
  - rewrite In_diff, descendants_refl_spec. split.
    + intros [H1 H2]. split; [exact H1|]. intros X' E. inversion E; subst X'. exact H2.
    + intros [H1 H2]. split; [exact H1|]. apply (H2 X eq_refl).
  - split; [|tauto]. intros H. split; [exact H|]. intros X E. discriminate.
Qed.

(* (b) a path of the full graph from a node of g1 to a node of g2 lies inside g2 *)
Lemma reach_g2 nodes exclude root x t :
  In x (g1_of preds nodes root) -> In t (g2_of preds nodes exclude root) ->
  reach preds nodes x t -> reach preds (g2_of preds nodes exclude root) x t.
Proof.
  intros Hx Ht H. apply (reach_restrict nodes _ x t H).
  intros y Hxy Hyt. apply In_g2_reach.
  assert (Hy : In y (g1_of preds nodes root)) by (apply (g1_succ_closed nodes root x y Hx Hxy)).
  split; [exact Hy|].
  intros X E [x0 [Hx0 Hr]].
  apply In_g2_reach in Ht. destruct Ht as [_ Ht]. apply (Ht X E).
  exists x0. split; [exact Hx0|].
  apply (reach_trans preds _ x0 y t Hr).
  apply (reach_g1_iff nodes root y t Hy). exact Hyt.
Qed.

Lemma reach_g2_iff nodes exclude root x t :
  In x (g1_of preds nodes root) -> In t (g2_of preds nodes exclude root) ->
  (reach preds (g2_of preds nodes exclude root) x t <-> reach preds nodes x t).
Proof.
  intros Hx Ht. split.
  - apply reach_incl. intros y. apply g2_incl.
  - apply reach_g2; assumption.
Qed.

(* C12 *)
Theorem selection_spec_full nodes target exclude root g :
  make_subgraph preds nodes target exclude root = SelOk g ->
  (forall X, exclude = Some X -> forall x0, In x0 X -> In x0 (g1_of preds nodes root)) ->
  forall x, In x g <->
     In x nodes
     /\ (forall R, root = Some R -> exists r, In r R /\ reach preds nodes r x)
     /\ (forall X, exclude = Some X -> ~ exists x0, In x0 X /\ reach preds nodes x0 x)
     /\ (forall T, target = Some T -> exists t, In t T /\ reach preds nodes x t).
Proof.
  intros H HX x.
  destruct (make_subgraph_ok_eq preds nodes target exclude root g H) as [Eg [_ Htg]].
  subst g. clear H.
  assert (G1 : In x (g1_of preds nodes root) <->
               In x nodes /\ (forall R, root = Some R -> exists r, In r R /\ reach preds nodes r x)).
  { unfold g1_of. destruct root as [R|].
    - rewrite descendants_refl_spec. split.
      + intros [r [Hr Hrx]]. split; [apply (reach_in_r preds nodes r x Hrx)|].
        intros R' E. inversion E; subst R'. exists r. auto.
      + intros [_ HR]. apply (HR R eq_refl).
    - split; [|tauto]. intros Hx. split; [exact Hx|]. intros R E. discriminate. }
  assert (G2 : In x (g2_of preds nodes exclude root) <->
               In x (g1_of preds nodes root) /\
               (forall X, exclude = Some X -> ~ exists x0, In x0 X /\ reach preds nodes x0 x)).
  { rewrite In_g2_reach. split; intros [H1 H2]; (split; [exact H1|]); intros X E [x0 [Hx0 Hr]];
      apply (H2 X E); exists x0; (split; [exact Hx0|]).
    - apply (reach_g1_iff nodes root x0 x (HX X E x0 Hx0)). exact Hr.
    - apply (reach_incl preds (g1_of preds nodes root) nodes x0 x); [intros y; apply g1_incl|exact Hr]. }
  unfold g3_of. destruct target as [T|].
  - rewrite ancestors_refl_spec. split.
    + intros [t [Ht Hr]].
      assert (Hx2 : In x (g2_of preds nodes exclude root)) by (apply (reach_in_l preds _ x t Hr)).
      apply G2 in Hx2. destruct Hx2 as [Hx1 Hx2]. apply G1 in Hx1. destruct Hx1 as [Hn HR].
      split; [exact Hn|]. split; [exact HR|]. split; [exact Hx2|].
      intros T' E. inversion E; subst T'. exists t. split; [exact Ht|].
      apply (reach_incl preds (g2_of preds nodes exclude root) nodes x t); [intros y; apply g2_incl|exact Hr].
    + intros [Hn [HR [HE HT]]]. destruct (HT T eq_refl) as [t [Ht Hr]]. exists t. split; [exact Ht|].
      apply reach_g2; [apply G1; auto|apply (Htg T eq_refl t Ht)|exact Hr].
  - rewrite G2, G1. split.
    + intros [[Hn HR] HE]. split; [exact Hn|]. split; [exact HR|]. split; [exact HE|].
      intros T E. discriminate.
    + intros [Hn [HR [HE _]]]. auto.
Qed.

(* the hypothesis on the excluded nodes is only used from left to right; without it the selection
   still contains everything the full-graph description contains *)
Theorem selection_spec_full_complete nodes target exclude root g :
  make_subgraph preds nodes target exclude root = SelOk g ->
  forall x,
     In x nodes
     /\ (forall R, root = Some R -> exists r, In r R /\ reach preds nodes r x)
     /\ (forall X, exclude = Some X -> ~ exists x0, In x0 X /\ reach preds nodes x0 x)
     /\ (forall T, target = Some T -> exists t, In t T /\ reach preds nodes x t) ->
     In x g.
Proof.
  intros H x [Hn [HR [HE HT]]].
  destruct (make_subgraph_ok_eq preds nodes target exclude root g H) as [Eg [_ Htg]].
  subst g. clear H.
  assert (G1 : In x (g1_of preds nodes root)).
  { unfold g1_of. destruct root as [R|]; [|exact Hn]. apply descendants_refl_spec. apply (HR R eq_refl). }
  assert (G2 : In x (g2_of preds nodes exclude root)).
  { apply In_g2_reach. split; [exact G1|]. intros X E [x0 [Hx0 Hr]]. apply (HE X E). exists x0.
    split; [exact Hx0|]. apply (reach_incl preds (g1_of preds nodes root) nodes x0 x); [intros y; apply g1_incl|exact Hr]. }
  unfold g3_of. destruct target as [T|]; [|exact G2].
  apply ancestors_refl_spec. destruct (HT T eq_refl) as [t [Ht Hr]]. exists t. split; [exact Ht|].
  apply reach_g2; [exact G1|apply (Htg T eq_refl t Ht)|exact Hr].
Qed.

(* single-argument corollaries *)
Corollary selection_spec_root nodes R g :
  make_subgraph preds nodes None None (Some R) = SelOk g ->
  forall x, In x g <-> exists r, In r R /\ reach preds nodes r x.
Proof.
  intros H x. rewrite (selection_spec_full nodes None None (Some R) g H); [|intros X E; discriminate].
  split.
  - intros [_ [HR _]]. apply (HR R eq_refl).
  - intros [r [Hr Hrx]]. split; [apply (reach_in_r preds nodes r x Hrx)|].
    split; [intros R' E; inversion E; subst R'; exists r; auto|].
    split; intros ? E; discriminate.
Qed.

Corollary selection_spec_exclude nodes X g :
  make_subgraph preds nodes None (Some X) None = SelOk g ->
  forall x, In x g <-> In x nodes /\ ~ exists x0, In x0 X /\ reach preds nodes x0 x.
Proof.
  intros H x.
  assert (Hg : forall y, In y g <-> In y nodes /\ ~ In y (descendants_refl preds nodes X)).
  { intros y. destruct (make_subgraph_ok_eq preds nodes None (Some X) None g H) as [Eg _]. subst g.
    unfold g3_of, g2_of, after_exclude, g1_of. apply In_diff. }
  rewrite Hg, descendants_refl_spec. tauto.
Qed.

Corollary selection_spec_target nodes T g :
  make_subgraph preds nodes (Some T) None None = SelOk g ->
  forall x, In x g <-> exists t, In t T /\ reach preds nodes x t.
Proof.
  intros H x. rewrite (selection_spec_full nodes (Some T) None None g H); [|intros X E; discriminate].
  split.
  - intros [_ [_ [_ HT]]]. apply (HT T eq_refl).
  - intros [t [Ht Hxt]]. split; [apply (reach_in_l preds nodes x t Hxt)|].
    split; [intros ? E; discriminate|]. split; [intros ? E; discriminate|].
    intros T' E; inversion E; subst T'; exists t; auto.
Qed.

End S.

(* the hypothesis of C12 on the excluded nodes is necessary: nodes 0,1 -> 2, root [0], exclude [1].
   Node 1 is outside the part selected by the root, the model (like the code, which computes the
   successors of X inside the root-pruned graph) excludes nothing, although 2 depends on 1. *)
Definition cex_preds (n : nat) : list nat := match n with 2 => [0; 1] | _ => [] end.
Example exclude_outside_root_is_ignored :
  make_subgraph cex_preds [0; 1; 2] None (Some [1]) (Some [0]) = SelOk [0; 2]
  /\ reach cex_preds [0; 1; 2] 1 2.
Proof.
  split; [vm_compute; reflexivity|].
  apply (reach_step cex_preds [0; 1; 2] 1 1 2); simpl; auto. apply reach_refl. simpl; auto.
Qed.

(* ================================================================== PART 2 (C13) *)
Section D.
Variable val : Type.
Variable vnone : val.
Variable truthy : val -> bool.
Variable index : val -> nat -> option val.
Variable tbl : nat -> nodeT val.
Variable res0 : results val.

Notation lookup' := (lookup val).
Notation has' := (has val).
Notation deps' := (deps_of val tbl).
Notation flag' := (flag val vnone truthy index tbl).
Notation exec' := (exec_node val vnone index tbl).
Notation Sound' c := (Sound val vnone truthy index tbl c res0).
Notation EvInv' c := (EvInv val vnone truthy index tbl c res0).
Notation EvComplete' c := (EvComplete val tbl c).
Notation computable' c := (computable val tbl c).
Notation agree' := (agree val tbl).
Notation R c := (diff (c_nodes c) (c_pre c)).
Notation den_eval' c := (den_eval val vnone truthy index tbl c res0).
Notation den' c := (den val vnone truthy index tbl c res0).

(* ---- comparing evaluations of the same node table under two configurations *)
Lemma computable_transfer ca cb A B n :
  agree' A B n -> (forall p, In p (deps' n) -> In p (R cb) -> In p (R ca)) ->
  computable' ca A n = true -> computable' cb B n = true.
Proof.
  intros Hag Hsub HA. apply computable_spec. intros p Hp HR. unfold has. rewrite <- (Hag p Hp).
  exact (proj1 (computable_spec val tbl ca A n) HA p Hp (Hsub p Hp HR)).
Qed.

Lemma value_transfer ca cb A b n v :
  Sound' ca A -> EvInv' cb b -> EvComplete' cb b ->
  agree' A (fst b) n -> In n (R cb) -> has' res0 n = false ->
  (forall p, In p (deps' n) -> In p (R cb) -> In p (R ca)) ->
  lookup' A n = Some v -> lookup' (fst b) n = Some v.
Proof.
  intros SA I Cm Hag HR E0 Hsub E.
  destruct (sd_val val vnone truthy index tbl ca res0 A SA n v E E0) as [Hc Hv].
  assert (HcB : computable' cb (fst b) n = true)
    by (apply (computable_transfer ca cb A (fst b) n Hag Hsub Hc)).
  rewrite (flag_agree val vnone truthy index tbl A (fst b) n Hag),
          (exec_agree val vnone index tbl A (fst b) n Hag) in Hv.
  pose proof (Cm n HR HcB) as Hd. unfold decided in Hd. apply orb_true_iff in Hd.
  destruct Hd as [Hd|Hd].
  - apply has_true in Hd. destruct Hd as [w Hw].
    destruct (sd_val val vnone truthy index tbl cb res0 (fst b)
                (ev_sound val vnone truthy index tbl cb res0 b I) n w Hw E0) as [_ HwD].
    rewrite Hw. f_equal.
    destruct Hv as [[H1 ->]|[H1 H2]]; destruct HwD as [[H3 ->]|[H3 H4]]; congruence.
  - exfalso. apply mem_In in Hd.
    destruct (ev_fail val vnone truthy index tbl cb res0 b I n Hd) as [_ Hf].
    destruct Hv as [[H1 _]|[H1 H2]]; destruct Hf as [H3|[H3 H4]]; congruence.
Qed.

Lemma fail_transfer ca cb a b n :
  EvInv' ca a -> EvInv' cb b -> EvComplete' cb b ->
  agree' (fst a) (fst b) n -> lookup' (fst a) n = lookup' (fst b) n -> In n (R cb) ->
  (forall p, In p (deps' n) -> In p (R cb) -> In p (R ca)) ->
  In n (snd a) -> In n (snd b).
Proof.
  intros Ia Ib Cm Hag El HR Hsub Hn.
  destruct (ev_fail val vnone truthy index tbl ca res0 a Ia n Hn) as [Hc _].
  pose proof (ev_fail_nokey val vnone truthy index tbl ca res0 a Ia n Hn) as Hk.
  assert (HcB : computable' cb (fst b) n = true)
    by (apply (computable_transfer ca cb (fst a) (fst b) n Hag Hsub Hc)).
  pose proof (Cm n HR HcB) as Hd. unfold decided in Hd. apply orb_true_iff in Hd.
  destruct Hd as [Hd|Hd]; [|apply mem_In; exact Hd].
  exfalso. unfold has in Hk, Hd. rewrite El in Hk. rewrite Hd in Hk. discriminate.
Qed.

(* ---- the two settings: c1 runs without the debug nodes, c2 with them *)
Section Two.
Variables c1 c2 : cfg.
Variable debug : nat -> bool.
Hypothesis W2 : wf c2.
Hypothesis Cs1 : consistent val tbl c1 res0.
Hypothesis Cs2 : consistent val tbl c2 res0.
Hypothesis Hincl : incl (c_nodes c1) (c_nodes c2).
Hypothesis Hextra : forall n, In n (c_nodes c2) -> ~ In n (c_nodes c1) -> debug n = true.
(* build rule: no non-debug node depends on a debug node *)
Hypothesis Hbuild : forall n, In n (c_nodes c2) -> debug n = false ->
  forall p, In p (deps' n) -> In p (c_nodes c2) -> debug p = false.

Lemma R1_R2 n : In n (R c1) -> In n (R c2).
Proof.
  intros H. apply In_diff in H. destruct H as [Hn Hp]. apply In_diff.
  split; [apply Hincl; exact Hn|]. intros Hp2. apply Hp.
  apply (cs_pre val tbl c1 res0 Cs1 n Hn).
  apply (cs_pre val tbl c2 res0 Cs2 n (Hincl n Hn)). exact Hp2.
Qed.

Lemma R2_R1 n : In n (R c2) -> debug n = false -> In n (R c1).
Proof.
  intros H Hd. apply In_diff in H. destruct H as [Hn Hp].
  assert (Hn1 : In n (c_nodes c1)).
  { destruct (in_dec Nat.eq_dec n (c_nodes c1)) as [Y|N]; [exact Y|].
    rewrite (Hextra n Hn N) in Hd. discriminate. }
  apply In_diff. split; [exact Hn1|]. intros Hp1. apply Hp.
  apply (cs_pre val tbl c2 res0 Cs2 n Hn).
  apply (cs_pre val tbl c1 res0 Cs1 n Hn1). exact Hp1.
Qed.

Lemma deps_R2_R1 n : In n (R c2) -> debug n = false ->
  forall p, In p (deps' n) -> In p (R c2) -> In p (R c1).
Proof.
  intros HR Hd p Hp HpR. apply (R2_R1 p HpR).
  apply In_diff in HR. apply In_diff in HpR. apply (Hbuild n); tauto.
Qed.

Let D1 := fst (den_eval' c1).
Let D2 := fst (den_eval' c2).

Lemma outside_eq p : ~ In p (R c2) -> lookup' D1 p = lookup' D2 p.
Proof.
  intros Hp2. assert (Hp1 : ~ In p (R c1)) by (intros X; apply Hp2; apply R1_R2; exact X).
  unfold D1, D2.
  rewrite (Sound_outside val vnone truthy index tbl c1 res0 _ p
             (ev_sound _ _ _ _ _ _ _ _ (EvInv_den val vnone truthy index tbl c1 res0)) Hp1).
  rewrite (Sound_outside val vnone truthy index tbl c2 res0 _ p
             (ev_sound _ _ _ _ _ _ _ _ (EvInv_den val vnone truthy index tbl c2 res0)) Hp2).
  reflexivity.
Qed.

Lemma nondebug_lookup_eq n : debug n = false -> lookup' D1 n = lookup' D2 n.
Proof.
  destruct (wf_acyclic c2 W2) as [rank Hrank].
  assert (H : forall k n, rank n < k -> debug n = false -> lookup' D1 n = lookup' D2 n).
  { induction k as [|k IH]; intros m Hk Hd; [lia|].
    destruct (in_dec Nat.eq_dec m (R c2)) as [HR2|HR2]; [|apply outside_eq; exact HR2].
    pose proof (R2_R1 m HR2 Hd) as HR1.
    pose proof (R0_not_pre val tbl c2 res0 m Cs2 HR2) as E0.
    assert (Hag : agree' D1 D2 m).
    { intros p Hp. destruct (in_dec Nat.eq_dec p (R c2)) as [Hp2|Hp2]; [|apply outside_eq; exact Hp2].
      pose proof HR2 as HR2'. pose proof Hp2 as Hp2'.
      apply In_diff in HR2'. apply In_diff in Hp2'. apply IH.
      - assert (rank p < rank m); [|lia]. apply Hrank; try tauto.
        apply (cs_deps val tbl c2 res0 Cs2 m); tauto.
      - apply (Hbuild m); tauto. }
    destruct (lookup' D1 m) as [v|] eqn:E1.
    - symmetry.
      apply (value_transfer c1 c2 D1 (den_eval' c2) m v); auto.
      + apply (ev_sound _ _ _ _ _ _ _ _ (EvInv_den val vnone truthy index tbl c1 res0)).
      + apply EvInv_den.
      + apply EvComplete_den.
      + apply (deps_R2_R1 m HR2 Hd).
    - destruct (lookup' D2 m) as [w|] eqn:E2; [|reflexivity].
      assert (X : lookup' (fst (den_eval' c1)) m = Some w).
      { apply (value_transfer c2 c1 D2 (den_eval' c1) m w); auto.
        + apply (ev_sound _ _ _ _ _ _ _ _ (EvInv_den val vnone truthy index tbl c2 res0)).
        + apply EvInv_den.
        + apply EvComplete_den.
        + apply agree_sym. exact Hag.
        + intros p _. apply R1_R2. }
      fold D1 in X. congruence. }
  intros Hd. apply (H (S (rank n))); [lia|exact Hd].
Qed.

Lemma nondebug_agree n : In n (R c2) -> debug n = false -> agree' D1 D2 n.
Proof.
  intros HR Hd p Hp. destruct (in_dec Nat.eq_dec p (R c2)) as [Hp2|Hp2]; [|apply outside_eq; exact Hp2].
  apply nondebug_lookup_eq. apply In_diff in HR. apply In_diff in Hp2. apply (Hbuild n); tauto.
Qed.

(* C13: the value of every non-debug node is the same in both settings (None = no value:
   the node or one of its ancestors raised) *)
Theorem debug_does_not_change_values_gen n :
  debug n = false -> den' c1 n = den' c2 n.
Proof. intros Hd. unfold den. apply nondebug_lookup_eq. exact Hd. Qed.

Theorem debug_does_not_change_values n :
  debug n = false -> In n (c_nodes c1) -> den' c1 n = den' c2 n.
Proof. intros Hd _. apply debug_does_not_change_values_gen. exact Hd. Qed.

(* and the same non-debug nodes raise *)
Theorem debug_does_not_change_failures n :
  debug n = false -> (In n (snd (den_eval' c1)) <-> In n (snd (den_eval' c2))).
Proof.
  intros Hd. split; intros Hn.
  - assert (HR1 : In n (R c1)) by (apply (ev_fail_R0 _ _ _ _ _ _ _ _ (EvInv_den val vnone truthy index tbl c1 res0) n Hn)).
    pose proof (R1_R2 n HR1) as HR2.
    apply (fail_transfer c1 c2 (den_eval' c1) (den_eval' c2) n); auto.
    + apply EvInv_den.
    + apply EvInv_den.
    + apply EvComplete_den.
    + apply (nondebug_agree n HR2 Hd).
    + apply (nondebug_lookup_eq n Hd).
    + apply (deps_R2_R1 n HR2 Hd).
  - assert (HR2 : In n (R c2)) by (apply (ev_fail_R0 _ _ _ _ _ _ _ _ (EvInv_den val vnone truthy index tbl c2 res0) n Hn)).
    pose proof (R2_R1 n HR2 Hd) as HR1.
    apply (fail_transfer c2 c1 (den_eval' c2) (den_eval' c1) n); auto.
    + apply EvInv_den.
    + apply EvInv_den.
    + apply EvComplete_den.
    + apply agree_sym. apply (nondebug_agree n HR2 Hd).
    + symmetry. apply (nondebug_lookup_eq n Hd).
    + intros p _. apply R1_R2.
Qed.
End Two.

(* instantiated with the executor graphs of Select.v: same selection g, debug off / debug on *)
Theorem executor_debug_values preds (dbg : nat -> bool) nodes g (c1 c2 : cfg) :
  (forall x, In x (c_nodes c1) <-> In x (extend_with_debug preds dbg nodes g false)) ->
  (forall x, In x (c_nodes c2) <-> In x (extend_with_debug preds dbg nodes g true)) ->
  wf c2 -> consistent val tbl c1 res0 -> consistent val tbl c2 res0 ->
  (forall n, In n (c_nodes c2) -> dbg n = false ->
     forall p, In p (deps' n) -> In p (c_nodes c2) -> dbg p = false) ->
  forall n, dbg n = false ->
    den' c1 n = den' c2 n /\ (In n (snd (den_eval' c1)) <-> In n (snd (den_eval' c2))).
Proof.
  intros H1 H2 W2 Cs1 Cs2 Hb n Hd.
  assert (Hincl : incl (c_nodes c1) (c_nodes c2)).
  { intros x Hx. apply H1 in Hx. apply In_extend_off in Hx. destruct Hx as [Hg [_ Hn]].
    apply H2. apply (debug_on_superset preds dbg dbg nodes g x Hg Hn). }
  assert (Hextra : forall x, In x (c_nodes c2) -> ~ In x (c_nodes c1) -> dbg x = true).
  { intros x Hx Hnx. apply H2 in Hx.
    pose proof (debug_on_incl_nodes preds dbg dbg nodes g true x Hx) as Hn.
    destruct (debug_on_only_adds_debug preds dbg dbg nodes g x Hx) as [Hg|[Hdx _]]; [|exact Hdx].
    destruct (dbg x) eqn:E; [reflexivity|]. exfalso. apply Hnx. apply H1. apply In_extend_off. auto. }
  split.
  - apply (debug_does_not_change_values_gen c1 c2 dbg W2 Cs1 Cs2 Hincl Hextra Hb n Hd).
  - apply (debug_does_not_change_failures c1 c2 dbg W2 Cs1 Cs2 Hincl Hextra Hb n Hd).
Qed.
End D.

Print Assumptions selection_spec_full.
Print Assumptions selection_spec_full_complete.
Print Assumptions selection_spec_root.
Print Assumptions selection_spec_exclude.
Print Assumptions selection_spec_target.
Print Assumptions exclude_outside_root_is_ignored.
Print Assumptions debug_does_not_change_values_gen.
Print Assumptions debug_does_not_change_values.
Print Assumptions debug_does_not_change_failures.
Print Assumptions executor_debug_values.
