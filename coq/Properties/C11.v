(* C11 — a setup node runs at most once per DAG instance and its value is reused.
   History.v: an operation (call / setup(selection) / executor run) executes the nodes of its graph that
   have no result yet; a successful one stores the results of the setup nodes it executed on the instance.
   That the scheduler starts exactly graph \ pre-computed is C03; that the stored value is reused
   unchanged is C15_den_precompute. *)
From Coq Require Import List.
From Tawazi Require Import Graph Select SelectFacts History HistoryFacts.
Import ListNotations.

(* over ANY sequence of operations on one instance, a setup node executed by a successful operation is
   never executed by a later operation *)
Theorem C11_setup_at_most_once (d : dagT) ops k1 k2 o1 o2 ex1 ex2 n :
  k1 < k2 ->
  nth_error ops k1 = Some o1 -> nth_error ops k2 = Some o2 -> op_ok o1 = true ->
  nth_error (fst (hist_run d (mkinst []) ops)) k1 = Some (Some ex1) ->
  nth_error (fst (hist_run d (mkinst []) ops)) k2 = Some (Some ex2) ->
  d_setup d n = true -> In n ex1 -> ~ In n ex2.
Proof. exact (setup_at_most_once d ops k1 k2 o1 o2 ex1 ex2 n). Qed.
Print Assumptions C11_setup_at_most_once.

(* equivalently: the log of setup executions of the successful operations is duplicate-free *)
Theorem C11_setup_log_NoDup (d : dagT) ops :
  NoDup (d_nodes d) -> NoDup (setup_log d ops (fst (hist_run d (mkinst []) ops))).
Proof. exact (setup_log_NoDup d ops). Qed.
Print Assumptions C11_setup_log_NoDup.

(* setup(...) executes setup nodes only, and with target_nodes only ancestors-or-self of the targets *)
Theorem C11_setup_only_selected (d : dagT) i T x r ok ex :
  op_executes d i (OSetup (Some T) x r ok) = Some ex ->
  forall n, In n ex ->
    In n (ancestors_refl (d_preds d) (g2_of (d_preds d) (d_nodes d) x r) T).
Proof. exact (setup_op_targets_only d i T x r ok ex). Qed.
Print Assumptions C11_setup_only_selected.

Theorem C11_setup_only_setup_nodes (d : dagT) i t x r ok ex :
  op_executes d i (OSetup t x r ok) = Some ex ->
  forall n, In n ex -> d_setup d n = true /\ In n (d_nodes d).
Proof. exact (setup_op_only_selected_setup d i t x r ok ex). Qed.
Print Assumptions C11_setup_only_setup_nodes.

(* a (deep) copy taken after ops1 behaves exactly like the original would, and what is run on one of
   them afterwards does not influence the other: the history function depends on (dag, stored set, ops) only *)
Theorem C11_independent_instances (d : dagT) i ops1 ops2 ops3 :
  let i1 := snd (hist_run d i ops1) in
  let copy := mkinst (i_done i1) in
  hist_run d copy ops2 = hist_run d i1 ops2 /\
  fst (hist_run d i (ops1 ++ ops3)) = fst (hist_run d i ops1) ++ fst (hist_run d i1 ops3).
Proof. exact (independent_instances d i ops1 ops2 ops3). Qed.
Print Assumptions C11_independent_instances.
