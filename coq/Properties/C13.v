(* C13 — debug nodes run only when enabled and never influence production results. *)
From Coq Require Import List.
From Tawazi Require Import Graph Select SelectFacts.
Import ListNotations.

(* flag off: no debug node is in the executed graph of an executor, whatever the selection ... *)
Theorem C13_executor_off_exact (preds : nat -> list nat) (debug : nat -> bool) nodes target exclude root g' :
  executor_graph preds debug nodes target exclude root false = SelOk g' ->
  exists g, make_subgraph preds nodes target exclude root = SelOk g /\
            forall x, In x g' <-> In x g /\ debug x = false.
Proof. exact (executor_off_exact preds debug (fun _ => false) nodes target exclude root g'). Qed.
Print Assumptions C13_executor_off_exact.

(* ... nor of a plain call (exactly the non-debug nodes run) ... *)
Theorem C13_call_off (preds : nat -> list nat) (debug : nat -> bool) nodes x :
  In x (call_graph preds debug nodes false) <-> In x nodes /\ debug x = false.
Proof. exact (debug_off_call preds debug (fun _ => false) nodes x). Qed.
Print Assumptions C13_call_off.

(* ... nor of setup(): only setup nodes (a node cannot be both) *)
Theorem C13_setup_only_setup (preds : nat -> list nat) (setup : nat -> bool) nodes target exclude root g :
  setup_graph preds setup nodes target exclude root = SelOk g ->
  forall x, In x g -> setup x = true /\ In x nodes.
Proof. exact (setup_graph_only_setup preds (fun _ => false) setup nodes target exclude root g). Qed.
Print Assumptions C13_setup_only_setup.

(* flag on: a whole-DAG call executes every node *)
Theorem C13_call_on_all (preds : nat -> list nat) (debug : nat -> bool) nodes x :
  In x (call_graph preds debug nodes true) <-> In x nodes.
Proof. exact (debug_on_call_all preds debug (fun _ => false) nodes x). Qed.
Print Assumptions C13_call_on_all.

(* flag on, sub-graph run: the selection is kept, only debug nodes are added, and every added debug node
   has ALL its inputs in the executed graph *)
Theorem C13_executor_on_superset (preds : nat -> list nat) (debug : nat -> bool) nodes target exclude root g' :
  executor_graph preds debug nodes target exclude root true = SelOk g' ->
  exists g, make_subgraph preds nodes target exclude root = SelOk g /\
            (forall x, In x g -> In x g') /\
            (forall x, In x g' -> ~ In x g ->
               debug x = true /\ In x nodes /\
               forall p, In p (preds x) -> In p nodes -> In p g').
Proof. exact (executor_on_superset preds debug (fun _ => false) nodes target exclude root g'). Qed.
Print Assumptions C13_executor_on_superset.
