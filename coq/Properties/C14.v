(* C14 — a failing node fails the call, and starts nothing downstream.
   (That the raised exception names the node and carries the original as its cause is the wrapping in
   ExecNode.execute, node.py:240-248: checked by the monitor of the correspondence on every failing
   run, not a scheduler-model fact.) *)
From Coq Require Import List.
From Tawazi Require Import Graph Sched SchedInv SchedGhost.
Import ListNotations.

(* the call raises for the FIRST INSPECTED failing node: the run ends with that failure label *)
Theorem C14_failure_is_last_label (c : cfg) ls s f :
  run c (init c) ls = Some s -> pc s = PRaised f ->
  exists ls0 l, ls = ls0 ++ [l] /\
    (l = LInline f false \/ exists k m dones0, l = LWait k m (dones0 ++ [(f, false)])).
Proof. exact (failure_is_last_label c ls s f). Qed.
Print Assumptions C14_failure_is_last_label.

(* no node at all is started (no label whatsoever is accepted) after the failure was observed *)
Theorem C14_nothing_after_failure (c : cfg) ls l ls' s s' f :
  run c (init c) ls = Some s -> pc s = PRaised f ->
  run c (init c) (ls ++ l :: ls') = Some s' -> False.
Proof. exact (nothing_after_failure c ls l ls' s s' f). Qed.
Print Assumptions C14_nothing_after_failure.

(* no node depending directly or transitively on the failed node was ever started, skipped or finished *)
Theorem C14_failure_blocks_descendants (c : cfg) ls s f y :
  wf c -> run c (init c) ls = Some s -> pc s = PRaised f -> depends_on c y f ->
  ~ In y (starts_of ls) /\ ~ In y (flat_map skips_of_label ls) /\ ~ In y (flat_map dones_of_label ls).
Proof. exact (failure_blocks_descendants_trace c ls s f y). Qed.
Print Assumptions C14_failure_blocks_descendants.

(* more generally nothing that depends on a node still in the graph has started *)
Theorem C14_no_descendant_of_unfinished_started (c : cfg) s x y :
  wf c -> reachable c s -> In x (rem s) -> depends_on c y x ->
  ~ In y (started s) /\ ~ In y (skipped s).
Proof. exact (no_descendant_of_unfinished_started c s x y). Qed.
Print Assumptions C14_no_descendant_of_unfinished_started.

(* no internal scheduler error: every removal from the graph targets a node that is in the graph and
   is one of its roots (remove_root_node / futures.inverse / runnable.remove cannot raise) *)
Theorem C14_remove_targets_in_graph (c : cfg) s k m dones s' :
  wf c -> reachable c s -> step c s (LWait k m dones) = Some s' ->
  forall pre n post, map fst (filter snd dones) = pre ++ n :: post ->
    let t := completes c k s pre in
    In n (inflight t k) /\ In n (rem t) /\ is_root (c_preds c) (rem t) n = true.
Proof. exact (remove_targets_in_graph c s k m dones s'). Qed.
Print Assumptions C14_remove_targets_in_graph.
