(* C03 — each selected active node runs exactly once per execution, nothing else runs. *)
From Coq Require Import List Arith.
From Tawazi Require Import Ids IdsFacts Graph Sched SchedInv SchedGhost.
Import ListNotations.

(* in every accepted run — also failing ones — no node is started twice *)
Theorem C03_at_most_once (c : cfg) ls s :
  wf c -> run c (init c) ls = Some s -> NoDup (starts_of ls).
Proof. exact (at_most_once c ls s). Qed.
Print Assumptions C03_at_most_once.

(* nothing outside the selection, and nothing already computed (set-up, argument, cached), is started *)
Theorem C03_only_selected_start (c : cfg) ls s :
  wf c -> run c (init c) ls = Some s ->
  forall n, In n (starts_of ls) -> In n (diff (c_nodes c) (c_pre c)).
Proof. exact (only_selected_start c ls s). Qed.
Print Assumptions C03_only_selected_start.

(* in a run that completes without error every selected node is either started exactly once, or was
   deactivated (its flag falsy) and not started at all *)
Theorem C03_exactly_once (c : cfg) ls s :
  wf c -> run c (init c) ls = Some s -> pc s = PFinished ->
  forall n, In n (diff (c_nodes c) (c_pre c)) ->
    (count_occ Nat.eq_dec (starts_of ls) n = 1 /\ ~ In n (flat_map skips_of_label ls)) \/
    (count_occ Nat.eq_dec (starts_of ls) n = 0 /\ In n (flat_map skips_of_label ls)).
Proof. exact (exactly_once c ls s). Qed.
Print Assumptions C03_exactly_once.

Theorem C03_started_is_trace (c : cfg) ls s :
  run c (init c) ls = Some s -> started s = rev (starts_of ls).
Proof. exact (started_trace c ls s). Qed.
Print Assumptions C03_started_is_trace.

(* one decorated function used at several call sites: every recorded call registers a node of its own (its id
   is distinct from every other id of the DAG), so with the theorems above there is exactly one execution per
   call site; the (k+1)-th use of a function is numbered k *)
Theorem C03_call_sites_have_distinct_ids (bs : list nat) : NoDup (calls [] bs).
Proof. exact (call_sites_distinct bs). Qed.
Print Assumptions C03_call_sites_have_distinct_ids.

Theorem C03_one_node_per_call (bs : list nat) (b : nat) : uses (calls [] bs) b = count_occ Nat.eq_dec bs b.
Proof. exact (calls_uses bs [] b). Qed.
Print Assumptions C03_one_node_per_call.
