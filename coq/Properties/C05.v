(* C05 — a sequential node never overlaps any other node of its execution. *)
From Coq Require Import List.
From Tawazi Require Import Graph Sched SchedInv.
From Tawazi Require Reconf ReconfFacts.
From Coq Require Import ZArith.
Import ListNotations.

(* whenever a sequential node is handed out and not yet observed finished, it is the ONLY node in
   flight, and the scheduler is in the ALL_COMPLETED drain for it (or has raised its failure) *)
Theorem C05_sequential_exclusive (c : cfg) (s : state) (x : nat) :
  wf c -> reachable c s -> In x (conc s ++ asyn s) -> c_seq c x = true ->
  conc s ++ asyn s = [x] /\ (pc s = PDrainA x \/ pc s = PDrainC x \/ pc s = PRaised x).
Proof. exact (sequential_exclusive c s x). Qed.
Print Assumptions C05_sequential_exclusive.

(* a sequential node — whatever its resource, main-thread (inline) included — is dispatched only when
   nothing at all is in flight *)
Theorem C05_sequential_starts_alone (c : cfg) (s : state) (n : nat) :
  wf c -> reachable c s -> (pc s = PActive n \/ pc s = PDisp n) -> c_seq c n = true ->
  conc s ++ asyn s = [].
Proof. exact (sequential_starts_alone c s n). Qed.
Print Assumptions C05_sequential_starts_alone.

(* while it is in flight no pick / dispatch / inline execution is enabled: only the drain waits *)
Theorem C05_sequential_blocks_dispatch (c : cfg) (s : state) (x : nat) (l : label) (s' : state) :
  wf c -> reachable c s -> In x (conc s ++ asyn s) -> c_seq c x = true ->
  step c s l = Some s' -> exists k dones, l = LWait k MAll dones.
Proof. exact (sequential_blocks_dispatch c s x l s'). Qed.
Print Assumptions C05_sequential_blocks_dispatch.

(* "every configuration": config entries that name only the priority never change an is_sequential flag,
   over whole histories of reconfigurations; an entry reaching a node changes only the fields it names *)
Theorem C05_priority_only_reconfiguration_keeps_sequential (nodes : list nat) (tagged : nat -> list nat) (cs : list Reconf.cstep) (st : Reconf.cstate) :
  (forall c a e, In c cs -> In (a, e) (Reconf.c_entries c) -> Reconf.e_seq e = None) ->
  forall n, Reconf.a_seq (Reconf.s_attr (Reconf.run nodes tagged st cs) n) = Reconf.a_seq (Reconf.s_attr st n).
Proof. exact (ReconfFacts.run_prio_only nodes tagged cs st). Qed.
Print Assumptions C05_priority_only_reconfiguration_keeps_sequential.

Theorem C05_reconfiguration_entry_applied (nodes : list nat) (tagged : nat -> list nat) (st : Reconf.cstate) (c : Reconf.cstep) (st' : Reconf.cstate) (l : list (nat * Reconf.centry)) (n : nat) (e : Reconf.centry) :
  Reconf.step nodes tagged st c = Some st' -> Reconf.expand nodes tagged (Reconf.c_entries c) = Some l -> In (n, e) l ->
  Reconf.s_attr st' n = Reconf.apply_entry (Reconf.s_attr st n) e.
Proof. exact (ReconfFacts.step_touched nodes tagged st c st' l n e). Qed.
Print Assumptions C05_reconfiguration_entry_applied.
