(* C18 — an execution restarted from a cache file reuses, not recomputes, cached results. *)
From Coq Require Import List.
From Tawazi Require Import Graph Select SelectFacts History HistoryFacts.
From Tawazi Require Import Dataflow Args ArgsFacts Cache CacheFacts.
Import ListNotations.

(* whatever the selection of the restart: no node whose result is in the file is executed *)
Theorem C18_restart_never_runs_cached (d : dagT) i2 t x r dbg nargs keys ok ex :
  op_executes d i2 (OExec t x r dbg nargs keys ok) = Some ex ->
  forall n, In n ex -> ~ In n keys.
Proof. exact (restart_never_runs_cached d i2 t x r dbg nargs keys ok ex). Qed.
Print Assumptions C18_restart_never_runs_cached.

(* restart of the same selection from the file written by a whole caching run: nothing at all runs *)
Theorem C18_restart_skips_everything (d : dagT) i i2 t x r dbg nargs nargs' ok2 g :
  let o1 := OExec t x r dbg nargs [] true in
  let keys := cache_keys d i o1 [] in
  let o2 := OExec t x r dbg nargs' keys ok2 in
  op_graph d o1 = SelOk g -> op_executes d i2 o2 = Some [].
Proof. exact (restart_skips_cached_ok d i i2 t x r dbg nargs nargs' ok2 g). Qed.
Print Assumptions C18_restart_skips_everything.

(* cache_deps_of = D: the file holds no result of D, holds every other result of the executed graph
   (in particular everything D depends on), and the restart executes exactly the members of D *)
Theorem C18_cache_deps_of_restart (d : dagT) i i2 D dbg nargs nargs' ok2 g :
  let o1 := OExec (Some D) None None dbg nargs [] true in
  let keys := cache_keys d i o1 D in
  let o2 := OExec (Some D) None None dbg nargs' keys ok2 in
  op_graph d o1 = SelOk g ->
  (forall n, In n D -> ~ In n keys) /\
  (forall n, In n g -> ~ In n D -> In n keys) /\
  exists ex, op_executes d i2 o2 = Some ex /\
    (forall n, In n ex <->
       In n g /\ In n D /\ ~ In n (d_const d ++ i_done i2 ++ firstn nargs' (d_inputs d))).
Proof. exact (cache_deps_of_restart d i i2 D dbg nargs nargs' ok2 g). Qed.
Print Assumptions C18_cache_deps_of_restart.
(* that the value returned by the restart equals the caching run's is C15_den_precompute: the cached
   results are pre-computed denotations *)

(* the results map a restart hands to the scheduler: every id of the file is pre-computed (hence pruned, never
   executed), an argument the restart omits is read from the file (the caching run's value), an explicit argument
   wins over the file *)
Theorem C18_restart_map_has_cached (val : Type) (res cache : results val) (inputs : list nat) (args : list val) (r : results val) (n : nat) :
  start_map val res cache inputs args = Some r -> has val cache n = true -> has val r n = true.
Proof. exact (start_map_has_cached val res cache inputs args r n). Qed.
Print Assumptions C18_restart_map_has_cached.

Theorem C18_restart_omitted_argument_reads_file (val : Type) (res cache : results val) (inputs : list nat) (args : list val) (r : results val) (n : nat) (v : val) :
  start_map val res cache inputs args = Some r ->
  ~ In n (firstn (length args) inputs) -> lookup val cache n = Some v -> lookup val r n = Some v.
Proof. exact (start_map_omitted_reads_cache val res cache inputs args r n v). Qed.
Print Assumptions C18_restart_omitted_argument_reads_file.

Theorem C18_restart_explicit_argument_wins (val : Type) (res cache : results val) (inputs : list nat) (args : list val) (r : results val) (k i : nat) (a : val) :
  NoDup inputs -> start_map val res cache inputs args = Some r ->
  nth_error inputs k = Some i -> nth_error args k = Some a -> lookup val r i = Some a.
Proof. exact (start_map_argument_wins val res cache inputs args r k i a). Qed.
Print Assumptions C18_restart_explicit_argument_wins.
