(* C02 — no node starts before all of its dependencies have finished.
   Only property theorems, each closed by an exact reference, with Print Assumptions beneath. *)
From Coq Require Import List.
From Tawazi Require Import Graph Sched SchedInv SchedGhost.
Import ListNotations.

(* trace form: in every accepted label sequence, every dependency p of a node n handed to a worker or
   entered inline (positional, keyword or activation-flag dependency: c_preds) that takes part in the
   execution (p in nodes \ pre-computed) was observed finished — or deactivated, result None — strictly
   before *)
Theorem C02_deps_finished_before_start (c : cfg) ls1 l ls2 s n p :
  wf c -> run c (init c) (ls1 ++ l :: ls2) = Some s ->
  In n (starts_of_label l) -> In p (c_preds c n) -> In p (diff (c_nodes c) (c_pre c)) ->
  In p (flat_map dones_of_label ls1) \/ In p (flat_map skips_of_label ls1).
Proof. exact (deps_finished_before_start c ls1 l ls2 s n p). Qed.
Print Assumptions C02_deps_finished_before_start.

(* the same for the decision to skip a deactivated node: its flag's node has finished *)
Theorem C02_deps_finished_before_flag_test (c : cfg) ls1 n b ls2 s p :
  wf c -> run c (init c) (ls1 ++ LActive n b :: ls2) = Some s ->
  In p (c_preds c n) -> In p (diff (c_nodes c) (c_pre c)) ->
  In p (flat_map dones_of_label ls1) \/ In p (flat_map skips_of_label ls1).
Proof. exact (deps_finished_before_active c ls1 n b ls2 s p). Qed.
Print Assumptions C02_deps_finished_before_flag_test.

(* state form: at the moment a node starts none of its dependencies is still in the graph *)
Theorem C02_start_needs_deps (c : cfg) s l s' n :
  wf c -> reachable c s -> step c s l = Some s' ->
  In n (starts_of_label l) -> forall p, In p (c_preds c n) -> ~ In p (rem s).
Proof. exact (start_needs_deps c s l s' n). Qed.
Print Assumptions C02_start_needs_deps.

(* the ghost fields used above are exactly the events of the label sequence *)
Theorem C02_finished_is_trace (c : cfg) ls s :
  run c (init c) ls = Some s -> finished s = rev (flat_map dones_of_label ls).
Proof. exact (finished_trace c ls s). Qed.
Print Assumptions C02_finished_is_trace.
