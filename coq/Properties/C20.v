(* C20 — calling a DAG inside a DAG is equivalent to inlining it.
   Iso.v: "system 1 is embedded in system 2 through a renaming rho" — here system 1 is the inner DAG with
   its parameters bound (explicit arguments, defaults for the omitted ones) and system 2 the outer DAG;
   rho is the id prefix.  The theorem: every inner node has, in the outer DAG, exactly the denotation it
   has in the inner DAG evaluated on the bound arguments — for every value type, every pair of tables,
   any nesting depth (compose the embeddings).  With C01_sequential_equals_den (denotation = plain
   sequential evaluation) this is "as if its body had been written in place".  That the table tawazi
   builds for an outer DAG does embed the inner DAG's table (parameters bound, explicit arguments
   overriding defaults, ids prefixed, return references re-exported) is checked on every generated
   nesting by evaluating the executable relation (IsoCheck.embed_check) in coqc on the two real tables.
   Known refusals F10 / F12 are known findings. *)
From Coq Require Import List.
From Tawazi Require Import Args ArgsFacts Graph Sched SchedInv Dataflow DataflowFacts Terms Iso IsoFacts IsoCheck IsoCheckFacts.
Import ListNotations.

Section C20.
Variable val : Type.
Variable vnone : val.
Variable truthy : val -> bool.
Variable index : val -> nat -> option val.
Variables tbl1 tbl2 : nat -> nodeT val.
Variables c1 c2 : cfg.
Variables res1 res2 : results val.
Variable rho : nat -> nat.

Theorem C20_nested_equals_inlined :
  wf c1 -> consistent val tbl1 c1 res1 -> consistent val tbl2 c2 res2 ->
  embeds val vnone truthy index tbl1 tbl2 c1 c2 res1 res2 rho ->
  forall n, In n (R0 c1) ->
    den val vnone truthy index tbl2 c2 res2 (rho n) = den val vnone truthy index tbl1 c1 res1 n.
Proof. exact (den_embed val vnone truthy index tbl1 tbl2 c1 c2 res1 res2 rho). Qed.

(* the same nodes raise *)
Theorem C20_nested_failures :
  wf c1 -> consistent val tbl1 c1 res1 -> consistent val tbl2 c2 res2 ->
  embeds val vnone truthy index tbl1 tbl2 c1 c2 res1 res2 rho ->
  forall n, In n (R0 c1) ->
    (In n (snd (den_eval val vnone truthy index tbl1 c1 res1)) <->
     In (rho n) (snd (den_eval val vnone truthy index tbl2 c2 res2))).
Proof. exact (den_embed_failures val vnone truthy index tbl1 tbl2 c1 c2 res1 res2 rho). Qed.
End C20.
Print Assumptions C20_nested_equals_inlined.
Print Assumptions C20_nested_failures.

(* the executable relation evaluated by the correspondence on the real inner / outer tables implies the
   embedding: when embed_check returns [] on them, every inner node has in the outer DAG the denotation it
   has in the inner DAG with its parameters bound (bound = the inner parameters; their values are, by
   definition, the denotations of the outer argument stubs) *)
Theorem C20_embed_check_den specs1 specs2 c1 c2 res1 res2 rho_l bound :
  embed_check specs1 specs2 c1 c2 res1 res2 rho_l bound = [] ->
  wf (cfg_bind c1 bound) ->
  consistent term (spec_tbl specs1) (cfg_bind c1 bound) (res_bind specs2 c2 res2 rho_l bound res1) ->
  consistent term (spec_tbl specs2) c2 res2 ->
  forall n, In n (Dataflow.R0 (cfg_bind c1 bound)) ->
    den term TNone t_truthy t_index (spec_tbl specs2) c2 res2 (rho_of rho_l n) =
    den term TNone t_truthy t_index (spec_tbl specs1) (cfg_bind c1 bound) (res_bind specs2 c2 res2 rho_l bound res1) n.
Proof. exact (embed_check_den specs1 specs2 c1 c2 res1 res2 rho_l bound). Qed.
Print Assumptions C20_embed_check_den.

(* an explicitly passed argument wins over the parameter's default — whatever its value, None included — and
   a parameter for which no argument is passed keeps its default *)
Theorem C20_explicit_argument_wins (val : Type) (inputs : list nat) (args : list val) (res r : results val) (k i : nat) (a : val) :
  NoDup inputs -> bind val res inputs args = Some r -> nth_error inputs k = Some i -> nth_error args k = Some a ->
  lookup val r i = Some a.
Proof. exact (bind_lookup_arg val inputs args res r k i a). Qed.
Print Assumptions C20_explicit_argument_wins.

Theorem C20_omitted_argument_keeps_default (val : Type) (inputs : list nat) (args : list val) (res r : results val) (k i : nat) :
  NoDup inputs -> bind val res inputs args = Some r -> nth_error inputs k = Some i -> length args <= k ->
  lookup val r i = lookup val res i.
Proof. exact (bind_keeps_default val inputs args res r k i). Qed.
Print Assumptions C20_omitted_argument_keeps_default.
