(* C10 — twz_active runs a node iff the supplied value is truthy; otherwise None. *)
From Coq Require Import List Arith PeanoNat.
From Tawazi Require Import Graph Sched SchedInv SchedGhost Dataflow DataflowFacts.
Import ListNotations.

Section C10.
Variable val : Type.
Variable vnone : val.
Variable truthy : val -> bool.
Variable index : val -> nat -> option val.
Variable tbl : nat -> nodeT val.
Variable c : cfg.
Variable res0 : results val.

(* in every run, the outcome b of the flag test of node n is the truthiness of the DENOTATION of the
   value the flag refers to — constant, DAG argument, node result, or an indexed / unpacked part of one:
   the reference r carries the key path, [rd] applies it — and b = true when there is no flag; when b is
   false the node's result is None (and the node is removed without being started: next theorem) *)
Theorem C10_flag_is_truthiness ls s res n b s' res' :
  wf c -> consistent val tbl c res0 ->
  vrun val vnone truthy index tbl c (init c, res0) ls = Some (s, res) ->
  vstep val vnone truthy index tbl c (s, res) (LActive n b) = Some (s', res') ->
  flag val vnone truthy index tbl res n = Some b /\
  flag val vnone truthy index tbl (fst (den_eval val vnone truthy index tbl c res0)) n = Some b /\
  match n_active val (tbl n) with
  | Some r => exists v, rd val vnone index (fst (den_eval val vnone truthy index tbl c res0)) r = Some v /\ b = truthy v
  | None => b = true
  end /\
  (b = false -> lookup val res' n = Some vnone).
Proof. exact (flag_label_is_truthiness val vnone truthy index tbl c res0 ls s res n b s' res'). Qed.
End C10.
Print Assumptions C10_flag_is_truthiness.

(* a node is started exactly once if its flag was truthy, not at all if it was falsy — and in a run that
   completes every selected node is one or the other: the dependents of a deactivated node still run *)
Theorem C10_run_iff_active (c : cfg) ls s :
  wf c -> run c (init c) ls = Some s -> pc s = PFinished ->
  forall n, In n (diff (c_nodes c) (c_pre c)) ->
    (count_occ Nat.eq_dec (starts_of ls) n = 1 /\ ~ In n (flat_map skips_of_label ls)) \/
    (count_occ Nat.eq_dec (starts_of ls) n = 0 /\ In n (flat_map skips_of_label ls)).
Proof. exact (exactly_once c ls s). Qed.
Print Assumptions C10_run_iff_active.
