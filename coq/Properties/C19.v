(* C19 — a composed DAG computes the outputs from the supplied intermediate values.
   System 1 = the composed DAG (its input nodes pre-computed with the supplied values), system 2 = the
   original pipeline in which the same nodes are overridden by these values; the renaming maps the new
   argument ids back to the original node ids and is the identity elsewhere.  Theorem: every node of the
   composed DAG — in particular every output — denotes what it denotes in the overridden original
   (constants, defaults, setup results are the pre-computed values of system 1, required equal by
   em_pre).  That compose() produces a table that is so embedded (references in args, kwargs AND
   activation flags rewired, key paths kept) is checked on every generated composition by evaluating
   IsoCheck.embed_check in coqc on the two real tables; node set and ValueError conditions against
   Compose.v. *)
From Coq Require Import List.
From Tawazi Require Import Graph Closure Sched SchedInv Dataflow DataflowFacts Terms Iso IsoFacts IsoCheck IsoCheckFacts Compose ComposeFacts.
Import ListNotations.

Section C19.
Variable val : Type.
Variable vnone : val.
Variable truthy : val -> bool.
Variable index : val -> nat -> option val.
Variables tbl1 tbl2 : nat -> nodeT val.
Variables c1 c2 : cfg.
Variables res1 res2 : results val.
Variable rho : nat -> nat.

Theorem C19_composed_equals_overridden_original :
  wf c1 -> consistent val tbl1 c1 res1 -> consistent val tbl2 c2 res2 ->
  embeds val vnone truthy index tbl1 tbl2 c1 c2 res1 res2 rho ->
  forall n, In n (R0 c1) ->
    den val vnone truthy index tbl2 c2 res2 (rho n) = den val vnone truthy index tbl1 c1 res1 n.
Proof. exact (den_embed val vnone truthy index tbl1 tbl2 c1 c2 res1 res2 rho). Qed.
End C19.
Print Assumptions C19_composed_equals_overridden_original.

(* which nodes the composed DAG holds: the inputs, the outputs, and exactly the nodes the outputs need,
   never going behind an input *)
Theorem C19_compose_set_spec (preds : nat -> list nat) (nodes required ins outs S : list nat) :
  compose_set preds nodes required ins outs = Some S ->
  forall x, In x S <-> In x ins \/ In x outs \/ needed preds nodes ins outs x.
Proof. exact (compose_set_spec preds nodes required ins outs S). Qed.
Print Assumptions C19_compose_set_spec.

Theorem C19_compose_only_needed (preds : nat -> list nat) (nodes required ins outs S : list nat) :
  incl outs nodes -> compose_set preds nodes required ins outs = Some S ->
  forall x, In x S -> In x ins \/ exists o, In o outs /\ reach preds nodes x o.
Proof. exact (compose_only_needed preds nodes required ins outs S). Qed.
Print Assumptions C19_compose_only_needed.

(* ValueError iff an input is a strict ancestor of another input, or the outputs need a DAG parameter
   without default that was not declared as input *)
Theorem C19_compose_error_iff (preds : nat -> list nat) (nodes required ins outs : list nat) :
  compose_set preds nodes required ins outs = None <->
  (exists i j, In i ins /\ In j ins /\ In i (strict_anc preds nodes j)) \/
  (exists r, In r required /\ needed preds nodes ins outs r).
Proof. exact (compose_set_error_iff' preds nodes required ins outs). Qed.
Print Assumptions C19_compose_error_iff.

(* the executable relation evaluated by the correspondence on the composed and the original table
   implies the embedding *)
Theorem C19_embed_check_sound specs1 specs2 c1 c2 res1 res2 rho_l bound :
  embed_check specs1 specs2 c1 c2 res1 res2 rho_l bound = [] ->
  embeds term TNone t_truthy t_index (spec_tbl specs1) (spec_tbl specs2)
         (cfg_bind c1 bound) c2 (res_bind specs2 c2 res2 rho_l bound res1) res2 (rho_of rho_l).
Proof. exact (embed_check_sound specs1 specs2 c1 c2 res1 res2 rho_l bound). Qed.
Print Assumptions C19_embed_check_sound.
