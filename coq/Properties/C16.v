(* C16 — tawazi is thread-safe: concurrent runs and builds do not interfere.
   Threads.v: an interleaving semantics of thread programs over the shared build state (lock owner, the
   process-global node table).  PARTIAL: the atomic actions are Python-level calls; data races inside
   CPython dict operations, and anything below the GIL, are not expressible in this model.  Concurrent
   CALLS of one DAG share nothing mutable: each execution has its own results / node copies / graph (the
   scheduler model's state is created per run by [init]), which is why C01 applies to each of them;
   that is tied by K-thread (4 threads x 3 calls with distinct arguments). *)
From Coq Require Import List.
From Tawazi Require Import Threads ThreadsFacts.
Import ListNotations.

(* with the repaired predicate ("the build lock is held BY ME"), for every set of thread programs and
   every interleaving: each thread observes exactly what it would observe running alone — DAGs built,
   calls of finished DAGs, calls of decorated functions outside any DAG *)
Theorem C16_build_noninterference ps sched log ps' st' :
  NoDup (map fst ps) ->
  (forall t p, In (t, p) ps -> well_bracketed false p = true) ->
  run_sched mine ps init_shared sched = Some (log, ps', st') ->
  forall t p, In (t, p) ps ->
    obs_of t log ++ alone (get_prog ps' t) (tbl_of t st') = alone p [] /\
    (exists k, obs_of t log = firstn k (alone p [])) /\
    (get_prog ps' t = [] -> obs_of t log = alone p []).
Proof. exact (build_noninterference ps sched log ps' st'). Qed.
Print Assumptions C16_build_noninterference.

(* DAGs built concurrently are the DAGs their describing functions build alone *)
Theorem C16_builds_identical ps sched log ps' st' :
  NoDup (map fst ps) ->
  (forall t p, In (t, p) ps -> well_bracketed false p = true) ->
  run_sched mine ps init_shared sched = Some (log, ps', st') ->
  forall t p tbl, In (t, p) ps -> In (t, OBuilt tbl) log -> In (OBuilt tbl) (alone p []).
Proof. exact (builds_identical ps sched log ps' st'). Qed.
Print Assumptions C16_builds_identical.

(* at most one thread is inside a describing function at any time *)
Theorem C16_lock_excludes d ps sched log ps' st' :
  lockful d -> NoDup (map fst ps) ->
  (forall t p, In (t, p) ps -> well_bracketed false p = true) ->
  run_sched d ps init_shared sched = Some (log, ps', st') ->
  inside_count ps' = match owner st' with None => 0 | Some _ => 1 end.
Proof. exact (lock_excludes_count d ps sched log ps' st'). Qed.
Print Assumptions C16_lock_excludes.

(* machine-checked record of defect F8 (predicate of the pinned commit: "the lock is held by anyone"):
   a call in thread 2 while thread 1 is inside its describing function is recorded into thread 1's DAG *)
Theorem C16_build_noninterference_refuted :
  exists ps sched log ps' st' t p,
    NoDup (map fst ps) /\
    (forall t p, In (t, p) ps -> well_bracketed false p = true) /\
    run_sched anyone ps init_shared sched = Some (log, ps', st') /\
    In (t, p) ps /\ get_prog ps' t = [] /\ obs_of t log <> alone p [].
Proof. exact build_noninterference_refuted. Qed.
Print Assumptions C16_build_noninterference_refuted.
