(* C16 — tawazi is thread-safe: concurrent runs and builds do not interfere.
   Threads.v: an interleaving semantics of thread programs over the shared build state (lock owner, the
   process-global node table).  PARTIAL: the atomic actions are Python-level calls; data races inside
   CPython dict operations, and anything below the GIL, are not expressible in this model.  Concurrent
   CALLS of one DAG share nothing mutable: each execution has its own results / node copies / graph (the
   scheduler model's state is created per run by [init]), which is why C01 applies to each of them;
   that is tied by K-thread (4 threads x 3 calls with distinct arguments). *)
From Coq Require Import List.
From Tawazi Require Import Threads ThreadsFacts.
From Tawazi Require Import Graph Sched SchedInv Dataflow DataflowFacts Concurrent ConcurrentFacts.
Import ListNotations.

(* with the repaired predicate ("the build lock is held BY ME"), for every set of thread programs and
   every interleaving: each thread observes exactly what it would observe running alone — DAGs built,
   calls of finished DAGs, calls of decorated functions outside any DAG *)
Theorem C16_build_noninterference ps sched log ps' st' :
  NoDup (map fst ps) ->
  (forall t p, In (t, p) ps -> well_bracketed false p = true) ->
  run_sched mine ps init_shared sched = Some (log, ps', st') ->
  forall t p, In (t, p) ps ->
    obs_of t log ++ alone (get_prog ps' t) (tbl_of t st') = alone p [] /\
    (exists k, obs_of t log = firstn k (alone p [])) /\
    (get_prog ps' t = [] -> obs_of t log = alone p []).
Proof. exact (build_noninterference ps sched log ps' st'). Qed.
Print Assumptions C16_build_noninterference.

(* DAGs built concurrently are the DAGs their describing functions build alone *)
Theorem C16_builds_identical ps sched log ps' st' :
  NoDup (map fst ps) ->
  (forall t p, In (t, p) ps -> well_bracketed false p = true) ->
  run_sched mine ps init_shared sched = Some (log, ps', st') ->
  forall t p tbl, In (t, p) ps -> In (t, OBuilt tbl) log -> In (OBuilt tbl) (alone p []).
Proof. exact (builds_identical ps sched log ps' st'). Qed.
Print Assumptions C16_builds_identical.

(* at most one thread is inside a describing function at any time *)
Theorem C16_lock_excludes d ps sched log ps' st' :
  lockful d -> NoDup (map fst ps) ->
  (forall t p, In (t, p) ps -> well_bracketed false p = true) ->
  run_sched d ps init_shared sched = Some (log, ps', st') ->
  inside_count ps' = match owner st' with None => 0 | Some _ => 1 end.
Proof. exact (lock_excludes_count d ps sched log ps' st'). Qed.
Print Assumptions C16_lock_excludes.

(* machine-checked record of defect F8 (predicate of the pinned commit: "the lock is held by anyone"):
   a call in thread 2 while thread 1 is inside its describing function is recorded into thread 1's DAG *)
Theorem C16_build_noninterference_refuted :
  exists ps sched log ps' st' t p,
    NoDup (map fst ps) /\
    (forall t p, In (t, p) ps -> well_bracketed false p = true) /\
    run_sched anyone ps init_shared sched = Some (log, ps', st') /\
    In (t, p) ps /\ get_prog ps' t = [] /\ obs_of t log <> alone p [].
Proof. exact build_noninterference_refuted. Qed.
Print Assumptions C16_build_noninterference_refuted.

(* CONCURRENT CALLS OF ONE DAG (Concurrent.v): any number of executions of one DAG, each started from its own
   start map (DAG-level setup results + that call's arguments, Args.bind / Cache.start_map), interleaved in ANY
   way: what call i has computed is the denotation of ITS OWN start map, and if it finished it computed all
   of it - whatever the other calls do (they may fail, stall or finish). *)
Section Calls.
Variable val : Type.
Variable vnone : val.
Variable truthy : val -> bool.
Variable index : val -> nat -> option val.
Variable tbl : nat -> nodeT val.
Variable c : cfg.

Theorem C16_concurrent_calls_isolated starts ils g' i r0 s res :
  wf c -> consistent val tbl c r0 ->
  grun val vnone truthy index tbl c (ginit val c starts) ils = Some g' ->
  nth_error starts i = Some r0 -> nth_error g' i = Some (s, res) ->
  (forall n v, lookup val res n = Some v -> den val vnone truthy index tbl c r0 n = Some v) /\
  (pc s = PFinished -> forall n, lookup val res n = den val vnone truthy index tbl c r0 n).
Proof. exact (concurrent_calls_isolated val vnone truthy index tbl c starts ils g' i r0 s res). Qed.

(* a step of one call leaves the state and the results of every other call untouched *)
Theorem C16_step_of_one_call_frames_the_others g j l g' i :
  gstep val vnone truthy index tbl c g (j, l) = Some g' -> i <> j -> nth_error g' i = nth_error g i.
Proof. exact (gstep_frame val vnone truthy index tbl c g j l g' i). Qed.

(* the projection of a global run onto one call is a run of the single-call scheduler: every theorem about
   one execution (C02-C06, C09, C14) holds of each concurrent one *)
Theorem C16_projection_is_a_run ils g g' i sr :
  grun val vnone truthy index tbl c g ils = Some g' -> nth_error g i = Some sr ->
  exists sr', nth_error g' i = Some sr' /\ vrun val vnone truthy index tbl c sr (proj i ils) = Some sr'.
Proof. exact (grun_proj val vnone truthy index tbl c ils g g' i sr). Qed.

(* non-vacuity of the interleaving semantics: single-call runs accepted one by one are accepted as a global
   run, ending in the same per-call states *)
Theorem C16_every_family_of_runs_is_an_interleaving runs i (g : gstate val) (finals : list (call val)) :
  length runs = length finals ->
  (forall k ls, nth_error runs k = Some ls -> exists sr sr', nth_error g (i + k) = Some sr /\ nth_error finals k = Some sr' /\
      vrun val vnone truthy index tbl c sr ls = Some sr') ->
  exists g', grun val vnone truthy index tbl c g (serial i runs) = Some g' /\
    (forall k sr', nth_error finals k = Some sr' -> nth_error g' (i + k) = Some sr') /\
    (forall m, m < i -> nth_error g' m = nth_error g m).
Proof. exact (serial_accepted val vnone truthy index tbl c runs i g finals). Qed.
End Calls.
Print Assumptions C16_concurrent_calls_isolated.
Print Assumptions C16_step_of_one_call_frames_the_others.
Print Assumptions C16_projection_is_a_run.
Print Assumptions C16_every_family_of_runs_is_an_interleaving.
