(* C06 — the node that starts is always a highest-compound-priority ready node.
   "ready" = remaining, every dependency observed finished (a root of the remaining graph) and not
   handed out.  c_prio is the compound-priority table attached to the executed graph (that this table
   is the documented function of the DAG, also after sub-graph selection, is C07). *)
From Coq Require Import List ZArith.
From Tawazi Require Import Graph Sched SchedInv SchedPrio.
Import ListNotations.

(* the scheduler's candidate set is exactly the spec's ready set (plus the node it has just taken) *)
Theorem C06_candidates_are_the_ready_nodes (c : cfg) s m :
  wf c -> reachable c s -> alive s ->
  (ready c s m <-> In m (runnable s) \/ In m (cur (pc s))).
Proof. exact (ready_iff c s m). Qed.
Print Assumptions C06_candidates_are_the_ready_nodes.

Theorem C06_pick_is_max_ready (c : cfg) s n s' :
  wf c -> reachable c s -> step c s (LPick n) = Some s' ->
  ready c s n /\ forall m, ready c s m -> (c_prio c m <= c_prio c n)%Z.
Proof. exact (pick_is_max_ready c s n s'). Qed.
Print Assumptions C06_pick_is_max_ready.

(* at the moment a node is handed to a worker, entered inline, or skipped as deactivated, no ready node
   has a strictly greater compound priority *)
Theorem C06_start_is_max_ready (c : cfg) s l s' n :
  wf c -> reachable c s -> step c s l = Some s' ->
  ((exists k, l = LSubmit k n) \/ (exists ok, l = LInline n ok) \/ l = LActive n false) ->
  ready c s n /\ forall m, ready c s m -> (c_prio c m <= c_prio c n)%Z.
Proof. exact (start_is_max_ready c s l s' n). Qed.
Print Assumptions C06_start_is_max_ready.
