(* C17 — AsyncDAG equals DAG, concurrent awaits are isolated, the loop stays free.
   Both flavours run the same coroutine async_execute (DAG.__call__ wraps it in asyncio.run,
   helpers.py:211-224): the scheduler model has no flavour parameter, so "the AsyncDAG returns the same
   value, executes the same nodes, stores the same setup results" is: any two complete runs do.
   Each execution owns its state ([init] per run): concurrent awaits are independent runs.
   PARTIAL: the event loop itself is not modelled; liveness of sibling coroutines is monitored. *)
From Coq Require Import List.
From Tawazi Require Import Graph Sched SchedInv SchedGhost Dataflow DataflowFacts SameNodes SchedAsync.
Import ListNotations.

Section C17.
Variable val : Type.
Variable vnone : val.
Variable truthy : val -> bool.
Variable index : val -> nat -> option val.
Variable tbl : nat -> nodeT val.
Variable c : cfg.
Variable res0 : results val.

(* same values *)
Theorem C17_same_values ls1 s1 res1 ls2 s2 res2 :
  wf c -> consistent val tbl c res0 ->
  vrun val vnone truthy index tbl c (init c, res0) ls1 = Some (s1, res1) ->
  vrun val vnone truthy index tbl c (init c, res0) ls2 = Some (s2, res2) ->
  (forall n v1 v2, lookup val res1 n = Some v1 -> lookup val res2 n = Some v2 -> v1 = v2) /\
  (pc s1 = PFinished -> pc s2 = PFinished -> forall n, lookup val res1 n = lookup val res2 n).
Proof. exact (schedule_independent val vnone truthy index tbl c res0 ls1 s1 res1 ls2 s2 res2). Qed.

(* same nodes executed, same nodes skipped (the stored setup results are among the values above) *)
Theorem C17_same_nodes ls1 s1 res1 ls2 s2 res2 :
  wf c -> consistent val tbl c res0 ->
  vrun val vnone truthy index tbl c (init c, res0) ls1 = Some (s1, res1) ->
  vrun val vnone truthy index tbl c (init c, res0) ls2 = Some (s2, res2) ->
  pc s1 = PFinished -> pc s2 = PFinished ->
  (forall n, In n (starts_of ls1) <-> In n (starts_of ls2)) /\
  (forall n, In n (flat_map skips_of_label ls1) <-> In n (flat_map skips_of_label ls2)).
Proof. exact (finished_runs_same_nodes val vnone truthy index tbl c res0 ls1 s1 res1 ls2 s2 res2). Qed.
End C17.
Print Assumptions C17_same_values.
Print Assumptions C17_same_nodes.

(* while only async-thread nodes are executed, no step of the scheduler blocks the event-loop thread:
   every blocking point is an `await` *)
Theorem C17_loop_free_while_async (c : cfg) s l s' :
  wf c -> (forall n, c_res c n = RAsync) -> reachable c s -> step c s l = Some s' -> blocks_loop s l = false.
Proof. exact (loop_free_while_async c s l s'). Qed.
Print Assumptions C17_loop_free_while_async.

(* in general the loop is blocked only by main-thread nodes and by waits on thread-resource nodes *)
Theorem C17_loop_blocked_only_by_threads (c : cfg) s l s' :
  wf c -> reachable c s -> step c s l = Some s' -> blocks_loop s l = true ->
  (exists n ok, l = LInline n ok /\ c_res c n = RMain) \/
  (exists m dones x, l = LWait KC m dones /\ In x (conc s) /\ c_res c x = RThread).
Proof. exact (loop_blocked_only_by_threads c s l s'). Qed.
Print Assumptions C17_loop_blocked_only_by_threads.
