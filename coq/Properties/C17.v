(* C17 — AsyncDAG equals DAG, concurrent awaits are isolated, the loop stays free.
   Both flavours run the same coroutine async_execute (DAG.__call__ wraps it in asyncio.run,
   helpers.py:211-224): the scheduler model has no flavour parameter, so "the AsyncDAG returns the same
   value, executes the same nodes, stores the same setup results" is: any two complete runs do.
   Each execution owns its state ([init] per run): concurrent awaits are independent runs.
   PARTIAL: the event loop itself is not modelled; liveness of sibling coroutines is monitored. *)
From Coq Require Import List.
From Tawazi Require Import Graph Sched SchedInv SchedGhost Dataflow DataflowFacts SameNodes SchedAsync Concurrent ConcurrentFacts.
Import ListNotations.

Section C17.
Variable val : Type.
Variable vnone : val.
Variable truthy : val -> bool.
Variable index : val -> nat -> option val.
Variable tbl : nat -> nodeT val.
Variable c : cfg.
Variable res0 : results val.

(* same values *)
Theorem C17_same_values ls1 s1 res1 ls2 s2 res2 :
  wf c -> consistent val tbl c res0 ->
  vrun val vnone truthy index tbl c (init c, res0) ls1 = Some (s1, res1) ->
  vrun val vnone truthy index tbl c (init c, res0) ls2 = Some (s2, res2) ->
  (forall n v1 v2, lookup val res1 n = Some v1 -> lookup val res2 n = Some v2 -> v1 = v2) /\
  (pc s1 = PFinished -> pc s2 = PFinished -> forall n, lookup val res1 n = lookup val res2 n).
Proof. exact (schedule_independent val vnone truthy index tbl c res0 ls1 s1 res1 ls2 s2 res2). Qed.

(* same nodes executed, same nodes skipped (the stored setup results are among the values above) *)
Theorem C17_same_nodes ls1 s1 res1 ls2 s2 res2 :
  wf c -> consistent val tbl c res0 ->
  vrun val vnone truthy index tbl c (init c, res0) ls1 = Some (s1, res1) ->
  vrun val vnone truthy index tbl c (init c, res0) ls2 = Some (s2, res2) ->
  pc s1 = PFinished -> pc s2 = PFinished ->
  (forall n, In n (starts_of ls1) <-> In n (starts_of ls2)) /\
  (forall n, In n (flat_map skips_of_label ls1) <-> In n (flat_map skips_of_label ls2)).
Proof. exact (finished_runs_same_nodes val vnone truthy index tbl c res0 ls1 s1 res1 ls2 s2 res2). Qed.
End C17.
Print Assumptions C17_same_values.
Print Assumptions C17_same_nodes.

(* while only async-thread nodes are executed, no step of the scheduler blocks the event-loop thread:
   every blocking point is an `await` *)
Theorem C17_loop_free_while_async (c : cfg) s l s' :
  wf c -> (forall n, c_res c n = RAsync) -> reachable c s -> step c s l = Some s' -> blocks_loop s l = false.
Proof. exact (loop_free_while_async c s l s'). Qed.
Print Assumptions C17_loop_free_while_async.

(* in general the loop is blocked only by main-thread nodes and by waits on thread-resource nodes *)
Theorem C17_loop_blocked_only_by_threads (c : cfg) s l s' :
  wf c -> reachable c s -> step c s l = Some s' -> blocks_loop s l = true ->
  (exists n ok, l = LInline n ok /\ c_res c n = RMain) \/
  (exists m dones x, l = LWait KC m dones /\ In x (conc s) /\ c_res c x = RThread).
Proof. exact (loop_blocked_only_by_threads c s l s'). Qed.
Print Assumptions C17_loop_blocked_only_by_threads.

(* CONCURRENT AWAITS OF ONE DAG (Concurrent.v): any number of executions of one DAG, each started from its own
   start map (DAG-level setup results + that call's arguments, Args.bind / Cache.start_map), interleaved in ANY
   way: what call i has computed is the denotation of ITS OWN start map, and if it finished it computed all
   of it - whatever the other calls do (they may fail, stall or finish). *)
Section Calls.
Variable val : Type.
Variable vnone : val.
Variable truthy : val -> bool.
Variable index : val -> nat -> option val.
Variable tbl : nat -> nodeT val.
Variable c : cfg.

Theorem C17_concurrent_calls_isolated starts ils g' i r0 s res :
  wf c -> consistent val tbl c r0 ->
  grun val vnone truthy index tbl c (ginit val c starts) ils = Some g' ->
  nth_error starts i = Some r0 -> nth_error g' i = Some (s, res) ->
  (forall n v, lookup val res n = Some v -> den val vnone truthy index tbl c r0 n = Some v) /\
  (pc s = PFinished -> forall n, lookup val res n = den val vnone truthy index tbl c r0 n).
Proof. exact (concurrent_calls_isolated val vnone truthy index tbl c starts ils g' i r0 s res). Qed.

(* a step of one call leaves the state and the results of every other call untouched *)
Theorem C17_step_of_one_call_frames_the_others g j l g' i :
  gstep val vnone truthy index tbl c g (j, l) = Some g' -> i <> j -> nth_error g' i = nth_error g i.
Proof. exact (gstep_frame val vnone truthy index tbl c g j l g' i). Qed.

(* the projection of a global run onto one call is a run of the single-call scheduler: every theorem about
   one execution (C02-C06, C09, C14) holds of each concurrent one *)
Theorem C17_projection_is_a_run ils g g' i sr :
  grun val vnone truthy index tbl c g ils = Some g' -> nth_error g i = Some sr ->
  exists sr', nth_error g' i = Some sr' /\ vrun val vnone truthy index tbl c sr (proj i ils) = Some sr'.
Proof. exact (grun_proj val vnone truthy index tbl c ils g g' i sr). Qed.

(* non-vacuity of the interleaving semantics: single-call runs accepted one by one are accepted as a global
   run, ending in the same per-call states *)
Theorem C17_every_family_of_runs_is_an_interleaving runs i (g : gstate val) (finals : list (call val)) :
  length runs = length finals ->
  (forall k ls, nth_error runs k = Some ls -> exists sr sr', nth_error g (i + k) = Some sr /\ nth_error finals k = Some sr' /\
      vrun val vnone truthy index tbl c sr ls = Some sr') ->
  exists g', grun val vnone truthy index tbl c g (serial i runs) = Some g' /\
    (forall k sr', nth_error finals k = Some sr' -> nth_error g' (i + k) = Some sr') /\
    (forall m, m < i -> nth_error g' m = nth_error g m).
Proof. exact (serial_accepted val vnone truthy index tbl c runs i g finals). Qed.
End Calls.
Print Assumptions C17_concurrent_calls_isolated.
Print Assumptions C17_step_of_one_call_frames_the_others.
Print Assumptions C17_projection_is_a_run.
Print Assumptions C17_every_family_of_runs_is_an_interleaving.
