(* C01 — a DAG call returns exactly what the plain Python function would return.
   Two halves.  (1) Proved here, for every value type, node table, configuration and schedule: every run
   of the scheduler computes the DENOTATION of the node table, and the denotation equals the sequential
   ("plain Python": one statement after the other, a deactivated call yielding None) evaluation of the
   table in any dependency order.  max_concurrency, priorities, is_sequential flags and resources occur in
   the configuration c but not in [den]: they may change the schedule, never the value; the sync / async
   flavour is not a parameter of the scheduler model at all.  (2) That the node table tawazi builds
   from a describing function is the one the function denotes is checked on every run by the
   correspondence: K-value compares the DAG's value with the plain-Python evaluation of the same
   describing function and with the denotation of the table the implementation built. *)
From Coq Require Import List Permutation.
From Tawazi Require Import Graph Sched SchedInv Dataflow DataflowFacts.
Import ListNotations.

Section C01.
Variable val : Type.
Variable vnone : val.
Variable truthy : val -> bool.
Variable index : val -> nat -> option val.
Variable tbl : nat -> nodeT val.
Variable c : cfg.
Variable res0 : results val.

(* every value any accepted run stores is the denotation's *)
Theorem C01_sched_computes_den ls s res :
  wf c -> consistent val tbl c res0 ->
  vrun val vnone truthy index tbl c (init c, res0) ls = Some (s, res) ->
  forall n v, lookup val res n = Some v -> den val vnone truthy index tbl c res0 n = Some v.
Proof. exact (sched_computes_den val vnone truthy index tbl c res0 ls s res). Qed.

(* a run that completes has computed exactly the denotation, for every node *)
Theorem C01_finished_run_equals_den ls s res :
  wf c -> consistent val tbl c res0 ->
  vrun val vnone truthy index tbl c (init c, res0) ls = Some (s, res) -> pc s = PFinished ->
  (forall n, In n (diff (c_nodes c) (c_pre c)) ->
     exists v, lookup val res n = Some v /\ den val vnone truthy index tbl c res0 n = Some v) /\
  (forall n, lookup val res n = den val vnone truthy index tbl c res0 n) /\
  snd (den_eval val vnone truthy index tbl c res0) = [].
Proof. exact (finished_run_equals_den val vnone truthy index tbl c res0 ls s res). Qed.

(* any two schedules agree on every value *)
Theorem C01_schedule_independent ls1 s1 res1 ls2 s2 res2 :
  wf c -> consistent val tbl c res0 ->
  vrun val vnone truthy index tbl c (init c, res0) ls1 = Some (s1, res1) ->
  vrun val vnone truthy index tbl c (init c, res0) ls2 = Some (s2, res2) ->
  (forall n v1 v2, lookup val res1 n = Some v1 -> lookup val res2 n = Some v2 -> v1 = v2) /\
  (pc s1 = PFinished -> pc s2 = PFinished -> forall n, lookup val res1 n = lookup val res2 n).
Proof. exact (schedule_independent val vnone truthy index tbl c res0 ls1 s1 res1 ls2 s2 res2). Qed.

(* the plain sequential evaluation, statement after statement in any dependency order, is the denotation *)
Theorem C01_sequential_equals_den order :
  wf c -> consistent val tbl c res0 ->
  Permutation order (diff (c_nodes c) (c_pre c)) -> topo val tbl c order ->
  forall n, lookup val (fst (fold_left (eval_one val vnone truthy index tbl c) order (res0, []))) n
            = den val vnone truthy index tbl c res0 n.
Proof. exact (sequential_equals_den val vnone truthy index tbl c res0 order). Qed.
End C01.
Print Assumptions C01_sched_computes_den.
Print Assumptions C01_finished_run_equals_den.
Print Assumptions C01_schedule_independent.
Print Assumptions C01_sequential_equals_den.
