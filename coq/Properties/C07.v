(* C07 — compound priority is a deterministic, documented function of the DAG. *)
From Coq Require Import List ZArith Permutation.
From Tawazi Require Import Graph Closure Priority PriorityFacts Sched SchedInv SchedPrio.
From Tawazi Require Reconf ReconfFacts Greedy GreedyFacts.
From Coq Require Import ZArith.
Import ListNotations.

(* own priority + the priorities of the SET of distinct descendants, each counted once, however many
   paths lead to it: the value equals the sum over ANY duplicate-free enumeration of the nodes reachable
   from n (n excluded) *)
Theorem C07_cprio_spec (preds : nat -> list nat) (prio : nat -> Z) nodes n l :
  NoDup l -> (forall m, In m l <-> (m <> n /\ reach preds nodes n m)) ->
  cprio preds prio nodes n = (prio n + zsum (map prio l))%Z.
Proof. exact (cprio_any_enumeration preds prio nodes n l). Qed.
Print Assumptions C07_cprio_spec.

(* the iteration order of the node container (Python dict / set order, i.e. the hash seed) is
   irrelevant: any two containers with the same elements give the same value *)
Theorem C07_cprio_order_independent (preds : nat -> list nat) (prio : nat -> Z) nodes nodes' n :
  (forall x, In x nodes <-> In x nodes') -> cprio preds prio nodes' n = cprio preds prio nodes n.
Proof. exact (cprio_order_independent preds prio nodes nodes' n). Qed.
Print Assumptions C07_cprio_order_independent.

(* consequently, with max_concurrency = 1 and no ties, the whole run — in particular the order in
   which nodes start — is unique: any two failure-free complete runs with the same flag values are equal *)
Theorem C07_unique_order_maxc1 (c : cfg) (act : nat -> bool) ls1 ls2 s1 s2 :
  wf c -> c_maxc c = 1 -> prio_injective c ->
  run c (init c) ls1 = Some s1 -> pc s1 = PFinished ->
  run c (init c) ls2 = Some s2 -> pc s2 = PFinished ->
  Forall (good act) ls1 -> Forall (good act) ls2 -> ls1 = ls2.
Proof. exact (unique_order_maxc1 c act ls1 ls2 s1 s2). Qed.
Print Assumptions C07_unique_order_maxc1.

(* machine-checked record of defect F1 in the algorithm of the pinned commit (repaired by the
   "fix: compound priority counts each distinct descendant once" commit): it counted a descendant once
   per path, and its result depended on the iteration order of Python sets *)
Theorem C07_legacy_counts_per_path_refuted :
  exists preds prio nodes n, tget (legacy_cprio preds prio (fun l => l) nodes) n <> cprio preds prio nodes n.
Proof. exact legacy_counts_per_path_refuted. Qed.
Print Assumptions C07_legacy_counts_per_path_refuted.

Theorem C07_legacy_order_dependent_refuted :
  exists preds prio nodes order1 order2 n,
    tget (legacy_cprio preds prio order1 nodes) n <> tget (legacy_cprio preds prio order2 nodes) n.
Proof. exact legacy_order_dependent_refuted. Qed.
Print Assumptions C07_legacy_order_dependent_refuted.

(* the priorities the compound-priority table is recomputed from after a reconfiguration: a node no key
   reaches keeps its priority, entries that name only is_sequential keep every priority, a step that raises
   changes nothing *)
Theorem C07_reconfiguration_frame (nodes : list nat) (tagged : nat -> list nat) (st : Reconf.cstate) (c : Reconf.cstep) (st' : Reconf.cstate) (l : list (nat * Reconf.centry)) (n : nat) :
  Reconf.step nodes tagged st c = Some st' -> Reconf.expand nodes tagged (Reconf.c_entries c) = Some l -> ~ In n (map fst l) ->
  Reconf.s_attr st' n = Reconf.s_attr st n.
Proof. exact (ReconfFacts.step_untouched nodes tagged st c st' l n). Qed.
Print Assumptions C07_reconfiguration_frame.

Theorem C07_sequential_only_reconfiguration_keeps_priorities (nodes : list nat) (tagged : nat -> list nat) (cs : list Reconf.cstep) (st : Reconf.cstate) :
  (forall c a e, In c cs -> In (a, e) (Reconf.c_entries c) -> Reconf.e_prio e = None) ->
  forall n, Reconf.a_prio (Reconf.s_attr (Reconf.run nodes tagged st cs) n) = Reconf.a_prio (Reconf.s_attr st n).
Proof. exact (ReconfFacts.run_seq_only nodes tagged cs st). Qed.
Print Assumptions C07_sequential_only_reconfiguration_keeps_priorities.

Theorem C07_raising_reconfiguration_changes_nothing (nodes : list nat) (tagged : nat -> list nat) (st : Reconf.cstate) (c : Reconf.cstep) :
  Reconf.step nodes tagged st c = None -> Reconf.step_total nodes tagged st c = st.
Proof. exact (ReconfFacts.step_error_unchanged nodes tagged st c). Qed.
Print Assumptions C07_raising_reconfiguration_changes_nothing.

(* ... and that unique order is the DOCUMENTED one: Greedy.greedy_order, a function of the declared configuration
   alone (nodes, dependencies, compound priorities) - repeatedly the root of the remaining graph with the greatest
   compound priority.  Every complete run resolves (submits / executes inline / skips) its nodes in exactly that
   order; the order is a topological order of all the nodes to run.  K-graph evaluates greedy_order in coqc and
   compares it with the order the implementation executed. *)
Theorem C07_greedy_is_the_order (c : cfg) (ls : list label) (s : state) :
  wf c -> c_maxc c = 1 -> prio_injective c ->
  run c (init c) ls = Some s -> pc s = PFinished ->
  Greedy.order_of ls = Greedy.greedy_order c.
Proof. exact (GreedyFacts.greedy_is_the_order_strong c ls s). Qed.
Print Assumptions C07_greedy_is_the_order.

Theorem C07_greedy_order_is_a_topological_enumeration (c : cfg) :
  wf c ->
  Permutation.Permutation (Greedy.greedy_order c) (diff (c_nodes c) (c_pre c)) /\
  (forall pre n post p, Greedy.greedy_order c = pre ++ n :: post -> In p (c_preds c n) -> In p (diff (c_nodes c) (c_pre c)) -> In p pre).
Proof. intros W. split; [exact (GreedyFacts.greedy_order_perm c W)|exact (GreedyFacts.greedy_order_topological c)]. Qed.
Print Assumptions C07_greedy_order_is_a_topological_enumeration.
