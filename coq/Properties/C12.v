(* C12 — target / exclude / root selection executes exactly the documented closure. *)
From Coq Require Import List.
From Tawazi Require Import Graph Closure Select SelectFacts SelectSpec.
Import ListNotations.

(* the selected node set, with all three closures taken in the FULL graph (the code computes the
   exclude / target closures inside the already pruned graph; under the property's hypothesis — every
   excluded node lies inside the part selected by the roots — that is the same set) *)
Theorem C12_selection_spec (preds : nat -> list nat) nodes target exclude root g :
  make_subgraph preds nodes target exclude root = SelOk g ->
  (forall X, exclude = Some X -> forall x0, In x0 X -> In x0 (g1_of preds nodes root)) ->
  forall x, In x g <->
    In x nodes
    /\ (forall R, root = Some R -> exists r, In r R /\ reach preds nodes r x)
    /\ (forall X, exclude = Some X -> ~ exists x0, In x0 X /\ reach preds nodes x0 x)
    /\ (forall T, target = Some T -> exists t, In t T /\ reach preds nodes x t).
Proof. exact (selection_spec_full preds nodes target exclude root g). Qed.
Print Assumptions C12_selection_spec.

(* ValueError iff a requested root is not a root of the full graph or a target is not in the pruned graph *)
Theorem C12_selection_errors (preds : nat -> list nat) nodes target exclude root :
  make_subgraph preds nodes target exclude root = SelValueError <->
  (exists R, root = Some R /\ exists r, In r R /\ ~ In r (roots preds nodes)) \/
  (exists T g1, target = Some T /\ after_root preds nodes root = SelOk g1 /\
                exists t, In t T /\ ~ In t (after_exclude preds g1 exclude)).
Proof. exact (make_subgraph_error_iff preds nodes target exclude root). Qed.
Print Assumptions C12_selection_errors.

(* the selection is a duplicate-free subset of the DAG's nodes (so the executed configuration is
   well-formed and the scheduler theorems C02-C09, C14 apply to executor runs as they do to calls) *)
Theorem C12_selection_subset (preds : nat -> list nat) nodes target exclude root g :
  make_subgraph preds nodes target exclude root = SelOk g -> forall x, In x g -> In x nodes.
Proof. exact (make_subgraph_subset preds (fun _ => false) (fun _ => false) nodes target exclude root g). Qed.
Print Assumptions C12_selection_subset.

Theorem C12_selection_NoDup (preds : nat -> list nat) nodes target exclude root g :
  NoDup nodes -> make_subgraph preds nodes target exclude root = SelOk g -> NoDup g.
Proof. exact (make_subgraph_NoDup preds nodes target exclude root g). Qed.
Print Assumptions C12_selection_NoDup.

(* an error of the selection is an error of the executor: nothing runs *)
Theorem C12_executor_error_iff (preds : nat -> list nat) debug nodes target exclude root b :
  executor_graph preds debug nodes target exclude root b = SelValueError <->
  make_subgraph preds nodes target exclude root = SelValueError.
Proof. exact (executor_error_iff preds debug nodes target exclude root b). Qed.
Print Assumptions C12_executor_error_iff.
