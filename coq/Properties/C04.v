(* C04 — at most max_concurrency pooled nodes in flight; resources decide the thread.
   This file holds only the property theorems, each closed by an exact reference to a lemma of the
   development, with Print Assumptions beneath it. *)
From Coq Require Import List.
From Tawazi Require Import Graph Sched SchedInv.
From Tawazi Require Reconf ReconfFacts.
From Coq Require Import ZArith.
Import ListNotations.

(* in every reachable scheduler state: in-flight thread + async-thread nodes never exceed
   max_concurrency, the thread in-flight set holds only thread-resource nodes, the asyncio in-flight
   set only async-thread nodes *)
Theorem C04_inflight_bounded (c : cfg) (s : state) :
  wf c -> reachable c s ->
  length (conc s) + length (asyn s) <= c_maxc c /\
  (forall x, In x (conc s) -> c_res c x = RThread) /\
  (forall x, In x (asyn s) -> c_res c x = RAsync).
Proof. exact (inflight_bounded c s). Qed.
Print Assumptions C04_inflight_bounded.

(* a node executed on the scheduler's own thread (inline transition, atomic in the LTS, hence one at a
   time) always has the main-thread resource ... *)
Theorem C04_inline_only_main (c : cfg) (s : state) (n : nat) (ok : bool) (s' : state) :
  step c s (LInline n ok) = Some s' -> c_res c n = RMain.
Proof. exact (inline_only_main c s n ok s'). Qed.
Print Assumptions C04_inline_only_main.

(* ... and a node handed to the pool / asyncio never has it *)
Theorem C04_submit_matches_resource (c : cfg) (s : state) (k : kind) (n : nat) (s' : state) :
  step c s (LSubmit k n) = Some s' ->
  c_res c n = match k with KC => RThread | KA => RAsync end.
Proof. exact (submit_matches_resource c s k n s'). Qed.
Print Assumptions C04_submit_matches_resource.

(* non-vacuity: a well-formed configuration and a reachable state with two nodes in flight *)
Definition c04_cfg : cfg :=
  {| c_nodes := [0; 1; 2]; c_pre := []; c_preds := fun _ => []; c_seq := fun _ => false;
     c_res := fun n => match n with 1 => RAsync | _ => RThread end; c_prio := fun _ => BinNums.Z0; c_maxc := 2 |}.
Example C04_nonvacuous :
  exists s, run c04_cfg (init c04_cfg)
      [LPick 0; LActive 0 true; LSubmit KC 0; LPick 1; LActive 1 true; LSubmit KA 1] = Some s
    /\ length (conc s) + length (asyn s) = 2.
Proof. eexists. split; [vm_compute; reflexivity | reflexivity]. Qed.

(* "every configuration": no sequence of config_from_dict / _yaml / _json steps (raising ones included) ever
   changes the resource a node was declared with *)
Theorem C04_reconfiguration_keeps_resources (nodes : list nat) (tagged : nat -> list nat) (cs : list Reconf.cstep) (st : Reconf.cstate) (n : nat) :
  Reconf.a_res (Reconf.s_attr (Reconf.run nodes tagged st cs) n) = Reconf.a_res (Reconf.s_attr st n).
Proof. exact (ReconfFacts.run_res nodes tagged cs st n). Qed.
Print Assumptions C04_reconfiguration_keeps_resources.

(* the limit in force after a history of reconfigurations is the one of the last accepted step that names it *)
Theorem C04_reconfiguration_last_max_concurrency (nodes : list nat) (tagged : nat -> list nat) (cs : list Reconf.cstep) (c : Reconf.cstep) (st st' : Reconf.cstate) (m : Z) :
  Reconf.step nodes tagged (Reconf.run nodes tagged st cs) c = Some st' -> Reconf.c_max c = Some m ->
  Reconf.s_maxc (Reconf.run nodes tagged st (cs ++ [c])) = m.
Proof. exact (ReconfFacts.run_last_max nodes tagged cs c st st' m). Qed.
Print Assumptions C04_reconfiguration_last_max_concurrency.
