(* C09 — every execution terminates, whatever order nodes finish in. *)
From Coq Require Import List.
From Tawazi Require Import Graph Sched SchedInv SchedGhost SchedProgress.
Import ListNotations.

(* every scheduler step strictly decreases a natural-number measure ... *)
Theorem C09_step_decreases (c : cfg) s l s' :
  wf c -> reachable c s -> step c s l = Some s' -> mu s' < mu s.
Proof. exact (step_decreases c s l s'). Qed.
Print Assumptions C09_step_decreases.

(* ... so every run — every completion order, every choice of failing nodes, every tie-break — has at
   most 32*|nodes|+6 scheduler steps *)
Theorem C09_run_length_linear (c : cfg) ls s :
  wf c -> run c (init c) ls = Some s -> length ls <= 32 * length (c_nodes c) + 6.
Proof. exact (run_length_linear c ls s). Qed.
Print Assumptions C09_run_length_linear.

(* no deadlock: a state that is neither finished nor raised always has an enabled step, and when the
   scheduler waits, whichever in-flight future finishes first (returning or raising) is accepted *)
Theorem C09_progress (c : cfg) s :
  wf c -> reachable c s -> pc s <> PFinished -> (forall f, pc s <> PRaised f) ->
  exists l s', step c s l = Some s'.
Proof. exact (progress c s). Qed.
Print Assumptions C09_progress.

(* no spinning: the two waits of a gate / defer pair are never both on nothing *)
Theorem C09_never_waits_on_nothing (c : cfg) s s1 s2 :
  wf c -> reachable c s ->
  step c s (LWait KA MFirst []) = Some s1 -> step c s1 (LWait KC MFirst []) = Some s2 -> False.
Proof. exact (blocking_wait_has_inflight c s s1 s2). Qed.
Print Assumptions C09_never_waits_on_nothing.

(* never returns normally while a selected active node has not run *)
Theorem C09_finished_means_all_ran (c : cfg) s :
  wf c -> reachable c s -> pc s = PFinished ->
  rem s = [] /\ conc s = [] /\ asyn s = [] /\
  forall n, In n (diff (c_nodes c) (c_pre c)) -> In n (finished s) \/ In n (skipped s).
Proof. exact (finished_means_all_ran c s). Qed.
Print Assumptions C09_finished_means_all_ran.
