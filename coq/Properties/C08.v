(* C08 — the scheduler never idles while a ready node and a free slot both exist.
   The full statement is FALSE of the scheduler (known finding F9): proved here are the partial
   statement, the single-kind corollary where it is unconditional, and the machine-checked witness
   of the exception. *)
From Coq Require Import List.
From Tawazi Require Import Graph Sched SchedInv SchedPrio.
From Tawazi Require Reconf ReconfFacts.
From Coq Require Import ZArith.
Import ListNotations.

(* every blocking wait is justified (max_concurrency nodes in flight, or nothing ready, or a sequential
   node running, or the best candidate sequential) — or it is the thread-wait that follows an
   async-wait of the same loop iteration which completed a future (the F9 signature) *)
Theorem C08_block_only_when_justified_partial (c : cfg) s k m dones s' :
  wf c -> reachable c s -> step c s (LWait k m dones) = Some s' -> inflight s k <> [] ->
  justified c s = true \/ after_async_completion s = true.
Proof. exact (block_only_when_justified_partial c s k m dones s'). Qed.
Print Assumptions C08_block_only_when_justified_partial.

(* for DAGs without async-thread nodes the statement holds without exception *)
Theorem C08_single_kind_always_justified (c : cfg) s k m dones s' :
  wf c -> (forall n, In n (c_nodes c) -> c_res c n <> RAsync) -> reachable c s ->
  step c s (LWait k m dones) = Some s' -> inflight s k <> [] -> justified c s = true.
Proof. exact (single_kind_always_justified c s k m dones s'). Qed.
Print Assumptions C08_single_kind_always_justified.

(* the full statement is refuted: thread node 0, async-thread node 1, thread node 2, max_concurrency 2;
   after 1 finishes the scheduler blocks on 0 although a slot is free and 2 is ready *)
Theorem C08_block_only_when_justified_refuted :
  exists (c : cfg) ls s k m dones s',
    wf c /\ run c (init c) ls = Some s /\ step c s (LWait k m dones) = Some s' /\
    inflight s k <> [] /\ justified c s = false.
Proof. exact block_only_when_justified_refuted. Qed.
Print Assumptions C08_block_only_when_justified_refuted.

(* the limit the scheduler must use: unchanged by reconfigurations that do not name max_concurrency *)
Theorem C08_reconfiguration_without_limit_keeps_it (nodes : list nat) (tagged : nat -> list nat) (cs : list Reconf.cstep) (st : Reconf.cstate) :
  (forall c, In c cs -> Reconf.c_max c = None) -> Reconf.s_maxc (Reconf.run nodes tagged st cs) = Reconf.s_maxc st.
Proof. exact (ReconfFacts.run_no_max nodes tagged cs st). Qed.
Print Assumptions C08_reconfiguration_without_limit_keeps_it.
