(* C15 — calls do not leak state: a DAG (and an executor) behaves as if freshly built.
   The only thing an instance keeps is the results of setup nodes (History.v); the theorem below says that
   starting an execution with some nodes replaced by their already computed values — which is what
   "the instance kept setup results" means — changes no value and no failure: the k-th call equals the
   call on a freshly built instance.  Executor single-use (refuse, or run the complete selection) and the
   absence of any other carried state are tied by K-hist. *)
From Coq Require Import List.
From Tawazi Require Import Graph Sched SchedInv Dataflow DataflowFacts DenPre Args ArgsFacts.
Import ListNotations.

Section C15.
Variable val : Type.
Variable vnone : val.
Variable truthy : val -> bool.
Variable index : val -> nat -> option val.
Variable tbl : nat -> nodeT val.
Variables c1 c2 : cfg.
Variable P : list nat.
Variables res0 res2 : results val.

Theorem C15_den_precompute :
  c_nodes c1 = c_nodes c2 ->
  (forall n, In n (c_pre c2) <-> In n (c_pre c1) \/ In n P) ->
  (forall p, In p P -> In p (c_nodes c1) /\ ~ In p (c_pre c1)) ->
  wf c1 -> wf c2 ->
  consistent val tbl c1 res0 -> consistent val tbl c2 res2 ->
  (forall n, lookup val res2 n = if mem n P then den val vnone truthy index tbl c1 res0 n else lookup val res0 n) ->
  forall n, den val vnone truthy index tbl c2 res2 n = den val vnone truthy index tbl c1 res0 n.
Proof. exact (den_precompute val vnone truthy index tbl c1 c2 P res0 res2). Qed.

Theorem C15_den_precompute_failures :
  c_nodes c1 = c_nodes c2 ->
  (forall n, In n (c_pre c2) <-> In n (c_pre c1) \/ In n P) ->
  (forall p, In p P -> In p (c_nodes c1) /\ ~ In p (c_pre c1)) ->
  wf c1 -> wf c2 ->
  consistent val tbl c1 res0 -> consistent val tbl c2 res2 ->
  (forall n, lookup val res2 n = if mem n P then den val vnone truthy index tbl c1 res0 n else lookup val res0 n) ->
  forall n, In n (snd (den_eval val vnone truthy index tbl c2 res2)) <-> In n (snd (den_eval val vnone truthy index tbl c1 res0)).
Proof. exact (den_precompute_failures val vnone truthy index tbl c1 c2 P res0 res2). Qed.
End C15.
Print Assumptions C15_den_precompute.
Print Assumptions C15_den_precompute_failures.

(* the k-th call depends only on its own arguments: the map handed to the scheduler is the DAG-level map with
   the i-th argument overriding the i-th parameter, so two instances whose DAG-level maps differ only by setup
   results (which hold what a run would compute, and which no argument can reach) give the same values *)
Theorem C15_call_after_setup_same_as_fresh (val : Type) (vnone : val) (truthy : val -> bool) (index : val -> nat -> option val)
    (tbl : nat -> nodeT val) (c1 c2 : cfg) (P : list nat)
    (dag_res dag_res' : results val) (inputs : list nat) (args : list val) (r r' : results val) :
  bind val dag_res inputs args = Some r -> bind val dag_res' inputs args = Some r' ->
  (forall n, In n P -> ~ In n inputs) ->
  (forall n, lookup val dag_res' n = if mem n P then den val vnone truthy index tbl c1 r n else lookup val dag_res n) ->
  c_nodes c1 = c_nodes c2 ->
  (forall n, In n (c_pre c2) <-> In n (c_pre c1) \/ In n P) ->
  (forall p, In p P -> In p (c_nodes c1) /\ ~ In p (c_pre c1)) ->
  wf c1 -> wf c2 -> consistent val tbl c1 r -> consistent val tbl c2 r' ->
  forall n, den val vnone truthy index tbl c2 r' n = den val vnone truthy index tbl c1 r n.
Proof. exact (call_after_setup_same_as_fresh val vnone truthy index tbl c1 c2 P dag_res dag_res' inputs args r r'). Qed.
Print Assumptions C15_call_after_setup_same_as_fresh.

(* an argument of an earlier call is not visible: the binding reads nothing but (DAG-level map, parameters, arguments) *)
Theorem C15_binding_frame (val : Type) (inputs : list nat) (args : list val) (res r : results val) (n : nat) :
  bind val res inputs args = Some r -> ~ In n (firstn (length args) inputs) -> lookup val r n = lookup val res n.
Proof. exact (bind_lookup_other val inputs args res r n). Qed.
Print Assumptions C15_binding_frame.
