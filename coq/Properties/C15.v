(* C15 — calls do not leak state: a DAG (and an executor) behaves as if freshly built.
   The only thing an instance keeps is the results of setup nodes (History.v); the theorem below says that
   starting an execution with some nodes replaced by their already computed values — which is what
   "the instance kept setup results" means — changes no value and no failure: the k-th call equals the
   call on a freshly built instance.  Executor single-use (refuse, or run the complete selection) and the
   absence of any other carried state are tied by K-hist. *)
From Coq Require Import List.
From Tawazi Require Import Graph Sched SchedInv Dataflow DataflowFacts DenPre.
Import ListNotations.

Section C15.
Variable val : Type.
Variable vnone : val.
Variable truthy : val -> bool.
Variable index : val -> nat -> option val.
Variable tbl : nat -> nodeT val.
Variables c1 c2 : cfg.
Variable P : list nat.
Variables res0 res2 : results val.

Theorem C15_den_precompute :
  c_nodes c1 = c_nodes c2 ->
  (forall n, In n (c_pre c2) <-> In n (c_pre c1) \/ In n P) ->
  (forall p, In p P -> In p (c_nodes c1) /\ ~ In p (c_pre c1)) ->
  wf c1 -> wf c2 ->
  consistent val tbl c1 res0 -> consistent val tbl c2 res2 ->
  (forall n, lookup val res2 n = if mem n P then den val vnone truthy index tbl c1 res0 n else lookup val res0 n) ->
  forall n, den val vnone truthy index tbl c2 res2 n = den val vnone truthy index tbl c1 res0 n.
Proof. exact (den_precompute val vnone truthy index tbl c1 c2 P res0 res2). Qed.

Theorem C15_den_precompute_failures :
  c_nodes c1 = c_nodes c2 ->
  (forall n, In n (c_pre c2) <-> In n (c_pre c1) \/ In n P) ->
  (forall p, In p P -> In p (c_nodes c1) /\ ~ In p (c_pre c1)) ->
  wf c1 -> wf c2 ->
  consistent val tbl c1 res0 -> consistent val tbl c2 res2 ->
  (forall n, lookup val res2 n = if mem n P then den val vnone truthy index tbl c1 res0 n else lookup val res0 n) ->
  forall n, In n (snd (den_eval val vnone truthy index tbl c2 res2)) <-> In n (snd (den_eval val vnone truthy index tbl c1 res0)).
Proof. exact (den_precompute_failures val vnone truthy index tbl c1 c2 P res0 res2). Qed.
End C15.
Print Assumptions C15_den_precompute.
Print Assumptions C15_den_precompute_failures.
