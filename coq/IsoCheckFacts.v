(* IsoCheckFacts.v — soundness of the executable embedding checker of IsoCheck.v with respect to the
   Prop relation [embeds] of Iso.v, for the term instance (Terms.v):

     embed_check specs1 specs2 c1 c2 res1 res2 rho_l bound = []  ->
     embeds term TNone t_truthy t_index (spec_tbl specs1) (spec_tbl specs2)
            (cfg_bind c1 bound) c2 (res_bind specs2 c2 res2 rho_l bound res1) res2 (rho_of rho_l)

   with NO side condition; and its combination with IsoFacts.den_embed / den_embed_failures. *)
From Coq Require Import List Arith Bool Lia PeanoNat ZArith.
From Tawazi Require Import Graph GraphFacts Sched SchedInv Dataflow DataflowFast DataflowFacts Terms
                           Iso IsoFacts IsoCheck.
Import ListNotations.

(* ================================================================== lists *)
Lemma flat_map_nil {A B} (f : A -> list B) (l : list A) :
  flat_map f l = [] <-> forall x, In x l -> f x = [].
Proof.
  induction l as [|a l IH]; cbn [flat_map]; split.
  - intros _ x [].
  - reflexivity.
  - intros H x [<-|Hx].
    + apply app_eq_nil in H. apply H.
    + apply app_eq_nil in H. apply IH; [apply H|exact Hx].
  - intros H. rewrite (H a (or_introl eq_refl)). cbn [app]. apply IH. intros x Hx. apply H. right. exact Hx.
Qed.

Lemma if_nil_true {A} (b : bool) (x : list A) : x <> [] -> (if b then [] else x) = [] -> b = true.
Proof. destruct b; [reflexivity|]. intros Hx H. contradiction. Qed.

Lemma b2_inj a b : b2 a = b2 b -> a = b.
Proof. destruct a, b; cbn; congruence. Qed.

Lemma map_b2_inj (a : list bool) : forall b, map b2 a = map b2 b -> a = b.
Proof.
  induction a as [|x a IH]; intros [|y b] H; cbn [map] in H; try discriminate; [reflexivity|].
  injection H as H1 H2. apply b2_inj in H1. rewrite H1, (IH b H2). reflexivity.
Qed.

Lemma keys_enc_inj (a : list (nat * bool)) : forall b,
  flat_map (fun p : nat * bool => [fst p; b2 (snd p)]) a = flat_map (fun p : nat * bool => [fst p; b2 (snd p)]) b ->
  a = b.
Proof.
  induction a as [|[k x] a IH]; intros [|[k' y] b] H; cbn [flat_map app fst snd] in H; try discriminate;
    [reflexivity|].
  injection H as H1 H2 H3. apply b2_inj in H2. rewrite H1, H2, (IH b H3). reflexivity.
Qed.

(* ================================================================== the boolean equality tests *)
Lemma list_eqb_eq a b : list_eqb a b = true -> a = b.
Proof. unfold list_eqb. destruct (list_eq_dec Nat.eq_dec a b) as [E|E]; [intros _; exact E|discriminate]. Qed.

Lemma ref_eqb_eq a b : ref_eqb a b = true -> a = b.
Proof.
  unfold ref_eqb. intros H. apply andb_true_iff in H. destruct H as [H1 H2].
  apply Nat.eqb_eq in H1. apply list_eqb_eq in H2. destruct a as [i ks], b as [j ls].
  cbn [r_id r_keys] in *. subst. reflexivity.
Qed.

Lemma refs_eqb_eq a : forall b, refs_eqb a b = true -> a = b.
Proof.
  induction a as [|x a IH]; intros [|y b] H; cbn [refs_eqb] in H; try discriminate; [reflexivity|].
  apply andb_true_iff in H. destruct H as [H1 H2]. apply ref_eqb_eq in H1. rewrite H1, (IH b H2). reflexivity.
Qed.

(* ================================================================== enc_fcode is injective *)
Lemma enc_fcode_inj a b : enc_fcode a = enc_fcode b -> a = b.
Proof.
  destruct a, b; cbn [enc_fcode]; intros H; try discriminate H; try reflexivity.
  - injection H as H1 H2. apply b2_inj in H2. subst. reflexivity.
  - injection H as H1 H2. apply map_b2_inj in H2. subst. reflexivity.
  - injection H as H1 H2. apply keys_enc_inj in H2. subst. reflexivity.
  - injection H as H1. subst. reflexivity.
Qed.

(* ================================================================== enc_term is injective *)
Section TermInd.
Variable P : term -> Prop.
Hypothesis HNone : P TNone.
Hypothesis HConst : forall c b, P (TConst c b).
Hypothesis HApp : forall f b args, Forall P args -> P (TApp f b args).
Hypothesis HTup : forall es, Forall P es -> P (TTup es).
Hypothesis HDict : forall kv, Forall (fun p => P (snd p)) kv -> P (TDict kv).
Hypothesis HBool : forall b, P (TBool b).

Fixpoint term_nested_ind (t : term) : P t :=
  match t with
  | TNone => HNone
  | TConst c b => HConst c b
  | TApp f b args =>
      HApp f b args
        ((fix go (l : list term) : Forall P l :=
            match l with
            | [] => Forall_nil P
            | x :: r => Forall_cons x (term_nested_ind x) (go r)
            end) args)
  | TTup es =>
      HTup es
        ((fix go (l : list term) : Forall P l :=
            match l with
            | [] => Forall_nil P
            | x :: r => Forall_cons x (term_nested_ind x) (go r)
            end) es)
  | TDict kv =>
      HDict kv
        ((fix go (l : list (nat * term)) : Forall (fun p => P (snd p)) l :=
            match l with
            | [] => Forall_nil (fun p => P (snd p))
            | (k, v) :: r => @Forall_cons (nat * term) (fun p => P (snd p)) (k, v) r (term_nested_ind v) (go r)
            end) kv)
  | TBool b => HBool b
  end.
End TermInd.

(* the encoding is prefix-free: a code followed by anything determines the term and the rest *)
Definition pref_inj (a : term) : Prop :=
  forall b r1 r2, enc_term a ++ r1 = enc_term b ++ r2 -> a = b /\ r1 = r2.

Lemma flat_enc_pref (l1 : list term) : Forall pref_inj l1 ->
  forall l2 r1 r2, length l1 = length l2 ->
    flat_map enc_term l1 ++ r1 = flat_map enc_term l2 ++ r2 -> l1 = l2 /\ r1 = r2.
Proof.
  induction 1 as [|x l1 Hx _ IH]; intros [|y l2] r1 r2 Hlen H; cbn [length] in Hlen; try discriminate Hlen.
  - cbn [flat_map app] in H. split; [reflexivity|exact H].
  - cbn [flat_map] in H. rewrite <- !app_assoc in H.
    destruct (Hx y _ _ H) as [E1 H']. injection Hlen as Hlen.
    destruct (IH l2 r1 r2 Hlen H') as [E2 E3]. subst. split; reflexivity.
Qed.

Lemma flat_enc_items_pref (l1 : list (nat * term)) : Forall (fun p => pref_inj (snd p)) l1 ->
  forall l2 r1 r2, length l1 = length l2 ->
    flat_map (fun p : nat * term => fst p :: enc_term (snd p)) l1 ++ r1 =
    flat_map (fun p : nat * term => fst p :: enc_term (snd p)) l2 ++ r2 -> l1 = l2 /\ r1 = r2.
Proof.
  induction 1 as [|[k x] l1 Hx _ IH]; intros [|[k' y] l2] r1 r2 Hlen H; cbn [length] in Hlen;
    try discriminate Hlen.
  - cbn [flat_map app] in H. split; [reflexivity|exact H].
  - cbn [flat_map fst snd] in H. rewrite <- !app_assoc in H. cbn [app] in H. injection H as Hk H.
    cbn [snd] in Hx. destruct (Hx y _ _ H) as [E1 H']. injection Hlen as Hlen.
    destruct (IH l2 r1 r2 Hlen H') as [E2 E3]. subst. split; reflexivity.
Qed.

Lemma bit_inj (a b : bool) : (if a then 1 else 0) = (if b then 1 else 0) -> a = b.
Proof. destruct a, b; congruence. Qed.

Lemma enc_term_pref a : pref_inj a.
Proof.
  induction a as [|c b|f b args IH|es IH|kv IH|b] using term_nested_ind; intros t r1 r2 H;
    destruct t as [|c' b'|f' b' args'|es'|kv'|b']; cbn [enc_term] in H; rewrite <- ?app_assoc in H;
    cbn [app] in H; try discriminate H.
  - injection H as H. split; [reflexivity|exact H].
  - injection H as H1 H2 H3. apply bit_inj in H2. subst. split; reflexivity.
  - injection H as H1 H2 H3 H4. apply bit_inj in H2.
    destruct (flat_enc_pref args IH args' r1 r2 H3 H4) as [E1 E2]. subst. split; reflexivity.
  - injection H as H1 H2. destruct (flat_enc_pref es IH es' r1 r2 H1 H2) as [E1 E2]. subst. split; reflexivity.
  - injection H as H1 H2. destruct (flat_enc_items_pref kv IH kv' r1 r2 H1 H2) as [E1 E2]. subst.
    split; reflexivity.
  - injection H as H1 H2. apply bit_inj in H1. subst. split; reflexivity.
Qed.

Theorem enc_term_inj a b : enc_term a = enc_term b -> a = b.
Proof.
  intros H. apply (enc_term_pref a b [] []). rewrite !app_nil_r. exact H.
Qed.

(* ================================================================== spec_tbl through spec_of *)
Lemma spec_tbl_args specs n : n_args term (spec_tbl specs n) = s_args (spec_of specs n).
Proof. unfold spec_tbl, spec_of. destruct (find _ specs) as [[k sp]|]; reflexivity. Qed.
Lemma spec_tbl_active specs n : n_active term (spec_tbl specs n) = s_active (spec_of specs n).
Proof. unfold spec_tbl, spec_of. destruct (find _ specs) as [[k sp]|]; reflexivity. Qed.
Lemma spec_tbl_fn specs n vs : n_fn term (spec_tbl specs n) vs = apply_fcode (s_fn (spec_of specs n)) vs.
Proof. unfold spec_tbl, spec_of. destruct (find _ specs) as [[k sp]|]; reflexivity. Qed.

(* ================================================================== results *)
Lemma lookup_app (A B : results term) n :
  lookup term (A ++ B) n = match lookup term A n with Some v => Some v | None => lookup term B n end.
Proof.
  induction A as [|[k v] A IH]; [reflexivity|]. cbn [app lookup]. destruct (Nat.eqb k n); [reflexivity|exact IH].
Qed.

Lemma lookup_In (A : results term) n v : lookup term A n = Some v -> In (n, v) A.
Proof.
  induction A as [|[k w] A IH]; cbn [lookup]; [discriminate|].
  destruct (Nat.eqb_spec k n) as [E|E]; intros H.
  - injection H as H. subst. left. reflexivity.
  - right. apply IH. exact H.
Qed.

(* a bound id is given, by construction, the value its image has in d2 *)
Lemma lookup_bind_inputs (d2 : results term) rho bound p v :
  lookup term (bind_inputs d2 rho bound) p = Some v -> lookup term d2 (rho p) = Some v.
Proof.
  unfold bind_inputs. induction bound as [|b bound IH]; cbn [flat_map]; [discriminate|].
  rewrite lookup_app. destruct (lookup term d2 (rho b)) as [w|] eqn:Eb.
  - cbn [lookup]. destruct (Nat.eqb_spec b p) as [E|E].
    + intros H. injection H as H. subst. exact Eb.
    + exact IH.
  - cbn [lookup]. exact IH.
Qed.

(* ================================================================== system 1 with the bound ids pre-computed *)
Definition cfg_bind (c : cfg) (bound : list nat) : cfg :=
  {| c_nodes := c_nodes c; c_pre := c_pre c ++ bound; c_preds := c_preds c; c_seq := c_seq c;
     c_res := c_res c; c_prio := c_prio c; c_maxc := c_maxc c |}.

Definition res_bind (specs2 : list (nat * nspec)) (c2 : cfg) (res2 : results term)
           (rho_l : list (nat * nat)) (bound : list nat) (res1 : results term) : results term :=
  bind_inputs (fst (t_den specs2 c2 res2)) (rho_of rho_l) bound ++ res1.

Lemma In_R0_bind c bound n : In n (Dataflow.R0 (cfg_bind c bound)) <-> In n (diff (Dataflow.R0 c) bound).
Proof.
  unfold Dataflow.R0, cfg_bind. cbn [c_nodes c_pre]. rewrite !In_diff, in_app_iff. tauto.
Qed.

(* ================================================================== soundness of the checker *)
Section Sound.
Variables specs1 specs2 : list (nat * nspec).
Variables c1 c2 : cfg.
Variables res1 res2 : results term.
Variable rho_l : list (nat * nat).
Variable bound : list nat.

Notation rho := (rho_of rho_l).
Notation c1' := (cfg_bind c1 bound).
Notation res1' := (res_bind specs2 c2 res2 rho_l bound res1).
Notation D2 := (fst (den_eval term TNone t_truthy t_index (spec_tbl specs2) c2 res2)).
Notation r01 := (diff (Dataflow.R0 c1) bound).
Notation r02 := (Dataflow.R0 c2).
Notation ren := (fun r : ref => mkref (rho (r_id r)) (r_keys r)).

Lemma t_den_D2 : fst (t_den specs2 c2 res2) = D2.
Proof. unfold t_den. rewrite den_eval_fast_eq. reflexivity. Qed.

(* what an empty answer of the checker means, check by check *)
Lemma embed_check_inv : embed_check specs1 specs2 c1 c2 res1 res2 rho_l bound = [] ->
  (forall n, In n r01 ->
     mem (rho n) r02 = true /\
     s_fn (spec_of specs1 n) = s_fn (spec_of specs2 (rho n)) /\
     s_args (spec_of specs2 (rho n)) = map ren (s_args (spec_of specs1 n)) /\
     match s_active (spec_of specs1 n), s_active (spec_of specs2 (rho n)) with
     | Some r, Some r' => r' = ren r
     | None, None => True
     | None, Some g => exists v, t_rd D2 g = Some v /\ t_truthy v = true /\
                                 (negb (mem (r_id g) r02) || has term D2 (r_id g)) = true
     | Some _, None => False
     end /\
     (forall r, In r (s_args (spec_of specs1 n) ++
                      match s_active (spec_of specs1 n) with Some r => [r] | None => [] end) ->
        mem (r_id r) r01 || has term res1' (r_id r) = false ->
        mem (rho (r_id r)) r02 || has term res2 (rho (r_id r)) = false)) /\
  (forall p v, In (p, v) res1 -> lookup term D2 (rho p) = Some v).
Proof.
  intros H. unfold embed_check in H. cbv zeta in H. rewrite t_den_D2 in H.
  apply app_eq_nil in H. destruct H as [Hn Hp]. split.
  - intros n Hin. pose proof (proj1 (flat_map_nil _ _) Hn n Hin) as H. cbv beta in H.
    apply app_eq_nil in H. destruct H as [H1 H].
    apply app_eq_nil in H. destruct H as [H2 H].
    apply app_eq_nil in H. destruct H as [H3 H].
    apply app_eq_nil in H. destruct H as [H4 H6].
    apply if_nil_true in H1; [|discriminate]. apply if_nil_true in H2; [|discriminate].
    apply if_nil_true in H3; [|discriminate].
    apply list_eqb_eq in H2. apply enc_fcode_inj in H2. apply refs_eqb_eq in H3.
    split; [exact H1|]. split; [exact H2|]. split; [exact H3|]. split.
    + destruct (s_active (spec_of specs1 n)) as [r|]; destruct (s_active (spec_of specs2 (rho n))) as [g|].
      * apply if_nil_true in H4; [|discriminate]. apply ref_eqb_eq in H4. exact H4.
      * discriminate H4.
      * apply if_nil_true in H4; [|discriminate].
        destruct (t_rd D2 g) as [v|]; [|discriminate H4].
        apply andb_true_iff in H4. destruct H4 as [Ht Hd]. exists v. split; [reflexivity|]. split; assumption.
      * exact I.
    + intros r Hr Hno. pose proof (proj1 (flat_map_nil _ _) H6 r Hr) as H. cbv beta zeta in H.
      unfold res_bind in Hno. rewrite t_den_D2 in Hno. rewrite Hno in H.
      destruct (mem (rho (r_id r)) r02 || has term res2 (rho (r_id r))); [discriminate H|reflexivity].
  - intros p v Hin. pose proof (proj1 (flat_map_nil _ _) Hp (p, v) Hin) as H. cbv beta in H.
    cbn [fst snd] in H. destruct (lookup term D2 (rho p)) as [w|]; [|discriminate H].
    apply if_nil_true in H; [|discriminate]. apply list_eqb_eq in H. apply enc_term_inj in H.
    rewrite H. reflexivity.
Qed.

Theorem embed_check_sound :
  embed_check specs1 specs2 c1 c2 res1 res2 rho_l bound = [] ->
  embeds term TNone t_truthy t_index (spec_tbl specs1) (spec_tbl specs2) c1' c2 res1' res2 rho.
Proof.
  intros H. destruct (embed_check_inv H) as [Hn Hp]. constructor.
  - (* em_nodes *)
    intros n HR. apply In_R0_bind in HR. apply mem_In. apply (Hn n HR).
  - (* em_fn *)
    intros n vs HR. apply In_R0_bind in HR. rewrite !spec_tbl_fn.
    destruct (Hn n HR) as [_ [E _]]. rewrite E. reflexivity.
  - (* em_args *)
    intros n HR. apply In_R0_bind in HR. rewrite !spec_tbl_args.
    destruct (Hn n HR) as [_ [_ [E _]]]. rewrite E. reflexivity.
  - (* em_active *)
    intros n HR. apply In_R0_bind in HR. rewrite !spec_tbl_active.
    destruct (Hn n HR) as [_ [_ [_ [E _]]]].
    destruct (s_active (spec_of specs1 n)) as [r|]; destruct (s_active (spec_of specs2 (rho n))) as [g|].
    + rewrite E. reflexivity.
    + destruct E.
    + right. exists g. split; [reflexivity|]. destruct E as [v [Hv [Ht Hd]]]. split.
      * exists v. split; [exact Hv|exact Ht].
      * intros Hg. apply orb_true_iff in Hd. destruct Hd as [Hd|Hd]; [|exact Hd].
        apply negb_true_iff, mem_false in Hd. contradiction.
    + left. reflexivity.
  - (* em_pre *)
    intros p v Hl. unfold den. unfold res_bind in Hl. rewrite lookup_app in Hl.
    destruct (lookup term (bind_inputs (fst (t_den specs2 c2 res2)) rho bound) p) as [w|] eqn:Eb.
    + injection Hl as Hl. subst w. apply lookup_bind_inputs in Eb. rewrite t_den_D2 in Eb. exact Eb.
    + apply Hp. apply lookup_In. exact Hl.
  - (* em_absent *)
    intros n r HR Hr HnR Hh. apply In_R0_bind in HR. rewrite In_R0_bind in HnR.
    destruct (Hn n HR) as [_ [_ [_ [_ E]]]].
    unfold refs_of in Hr. rewrite spec_tbl_args, spec_tbl_active in Hr.
    assert (X : mem (r_id r) r01 || has term res1' (r_id r) = false).
    { apply orb_false_iff. split; [apply mem_false; exact HnR|exact Hh]. }
    specialize (E r Hr X). apply orb_false_iff in E. destruct E as [E1 E2].
    split; [apply mem_false; exact E1|exact E2].
Qed.

(* ---- with IsoFacts.den_embed: an embedded node and its image denote the same *)
Corollary embed_check_den :
  embed_check specs1 specs2 c1 c2 res1 res2 rho_l bound = [] ->
  wf c1' ->
  consistent term (spec_tbl specs1) c1' res1' ->
  consistent term (spec_tbl specs2) c2 res2 ->
  forall n, In n (Dataflow.R0 c1') ->
    den term TNone t_truthy t_index (spec_tbl specs2) c2 res2 (rho n) =
    den term TNone t_truthy t_index (spec_tbl specs1) c1' res1' n.
Proof.
  intros H W1 Cs1 Cs2 n HR.
  apply (den_embed term TNone t_truthy t_index (spec_tbl specs1) (spec_tbl specs2) c1' c2 res1' res2 rho
                   W1 Cs1 Cs2 (embed_check_sound H) n HR).
Qed.

(* the same, on what the correspondence actually runs (t_den = den_eval_fast) *)
Corollary embed_check_t_den :
  embed_check specs1 specs2 c1 c2 res1 res2 rho_l bound = [] ->
  wf c1' ->
  consistent term (spec_tbl specs1) c1' res1' ->
  consistent term (spec_tbl specs2) c2 res2 ->
  forall n, In n r01 ->
    lookup term (fst (t_den specs2 c2 res2)) (rho n) = lookup term (fst (t_den specs1 c1' res1')) n.
Proof.
  intros H W1 Cs1 Cs2 n HR. apply In_R0_bind in HR.
  unfold t_den. rewrite !den_eval_fast_eq. apply (embed_check_den H W1 Cs1 Cs2 n HR).
Qed.

(* and they raise together *)
Corollary embed_check_failures :
  embed_check specs1 specs2 c1 c2 res1 res2 rho_l bound = [] ->
  wf c1' ->
  consistent term (spec_tbl specs1) c1' res1' ->
  consistent term (spec_tbl specs2) c2 res2 ->
  forall n, In n (Dataflow.R0 c1') ->
    (In n (snd (t_den specs1 c1' res1')) <-> In (rho n) (snd (t_den specs2 c2 res2))).
Proof.
  intros H W1 Cs1 Cs2 n HR. unfold t_den. rewrite !den_eval_fast_eq.
  apply (den_embed_failures term TNone t_truthy t_index (spec_tbl specs1) (spec_tbl specs2) c1' c2 res1' res2 rho
                            W1 Cs1 Cs2 (embed_check_sound H) n HR).
Qed.
End Sound.

Print Assumptions enc_term_inj.
Print Assumptions enc_fcode_inj.
Print Assumptions embed_check_sound.
Print Assumptions embed_check_den.
Print Assumptions embed_check_t_den.
Print Assumptions embed_check_failures.
