(* DataflowFast.v — the evaluator used by the correspondence equals the one the theorems are about. *)
From Coq Require Import List.
From Tawazi Require Import Graph Sched Dataflow.
Import ListNotations.

Lemma den_eval_fast_eq (val : Type) (vnone : val) (truthy : val -> bool) (index : val -> nat -> option val)
  (tbl : nat -> nodeT val) (c : cfg) (res0 : results val) :
  den_eval_fast val vnone truthy index tbl c res0 = den_eval val vnone truthy index tbl c res0.
Proof. reflexivity. Qed.
Print Assumptions den_eval_fast_eq.
