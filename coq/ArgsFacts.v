(* ArgsFacts.v — facts about the binding of a call's arguments (Args.v): arity error, the k-th argument is
   what the k-th input node holds, frame, has, independence of the DAG-level map outside the inputs, and
   the C15 link: a call made on an instance that has gained setup results has the same denotation as the
   same call on a fresh instance. *)
From Coq Require Import List Arith Bool Lia PeanoNat.
From Tawazi Require Import Graph GraphFacts Sched SchedInv Dataflow DenPre Args.
Import ListNotations.

Section F.
Variable val : Type.

Notation lookup' := (lookup val).
Notation has' := (has val).
Notation bind' := (bind val).
Notation bind_go' := (bind_go val).

(* ---- list helpers ---- *)
Lemma In_firstn_In (A : Type) (m : nat) (l : list A) (x : A) : In x (firstn m l) -> In x l.
Proof. revert l. induction m as [|m IH]; intros [|y l]; simpl; try tauto. intros [H|H]; auto. Qed.

Lemma firstn_nth_notin (l : list nat) : forall k m i,
  NoDup l -> nth_error l k = Some i -> m <= k -> ~ In i (firstn m l).
Proof. induction l as [|x l IH]; intros k m i Hnd Hk Hm.
  - destruct m; simpl; tauto.
  - destruct m as [|m]; [simpl; tauto|]. destruct k as [|k]; [lia|]. simpl in Hk.
    inversion Hnd as [|? ? Hx Hnd']; subst. simpl. intros [E|Hin].
    + subst x. apply Hx. apply (nth_error_In _ _ Hk).
    + apply (IH k m i Hnd' Hk); [lia|exact Hin]. Qed.

(* ---- lookup / has after one forced binding ---- *)
Lemma lookup_force_set res i a n :
  lookup' (force_set val res i a) n = if Nat.eqb i n then Some a else lookup' res n.
Proof. reflexivity. Qed.

Lemma has_force_set_mono res i a n : has' res n = true -> has' (force_set val res i a) n = true.
Proof. unfold has. rewrite lookup_force_set. destruct (Nat.eqb i n); auto. Qed.

(* ---- bind_go ---- *)
Lemma bind_go_other : forall inputs args res n,
  ~ In n (firstn (length args) inputs) -> lookup' (bind_go' res inputs args) n = lookup' res n.
Proof. induction inputs as [|i ir IH]; intros [|a ar] res n Hn; simpl in *; try reflexivity.
  rewrite IH by tauto. rewrite lookup_force_set.
  destruct (Nat.eqb_spec i n) as [E|E]; [exfalso; apply Hn; left; exact E|reflexivity]. Qed.

Lemma bind_go_arg : forall inputs args res k i a,
  NoDup inputs -> nth_error inputs k = Some i -> nth_error args k = Some a ->
  lookup' (bind_go' res inputs args) i = Some a.
Proof. induction inputs as [|i0 ir IH]; intros [|a0 ar] res k i a Hnd Hi Ha;
    try (destruct k; discriminate).
  inversion Hnd as [|? ? Hx Hnd']; subst. destruct k as [|k]; simpl in *.
  - inversion Hi; inversion Ha; subst.
    rewrite bind_go_other by (intros H; apply Hx; apply (In_firstn_In _ _ _ _ H)).
    rewrite lookup_force_set, Nat.eqb_refl. reflexivity.
  - apply (IH ar _ k i a Hnd' Hi Ha). Qed.

(* pointwise: what the bound map holds at n depends on the DAG-level map only through its entry at n *)
Lemma bind_go_ext : forall inputs args res res' n,
  lookup' res' n = lookup' res n ->
  lookup' (bind_go' res' inputs args) n = lookup' (bind_go' res inputs args) n.
Proof. induction inputs as [|i ir IH]; intros [|a ar] res res' n E; simpl; try exact E.
  apply IH. rewrite !lookup_force_set. destruct (Nat.eqb i n); [reflexivity|exact E]. Qed.

(* at a bound position it does not depend on the DAG-level map at all (duplicates in inputs allowed) *)
Lemma bind_go_arg_indep : forall inputs args res res' n,
  In n (firstn (length args) inputs) ->
  lookup' (bind_go' res' inputs args) n = lookup' (bind_go' res inputs args) n.
Proof. induction inputs as [|i ir IH]; intros [|a ar] res res' n Hn; simpl in *; try tauto.
  destruct (in_dec Nat.eq_dec n (firstn (length ar) ir)) as [H|H].
  - apply IH. exact H.
  - destruct Hn as [E|Hn]; [subst i|contradiction].
    rewrite !bind_go_other by exact H. rewrite !lookup_force_set, Nat.eqb_refl. reflexivity. Qed.

Lemma bind_go_has_mono : forall inputs args res n,
  has' res n = true -> has' (bind_go' res inputs args) n = true.
Proof. induction inputs as [|i ir IH]; intros [|a ar] res n H; simpl; try exact H.
  apply IH. apply has_force_set_mono. exact H. Qed.

Lemma bind_go_has_in : forall inputs args res n,
  In n (firstn (length args) inputs) -> has' (bind_go' res inputs args) n = true.
Proof. induction inputs as [|i ir IH]; intros [|a ar] res n Hn; simpl in *; try tauto.
  destruct Hn as [E|Hn].
  - subst i. apply bind_go_has_mono. unfold has. rewrite lookup_force_set, Nat.eqb_refl. reflexivity.
  - apply IH. exact Hn. Qed.

(* ---- bind ---- *)
Lemma bind_inv res inputs args r :
  bind' res inputs args = Some r -> r = bind_go' res inputs args /\ length args <= length inputs.
Proof. unfold bind. destruct (Nat.leb_spec (length args) (length inputs)) as [H|H]; [|discriminate].
  intros E. inversion E. auto. Qed.

(* 1. too many arguments: TypeError *)
Theorem bind_too_many : forall res inputs args,
  length inputs < length args -> bind' res inputs args = None.
Proof. intros res inputs args H. unfold bind.
  destruct (Nat.leb_spec (length args) (length inputs)) as [H'|H']; [lia|reflexivity]. Qed.

Theorem bind_ok : forall res inputs args,
  length args <= length inputs -> bind' res inputs args = Some (bind_go' res inputs args).
Proof. intros res inputs args H. unfold bind.
  destruct (Nat.leb_spec (length args) (length inputs)) as [H'|H']; [reflexivity|lia]. Qed.

Theorem bind_None_iff : forall res inputs args,
  bind' res inputs args = None <-> length inputs < length args.
Proof. intros res inputs args. split; [|apply bind_too_many]. unfold bind.
  destruct (Nat.leb_spec (length args) (length inputs)) as [H'|H']; [discriminate|auto]. Qed.

(* 2. the k-th argument is what the k-th input node holds *)
Theorem bind_lookup_arg : forall inputs args res r k i a,
  NoDup inputs -> bind' res inputs args = Some r ->
  nth_error inputs k = Some i -> nth_error args k = Some a -> lookup' r i = Some a.
Proof. intros inputs args res r k i a Hnd Hb Hi Ha. apply bind_inv in Hb. destruct Hb as [-> _].
  apply (bind_go_arg inputs args res k i a Hnd Hi Ha). Qed.

(* 3. frame *)
Theorem bind_lookup_other : forall inputs args res r n,
  bind' res inputs args = Some r ->
  ~ In n (firstn (length args) inputs) -> lookup' r n = lookup' res n.
Proof. intros inputs args res r n Hb Hn. apply bind_inv in Hb. destruct Hb as [-> _].
  apply bind_go_other. exact Hn. Qed.

Corollary bind_keeps_default : forall inputs args res r k i,
  NoDup inputs -> bind' res inputs args = Some r ->
  nth_error inputs k = Some i -> length args <= k -> lookup' r i = lookup' res i.
Proof. intros inputs args res r k i Hnd Hb Hi Hk. apply (bind_lookup_other inputs args res r i Hb).
  apply (firstn_nth_notin inputs k (length args) i Hnd Hi Hk). Qed.

Corollary bind_lookup_noninput : forall inputs args res r n,
  bind' res inputs args = Some r -> ~ In n inputs -> lookup' r n = lookup' res n.
Proof. intros inputs args res r n Hb Hn. apply (bind_lookup_other inputs args res r n Hb).
  intros H. apply Hn. apply (In_firstn_In _ _ _ _ H). Qed.

(* 4. has *)
Theorem bind_has : forall inputs args res r n,
  bind' res inputs args = Some r ->
  (has' r n = true <-> has' res n = true \/ In n (firstn (length args) inputs)).
Proof. intros inputs args res r n Hb. pose proof Hb as Hb'. apply bind_inv in Hb'. destruct Hb' as [Er _].
  split.
  - intros H. destruct (in_dec Nat.eq_dec n (firstn (length args) inputs)) as [Hi|Hi]; [right; exact Hi|left].
    unfold has in *. rewrite <- (bind_lookup_other inputs args res r n Hb Hi). exact H.
  - intros [H|H]; subst r; [apply bind_go_has_mono|apply bind_go_has_in]; exact H. Qed.

Theorem bind_has_bool : forall inputs args res r n,
  bind' res inputs args = Some r ->
  has' r n = has' res n || mem n (firstn (length args) inputs).
Proof. intros inputs args res r n Hb. pose proof (bind_has inputs args res r n Hb) as H.
  destruct (has' r n) eqn:E1.
  - symmetry. apply orb_true_iff. destruct (proj1 H eq_refl) as [X|X]; [left; exact X|right; apply mem_In; exact X].
  - symmetry. apply orb_false_iff. split.
    + destruct (has' res n) eqn:E2; [|reflexivity]. symmetry. apply H. left. reflexivity.
    + apply mem_false. intros X. assert (false = true) by (apply H; right; exact X). discriminate. Qed.

(* 5. the binding of a call looks at nothing but (res, inputs, args) *)
Theorem bind_agree_at : forall inputs args res res' r r' n,
  bind' res inputs args = Some r -> bind' res' inputs args = Some r' ->
  lookup' res' n = lookup' res n -> lookup' r' n = lookup' r n.
Proof. intros inputs args res res' r r' n Hb Hb' E.
  apply bind_inv in Hb. apply bind_inv in Hb'. destruct Hb as [-> _]. destruct Hb' as [-> _].
  apply bind_go_ext. exact E. Qed.

Theorem bind_arg_indep : forall inputs args res res' r r' n,
  bind' res inputs args = Some r -> bind' res' inputs args = Some r' ->
  In n (firstn (length args) inputs) -> lookup' r' n = lookup' r n.
Proof. intros inputs args res res' r r' n Hb Hb' Hn.
  apply bind_inv in Hb. apply bind_inv in Hb'. destruct Hb as [-> _]. destruct Hb' as [-> _].
  apply bind_go_arg_indep. exact Hn. Qed.

Theorem bind_agree : forall inputs args res res' r r' (P : list nat),
  bind' res inputs args = Some r -> bind' res' inputs args = Some r' ->
  (forall n, ~ In n P -> lookup' res' n = lookup' res n) ->
  (forall n, In n P -> ~ In n inputs) ->
  (forall n, ~ In n P -> lookup' r' n = lookup' r n) /\
  (forall n, In n P -> lookup' r' n = lookup' res' n /\ lookup' r n = lookup' res n).
Proof. intros inputs args res res' r r' P Hb Hb' Hout Hdisj. split.
  - intros n Hn. apply (bind_agree_at inputs args res res' r r' n Hb Hb'). apply Hout. exact Hn.
  - intros n Hn. split.
    + apply (bind_lookup_noninput inputs args res' r' n Hb'). apply Hdisj. exact Hn.
    + apply (bind_lookup_noninput inputs args res r n Hb). apply Hdisj. exact Hn. Qed.

End F.

(* ---- C15 at the level of calls: the instance has gained setup results between two calls; the later call
        denotes what the same call denotes on the fresh instance ---- *)
Section Call.
Variable val : Type.
Variable vnone : val.
Variable truthy : val -> bool.
Variable index : val -> nat -> option val.
Variable tbl : nat -> nodeT val.
Variables c1 c2 : cfg.
Variable P : list nat.

Notation den' := (den val vnone truthy index tbl).

(* the start table of the later call is the start table of the fresh call plus the c1-values of P *)
Lemma bound_tables_related :
  forall (dag_res dag_res' : results val) (inputs : list nat) (args : list val) (r r' : results val),
  bind val dag_res inputs args = Some r -> bind val dag_res' inputs args = Some r' ->
  (forall n, In n P -> ~ In n inputs) ->
  (forall n, lookup val dag_res' n = if mem n P then den' c1 r n else lookup val dag_res n) ->
  forall n, lookup val r' n = if mem n P then den' c1 r n else lookup val r n.
Proof. intros dag_res dag_res' inputs args r r' Hb Hb' Hdisj Hres n. destruct (mem n P) eqn:Em.
  - pose proof Em as Hin. apply mem_In in Hin.
    rewrite (bind_lookup_noninput val inputs args dag_res' r' n Hb' (Hdisj n Hin)).
    rewrite Hres, Em. reflexivity.
  - apply (bind_agree_at val inputs args dag_res dag_res' r r' n Hb Hb'). rewrite Hres, Em. reflexivity. Qed.

Theorem call_after_setup_same_as_fresh :
  forall (dag_res dag_res' : results val) (inputs : list nat) (args : list val) (r r' : results val),
  bind val dag_res inputs args = Some r -> bind val dag_res' inputs args = Some r' ->
  (forall n, In n P -> ~ In n inputs) ->
  (forall n, lookup val dag_res' n = if mem n P then den' c1 r n else lookup val dag_res n) ->
  c_nodes c1 = c_nodes c2 ->
  (forall n, In n (c_pre c2) <-> In n (c_pre c1) \/ In n P) ->
  (forall p, In p P -> In p (c_nodes c1) /\ ~ In p (c_pre c1)) ->
  wf c1 -> wf c2 -> consistent val tbl c1 r -> consistent val tbl c2 r' ->
  forall n, den' c2 r' n = den' c1 r n.
Proof. intros dag_res dag_res' inputs args r r' Hb Hb' Hdisj Hres Hn Hpre HP W1 W2 Cs1 Cs2.
  apply (den_precompute val vnone truthy index tbl c1 c2 P r r' Hn Hpre HP W1 W2 Cs1 Cs2).
  apply (bound_tables_related dag_res dag_res' inputs args r r' Hb Hb' Hdisj Hres). Qed.

(* and the same nodes raise *)
Theorem call_after_setup_same_failures :
  forall (dag_res dag_res' : results val) (inputs : list nat) (args : list val) (r r' : results val),
  bind val dag_res inputs args = Some r -> bind val dag_res' inputs args = Some r' ->
  (forall n, In n P -> ~ In n inputs) ->
  (forall n, lookup val dag_res' n = if mem n P then den' c1 r n else lookup val dag_res n) ->
  c_nodes c1 = c_nodes c2 ->
  (forall n, In n (c_pre c2) <-> In n (c_pre c1) \/ In n P) ->
  (forall p, In p P -> In p (c_nodes c1) /\ ~ In p (c_pre c1)) ->
  wf c1 -> wf c2 -> consistent val tbl c1 r -> consistent val tbl c2 r' ->
  forall n, In n (snd (den_eval val vnone truthy index tbl c2 r')) <->
            In n (snd (den_eval val vnone truthy index tbl c1 r)).
Proof. intros dag_res dag_res' inputs args r r' Hb Hb' Hdisj Hres Hn Hpre HP W1 W2 Cs1 Cs2.
  apply (den_precompute_failures val vnone truthy index tbl c1 c2 P r r' Hn Hpre HP W1 W2 Cs1 Cs2).
  apply (bound_tables_related dag_res dag_res' inputs args r r' Hb Hb' Hdisj Hres). Qed.

End Call.

(* ---- non-vacuity ---- *)
Example ex_bind_some :
  bind nat [(0,5);(1,6);(9,7)] [0;1] [42] = Some [(0,42);(0,5);(1,6);(9,7)].
Proof. vm_compute. reflexivity. Qed.
Example ex_bind_explicit_wins :
  option_map (fun r => lookup nat r 0) (bind nat [(0,5);(1,6);(9,7)] [0;1] [42]) = Some (Some 42).
Proof. vm_compute. reflexivity. Qed.
Example ex_bind_default_kept :
  option_map (fun r => lookup nat r 1) (bind nat [(0,5);(1,6);(9,7)] [0;1] [42]) = Some (Some 6).
Proof. vm_compute. reflexivity. Qed.
Example ex_bind_constant_untouched :
  option_map (fun r => lookup nat r 9) (bind nat [(0,5);(1,6);(9,7)] [0;1] [42]) = Some (Some 7).
Proof. vm_compute. reflexivity. Qed.
Example ex_bind_no_default :
  option_map (fun r => (lookup nat r 0, has nat r 1)) (bind nat [] [0;1] [3]) = Some (Some 3, false).
Proof. vm_compute. reflexivity. Qed.
Example ex_bind_too_many : bind nat [] [0] [1;2] = None.
Proof. vm_compute. reflexivity. Qed.
Example ex_bind_all : bind nat [(0,5)] [0;1] [1;2] = Some [(1,2);(0,1);(0,5)].
Proof. vm_compute. reflexivity. Qed.
(* the NoDup hypothesis of bind_lookup_arg is needed: with a repeated input the later argument wins *)
Example ex_bind_dup_inputs :
  option_map (fun r => lookup nat r 0) (bind nat [] [0;0] [1;2]) = Some (Some 2).
Proof. vm_compute. reflexivity. Qed.

Print Assumptions bind_too_many.
Print Assumptions bind_ok.
Print Assumptions bind_None_iff.
Print Assumptions bind_lookup_arg.
Print Assumptions bind_lookup_other.
Print Assumptions bind_keeps_default.
Print Assumptions bind_lookup_noninput.
Print Assumptions bind_has.
Print Assumptions bind_has_bool.
Print Assumptions bind_agree_at.
Print Assumptions bind_arg_indep.
Print Assumptions bind_agree.
Print Assumptions call_after_setup_same_as_fresh.
Print Assumptions call_after_setup_same_failures.
