"""engine: K-conc (Concurrent.v; C16 "several threads may call the same DAG ... at the same time", C17 "any number of
concurrent awaits"): 2-3 executions of ONE DAG object run AT THE SAME TIME, each in its own thread (an AsyncDAG in
its own event loop) and each under its OWN controller and completion order.  By ConcurrentFacts.grun_proj the
projection of the global interleaving onto one call is a run of the single-call scheduler: every call's own label
sequence must therefore be accepted by Sched.check against the declared configuration, end where the
implementation ended, and pass the independent monitors - whatever the other calls are doing meanwhile (failing
included: only one of the calls is given failing nodes in some cases)."""
import collections
import random

from . import ksched, sched_cases, tz


def gen(rng, tier):
    c = sched_cases.gen_case(rng, max_n=6 if tier == "quick" else 8, mode_mix=False)
    c.pop("target", None)
    c.pop("setup", None)
    if rng.random() < 0.35:
        # setup nodes: roots without flags (they are run once before the concurrent calls start)
        heads = {j for _, j in map(tuple, c["edges"])}
        roots = [i for i in range(c["n"]) if i not in heads and str(i) not in c["flags"] and i not in c["fails"]]
        c["setup"] = sorted(rng.sample(roots, min(len(roots), rng.randint(1, 2)))) if roots else []
    c["mode"] = "call" if not c.get("setup") else "setup_then_call"
    sched_cases.refresh_derived(c, rng)
    return c


def run_conc(case, k, seeds, fail_only=None):
    """-> list of per-call records (shape of ksched.run_case records, one run each)"""
    recs = [dict(case=case, sched_seed=seeds[i], runs=[], build_error=None, call=i, of=k) for i in range(k)]
    try:
        tz.tawazi.cfg.RUN_DEBUG_NODES = bool(case.get("run_debug"))
        try:
            d, thunks = sched_cases.build(case)
        finally:
            tz.tawazi.cfg.RUN_DEBUG_NODES = False
    except BaseException as e:  # noqa: BLE001
        for r in recs:
            r["build_error"] = "%s: %s" % (type(e).__name__, e)
        return recs
    run_debug = bool(case.get("run_debug"))
    tz.tawazi.cfg.RUN_DEBUG_NODES = run_debug
    try:
        if len(thunks) == 2:
            # the setup nodes have run before the concurrent calls start (hypothesis of C16)
            st0 = tz.run_controlled(thunks[0], tz.Ctl(free_run=True), is_async=case["is_async"])
            if st0[0] != "ok":
                for r in recs:
                    r["build_error"] = "setup() before the concurrent calls: %r" % (st0,)
                return recs
        try:
            dag_cp = dict(d.graph_ids.compound_priority)
        except BaseException:  # noqa: BLE001
            dag_cp = None
        fails = {sched_cases.node_name(i) for i in case["fails"]}
        ctls = [tz.Ctl(fails=fails if (fail_only is None or fail_only == i) else set(), rng=random.Random(seeds[i]), simultaneous=0.3) for i in range(k)]
        sts = tz.run_controlled_many([(thunks[-1], ctls[i], case["is_async"]) for i in range(k)])
    finally:
        tz.tawazi.cfg.RUN_DEBUG_NODES = False
    for i in range(k):
        c_i = case if (fail_only is None or fail_only == i) else dict(case, fails=[])
        recs[i]["case_seen"] = c_i
        recs[i]["runs"].append(ksched.post_run(c_i, ctls[i], sts[i], dag_cp, run_debug))
    return recs


def report(recs, res, pids, base):
    for r in recs:
        if r["build_error"]:
            res.notes.append("K-conc case did not build / set up: " + r["build_error"][:200])
            continue
        who = "call %d of %d concurrent calls of one DAG: " % (r["call"], r["of"])
        for run in r["runs"]:
            if run["status"] == "hang" or (run["broken"] and "spin" in run["broken"]):
                for p in pids + ["C09"]:
                    res.hit(p, "monitor", who + "did not return / scheduler spins: " + str(run["broken"]), dict(base, kind="monitor"))
            elif run["broken"]:
                for p in pids:
                    res.hit(p, "divergence", who + "controller could not drive the run: " + run["broken"], dict(base, kind="controller"))
            for seg in run["segs"]:
                res.evaluations += 1
                if seg["unparsable"]:
                    for p in pids:
                        res.hit(p, "divergence", who + "trace not parsable into model labels: " + seg["unparsable"], dict(base, kind="unparsable"))
                for prop, msg in seg.get("monitor") or []:
                    for p in dict.fromkeys([prop] + pids):
                        res.hit(p, "monitor", who + msg, dict(base, kind="monitor"))
                if seg["labels"] is not None:
                    res.traces_validated += 1
                    if not seg.get("agree", True):
                        for p in pids:
                            res.hit(p, "divergence", who + "K-conc: %s" % seg["reason"], dict(base, kind="divergence", verdict=seg.get("verdict"), labels=[l for l, _ in seg["labels"]][:60]))


def run(pid, tier, seed, res, only=None):
    rng = random.Random(seed * 2654435761 % (2 ** 31) + 77)
    n = 40 if tier == "quick" else 600
    plans = []
    if only is not None:
        plans = list(only)
    else:
        for _ in range(n):
            c = gen(rng, tier)
            if pid == "C17":
                c["is_async"] = True
            k = rng.choice([2, 2, 3])
            plans.append(dict(case=c, k=k, seeds=[rng.randint(0, 2 ** 30) for _ in range(k)],
                              fail_only=(rng.randrange(k) if c["fails"] and rng.random() < 0.6 else None)))
    dist = collections.Counter()
    allrecs = []
    bad = 0
    for pl in plans:
        recs = run_conc(pl["case"], pl["k"], pl["seeds"], pl.get("fail_only"))
        if any(run_["broken"] or run_["status"] == "hang" for r in recs for run_ in r["runs"]):
            # repeated once: only a failure that repeats is reported (an overloaded machine starves workers)
            recs2 = run_conc(pl["case"], pl["k"], pl["seeds"], pl.get("fail_only"))
            if all(r["runs"] for r in recs2) and not any(run_["broken"] or run_["status"] == "hang" for r in recs2 for run_ in r["runs"]):
                recs = recs2
        for r in recs:
            r["_plan"] = pl
            # the declared configuration a call is judged against is that of the case as THIS call saw it
            if "case_seen" in r:
                r["case"] = r.pop("case_seen")
        allrecs.extend(recs)
        dist["calls=%d" % pl["k"]] += 1
        dist["async" if pl["case"]["is_async"] else "sync"] += 1
        if pl.get("fail_only") is not None:
            dist["one_call_fails"] += 1
        elif pl["case"]["fails"]:
            dist["all_calls_fail"] += 1
        if pl["case"].get("setup"):
            dist["setup_done_before"] += 1
        bad += sum(1 for r in recs for run_ in r["runs"] if run_["broken"] or run_["status"] == "hang")
        if bad >= 4:
            res.notes.append("K-conc stopped after %d runs could not be driven / hung" % bad)
            break
    info = ksched.evaluate(allrecs, prefix="kconc_%s" % pid)
    if info["errors"]:
        res.hit(pid, "divergence", "coqc failed on K-conc case files: %s" % (info["errors"][0][2][-300:],), dict(kind="coqc-error"))
    for pl in plans:
        recs = [r for r in allrecs if r.get("_plan") is pl]
        base = dict(engine="kconc", plan=pl)
        report(recs, res, [pid], base)
        if recs and all(r["runs"] and all(s_.get("agree") for s_ in r["runs"][0]["segs"]) for r in recs):
            res.distinct.add(ksched.case_hash(dict(c=pl["case"], s=pl["seeds"])))
    res.distribution["kconc"] = dict(dist)
    res.engine_info["kconc"] = dict(plans=len(plans), calls=len(allrecs), **{k_: v for k_, v in info.items() if k_ != "errors"})
    if plans:
        res.samples.append(dict(engine="kconc", plan=dict(plans[0], case=plans[0]["case"])))
