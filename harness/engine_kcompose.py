"""engine: K-compose (C19): compose(inputs, outputs) on the real library against (a) Compose.v for the node
set and the ValueError conditions, (b) the embedding relation of Iso.v checked on the composed table,
(c) a plain-Python evaluation with the input statements overridden (independent reference)."""
import collections
import hashlib
import json
import random

from . import coqrun, kgraph, kvalue, tz
from .engine_kvalue import outcome
from .terms import Const, Keys, coq_term, enc, same
from .tz import tawazi

import warnings  # noqa: E402

warnings.filterwarnings("ignore", message="Input ExecNode .* is not used to produce")


def stmt_id(obj):
    """the node id behind the object a statement evaluated to at trace time"""
    if isinstance(obj, (tuple, list)):
        return obj[0].id if obj and hasattr(obj[0], "id") else None
    if isinstance(obj, dict):
        return None
    return getattr(obj, "id", None)


def value_for(rng, prog, i):
    """a value of the right shape for overriding statement i"""
    st = prog["stmts"][i]
    c = lambda: Const(70 + rng.randrange(20), rng.random() < 0.6)  # noqa: E731
    if st["op"] == "call":
        f = prog["funs"][st["f"]]
        if f["kind"] in ("unpack", "idx"):
            return tuple(c() for _ in f["truths"])
        if f["kind"] == "dict":
            return {kvalue.dk(k): c() for k, _ in f["keys"]}
    return c()


def sched_cfg_of(d, res_keys):
    g = d.graph_ids
    nodes = sorted(g.nodes)
    xns = d.exec_nodes
    return dict(nodes=nodes, deps={i: sorted({u.id for u in xns[i].dependencies}) for i in nodes}, pre=sorted(i for i in nodes if i in res_keys), maxc=1,
                cp={i: 0 for i in nodes}, seq={i: False for i in nodes}, res={i: "thread" for i in nodes})


def setup_part(pid, tier, rng, res, dist, only=None):
    """compose() on DAGs with setup nodes, after the original was called / set up / never run: the composed DAG
    takes the stored setup results from the original (does not run those nodes again), runs a setup node it
    needs at most once over two calls, returns the original's values with the inputs overridden, and leaves
    the original's setup state alone."""
    ncases = 80 if tier == "quick" else 1200
    cases = []
    for _ in range(ncases):
        c = kgraph.gen_graph_case(rng, max_n=6)
        c.pop("idx_edges", None)  # (indexed uses / outputs belong to the K-graph cases; the reference below evaluates whole values)
        c.pop("idx_out", None)
        c["debug"] = []
        c["call_tags"] = {}
        # tags: a UNIQUE tag may stand for its node among the inputs / outputs; a tag carried by several nodes is
        # ambiguous there and must be refused with ValueError, also inside a list of inputs
        c["tags"] = {k_: v_ for k_, v_ in c["tags"].items() if isinstance(v_, str) and v_ in ("t0", "t1", "t2")}
        if not c["setup"]:
            roots = [j for j in range(c["n"]) if not any(b == j for a, b in c["edges"])]
            c["setup"] = roots[:1]
        n = c["n"]
        c["hist"] = rng.choice(["call", "call", "setup", "none"])
        c["outs"] = sorted(rng.sample(range(n), rng.randint(1, min(2, n))))
        cand = [i for i in range(n) if i not in c["outs"] and i not in c["setup"]]
        c["ins"] = sorted(rng.sample(cand, rng.randint(0, min(2, len(cand)))))
        cases.append(c)
    if only is not None:
        cases = list(only)
    for c in cases:
        base = dict(engine="kcompose", variant="setup", case=c)
        n = c["n"]
        try:
            d, fs = kgraph.build_dag(c)
        except BaseException:  # noqa: BLE001
            dist["setup_build_error"] += 1
            continue
        if c["hist"] == "call":
            tz.run_controlled(lambda: d(), tz.Ctl(free_run=True))
        elif c["hist"] == "setup":
            tz.run_controlled(lambda: d.setup(), tz.Ctl(free_run=True))
        stored = {k: v for k, v in d.results.items() if k in d.exec_nodes and d.exec_nodes[k].setup}
        carriers = collections.defaultdict(list)
        for k_, t_ in c["tags"].items():
            carriers[t_].append(int(k_))
        amb = sorted(t_ for t_, l_ in carriers.items() if len(l_) >= 2)
        if amb:
            # an ambiguous tag among the inputs (as a bare alias and inside a list) / outputs
            for form in ("bare", "list", "out"):
                try:
                    if form == "bare":
                        d.compose("cmpx", amb[0], ["n%d" % i for i in c["outs"]])
                    elif form == "list":
                        d.compose("cmpx", [amb[0]], ["n%d" % i for i in c["outs"]])
                    else:
                        d.compose("cmpx", [], [amb[0]])
                    res.hit("C19", "monitor", "compose accepted the tag %r, carried by nodes %s, as %s" % (amb[0], carriers[amb[0]], {"bare": "its input", "list": "an input inside a list", "out": "an output"}[form]), dict(base, kind="monitor", form=form))
                except ValueError:
                    pass
                except BaseException as e:  # noqa: BLE001
                    res.hit("C19", "monitor", "compose with the ambiguous tag %r raised %s: %s instead of ValueError" % (amb[0], type(e).__name__, str(e)[:100]), dict(base, kind="monitor", form=form))
            dist["setup_ambiguous_tag"] += 1

        def alias(i):
            t_ = c["tags"].get(str(i))
            return t_ if (t_ and len(carriers[t_]) == 1 and i % 2 == 0) else "n%d" % i
        try:
            cd = d.compose("cmp", [alias(i) for i in c["ins"]], [alias(i) for i in c["outs"]])
        except ValueError:
            dist["setup_compose_ValueError"] += 1
            continue
        except BaseException as e:  # noqa: BLE001
            res.hit("C19", "monitor", "compose raised %s: %s" % (type(e).__name__, str(e)[:120]), dict(base, kind="monitor"))
            continue
        res.evaluations += 1
        dist["setup_hist_" + c["hist"]] += 1
        vals = [("in%d" % i, k) for k, i in enumerate(c["ins"])]
        eset = {tuple(e) for e in c["edges"]}

        def ev(i, memo):
            if i in memo:
                return memo[i]
            if i in c["ins"]:
                memo[i] = vals[c["ins"].index(i)]
            else:
                memo[i] = ("n%d" % i,) + tuple(ev(j, memo) for j in range(i) if (j, i) in eset) + ((7,) if c["consts"].get(str(i)) else ())
            return memo[i]
        memo = {}
        expect = tuple(ev(i, memo) for i in c["outs"])
        counts = collections.Counter()
        for rep in range(2):
            ctl = tz.Ctl(free_run=True)
            st = tz.run_controlled(lambda: cd(*vals), ctl)
            ex = [e[1] for e in ctl.trace if e[0] == "XENTER"]
            counts.update(ex)
            again = sorted(set(ex) & set(stored))
            if again:
                for p_ in ("C19", "C11"):
                    res.hit(p_, "monitor", "the composed DAG (inputs %s, outputs %s, original %s before composing) executed setup node(s) %s whose result the original already holds" % (c["ins"], c["outs"], c["hist"], again), dict(base, kind="monitor"))
            if st[0] != "ok":
                res.hit("C19", "monitor", "the composed DAG raised %s: %s" % (type(st[1]).__name__, str(st[1])[:120]), dict(base, kind="monitor"))
                break
            got = tuple(st[1])  # outputs given as a list: a tuple of len(outs) values
            if got != expect:
                res.hit("C19", "monitor", "the composed DAG (inputs %s, outputs %s) returned %r; the original pipeline with these nodes overridden computes %r" % (c["ins"], c["outs"], got, expect), dict(base, kind="monitor"))
                break
        twice = sorted(k for k, v in counts.items() if v > 1 and k in cd.exec_nodes and cd.exec_nodes[k].setup)
        if twice:
            for p_ in ("C19", "C11"):
                res.hit(p_, "monitor", "two calls of the composed DAG executed its setup node(s) %s twice" % twice, dict(base, kind="monitor"))
        now = {k: v for k, v in d.results.items() if k in d.exec_nodes and d.exec_nodes[k].setup}
        if now != stored:
            for p_ in ("C19", "C15"):
                res.hit(p_, "monitor", "composing / running the composed DAG changed the setup results held by the original (%s -> %s)" % (sorted(stored), sorted(now)), dict(base, kind="monitor"))


def run(pid, tier, seed, res, only=None):
    if only is not None and only and only[0].get("variant") == "setup":
        dist = collections.Counter()
        setup_part(pid, tier, random.Random(seed), res, dist, only=[o["case"] for o in only])
        return
    rng = random.Random(seed * 49979687 + 5)
    n = 160 if tier == "quick" else 2500
    progs = [kvalue.gen_prog(rng, max_stmts=8, p_sub=0.0, p_flag=0.25) for _ in range(n)]
    if only is not None:
        progs = [o["prog"] for o in only]
    dist = collections.Counter()
    items, where = [], []
    cp_items = []
    for pi, prog in enumerate(progs):
        keys = Keys()
        kvalue._K.cur = keys
        registry = {}
        rec = []
        try:
            d = kvalue.build_tawazi(prog, registry, recorder=rec)
        except BaseException as e:  # noqa: BLE001
            dist["build_error"] += 1
            continue
        sids = [stmt_id(o) for o in rec]
        usable = [i for i, s in enumerate(sids) if s is not None and s in d.exec_nodes]
        if not usable:
            continue
        if only is not None and "ins" in only[pi]:
            ins, outs = only[pi]["ins"], only[pi]["outs"]
        else:
            ins = sorted(rng.sample(usable, rng.randint(0, min(2, len(usable)))))
            outs = sorted(rng.sample(usable, rng.randint(1, min(2, len(usable)))))
            # statements used as activation flags are interesting inputs; their dependents interesting outputs
            flagged = [(i, st["active"][1]) for i, st in enumerate(prog["stmts"]) if st.get("active") and st["active"][0] == "var" and i in usable and st["active"][1] in usable]
            kwused = [(i, ex[1]) for i, st in enumerate(prog["stmts"]) if st["op"] == "call" for ex in st["kwargs"].values() if ex[0] == "var" and i in usable and ex[1] in usable]
            if kwused and rng.random() < 0.6:
                i_, f_ = rng.choice(kwused)
                ins = sorted(set(ins) | {f_})
                outs = sorted((set(outs) | {i_}) - {f_}) or [i_]
            if flagged and rng.random() < 0.6:
                i_, f_ = rng.choice(flagged)
                ins = sorted(set(ins) | {f_})
                outs = sorted((set(outs) | {i_}) - {f_}) or [i_]
        single_out = len(outs) == 1 and rng.random() < 0.5
        args = kvalue.gen_args(rng, prog)
        # a defaulted PARAMETER of the DAG may be made an input of the composed DAG too (its stored default is then
        # replaced by the supplied value)
        prr = random.Random(rng.getrandbits(30))
        if only is not None and "pins" in only[pi]:
            pins = list(only[pi]["pins"])
        else:
            defaulted = [j for j, p_ in enumerate(prog["params"]) if p_["default"] is not None]
            pins = [prr.choice(defaulted)] if defaulted and prr.random() < 0.3 else []
        # inputs given as Ellipsis: every parameter of the original DAG (required or defaulted), in order
        if only is not None and "ellipsis" in only[pi]:
            ellipsis = bool(only[pi]["ellipsis"])
        else:
            ellipsis = bool(prog["params"]) and prr.random() < 0.15
        if ellipsis:
            ins, pins = [], list(range(len(prog["params"])))
        base = dict(engine="kcompose", prog=prog, ins=ins, outs=outs, pins=pins, ellipsis=ellipsis, args=[enc(a, Keys()) for a in args])
        res.evaluations += 1
        # original before
        ctl0 = tz.Ctl(free_run=True)
        before = tz.run_controlled(lambda: d(*args), ctl0)
        table_before = sorted((k, [(u.id, tuple(u.key)) for u in x.args], sorted((kk, u.id, tuple(u.key)) for kk, u in x.kwargs.items()), None if x.active is None else (x.active.id, tuple(x.active.key))) for k, x in d.exec_nodes.items())
        in_ids = [sids[i] for i in ins] + [d.input_uxns[j].id for j in pins]
        out_ids = [sids[i] for i in outs]
        try:
            cd = d.compose("cmp", ... if ellipsis else in_ids, out_ids[0] if single_out else out_ids)
            impl = ("ok", cd)
        except ValueError as e:
            impl = ("ValueError", str(e)[:160])
        except BaseException as e:  # noqa: BLE001
            impl = ("other", "%s: %s" % (type(e).__name__, str(e)[:160]))
        dist["compose_" + impl[0]] += 1
        if len(prog["stmts"]) >= 3 and ins:
            res.distinct.add(hashlib.sha1(json.dumps([prog, ins, outs], sort_keys=True).encode()).hexdigest()[:12])
        # ---- model: node set / error
        t_nodes = sorted(d.graph_ids.nodes)
        allids = coqrun.Ids(kvalue.all_ids(d) | set(t_nodes) | {"cmp>!>" + x for x in in_ids})
        preds = coqrun.fun_table({allids(k): allids.l(sorted({u.id for u in d.exec_nodes[k].dependencies})) for k in t_nodes}, "[]", coqrun.nat_list)
        required = [u.id for u in d.input_uxns if u.id not in d.results]
        term_set = "enc_cmp (compose_set %s %s %s %s %s)" % (preds, coqrun.nat_list(allids.l(t_nodes)), coqrun.nat_list(allids.l(required)),
                                                             coqrun.nat_list(allids.l(in_ids)), coqrun.nat_list(allids.l(out_ids)))
        entry = dict(pi=pi, base=base, impl=impl, allids=allids, in_ids=in_ids, out_ids=out_ids, d=d, keys=keys)
        where.append(("set", entry))
        items.append(term_set)
        if impl[0] != "ok":
            continue
        # ---- the composed DAG schedules by the documented compound priorities of ITS graph (C06 / C07)
        try:
            tb = kgraph.impl_tables(cd)
            cids = coqrun.Ids(list(tb["nodes"]) + [p_ for ps_ in tb["deps"].values() for p_ in ps_])
            cp_items.append((dict(base=base, tables=tb, ids=cids, in_ids=in_ids, out_ids=out_ids),
                             "kprio %s %s %s" % (coqrun.fun_table({cids(k_): cids.l(v_) for k_, v_ in tb["deps"].items()}, "[]", coqrun.nat_list),
                                                 coqrun.fun_table({cids(k_): v_ for k_, v_ in tb["prio"].items()}, "0%Z", coqrun.z), coqrun.nat_list(cids.l(tb["nodes"])))))
        except BaseException as e:  # noqa: BLE001
            res.hit(pid, "divergence", "tables of the composed DAG not readable: %s: %s" % (type(e).__name__, e), dict(base, kind="table"))
        # ---- run the composed DAG on supplied values
        vals = [value_for(rng, prog, i) for i in ins] + [Const(95 + j, j % 2 == 0) for j in pins]
        ctl = tz.Ctl(free_run=True)
        st = tz.run_controlled(lambda: cd(*vals), ctl)
        # independent reference: the plain body with the input statements overridden
        ov = {i: v for i, v in zip(ins, vals)}
        ov["__outs__"] = list(outs)
        ref_f = kvalue.build_plain(prog, override=ov)
        # the composed DAG takes constants and DEFAULTS from the original; required parameters are not
        # available to it (compose refuses when the outputs need one), so the reference gets placeholders
        nreq = sum(1 for p in prog["params"] if p["default"] is None)
        ref_args = [(Const(95 + j, j % 2 == 0) if j in pins else Const(99, False)) for j in range(nreq)]
        if pins and max(pins) >= nreq:
            for j in range(nreq, max(pins) + 1):
                ref_args.append(Const(95 + j, j % 2 == 0) if j in pins else kvalue.default_value(prog["params"][j]))
        ref = outcome(lambda: ref_f(*ref_args))
        if ref[0] == "ok":
            ref = ("ok", ref[1][0] if single_out else tuple(ref[1]))
        entry.update(st=st, ref=ref, vals=vals)
        # only the needed nodes ran
        executed = sorted({e[1] for e in ctl.trace if e[0] == "XENTER"})
        entry["executed"] = executed
        if st[0] == "ok" and ref[0] == "ok":
            if not same(st[1], ref[1]):
                res.hit("C19", "monitor", "composed DAG (inputs %s, outputs %s) returned %r; the original pipeline with these nodes overridden computes %r" % (in_ids, out_ids, st[1], ref[1]), dict(base, kind="monitor"))
        elif st[0] == "raise" and ref[0] == "ok":
            res.hit("C19", "monitor", "composed DAG (inputs %s, outputs %s) raised %s: %s; the original pipeline with these nodes overridden computes %r" % (in_ids, out_ids, type(st[1]).__name__, str(st[1])[:120], ref[1]), dict(base, kind="monitor"))
        # ---- the composed DAG called inside another DAG's describing function behaves as the composed DAG (C20)
        if st[0] == "ok" and (pi % 3 == 0):
            import inspect as _inspect

            def mk_outer(cd_, k_):
                def outer(*xs):
                    return cd_(*xs)
                outer.__qualname__ = "outer_of_cmp"
                outer.__name__ = "outer_of_cmp"
                outer.__signature__ = _inspect.Signature([_inspect.Parameter("x%d" % j_, _inspect.Parameter.POSITIONAL_OR_KEYWORD) for j_ in range(k_)])
                return outer
            try:
                od = tawazi.dag(mk_outer(cd, len(vals)))
                sto = tz.run_controlled(lambda: od(*vals), tz.Ctl(free_run=True))
            except BaseException as e_:  # noqa: BLE001
                sto = ("build-raise", e_)
            if sto[0] != "ok" or not same(sto[1], st[1]):
                for p_ in ("C20", "C19"):
                    res.hit(p_, "monitor", "the composed DAG (inputs %s, outputs %s) returns %r; called inside another DAG's describing function: %r" % (in_ids, out_ids, st[1], sto), dict(base, kind="monitor", variant="nested-composed"))
            dist["nested_composed"] += 1
        # ---- every node kept by compose() carries the attributes it has in the original
        for nid_, xo_ in d.exec_nodes.items():
            xc_ = cd.exec_nodes.get(nid_)
            if xc_ is None or nid_ in in_ids or ">!>" in nid_:
                continue
            for attr_, props_ in (("is_sequential", ("C05",)), ("resource", ("C04",)), ("priority", ("C07",)), ("setup", ("C11",)), ("debug", ("C13",))):
                if getattr(xc_, attr_) != getattr(xo_, attr_):
                    for p_ in props_ + ("C19",):
                        res.hit(p_, "monitor", "node %s has %s=%r in the original DAG and %s=%r in the DAG composed from it (inputs %s, outputs %s)" % (nid_, attr_, getattr(xo_, attr_), attr_, getattr(xc_, attr_), in_ids, out_ids), dict(base, kind="monitor"))
                    break
        # ---- the original is unchanged by composing and by running the composed DAG
        ctl1 = tz.Ctl(free_run=True)
        after = tz.run_controlled(lambda: d(*args), ctl1)
        table_after = sorted((k, [(u.id, tuple(u.key)) for u in x.args], sorted((kk, u.id, tuple(u.key)) for kk, u in x.kwargs.items()), None if x.active is None else (x.active.id, tuple(x.active.key))) for k, x in d.exec_nodes.items())
        if before[0] != after[0] or (before[0] == "ok" and not same(before[1], after[1])) or table_before != table_after:
            for p_ in ("C19", "C15"):
                res.hit(p_, "monitor", "composing / running the composed DAG changed the original DAG (value %r -> %r)" % (before[1], after[1]), dict(base, kind="monitor"))
        # ---- embedding of the composed table in the original with the inputs overridden
        if ctl.cfgs:
            cfg1 = ctl.cfgs[0]
            ids = coqrun.Ids(kvalue.all_ids(d) | kvalue.all_ids(cd) | set(cfg1["nodes"]) | set(t_nodes))
            specs1, err1 = kvalue.table_coq(cd, ids, keys, registry)
            specs2, err2 = kvalue.table_coq(d, ids, keys, registry)
            if specs1 is None or specs2 is None:
                res.hit(pid, "divergence", "node table not expressible in the model: %s" % (err1 or err2), dict(base, kind="table"))
                continue
            res1 = kvalue.res0_coq(ctl.res0s[0], ids, keys)
            res2d = dict(d.results)
            for i_, v in zip(in_ids, vals):
                res2d[i_] = v  # (for a parameter made an input: the supplied value replaces the stored default)
            cfg2 = sched_cfg_of(d, set(res2d.keys()))
            rho = "[" + "; ".join("(%d, %d)" % (ids("cmp>!>" + x), ids(x)) for x in in_ids) + "]"
            term = "embed_check %s %s %s %s %s %s %s []" % (specs1, specs2, coqrun.sched_cfg_coq(cfg1, ids), coqrun.sched_cfg_coq(cfg2, ids), res1, kvalue.res0_coq(res2d, ids, keys), rho)
            where.append(("embed", dict(entry, ids=ids)))
            items.append(term)
    prefix = "kcompose_%s" % pid
    coqrun.clean_build(prefix)
    if cp_items:
        paths_cp = coqrun.write_shards(prefix + "cp", "Graph Priority Select GraphCheck", [t_ for _, t_ in cp_items], per_file=120, ty="list Z")
        results_cp, errors_cp = coqrun.run_shards(paths_cp)
        if errors_cp:
            res.hit(pid, "divergence", "coqc failed on K-compose priority files: " + errors_cp[0][2][-400:], dict(kind="coqc-error"))
        for k_, (e_, _t) in enumerate(cp_items):
            mv = results_cp.get(k_)
            if mv is None:
                res.hit(pid, "divergence", "no model result (composed priority table)", dict(e_["base"], kind="no-result"))
                continue
            model = {e_["ids"].names[mv[i_]]: mv[i_ + 1] for i_ in range(0, len(mv), 2)}
            t_ = e_["tables"]
            bad = {n_: (t_["cp"][n_], model.get(n_)) for n_ in t_["nodes"] if t_["cp"][n_] != model.get(n_)}
            if bad:
                n0 = sorted(bad)[0]
                msg = "composed DAG (inputs %s, outputs %s): compound priority of %s is %s, own priority + sum over distinct descendants is %s" % (e_["in_ids"], e_["out_ids"], n0, bad[n0][0], bad[n0][1])
                for p_ in ("C07", "C06", "C19"):
                    res.hit(p_, "monitor", msg, dict(e_["base"], kind="monitor", differing={k2: list(v2) for k2, v2 in bad.items()}))
        coqrun.clean_build(prefix + "cp")
    paths = coqrun.write_shards(prefix, "Graph Sched Dataflow Terms Compose IsoCheck", items, per_file=60)
    results, errors = coqrun.run_shards(paths)
    coqrun.clean_build(prefix)
    if errors:
        res.hit(pid, "divergence", "coqc failed on K-compose case files: " + errors[0][2][-400:], dict(kind="coqc-error"))
    for k, (kind, e) in enumerate(where):
        v = results.get(k)
        base = e["base"]
        if v is None:
            res.hit(pid, "divergence", "no model result (%s)" % kind, dict(base, kind="no-result"))
            continue
        if kind == "set":
            impl = e["impl"]
            if v[0] == 0:
                if impl[0] == "ok":
                    res.hit("C19", "monitor", "compose(inputs %s, outputs %s) succeeded; the documented rule refuses it (insufficient inputs or an input depending on another input)" % (e["in_ids"], e["out_ids"]), dict(base, kind="monitor"))
            else:
                if impl[0] != "ok":
                    res.hit("C19", "monitor", "compose(inputs %s, outputs %s) raised %s: %s; the documented rule accepts it" % (e["in_ids"], e["out_ids"], impl[0], impl[1]), dict(base, kind="monitor"))
                else:
                    mset = sorted(e["allids"].names[x] for x in v[1:])
                    cd = impl[1]
                    got = sorted(x[len("cmp>!>"):] if x.startswith("cmp>!>") else x for x in cd.exec_nodes.keys())
                    if got != mset:
                        res.hit("C19", "monitor", "composed DAG (inputs %s, outputs %s) holds nodes %s, the outputs need %s" % (e["in_ids"], e["out_ids"], got, mset), dict(base, kind="monitor"))
                    extra = sorted(set(e.get("executed", [])) - set(mset))
                    if extra:
                        res.hit("C19", "monitor", "composed DAG executed %s which the outputs do not need" % extra, dict(base, kind="monitor"))
        else:
            res.traces_validated += 1
            if v:
                codes = [(v[i], e["ids"].names[v[i + 1]] if v[i + 1] < len(e["ids"].names) else v[i + 1]) for i in range(0, len(v), 2)]
                res.hit("C19", "divergence", "K-compose: the composed table is not embedded in the original pipeline with the inputs overridden: %s (1 node missing, 2 function, 3 arguments, 4 flag, 5 pre-computed value, 6 absent id)" % codes[:4],
                        dict(base, kind="divergence", codes=codes))
    if only is None:
        setup_part(pid, tier, rng, res, dist)
    res.distribution["kcompose"] = dict(dist)
    res.engine_info["kcompose"] = dict(programs=len(progs), model_evaluations=len(items))
    if progs:
        res.samples.append(dict(engine="kcompose", prog=progs[0]))
