"""K-sched: run generated cases on the real scheduler under the controller and replay the observed
labels in the Coq model (trace acceptance)."""
import hashlib
import json
import random
import time

from . import coqrun, sched_cases, tz

PCN = {0: "PTop", 1: "PGateC", 2: "PPick", 3: "PDeferA", 4: "PDeferC", 5: "PActive", 6: "PDisp", 7: "PDrainA", 8: "PDrainC", 9: "PFinished", 10: "PRaised"}
WHY = {1: "step-undefined", 2: "inflight-set-differs", 3: "runnable-set-differs", 4: "remaining-set-differs", 5: "candidates-differ"}


def jsonable(x):
    if isinstance(x, BaseException):
        return "%s: %s" % (type(x).__name__, x)
    if isinstance(x, (list, tuple)):
        return [jsonable(y) for y in x]
    if isinstance(x, dict):
        return {str(k): jsonable(v) for k, v in x.items()}
    if isinstance(x, (str, int, float, bool)) or x is None:
        return x
    return repr(x)


def post_run(case, ctl, st, dag_cp, run_debug):
    """the record of one controlled execution: its trace cut into scheduler runs, labels, monitors"""
    trace = list(ctl.trace)
    run = dict(status=st[0], value=jsonable(st[1]), choices=ctl.choices, broken=ctl.broken, segs=[], first_choices=ctl.first_choices, first_options=ctl.first_options, inline=ctl.inline_choices)
    # split the full trace (with worker events) per execution for the monitors
    full = []
    curfull = None
    for e in trace:
        if e[0] == "BEGIN":
            curfull = []
            full.append(curfull)
        elif curfull is not None:
            curfull.append(e)
    for si, seg in enumerate(sched_cases.segments(trace, ctl)):
        dcfg, diffs = sched_cases.declared_cfg(case, seg["cfg"], dag_cp=dag_cp, run_debug=run_debug)
        s = dict(cfg=dcfg, labels=None, end=None, unparsable=None, monitor=[], declared_diffs=diffs)
        try:
            labels, end = sched_cases.to_labels(seg["evs"])
            s["labels"] = labels
            s["end"] = end
            s["monitor"] = sched_cases.monitors(dcfg, full[si] if si < len(full) else [], labels, end)
            s["monitor"] += [(p_, m_) for ps_, m_ in diffs for p_ in ps_]
        except sched_cases.Unparsable as u:
            # the independent monitors do not need the model's labels: they still supply a concrete failing run
            try:
                s["monitor"] = sched_cases.monitors(dcfg, full[si] if si < len(full) else [], None, sched_cases.end_of(seg["evs"]))
            except BaseException:  # noqa: BLE001
                pass
            s["monitor"] += [(p_, m_) for ps_, m_ in diffs for p_ in ps_]
            s["unparsable"] = str(u)
            s["raw"] = jsonable(seg["evs"])
        run["segs"].append(s)
    return run


def run_case(case, sched_seed=None, choose=None, simultaneous=0.2, slow=None, inline=None):
    """build + run one case; -> record dict (JSON-able apart from transient fields)"""
    rec = dict(case=case, sched_seed=sched_seed, runs=[], build_error=None)
    try:
        tz.tawazi.cfg.RUN_DEBUG_NODES = bool(case.get("run_debug"))
        try:
            d, thunks = sched_cases.build(case)
        finally:
            tz.tawazi.cfg.RUN_DEBUG_NODES = False
    except BaseException as e:  # noqa: BLE001
        rec["build_error"] = "%s: %s" % (type(e).__name__, e)
        return rec
    rng = random.Random(sched_seed) if sched_seed is not None else None
    for ti, th in enumerate(thunks):
        ctl = tz.Ctl(choose=None if (choose is None or ti >= len(choose)) else [list(c) for c in choose[ti]], fails={sched_cases.node_name(i) for i in case["fails"]}, rng=rng, simultaneous=simultaneous, free_run=bool(slow))
        ctl.slow = slow or 0
        if inline is not None:
            ctl.inline_plan = [list(x) for x in inline[ti]] if ti < len(inline) else []
        tz.tawazi.cfg.TAWAZI_PROFILE_ALL_NODES = bool(case.get("profile"))
        run_debug = bool(case.get("run_debug")) if not (case.get("mode") == "call_toggle" and ti == 1) else not bool(case.get("run_debug"))
        tz.tawazi.cfg.RUN_DEBUG_NODES = run_debug
        try:
            dag_cp = dict(d.graph_ids.compound_priority)
        except BaseException:  # noqa: BLE001
            dag_cp = None
        try:
            st = tz.run_controlled(th, ctl, is_async=case["is_async"])
        finally:
            tz.tawazi.cfg.TAWAZI_PROFILE_ALL_NODES = False
            tz.tawazi.cfg.RUN_DEBUG_NODES = False
        run = post_run(case, ctl, st, dag_cp, run_debug)
        rec["runs"].append(run)
        if st[0] != "ok":
            break
    return rec


def run_case_checked(case, **kw):
    """run_case; a run that hung / could not be driven is repeated once with the same seed and choices: only a failure
    that repeats is reported (a worker starved by an overloaded machine is not a finding, a scheduler that hangs is)"""
    rec = run_case(case, **kw)
    if any(run["broken"] or run["status"] == "hang" for run in rec["runs"]):
        rec2 = run_case(case, **kw)
        if rec2["runs"] and not any(run["broken"] or run["status"] == "hang" for run in rec2["runs"]):
            rec2["retried"] = True
            return rec2
    return rec


def seg_to_coq(seg):
    cfg = seg["cfg"]
    names = set(cfg["nodes"])
    for n, ds in cfg["deps"].items():
        names |= set(ds)
    for lab, obs in seg["labels"]:
        if lab[0] == "W":
            names |= {n for n, _ in lab[3]} | set(obs[1]) | set(obs[2]) | set(obs[3])
        elif lab[0] in ("P", "A", "I"):
            names.add(lab[1])
            if lab[0] == "P":
                names |= set(obs[1])
        elif lab[0] == "S":
            names.add(lab[2])
    ids = coqrun.Ids(names)
    cfgc = coqrun.sched_cfg_coq(cfg, ids)
    labs = "[" + "; ".join(coqrun.label_coq(l, o, ids) for l, o in seg["labels"]) + "]"
    return ids, "enc_verdict (check %s %s)" % (cfgc, labs)


def decode(v):
    if not v:
        return dict(accepted=False, why="no-result")
    if v[0] == 1:
        return dict(accepted=True, pc=PCN[v[1]], pcarg=v[2], started=v[3], finished=v[4], skipped=v[5])
    return dict(accepted=False, index=v[1], pc=PCN[v[2]], pcarg=v[3], why=WHY.get(v[4], str(v[4])))


def evaluate(records, prefix="ksched"):
    """run the Coq acceptor on every parsed segment of every record; annotates seg['verdict'] and seg['agree']."""
    items = []
    where = []
    for r in records:
        for run in r["runs"]:
            for seg in run["segs"]:
                if seg["labels"] is None:
                    continue
                ids, term = seg_to_coq(seg)
                seg["_ids"] = ids
                items.append(term)
                where.append(seg)
    coqrun.clean_build(prefix)
    paths = coqrun.write_shards(prefix, "Graph Sched", items, per_file=150)
    t0 = time.time()
    results, errors = coqrun.run_shards(paths)
    dt = time.time() - t0
    for i, seg in enumerate(where):
        v = decode(results.get(i))
        seg["verdict"] = v
        ids = seg.pop("_ids")
        end = seg["end"]
        agree = v["accepted"]
        reason = None
        if not v["accepted"]:
            reason = "model rejects label %s at %s: %s" % (v.get("index"), v.get("pc"), v.get("why"))
        elif end is None:
            agree, reason = False, "execution has no END event"
        elif end[0] == "ok":
            if v["pc"] != "PFinished":
                agree, reason = False, "implementation returned normally, model is at %s" % v["pc"]
        else:
            if end[1] is None:
                agree, reason = False, "implementation raised %s which is not a node failure; model is at %s" % (jsonable(end[2]), v["pc"])
            elif v["pc"] != "PRaised" or ids.names[v["pcarg"]] != end[1]:
                agree, reason = False, "implementation raised for node %s, model is at %s %s" % (end[1], v["pc"], v["pcarg"])
        seg["agree"] = agree
        seg["reason"] = reason
    coqrun.clean_build(prefix)
    return dict(evaluated=len(items), coqc_s=dt, errors=errors)


def case_hash(case):
    return hashlib.sha1(json.dumps(case, sort_keys=True).encode()).hexdigest()[:12]


def alternatives(ids):
    """the completions a FIRST_COMPLETED wait can report: any non-empty subset (all subsets up to 3 in flight)"""
    import itertools
    ids = sorted(ids)
    if len(ids) <= 3:
        return [list(c) for r_ in range(1, len(ids) + 1) for c in itertools.combinations(ids, r_)]
    return [[i] for i in ids] + [ids]


def explore_all_schedules(case, max_runs=200):
    """DFS over every choice the controller can make for this case (single-operation cases).
    -> (records, complete: bool)"""
    records = []
    stack = [[]]
    runs = 0
    bad_runs = 0
    while stack and runs < max_runs:
        prefix = stack.pop()
        rec = run_case_checked(case, sched_seed=None, choose=[prefix])
        runs += 1
        records.append(rec)
        if not rec["runs"]:
            break
        run = rec["runs"][0]
        if run["broken"] or run["status"] == "hang":
            bad_runs += 1
            if bad_runs >= 2:
                break
        fc, fo = run.get("first_choices", []), run.get("first_options", [])
        for i in range(len(prefix), len(fc)):
            for alt in alternatives(fo[i]):
                if alt != fc[i]:
                    stack.append([list(x) for x in fc[:i]] + [alt])
    return records, not stack
