"""check driver: ./check <PROPERTY> [--tier quick|thorough] [--replay path]

Per property: (1) proof stage — the Coq development builds, contains no admit/axiom, and the
property file's theorems are closed (Print Assumptions); (2) correspondence stage — the engines
registered for the property run the real tawazi from /repo and the model on the same cases;
(3) decision — see DESIGN.md section 5."""
import argparse
import hashlib
import json
import os
import sys
import time
import traceback

from . import coqrun

VERIF = coqrun.VERIF
SCHED_PROPS = ["C02", "C03", "C04", "C05", "C06", "C08", "C09", "C14"]

TRUSTED_BASE = [
    "Coq 8.16.1 kernel (coqc); vm_compute for evaluating the model on cases and for the finite witnesses of *_refuted theorems; no native_compute, no extraction",
    "hand-written Gallina model (coq/*.v without 'Facts'/'Inv' in the name) and its abstraction choices: DESIGN.md sections 2-3",
    "correspondence harness (harness/*.py): wrappers around module globals of tawazi._dag.helpers, DiGraphEx.remove_root_node and ExecNode.execute, the controller, generators, canonicalisation, the cases_*.v printer and the parser of coqc's output",
    "semantics of concurrent.futures / asyncio futures: a node function runs inside [dispatch, observed-done]; networkx graph primitives as modelled in Graph.v",
    "node functions are pure and terminate",
]


class Result:
    def __init__(self):
        self.evaluations = 0
        self.distinct = set()
        self.samples = []
        self.distribution = {}
        self.hits = []  # dicts: prop, kind ('monitor'|'divergence'), desc, replay
        self.notes = []
        self.traces_validated = 0
        self.engine_info = {}

    def hit(self, prop, kind, desc, replay):
        self.hits.append(dict(prop=prop, kind=kind, desc=desc, replay=replay))


def load_known():
    p = os.path.join(VERIF, "known_findings.json")
    if not os.path.exists(p):
        return []
    return json.load(open(p)).get("findings", [])


def match_known(hit, known):
    for k in known:
        if k.get("status") != "known":
            continue
        if hit["prop"] not in k.get("properties", [k.get("property")]):
            continue
        sig = k.get("signature", {})
        r = hit.get("replay") or {}
        s = r.get("signature") or {}
        if sig and all(s.get(a) == b for a, b in sig.items()):
            return k
    return None


def write_replay(pid, payload):
    os.makedirs(os.path.join(VERIF, "replays"), exist_ok=True)
    h = hashlib.sha1(json.dumps(payload, sort_keys=True, default=str).encode()).hexdigest()[:10]
    path = os.path.join(VERIF, "replays", "%s-%s.json" % (pid, h))
    with open(path, "w") as f:
        json.dump(payload, f, indent=1, default=str)
    return path


def proof_stage(pid, tier="quick"):
    """-> (ok, info dict)"""
    info = {}
    ok, log = coqrun.ensure_built()
    info["build_ok"] = ok
    if not ok:
        info["build_log"] = log
        return False, info
    bad = coqrun.grep_forbidden()
    info["forbidden"] = bad
    ok2, thms, log2 = coqrun.property_assumptions(pid)
    info["theorems"] = [dict(name=n, assumptions=a) for n, a in thms]
    info["property_file_ok"] = ok2
    if not ok2:
        info["property_log"] = log2
    closed = [t for t in thms if t[1].startswith("Closed under the global context")]
    info["obligations"] = len(thms)
    info["discharged"] = len(closed) if not bad else 0
    chk_ok = True
    if tier == "thorough":
        # independent re-check of the compiled property module and everything it depends on
        import subprocess
        try:
            p = subprocess.run(["coqchk", "-o", "-silent", "-Q", coqrun.COQDIR, "Tawazi", "Tawazi.Properties." + pid], capture_output=True, text=True, timeout=1800, cwd=coqrun.COQDIR)
            out = p.stdout + p.stderr
            info["coqchk"] = out[-600:]
            chk_ok = p.returncode == 0 and "Axioms: <none>" in out
        except Exception as e:  # noqa: BLE001
            info["coqchk"] = "coqchk failed to run: %s" % e
            chk_ok = False
        info["coqchk_ok"] = chk_ok
    return ok and ok2 and not bad and len(thms) > 0 and len(closed) == len(thms) and chk_ok, info


def main(argv=None):
    import faulthandler
    import signal
    try:
        faulthandler.register(signal.SIGUSR1, all_threads=True)  # kill -USR1 <pid> dumps every thread's stack
    except Exception:  # noqa: BLE001
        pass
    ap = argparse.ArgumentParser()
    ap.add_argument("prop")
    ap.add_argument("--tier", default=os.environ.get("VERIF_TIER", "quick"))
    ap.add_argument("--replay", default=None)
    ap.add_argument("--no-proof", action="store_true", help=argparse.SUPPRESS)
    args = ap.parse_args(argv)
    pid = args.prop
    tier = args.tier if args.tier in ("quick", "thorough") else "quick"
    seed = int(os.environ.get("VERIF_SEED", "0") or 0)
    t0 = time.time()
    from . import props  # late import: needs tawazi importable

    if pid not in props.REGISTRY:
        print("unknown property", pid)
        return 2
    spec = props.REGISTRY[pid]
    if args.replay:
        return props.replay(pid, args.replay)

    res = Result()
    pinfo = {}
    proof_ok = True
    if not args.no_proof:
        proof_ok, pinfo = proof_stage(pid, tier)
    for eng in spec["engines"]:
        try:
            eng(pid, tier, seed, res)
        except (KeyboardInterrupt, SystemExit):
            raise
        except BaseException as e:  # harness failure = broken correspondence, never silently ignored
            # (BaseException: an implementation that cancels foreign tasks makes CancelledError surface here)
            res.hit(pid, "divergence", "harness could not observe the implementation (%s): %s: %s" % (getattr(eng, "__name__", "engine"), type(e).__name__, e),
                    dict(kind="harness-broken", error=traceback.format_exc()))
    known = load_known()
    violations = []
    known_lines = []
    foreign = []
    for h in res.hits:
        if h["prop"] != pid:
            foreign.append(h)
            continue
        k = match_known(h, known)
        if k is not None:
            known_lines.append((k, h))
        else:
            violations.append(h)
    if not proof_ok:
        violations.append(dict(prop=pid, kind="proof", desc="proof stage failed: " + json.dumps({k: v for k, v in pinfo.items() if k in ("build_ok", "forbidden", "property_file_ok")}),
                               replay=dict(kind="proof-obligation", detail=pinfo)))
    # report
    seen_known = set()
    for k, h in known_lines:
        if k["id"] in seen_known:
            continue
        seen_known.add(k["id"])
        print("KNOWN-FINDING: property=%s %s [%s]" % (pid, k["what"], k["id"]))
    rc = 0
    printed = set()
    monitor_hit = any(v["kind"] == "monitor" for v in violations)
    for v in violations:
        key = (v["kind"], v["desc"][:80])
        if key in printed:
            continue
        printed.add(key)
        if len(printed) > 5:
            break
        path = write_replay(pid, dict(property=pid, kind=v["kind"], description=v["desc"], replay=v["replay"], seed=seed, tier=tier))
        tail = ""
        if v["kind"] != "monitor" and not monitor_hit:
            tail = " no-failing-input-found"
        print("VIOLATION property=%s replay=%s%s" % (pid, path, tail))
        print("  " + v["desc"][:300])
        rc = 1
    # evidence
    cov = dict(
        obligations=pinfo.get("obligations", 0),
        discharged=pinfo.get("discharged", 0),
        checker_cmd="make -C /verif/coq (coq_makefile, full .vo build) && coqc -Q /verif/coq Tawazi coq/Properties/%s.v (Print Assumptions); correspondence: coqc on generated build/*.v with Eval vm_compute" % pid,
        trusted_base=TRUSTED_BASE + spec.get("trusted_extra", []),
        theorems=pinfo.get("theorems", []),
        coqchk=pinfo.get("coqchk"),
        evaluations=res.evaluations,
        distinct_nontrivial=len(res.distinct),
        rule=spec.get("rule", ""),
        samples=res.samples[:3],
        traces_validated_against_impl=res.traces_validated,
        distribution=res.distribution,
        engine_info=res.engine_info,
        foreign_divergences=[dict(prop=h["prop"], kind=h["kind"], desc=h["desc"][:200]) for h in foreign[:20]],
        known_findings_seen=sorted(seen_known),
        notes=res.notes,
    )
    ev = dict(property_id=pid, tier=tier, seed=seed, level="proof", coverage=cov,
              assumptions=spec.get("assumptions", []), wall_s=round(time.time() - t0, 2), violations=len(violations))
    # a run without the proof stage (development aid) never overwrites the evidence of a full run
    evdir = os.path.join(VERIF, "evidence") if not args.no_proof else os.path.join(coqrun.BUILD, "evidence_noproof")
    os.makedirs(evdir, exist_ok=True)
    with open(os.path.join(evdir, pid + ".json"), "w") as f:
        json.dump(ev, f, indent=1, default=str)
    if rc == 0:
        print("OK property=%s tier=%s seed=%d evaluations=%d distinct=%d theorems=%d/%d wall=%.1fs" % (
            pid, tier, seed, res.evaluations, len(res.distinct), cov["discharged"], cov["obligations"], time.time() - t0))
    return rc


if __name__ == "__main__":
    _rc = main()
    # worker threads of an implementation that deadlocked (reported above) must not keep the check alive:
    # interpreter shutdown would join them forever
    sys.stdout.flush()
    sys.stderr.flush()
    os._exit(_rc if isinstance(_rc, int) else 0)
