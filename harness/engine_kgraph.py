"""engine: K-graph (C06 table, C07, C11 selection, C12, C13)."""
import collections
import hashlib
import json
import random

from . import coqrun, kgraph, tz
from .tz import tawazi


def qdesc(q):
    return {k: q[k] for k in ("kind", "run_debug", "target", "exclude", "root")}


def documented_order(t):
    """the order a max_concurrency=1 run without ties must have: repeatedly the ready node of greatest compound priority
    (nodes = everything that is not an argument / constant holder and not a debug node; RUN_DEBUG_NODES is off)"""
    nodes = [n for n in t["cp"] if ">!>" not in n and "<!<" not in n and not t["debug"].get(n)]
    ns = set(nodes)
    deps = {n: [d_ for d_ in t["deps"].get(n, []) if d_ in ns] for n in nodes}
    done, out = set(), []
    while len(out) < len(nodes):
        ready = [n for n in nodes if n not in done and all(d_ in done for d_ in deps[n])]
        if not ready:
            return None
        b = max(ready, key=lambda n: t["cp"][n])
        done.add(b)
        out.append(b)
    return out


def run(pid, tier, seed, res, seeds_extra=None, only=None):
    rng = random.Random(seed * 104729 + 7)
    ncases = 150 if tier == "quick" else 2500
    cases = []
    # fixed shapes first: diamond, shared descendant at two depths (F1 shapes), chain of debug nodes
    cases.append(dict(kind="graph", n=4, edges=[[0, 1], [0, 2], [1, 3], [2, 3]], prios=[1, 10, 100, 1000], debug=[], setup=[], tags={}, consts={}, queries=[
        dict(kind="exec", run_debug=False, target=[["id", "n3"]], exclude=None, root=None, in_hypothesis=True),
        dict(kind="exec", run_debug=False, target=None, exclude=None, root=[["id", "n0"]], in_hypothesis=True)]))
    cases.append(dict(kind="graph", n=4, edges=[[0, 1], [1, 2], [2, 3], [1, 3]], prios=[1, 10, 100, 1000], debug=[], setup=[], tags={}, consts={}, queries=[
        dict(kind="exec", run_debug=False, target=[["id", "n2"]], exclude=None, root=None, in_hypothesis=True)]))
    cases.append(dict(kind="graph", n=4, edges=[[0, 1], [1, 2], [2, 3]], prios=[0, 3, 1, 2], debug=[2, 3], setup=[], tags={"1": "t0"}, consts={}, queries=[
        dict(kind="exec", run_debug=False, target=[["tag", "t0"]], exclude=None, root=None, in_hypothesis=True),
        dict(kind="exec", run_debug=True, target=[["tag", "t0"]], exclude=None, root=None, in_hypothesis=True),
        dict(kind="exec", run_debug=False, target=None, exclude=None, root=[["id", "n0"]], in_hypothesis=True),
        dict(kind="call", run_debug=False, target=None, exclude=None, root=None, in_hypothesis=True)]))
    # a debug node joining two debug branches, one of which is cut away by the selection
    cases.append(dict(kind="graph", n=5, edges=[[0, 2], [1, 3], [2, 4], [3, 4]], prios=[0, 0, 0, 0, 0], debug=[2, 3, 4], setup=[], tags={}, consts={}, queries=[
        dict(kind="exec", run_debug=True, target=None, exclude=[["id", "n1"]], root=None, in_hypothesis=True),
        dict(kind="exec", run_debug=True, target=[["id", "n0"]], exclude=None, root=None, in_hypothesis=True),
        dict(kind="exec", run_debug=True, target=[["id", "n0"], ["id", "n1"]], exclude=None, root=None, in_hypothesis=True),
        dict(kind="exec", run_debug=False, target=None, exclude=[["id", "n1"]], root=None, in_hypothesis=True)]))
    # a debug node with a setup parent AND an ordinary parent: pulled into a run only when both are part of it
    cases.append(dict(kind="graph", n=4, edges=[[0, 2], [1, 2], [0, 3]], prios=[0, 0, 0, 0], debug=[2], setup=[1], tags={}, consts={}, queries=[
        dict(kind="exec", run_debug=True, target=[["id", "n0"]], exclude=None, root=None, in_hypothesis=True),
        dict(kind="exec", run_debug=True, target=[["id", "n3"]], exclude=None, root=None, in_hypothesis=True),
        dict(kind="exec", run_debug=True, target=[["id", "n0"], ["id", "n1"]], exclude=None, root=None, in_hypothesis=True),
        dict(kind="exec", run_debug=False, target=[["id", "n0"], ["id", "n1"]], exclude=None, root=None, in_hypothesis=True)]))
    # priorities beyond 2**53 that differ by one (exact integer comparison, no float rounding)
    cases.append(dict(kind="graph", n=4, edges=[[2, 3]], prios=[2 ** 53, 2 ** 53 + 1, 2 ** 60 + 2, -(2 ** 60) - 3], debug=[], setup=[], tags={}, consts={}, queries=[
        dict(kind="call", run_debug=False, target=None, exclude=None, root=None, in_hypothesis=True)]))
    cases.append(dict(kind="graph", n=3, edges=[], prios=[2 ** 53 + 1, 2 ** 53 + 2, 2 ** 53], debug=[], setup=[], tags={}, consts={}, queries=[
        dict(kind="call", run_debug=False, target=None, exclude=None, root=None, in_hypothesis=True)]))
    # a compound priority of exactly 0 next to a non-zero own priority (n0: 6 + (-6)), competitors in between
    cases.append(dict(kind="graph", n=4, edges=[[0, 1]], prios=[6, -6, 3, -2], debug=[], setup=[], tags={}, consts={}, queries=[
        dict(kind="call", run_debug=False, target=None, exclude=None, root=None, in_hypothesis=True)]))
    cases.append(dict(kind="graph", n=5, edges=[[0, 1], [0, 2]], prios=[-4, 1, 3, -2, -5], debug=[], setup=[], tags={}, consts={}, queries=[
        dict(kind="exec", run_debug=False, target=[["id", "n1"], ["id", "n3"], ["id", "n4"]], exclude=None, root=None, in_hypothesis=True)]))
    # a short root closure next to a large unrelated component, exclusions inside a long chain of the closure
    # (the order in which the nodes of a sub-graph are visited must not matter)
    big = [[6, j] for j in range(7, 14)] + [[7, 10], [8, 11], [9, 12], [10, 13]]
    for ch in ([[0, 1], [1, 2], [2, 3], [3, 4], [4, 5]], [[0, 1], [0, 2], [1, 3], [2, 3], [3, 4], [4, 5]]):
        cases.append(dict(kind="graph", n=14, edges=ch + big, prios=[0] * 14, debug=[], setup=[], tags={}, consts={}, queries=[
            dict(kind="exec", run_debug=False, target=None, exclude=[["id", "n1"]], root=[["id", "n0"]], in_hypothesis=True),
            dict(kind="exec", run_debug=False, target=None, exclude=[["id", "n2"]], root=[["id", "n0"]], in_hypothesis=True),
            dict(kind="exec", run_debug=False, target=None, exclude=[["ref", 3]], root=[["ref", 0]], in_hypothesis=True),
            dict(kind="exec", run_debug=False, target=[["id", "n1"]], exclude=[["id", "n3"]], root=[["id", "n0"]], in_hypothesis=True),
            dict(kind="exec", run_debug=False, target=None, exclude=[["id", "n7"]], root=[["id", "n6"]], in_hypothesis=True)]))
    for _ in range(ncases):
        gc = kgraph.gen_graph_case(rng, max_n=7 if tier == "quick" else 9)
        zr = random.Random(rng.getrandbits(30))
        if zr.random() < 0.15:
            # make one compound priority exactly 0 while the node's own priority is not
            withd = [i for i in range(gc["n"]) if any(a == i for a, _b in gc["edges"])]
            if withd:
                i0 = zr.choice(withd)
                below = kgraph.descendants(gc["n"], [tuple(e) for e in gc["edges"]], [i0]) - {i0}
                tot = sum(gc["prios"][j] for j in below)
                if tot != 0:
                    gc["prios"][i0] = -tot
        cases.append(kgraph.gen_queries(rng, gc, k=6))
    n_exh = 0
    if tier == "thorough" and only is None:
        # every DAG shape on <= 3 nodes x every (R, X, T) with each of them None or any subset, ids as aliases
        import itertools
        from .sched_cases import all_small_shapes
        for n_, edges_ in all_small_shapes(3):
            subsets = [None] + [list(c_) for k_ in range(n_ + 1) for c_ in itertools.combinations(range(n_), k_)]
            qs = []
            for R in subsets:
                for X in subsets:
                    for T in subsets:
                        qs.append(dict(kind="exec", run_debug=False, target=None if T is None else [["id", "n%d" % i] for i in T],
                                       exclude=None if X is None else [["id", "n%d" % i] for i in X], root=None if R is None else [["id", "n%d" % i] for i in R], in_hypothesis=True))
            for chunk in range(0, len(qs), 60):
                cases.append(dict(kind="graph", n=n_, edges=edges_, prios=[rng.randint(-2, 3) for _ in range(n_)], debug=[], setup=[], tags={}, consts={}, queries=qs[chunk:chunk + 60]))
                n_exh += len(qs[chunk:chunk + 60])
        res.notes.append("exhaustive: all DAG shapes on <= 3 nodes x all (root, exclude, target) subset triples: %d queries" % n_exh)
    # reconfiguration: priorities (and flags) changed through config_from_dict, several entries, the last one
    # possibly touching no priority: the table must be recomputed from the new priorities
    if only is None:
        for c_ in list(cases[4:4 + (40 if tier == "quick" else 400)]):
            c2_ = json.loads(json.dumps(c_))
            ids_ = list(range(c2_["n"]))
            rng.shuffle(ids_)
            conf = {}
            for j_, i_ in enumerate(ids_[:rng.randint(1, min(3, len(ids_)))]):
                ent = {}
                if rng.random() < 0.7:
                    ent["priority"] = rng.randint(-3, 6)
                if rng.random() < 0.5 or not ent:
                    ent["is_sequential"] = rng.random() < 0.5
                conf["n%d" % i_] = ent
            # tags may alias several nodes: configure through ids only
            c2_["reconfig"] = dict(nodes=conf)
            c2_["tags"] = {}
            for q_ in c2_["queries"]:
                for key_ in ("target", "exclude", "root"):
                    if q_[key_]:
                        q_[key_] = [a_ for a_ in q_[key_] if a_[0] != "tag"] or None
            cases.append(c2_)
    if only is not None:
        cases = list(only)
    items = []
    where = []
    dist = collections.Counter()
    impl = []
    for ci, case in enumerate(cases):
        try:
            d, fs = kgraph.build_dag(case)
        except BaseException as e:  # noqa: BLE001
            res.notes.append("graph case did not build: %s: %s" % (type(e).__name__, str(e)[:150]))
            dist["build_error"] += 1
            impl.append(None)
            continue
        if case.get("reconfig"):
            try:
                d.config_from_dict(case["reconfig"])
            except BaseException as e:  # noqa: BLE001
                res.hit("C07", "monitor", "config_from_dict(%s) raised %s: %s" % (case["reconfig"], type(e).__name__, str(e)[:100]), dict(engine="kgraph", case=case, kind="monitor"))
        tables = kgraph.impl_tables(d)
        qres = []
        for q in case["queries"]:
            r = kgraph.impl_query(d, fs, q)
            ex = r.pop("executor", None)
            if ex is not None and r["status"] == "ok":
                # run it: which nodes actually execute, what is returned
                ctl = tz.Ctl(free_run=True)
                tawazi.cfg.RUN_DEBUG_NODES = bool(q["run_debug"])
                try:
                    st = tz.run_controlled(lambda ex=ex: ex(), ctl, is_async=False)
                finally:
                    tawazi.cfg.RUN_DEBUG_NODES = False
                r["executed"] = sorted({e[1] for e in ctl.trace if e[0] == "XENTER"})
                r["pre"] = sorted(set(ctl.cfgs[0]["pre"])) if ctl.cfgs else []
                r["stored"] = sorted(set(ctl.cfgs[0]["results_keys"])) if ctl.cfgs else []
                r["run_status"] = st[0]
                if st[0] == "raise":
                    r["run_error"] = "%s: %s" % (type(st[1]).__name__, str(st[1])[:120])
                if st[0] == "ok" and isinstance(st[1], tuple):
                    r["none_pattern"] = [v is None for v in st[1]]
            qres.append(r)
        impl.append(dict(tables=tables, qres=qres))
        # tags are what the user DECLARED (decorator tag, or the call site's twz_tag which replaces it)
        decl_tags = kgraph.declared_tags(case)
        impl_tags = {k_: sorted(v_) for k_, v_ in tables["tags"].items() if k_.startswith("n") and k_[1:].isdigit()}
        if impl_tags != {k_: sorted(v_) for k_, v_ in decl_tags.items()}:
            for p_ in ("C12", "C03"):
                res.hit(p_, "monitor", "tag table of the DAG %s differs from the declared tags %s (a call site's twz_tag replaces the decorator's tag)" % (impl_tags, decl_tags), dict(engine="kgraph", case=case, kind="monitor"))
        ids, terms = kgraph.model_terms(case, dict(tables, tags=dict({k_: v_ for k_, v_ in tables["tags"].items() if not (k_.startswith("n") and k_[1:].isdigit())}, **decl_tags)))
        for label, term in terms:
            where.append((ci, label, ids))
            items.append(term)
        dist["nodes=%d" % len(tables["nodes"])] += 1
        nontree = any(sum(1 for a, b in case["edges"] if b == j) > 1 for j in range(case["n"]))
        if nontree:
            dist["non_tree"] += 1
        res.evaluations += 1 + len(case["queries"])
        if nontree or case["debug"] or case["setup"]:
            res.distinct.add(hashlib.sha1(json.dumps(case, sort_keys=True).encode()).hexdigest()[:12])
    # ---- build rules (C13: a non-debug node depending on a debug node; C11: a setup node depending on a
    #      non-setup node or a DAG parameter): accepted / rejected at build time as Build.v says
    nviol = 240 if tier == "quick" else 2400
    for vk_ in range(nviol):
        basec = cases[rng.randrange(len(cases))]
        vc = kgraph.gen_violation(rng, basec, vk_)
        if vc is None:
            continue
        v = vc["viol"]
        try:
            kgraph.build_dag(vc)
            built = ("ok", None)
        except BaseException as e:  # noqa: BLE001
            built = ("raise", "%s: %s" % (type(e).__name__, str(e)[:120]))
        n_ = vc["n"]
        deps = {j: [a for a, b in vc["edges"] if b == j] for j in range(n_)}
        PARAM = n_  # id of the DAG parameter in the model
        CONST0 = n_ + 1
        for j in range(n_):
            if vc["consts"].get(str(j)):
                deps[j] = deps[j] + [CONST0 + j]
        SUBSTUB = n_ + 1 + n_  # the input stub of a nested DAG: a non-debug, non-setup node of the outer DAG
        mnodes = list(range(n_))
        if v["via"] in kgraph.SUBVIA:
            deps[SUBSTUB] = [v["src"]]
            mnodes.append(SUBSTUB)
        elif v["via"] == "op":
            # an operator node (plain node) between the source and the dependent
            deps[SUBSTUB] = [PARAM if v["how"] == "param" else v["src"]]
            mnodes.append(SUBSTUB)
            deps[v["dst"]] = deps[v["dst"]] + [SUBSTUB]
        else:
            deps[v["dst"]] = deps[v["dst"]] + [PARAM if v["how"] == "param" else v["src"]]
        term = "kbuild %s %s %s %s %s %s" % (
            coqrun.fun_table(deps, "[]", coqrun.nat_list),
            coqrun.fun_table({j: True for j in vc["debug"]}, "false", lambda b: "true"),
            coqrun.fun_table({j: True for j in vc["setup"]}, "false", lambda b: "true"),
            "(fun n : nat => andb (Nat.leb %d n) (Nat.ltb n %d))" % (CONST0, SUBSTUB), "(fun n : nat => Nat.eqb n %d)" % PARAM, coqrun.nat_list(mnodes))
        where.append(("viol", dict(case=vc, built=built)))
        items.append(("nat", term))
        res.evaluations += 1
    prefix = "kgraph_%s" % pid
    coqrun.clean_build(prefix)
    nat_items = [(i, it[1]) for i, it in enumerate(items) if isinstance(it, tuple)]
    z_items = [(i, it) for i, it in enumerate(items) if not isinstance(it, tuple)]
    paths = coqrun.write_shards(prefix, "Graph Priority Select GraphCheck", [t for _, t in z_items], per_file=120, ty="list Z")
    results_z, errors = coqrun.run_shards(paths)
    paths2 = coqrun.write_shards(prefix + "b", "Graph Build", [t for _, t in nat_items], per_file=200)
    results_n, errors2 = coqrun.run_shards(paths2)
    errors = errors + errors2
    results = {}
    for k2, (i, _) in enumerate(z_items):
        if k2 in results_z:
            results[i] = results_z[k2]
    for k2, (i, _) in enumerate(nat_items):
        if k2 in results_n:
            results[i] = results_n[k2]
    coqrun.clean_build(prefix)
    coqrun.clean_build(prefix + "b")
    if errors:
        res.hit(pid, "divergence", "coqc failed on K-graph case files: " + errors[0][2][-300:], dict(kind="coqc-error"))
    for k, w_ in enumerate(where):
        if w_[0] == "viol":
            mv = results.get(k)
            vc, built = w_[1]["case"], w_[1]["built"]
            v = vc["viol"]
            base = dict(engine="kgraph", case=vc)
            if mv is None:
                res.hit(pid, "divergence", "no model result for a build-rule case", dict(base, kind="no-result"))
                continue
            owner = "C11" if (v["dst"] in vc["setup"] and v["via"] not in kgraph.SUBVIA) else "C13"
            if mv[0] == 1 and built[0] != "ok":
                res.hit(owner, "divergence", "K-build: a DAG the build rules accept was rejected: %s (extra dependency %s)" % (built[1], v), dict(base, kind="divergence"))
            elif mv[0] == 0 and built[0] == "ok":
                what = "a setup node depending on a non-setup node or a DAG parameter" if owner == "C11" else "a non-debug node depending on a debug node"
                res.hit(owner, "monitor", "a DAG with %s (through %s) was accepted at build time: extra dependency %s, debug %s, setup %s" % (what, v["via"], v, vc["debug"], vc["setup"]), dict(base, kind="monitor"))
            continue
        ci, label, ids = w_
        case = cases[ci]
        im = impl[ci]
        mv = results.get(k)
        base = dict(engine="kgraph", case=case)
        if mv is None:
            res.hit(pid, "divergence", "no model result for %s" % label, dict(base, kind="no-result"))
            continue
        t = im["tables"]
        if label == "cprio":
            model = {ids.names[mv[i]]: mv[i + 1] for i in range(0, len(mv), 2)}
            bad = {n: (t["cp"][n], model.get(n)) for n in t["nodes"] if t["cp"][n] != model.get(n)}
            if bad:
                n0 = sorted(bad)[0]
                msg = "compound priority of %s is %s, own priority + sum over distinct descendants is %s (graph edges %s, priorities %s)" % (
                    n0, bad[n0][0], bad[n0][1], case["edges"], case["prios"])
                res.hit("C07", "monitor", msg, dict(base, kind="monitor", differing=bad))
                res.hit("C06", "divergence", "K-graph: compound priority table used for scheduling differs from the documented function: " + msg, dict(base, kind="divergence", tag="cprio-table"))
            continue
        qi = int(label[1:])
        q = case["queries"][qi]
        r = im["qres"][qi]
        dist["q_" + q["kind"]] += 1
        dist["q_status_" + r["status"]] += 1
        if r["status"] == "other":
            # an exception other than ValueError.  Outside the documented contract (an excluded node that
            # root_nodes already cut away: the model says what is selected, networkx raises) it is only recorded
            in_hyp = True
            if q["exclude"] is not None and q["root"] is not None:
                def res_alias(a):
                    if a[0] == "ref":
                        return ["n%d" % a[1]]
                    hits = [nid for nid, ts in t["tags"].items() if a[1] in ts]
                    return hits or [a[1]]
                R = [x for a in q["root"] for x in res_alias(a)]
                X = [x for a in q["exclude"] for x in res_alias(a)]
                edges_ = [(p, nn) for nn, ps in t["deps"].items() for p in ps]
                g1 = set(R)
                ch = True
                while ch:
                    ch = False
                    for p, nn in edges_:
                        if p in g1 and nn not in g1:
                            g1.add(nn)
                            ch = True
                in_hyp = all(x in g1 for x in X)
            if in_hyp:
                res.hit("C12" if q["kind"] == "exec" else "C11", "monitor", "%s raised %s, which is neither a selection nor the documented ValueError" % (qdesc(q), r.get("msg")), dict(base, kind="monitor", query=q))
            else:
                dist["q_outside_contract"] += 1
            continue
        m_ok = mv[0] == 1
        m_nodes = sorted(ids.names[x] for x in mv[1:]) if m_ok else None
        owner = "C12" if q["kind"] == "exec" else ("C11" if q["kind"] == "setup" else "C13")
        if (r["status"] == "ok") != m_ok:
            res.hit(owner, "monitor", "%s: implementation %s, documented rule %s" % (qdesc(q), r["status"] + (" " + str(r.get("nodes")) if r["status"] == "ok" else ""),
                                                                                      "selects %s" % m_nodes if m_ok else "raises ValueError"), dict(base, kind="monitor", query=q))
            continue
        if not m_ok:
            continue
        if r["nodes"] != m_nodes:
            diff = set(r["nodes"]) ^ set(m_nodes)
            only_debug = all(t["debug"].get(x) for x in diff)
            prop = "C13" if only_debug and q["kind"] != "setup" else owner
            res.hit(prop, "monitor", "%s selects %s, documented closure is %s" % (qdesc(q), r["nodes"], m_nodes), dict(base, kind="monitor", query=q))
            names_dbg = {"n%d" % i_ for i_ in case["debug"]}
            tnames = {("n%d" % a_[1]) if a_[0] == "ref" else a_[1] for a_ in (q["target"] or [])}
            if prop != "C13" and q["kind"] == "exec" and (tnames & names_dbg or any(set(case["tags"].get(str(i_), []) if not isinstance(case["tags"].get(str(i_)), str) else [case["tags"][str(i_)]]) & tnames for i_ in case["debug"])):
                # a selection that names a debug node: the production nodes it needs are the same under both settings
                res.hit("C13", "monitor", "%s (a debug node is among the targets) selects %s, documented closure is %s" % (qdesc(q), r["nodes"], m_nodes), dict(base, kind="monitor", query=q))
            if "executed" in r and r.get("run_status") == "ok" and prop == "C12":
                # C03: exactly the selected nodes are entered, the selection being the documented one
                expect_ = sorted(set(m_nodes) - set(r["pre"]))
                if r["executed"] != expect_:
                    res.hit("C03", "monitor", "%s executed %s, the documented selection is %s" % (qdesc(q), r["executed"], expect_), dict(base, kind="monitor", query=q))
        # tables carried by the selected graph
        for n_, v in r.get("cp", {}).items():
            if v != t["cp"][n_]:
                msg = "%s: compound priority of %s in the executed graph is %s, in the DAG %s" % (qdesc(q), n_, v, t["cp"][n_])
                res.hit("C07", "monitor", msg, dict(base, kind="monitor", query=q))
                res.hit("C06", "monitor", msg, dict(base, kind="monitor", query=q))
                break
        for n_, v in r.get("dbg", {}).items():
            if v != t["debug"][n_]:
                res.hit("C13", "monitor", "%s: debug table of the executed graph lost node %s" % (qdesc(q), n_), dict(base, kind="monitor", query=q))
                break
        if not q["run_debug"]:
            dbg_in = [x for x in r["nodes"] if t["debug"].get(x)]
            if dbg_in:
                res.hit("C13", "monitor", "%s with RUN_DEBUG_NODES off selects debug node(s) %s" % (qdesc(q), dbg_in), dict(base, kind="monitor", query=q))
        if "executed" in r and r.get("run_status") == "raise" and q.get("in_hypothesis"):
            res.hit("C12", "monitor", "%s: the selection is accepted and the run then raises (%s) instead of returning the values of the nodes it ran and None for the others" % (qdesc(q), r.get("run_error")), dict(base, kind="monitor", query=q))
        if "executed" in r and r.get("run_status") == "ok" and r.get("none_pattern") is not None:
            have_ = set(r["executed"]) | set(r["pre"]) | set(r.get("stored", []))
            slots_ = ["n%d" % i_ for i_ in range(case["n"])] + ["n%d" % j_ for j_ in case.get("idx_out", [])]
            if len(slots_) == len(r["none_pattern"]):
                wrong_ = [(k_, s_) for k_, (s_, isn_) in enumerate(zip(slots_, r["none_pattern"])) if isn_ != (s_ not in have_)]
                if wrong_:
                    k_, s_ = wrong_[0]
                    res.hit("C12", "monitor", "%s: output %d (%s of %s) is %s although the node %s" % (qdesc(q), k_, "an indexed part" if k_ >= case["n"] else "the value", s_, "None" if r["none_pattern"][k_] else "a value", "ran or was already computed" if s_ in have_ else "was left out"), dict(base, kind="monitor", query=q))
        if "executed" in r and r.get("run_status") == "ok":
            expect = sorted(set(r["nodes"]) - set(r["pre"]))
            if r["executed"] != expect:
                res.hit("C12", "monitor", "%s executed %s, selected %s" % (qdesc(q), r["executed"], expect), dict(base, kind="monitor", query=q))
                res.hit("C03", "monitor", "%s executed %s, selected %s" % (qdesc(q), r["executed"], expect), dict(base, kind="monitor", query=q))
            if not q["run_debug"] and any(t["debug"].get(x) for x in r["executed"]):
                res.hit("C13", "monitor", "%s with RUN_DEBUG_NODES off executed debug node(s)" % (qdesc(q),), dict(base, kind="monitor", query=q))
    # hash-seed independence of the priority table and of the execution order
    greedy_items, greedy_where = [], []
    if pid in ("C07", "C06"):
        seeds = seeds_extra or ([1, 2] if tier == "quick" else [1, 2, 3, 4, 5])
        sub_cases = [c for c, im in zip(cases, impl) if im is not None][: (60 if tier == "quick" else 400)]
        main_tabs, err = kgraph.other_seed_tables(sub_cases, 0, tz.REPO)
        if main_tabs is None:
            res.hit(pid, "divergence", "sub-process for hash seed 0 failed: %s" % err, dict(kind="subprocess"))
        else:
            for sd in seeds:
                tabs, err = kgraph.other_seed_tables(sub_cases, sd, tz.REPO)
                if tabs is None:
                    res.hit(pid, "divergence", "sub-process for hash seed %d failed: %s" % (sd, err), dict(kind="subprocess"))
                    continue
                for case, a, b in zip(sub_cases, main_tabs, tabs):
                    res.evaluations += 1
                    if a["cp"] != b["cp"]:
                        n0 = [n for n in a["cp"] if a["cp"][n] != b["cp"].get(n)][0]
                        res.hit("C07", "monitor", "compound priority of %s is %s under PYTHONHASHSEED=0 and %s under PYTHONHASHSEED=%d (edges %s, priorities %s)" % (
                            n0, a["cp"][n0], b["cp"].get(n0), sd, case["edges"], case["prios"]), dict(engine="kgraph", case=case, kind="monitor", seeds=[0, sd]))
                    else:
                        cps = [v for n, v in a["cp"].items() if ">!>" not in n and "<!<" not in n]
                        if len(set(cps)) == len(cps) and a["order"] != b["order"]:
                            res.hit("C07", "monitor", "max_concurrency=1 without ties: execution order %s under seed 0, %s under seed %d" % (a["order"], b["order"], sd),
                                    dict(engine="kgraph", case=case, kind="monitor", seeds=[0, sd]))
                        # ... and that unique order is the documented one: always the ready node of greatest compound priority
                        if sd == seeds[0] and len(set(cps)) == len(cps) and a.get("maxc") == 1 and a["order"] and not str(a["order"][0]).startswith("ERR"):
                            # Greedy.greedy_order of the declared configuration, evaluated in coqc (GreedyFacts.greedy_is_the_order:
                            # every complete run of the scheduler model resolves its nodes in this order)
                            nodes_ = [n_ for n_ in a["cp"] if ">!>" not in n_ and "<!<" not in n_ and not a["debug"].get(n_)]
                            gids_ = coqrun.Ids(nodes_)
                            gcfg_ = dict(nodes=nodes_, pre=[], deps={n_: [d_ for d_ in a["deps"].get(n_, []) if d_ in set(nodes_)] for n_ in nodes_},
                                         seq={}, res={}, cp={n_: a["cp"][n_] for n_ in nodes_}, maxc=1)
                            greedy_items.append("kgreedy %s" % coqrun.sched_cfg_coq(gcfg_, gids_))
                            greedy_where.append((case, a, gids_))
                            exp = documented_order(a)
                            if exp is not None and [x for x in exp if x in set(a["order"])] != a["order"]:
                                for p_ in ("C07", "C06"):
                                    res.hit(p_, "monitor", "max_concurrency=1 without ties: executed in the order %s, always starting the ready node of greatest compound priority gives %s (table %s)" % (
                                        a["order"], [x for x in exp if x in set(a["order"])], {k_: v_ for k_, v_ in a["cp"].items() if k_ in set(a["order"])}), dict(engine="kgraph", case=case, kind="monitor", seeds=[0]))
                        # an executor over the whole DAG schedules by the same table: same unique order
                        for t_ in (a, b):
                            if len(set(cps)) == len(cps) and t_.get("xorder") is not None and t_["xorder"] != t_["order"]:
                                for p_ in ("C07", "C06"):
                                    res.hit(p_, "monitor", "max_concurrency=1 without ties: a call executes in the order %s, an executor over the whole DAG in the order %s" % (t_["order"], t_["xorder"]),
                                            dict(engine="kgraph", case=case, kind="monitor", seeds=[0, sd]))
                                break
        dist["hash_seeds"] = len(seeds) + 1
        if greedy_items:
            prefix_ = "kgreedy_%s" % pid
            coqrun.clean_build(prefix_)
            gres_, gerr_ = coqrun.run_shards(coqrun.write_shards(prefix_, "Graph Sched Greedy", greedy_items, per_file=100))
            coqrun.clean_build(prefix_)
            if gerr_:
                res.hit(pid, "divergence", "coqc failed on K-graph greedy-order files: " + gerr_[0][2][-300:], dict(kind="coqc-error"))
            for k_, (case_, a_, gids_) in enumerate(greedy_where):
                v_ = gres_.get(k_)
                if v_ is None:
                    res.hit(pid, "divergence", "no model result (greedy order)", dict(engine="kgraph", case=case_, kind="no-result"))
                    continue
                model_order = [gids_.names[x_] for x_ in v_]
                ran_ = set(a_["order"])
                if [x_ for x_ in model_order if x_ in ran_] != a_["order"]:
                    for p_ in ("C07", "C06"):
                        res.hit(p_, "divergence", "K-graph: max_concurrency=1 without ties executed in the order %s, Greedy.greedy_order of the declared configuration is %s" % (a_["order"], [x_ for x_ in model_order if x_ in ran_]), dict(engine="kgraph", case=case_, kind="divergence", seeds=[0]))
            dist["greedy_orders"] = len(greedy_items)
    res.distribution["kgraph"] = dict(dist)
    res.engine_info["kgraph"] = dict(cases=len(cases), model_evaluations=len(items))
    if cases:
        c0 = cases[min(5, len(cases) - 1)]
        res.samples.append(dict(engine="kgraph", case=c0))
