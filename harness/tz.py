"""Instrumentation and controller for the real tawazi scheduler (no source hooks).

Everything is observed through names that `tawazi._dag.helpers.async_execute` resolves at call
time in its module globals (wait_for_finished_nodes[_async], ThreadPoolExecutor,
to_thread_in_executor, max, _xn_active_in_call), through `DiGraphEx.remove_root_node` and
`ExecNode.execute` (class attributes) and through `async_execute` itself as bound in
`tawazi._dag.helpers` and `tawazi._dag.dag`.  The wrappers record an event and delegate.

A `Ctl` object is the controller + recorder of ONE execution.  Node functions made by `mknode`
block on a per-node gate while they run on a worker thread; gates are opened only from inside the
wrapped wait helpers, i.e. while the scheduler is blocked, following the schedule choices of the
Ctl.  A run is therefore a deterministic function of (case, schedule).
"""
import asyncio
import builtins
import logging
import os
import sys
import threading
import time

logging.getLogger("asyncio").setLevel(logging.CRITICAL)
REPO = os.environ.get("TAWAZI_REPO", "/repo")
if sys.path[0] != REPO:
    sys.path.insert(0, REPO)
os.environ.setdefault("TAWAZI_VERIF_HARNESS", "1")

import tawazi  # noqa: E402
from tawazi import Resource  # noqa: E402
from tawazi._dag import dag as D  # noqa: E402
from tawazi._dag import helpers as H  # noqa: E402
from tawazi._dag.digraph import DiGraphEx  # noqa: E402
from tawazi.node import node as N  # noqa: E402

assert os.path.realpath(tawazi.__file__).startswith(os.path.realpath(REPO)), tawazi.__file__


class HarnessBroken(Exception):
    """The instrumentation cannot observe the scheduler any more (e.g. a renamed helper)."""


REQUIRED = ["wait_for_finished_nodes", "wait_for_finished_nodes_async", "ThreadPoolExecutor",
            "to_thread_in_executor", "_xn_active_in_call", "async_execute", "sync_execute"]
MISSING = [n for n in REQUIRED if not hasattr(H, n)]
if not hasattr(DiGraphEx, "remove_root_node"):
    MISSING.append("DiGraphEx.remove_root_node")
if not hasattr(D, "async_execute"):
    MISSING.append("dag.async_execute")


def load_factor():
    """deadlines stretch with the machine's load (a worker thread that is not even scheduled within 2 s is no finding)"""
    try:
        return min(5.0, max(1.0, 1.5 * os.getloadavg()[0] / (os.cpu_count() or 1)))
    except (OSError, AttributeError):
        return 1.0


LOAD = load_factor()
ENTER_TIMEOUT = float(os.environ.get("VERIF_ENTER_TIMEOUT", "2.0")) * LOAD
RUN_TIMEOUT = float(os.environ.get("VERIF_RUN_TIMEOUT", "8.0")) * LOAD


MAX_EVENTS = int(os.environ.get("VERIF_MAX_EVENTS", "6000"))


class RunawayScheduler(BaseException):
    """raised inside the scheduler thread when one execution produced an absurd number of events (a spin)."""


class NodeBoom(Exception):
    """Raised by a generated node function that the case marks as failing."""

    def __init__(self, name):
        super().__init__("boom " + name)
        self.node = name

    # an exception object may be falsy (a container-like error with no items): "did it raise?" is never decided by
    # the truthiness of the exception.  About half of the node names raise a falsy exception, the others a truthy one.
    def __bool__(self):
        return sum(map(ord, self.node)) % 2 == 0


class Ctl:
    """controller + recorder of one execution."""

    def __init__(self, choose=None, fails=(), simultaneous=0.2, rng=None, free_run=False):
        self.trace = []
        self.lock = threading.Lock()
        self.gates = {}
        self.entered = set()
        self.entered_ever = set()
        self.sched_thread = None
        self.fails = set(fails)
        self.rng = rng
        self.choose = choose  # optional list of pre-recorded release choices (replay)
        self.choices = []  # release choices actually made (list of lists of ids)
        self.first_choices = []  # choices made at FIRST_COMPLETED waits only (what `choose` replays)
        self.first_options = []  # the in-flight ids that were available at each of them
        self.simultaneous = simultaneous
        self.free_run = free_run  # no gating: nodes run through (used by value-level cases)
        self.cfgs = []  # one configuration dict per async_execute call
        self.res0s = []  # the results dict each async_execute call starts from
        self.inside = 0
        self.n_submit_t = 0
        self.n_async_started = 0
        self.n_xenter_worker = 0
        self.n_xenter_thread = 0
        self.n_xexit_worker = 0
        self.thread_ids = set()
        self.broken = None
        self.runaway = False
        self.removed = set()
        self.submitted_c = set()
        self.released_early = set()  # thread nodes let through WHILE the scheduler was running a main-thread node
        self.exited = set()
        self.inline_p = 0.15  # probability of such a release per inline execution (random schedules only)
        self.inline_plan = None  # replay: one list of ids per inline execution
        self.inline_choices = []

    def ev(self, *e):
        with self.lock:
            self.trace.append(e)
            n = len(self.trace)
        if n > MAX_EVENTS and not self.runaway and self.on_sched():
            self.runaway = True
            self.give_up("scheduler loop produced more than %d events without finishing (spin)" % MAX_EVENTS)
            raise RunawayScheduler()

    def give_up(self, why):
        """the controller cannot drive this run: stop gating so that it ends quickly"""
        if self.broken is None:
            self.broken = why
        self.free_run = True
        for g in list(self.gates.values()):
            g.set()

    def quiet(self):
        """nothing of this execution is running or still to start.  Thread work items always start;
        an async-thread work item whose task was cancelled during loop teardown may never start, so
        for those only a grace period can be observed (see run_controlled)."""
        with self.lock:
            return (self.inside == 0 and self.n_xenter_worker == self.n_xexit_worker
                    and self.n_xenter_thread == self.n_submit_t)

    def async_pending(self):
        with self.lock:
            return self.n_async_started - (self.n_xenter_worker - self.n_xenter_thread)

    def on_sched(self):
        return threading.get_ident() == self.sched_thread

    def pick_release(self, ids, mode):
        ids = sorted(ids)
        if mode == H.ALL_COMPLETED:
            rel = list(ids)
        elif self.choose is not None and self.choose:
            rel = [r for r in self.choose.pop(0) if r in ids] or [ids[0]]
        elif self.rng is None:
            rel = [ids[0]]
        else:
            k = 1 if self.rng.random() >= self.simultaneous else self.rng.randint(1, len(ids))
            rel = self.rng.sample(ids, k)
        self.choices.append(list(rel))
        if mode != H.ALL_COMPLETED:
            self.first_choices.append(list(rel))
            self.first_options.append(list(ids))
        return rel


CUR = [None]  # the Ctl of the execution in progress (one at a time per harness process)
TL = threading.local()  # .ctl: the Ctl of the execution whose node is running on this thread


def cur():
    return getattr(TL, "ctl", None) or CUR[0]


from tawazi._helpers import StrictDict  # noqa: E402


class TaggedResults(StrictDict):
    """the results dict of ONE execution, carrying its controller: a worker that starts late (after its
    execution ended) is attributed to its own execution, never to the next one.  The tag survives
    copy.copy (async_execute copies the dict) but is dropped by pickle / deepcopy."""

    def __copy__(self):
        t = TaggedResults(self)
        t._verif_ctl = getattr(self, "_verif_ctl", None)
        return t

    def __deepcopy__(self, memo):
        import copy as _c
        return StrictDict((_c.deepcopy(k, memo), _c.deepcopy(v, memo)) for k, v in self.items())

    def __reduce__(self):
        return (StrictDict, (dict(self),))


def mknode(name, ret, **kw):
    """a decorated node function. `ret` is either a value or a callable(*args, **kwargs) computing the
    returned value.  Observation and gating happen in the ExecNode.execute wrapper (keyed by node id);
    the function itself only implements 'this node fails' for cases that name it in Ctl.fails."""

    def f(*a, **k):
        ctl = cur()
        if ctl is not None and getattr(ctl, "slow", 0):
            time.sleep(ctl.slow)  # uncontrolled runs with node bodies that take real time
        if ctl is not None and name in ctl.fails:
            ctl.ev("BOOM", name)  # the node's function raises now
            if sum(map(ord, name)) % 3 == 0:
                # an explicitly chained exception (raise X from Y): the call's cause is still X, the exception the NODE raised
                raise NodeBoom(name) from LookupError("low-level reason behind " + name)
            raise NodeBoom(name)
        return ret(*a, **k) if callable(ret) else ret

    f.__qualname__ = name
    f.__name__ = name
    return tawazi.xn(f, **kw)


# ------------------------------------------------------------------------------ wrappers
if not MISSING:
    orig_w, orig_wa = H.wait_for_finished_nodes, H.wait_for_finished_nodes_async
    orig_remove = DiGraphEx.remove_root_node
    orig_tt = H.to_thread_in_executor
    orig_act = H._xn_active_in_call
    orig_exec = H.async_execute
    orig_execute = N.ExecNode.execute
    OrigTPE = H.ThreadPoolExecutor

    def remove_root_node(self, *ns, **kw):
        ctl = cur()
        if ctl is not None and ctl.on_sched():
            for n in ns:
                ctl.ev("REMOVE", n)
        return orig_remove(self, *ns, **kw)

    DiGraphEx.remove_root_node = remove_root_node

    def _ids_of(futures, running):
        return sorted(futures.inverse[f] for f in running)

    def w(return_when, graph, futures, done, running, runnable):
        ctl = cur()
        if ctl is None:
            return orig_w(return_when, graph, futures, done, running, runnable)
        ids = _ids_of(futures, running)
        ctl.ev("WAIT", "C", return_when, tuple(ids), tuple(sorted(runnable)), tuple(sorted(graph.nodes)))
        if ids and not ctl.free_run:
            t0 = time.time()
            while not (set(ids) - ctl.released_early) <= ctl.entered:
                time.sleep(0.0002)
                if time.time() - t0 > ENTER_TIMEOUT:
                    if not ((set(ids) - ctl.released_early) <= ctl.entered):
                        ctl.give_up("in-flight thread nodes never entered: %r" % (sorted(set(ids) - ctl.entered),))
                    break
            rel = ctl.pick_release(ids, return_when)
            for r in rel:
                ctl.entered.discard(r)
                if r in ctl.gates:
                    ctl.gates[r].set()
            for r in rel:
                try:
                    futures[r].exception(timeout=ENTER_TIMEOUT)
                except BaseException:  # noqa: BLE001
                    pass
        return orig_w(return_when, graph, futures, done, running, runnable)

    async def wa(return_when, graph, futures, done, running, runnable):
        ctl = cur()
        if ctl is None:
            return await orig_wa(return_when, graph, futures, done, running, runnable)
        ids = _ids_of(futures, running)
        ctl.ev("WAIT", "A", return_when, tuple(ids), tuple(sorted(runnable)), tuple(sorted(graph.nodes)))
        if ids and not ctl.free_run:
            t0 = time.time()
            while not set(ids) <= ctl.entered:
                await asyncio.sleep(0.0002)
                if time.time() - t0 > ENTER_TIMEOUT:
                    if not (set(ids) <= ctl.entered):
                        ctl.give_up("in-flight async nodes never entered: %r" % (sorted(set(ids) - ctl.entered),))
                    break
            rel = ctl.pick_release(ids, return_when)
            for r in rel:
                ctl.entered.discard(r)
                if r in ctl.gates:
                    ctl.gates[r].set()
            t0 = time.time()
            while not all(futures[r].done() for r in rel) and time.time() - t0 < ENTER_TIMEOUT:
                await asyncio.sleep(0.0002)
        return await orig_wa(return_when, graph, futures, done, running, runnable)

    H.wait_for_finished_nodes = w
    H.wait_for_finished_nodes_async = wa

    def traced_max(it, *a, **kw):
        ctl = cur()
        key = kw.get("key")
        if ctl is None or not ctl.on_sched() or key is None:
            return builtins.max(it, *a, **kw)
        c = list(it)
        r = builtins.max(c, *a, **kw)
        ctl.ev("PICK", r, tuple(sorted(c)), {x: key(x) for x in c})
        return r

    H.max = traced_max

    class TPE(OrigTPE):
        def submit(self, fn, *a, **k):
            ctl = cur()
            if ctl is not None and hasattr(fn, "__self__") and hasattr(fn.__self__, "id") and ctl.on_sched():
                if fn.__self__.id in getattr(ctl, "refuse", ()):
                    # fault injection: the pool refuses the work item (as when no thread can be started)
                    ctl.ev("REFUSED", fn.__self__.id)
                    raise RuntimeError("can't start new thread (injected fault)")
                ctl.ev("SUBMIT", "C", fn.__self__.id)
                with ctl.lock:
                    ctl.n_submit_t += 1
                    ctl.submitted_c.add(fn.__self__.id)
            return super().submit(fn, *a, **k)

    H.ThreadPoolExecutor = TPE

    def tt(func, executor, *a, **k):
        ctl = cur()
        if ctl is None:
            return orig_tt(func, executor, *a, **k)
        ctl.ev("SUBMIT", "A", func.__self__.id)

        async def body():
            # the task has started: run_in_executor hands the call to the pool in this step
            with ctl.lock:
                ctl.n_async_started += 1
            return await orig_tt(func, executor, *a, **k)

        return body()

    H.to_thread_in_executor = tt

    def act(xn_, results, *a, **kw):
        ctl = cur()
        r = orig_act(xn_, results, *a, **kw)
        if ctl is not None:
            ctl.ev("ACTIVE", xn_.id, bool(r))
        return r

    H._xn_active_in_call = act

    def execute(self, results, profiles):
        # only executions started under a controller carry its tag (ae wraps the results dict); a late worker of
        # an UNINSTRUMENTED call (e.g. gathered awaits run without controller, one of which raised) must not be
        # attributed to whatever controlled run happens to be current
        ctl = getattr(results, "_verif_ctl", None)
        if ctl is None:
            return orig_execute(self, results, profiles)
        prev = getattr(TL, "ctl", None)
        TL.ctl = ctl
        try:
            return _execute(self, results, profiles, ctl)
        finally:
            TL.ctl = prev

    def _execute(self, results, profiles, ctl):
        inline = ctl.on_sched()
        nid = self.id
        seen = []
        for u in list(self.args) + [u for k, u in self.kwargs.items() if k not in ("twz_tag", "twz_active", "twz_unpack_to")]:
            try:
                seen.append(u.result(results))
            except BaseException as e:  # noqa: BLE001
                seen.append(("<raises>", type(e).__name__))
        if inline and not ctl.free_run:
            # make real overlap observable: every thread node already handed out has entered by now
            t0 = time.time()
            while time.time() - t0 < 0.5:
                with ctl.lock:
                    pending = [x for x in ctl.submitted_c if x not in ctl.entered_ever]
                if not pending:
                    break
                time.sleep(0.0002)
        with ctl.lock:
            ctl.inside += 1
        ctl.ev("XENTER", nid, inline, seen, threading.get_ident())
        if inline and not ctl.free_run:
            # thread nodes may complete (or fail) while the scheduler is busy running this main-thread node
            with ctl.lock:
                cands = sorted(x for x in ctl.entered if x in ctl.submitted_c)
            rel = []
            if ctl.inline_plan is not None:
                rel = [r_ for r_ in (ctl.inline_plan.pop(0) if ctl.inline_plan else []) if r_ in cands]
            elif ctl.rng is not None and ctl.choose is None and cands and ctl.rng.random() < ctl.inline_p:
                rel = ctl.rng.sample(cands, ctl.rng.randint(1, len(cands)))
            ctl.inline_choices.append(list(rel))
            for r_ in rel:
                with ctl.lock:
                    ctl.entered.discard(r_)
                    ctl.released_early.add(r_)
                if r_ in ctl.gates:
                    ctl.gates[r_].set()
            t0 = time.time()
            while rel and not set(rel) <= ctl.exited and time.time() - t0 < ENTER_TIMEOUT:
                time.sleep(0.0002)
            if rel:
                time.sleep(0.003)  # the worker stores the outcome in the future right after execute returns
        try:
            if not inline:
                with ctl.lock:
                    ctl.n_xenter_worker += 1
                    if self.resource == Resource.thread:
                        ctl.n_xenter_thread += 1
                    g = ctl.gates.setdefault(nid, threading.Event())
                    ctl.entered.add(nid)
                    ctl.entered_ever.add(nid)
                if not ctl.free_run:
                    g.wait(30)
            try:
                r = orig_execute(self, results, profiles)
                ctl.ev("XEXIT", nid, inline, True, r)
                return r
            except BaseException as e:
                ctl.ev("XEXIT", nid, inline, False, e)
                try:
                    if getattr(e, "_verif_node", None) is None:
                        e._verif_node = nid
                except Exception:  # noqa: BLE001
                    pass
                raise
        finally:
            with ctl.lock:
                ctl.inside -= 1
                if not inline:
                    ctl.n_xexit_worker += 1
                    ctl.exited.add(nid)

    N.ExecNode.execute = execute

    async def ae(**kw):
        ctl = cur()
        if ctl is None:
            return await orig_exec(**kw)
        ctl.sched_thread = threading.get_ident()
        g = kw["graph"]
        xns = kw["exec_nodes"]
        res = kw["results"]
        nodes = sorted(g.nodes)
        cfg = dict(
            nodes=nodes,
            gedges=sorted(g.edges),
            deps={i: sorted({d.id for d in xns[i].dependencies}) for i in nodes if i in xns},
            pre=sorted(i for i in nodes if i in res),
            results_keys=sorted(res.keys()),
            maxc=kw["max_concurrency"],
            cp={i: g.compound_priority[i] for i in nodes},
            seq={i: bool(xns[i].is_sequential) for i in nodes if i in xns},
            res={i: xns[i].resource.value for i in nodes if i in xns},
            active={i: (xns[i].active.id, list(xns[i].active.key)) for i in nodes if i in xns and xns[i].active is not None},
            refs={i: [(u.id, list(u.key)) for u in list(xns[i].args) + [u for k, u in xns[i].kwargs.items() if k not in ("twz_tag", "twz_active", "twz_unpack_to")]] for i in nodes if i in xns},
            setup={i: bool(xns[i].setup) for i in nodes if i in xns},
            debug={i: bool(xns[i].debug) for i in nodes if i in xns},
            missing_xn=[i for i in nodes if i not in xns],
        )
        ctl.cfgs.append(cfg)
        ctl.res0s.append(dict(res))
        tagged = TaggedResults(res)
        tagged._verif_ctl = ctl
        kw = dict(kw, results=tagged)
        ctl.ev("BEGIN", len(ctl.cfgs) - 1)
        try:
            r = await orig_exec(**kw)
            ctl.ev("END", "ok")
            return r
        except BaseException as e:
            ctl.ev("END", "raise", e)
            raise

    H.async_execute = ae
    D.async_execute = ae


def run_controlled_many(items):
    """several executions AT THE SAME TIME, each under its own controller: items = [(thunk, ctl, is_async)]; every
    call runs in its own thread (an AsyncDAG in its own event loop); the controller of a call is found through
    the invoking thread (TL.ctl) and through the tag of its results map, never through CUR.
    -> list of (status, value|exc) as run_controlled."""
    if MISSING:
        raise HarnessBroken("names not found in tawazi: %s" % MISSING)
    boxes = [dict() for _ in items]

    def body(k, thunk, ctl, is_async):
        TL.ctl = ctl
        ctl.invoker = threading.get_ident()
        try:
            if is_async:
                boxes[k]["st"] = ("ok", asyncio.run(thunk()))
            else:
                boxes[k]["st"] = ("ok", thunk())
        except BaseException as e:  # noqa: BLE001
            boxes[k]["st"] = ("raise", e)
        finally:
            TL.ctl = None

    ths = [threading.Thread(target=body, args=(k,) + tuple(it), daemon=True) for k, it in enumerate(items)]
    for th in ths:
        th.start()
    deadline = time.time() + RUN_TIMEOUT
    out = []
    for k, th in enumerate(ths):
        th.join(max(0.0, deadline - time.time()))
        ctl = items[k][1]
        if th.is_alive():
            ctl.give_up(ctl.broken or "call did not return within %.0f s" % RUN_TIMEOUT)
            th.join(3.0)
            out.append(("hang", boxes[k].get("st") if not th.is_alive() else None))
        else:
            out.append(boxes[k]["st"])
    for _, ctl, _a in items:
        for g in list(ctl.gates.values()):
            g.set()
        ctl.free_run = True
    t0 = time.time()
    while time.time() - t0 < 5 and not all(ctl.quiet() for _, ctl, _a in items):
        time.sleep(0.0005)
    time.sleep(0.03)
    for _, ctl, _a in items:
        if not ctl.quiet() and ctl.broken is None:
            ctl.broken = "stragglers did not drain"
    return out


MSG_RE = __import__("re").compile(r"Error occurred while executing ExecNode (.+?) at ")


def failing_node_of(exc):
    """the node whose execution raised: from the XEXIT record attached by the execute wrapper, tawazi's
    message, or the NodeBoom in the exception chain."""
    seen = set()
    e = exc
    while e is not None and id(e) not in seen:
        seen.add(id(e))
        n = getattr(e, "_verif_node", None)
        if n is not None:
            return n
        m = MSG_RE.search(str(e)) if type(e).__name__ == "TawaziBaseException" else None
        if m:
            return m.group(1)
        if isinstance(e, NodeBoom):
            return e.node
        e = e.__cause__ if e.__cause__ is not None else e.__context__
    return None


def run_controlled(thunk, ctl, is_async=False):
    """run thunk() (a DAG call / executor call / setup call) under ctl; returns (status, value|exc).
    status: 'ok' | 'raise' | 'hang' (the call did not return within RUN_TIMEOUT: C09 watchdog)."""
    if MISSING:
        raise HarnessBroken("names not found in tawazi: %s" % MISSING)
    CUR[0] = ctl
    box = {}

    def body():
        ctl.invoker = threading.get_ident()  # the thread that invokes the DAG (for an AsyncDAG: the event-loop thread)
        try:
            if is_async:
                box["st"] = ("ok", asyncio.run(thunk()))
            else:
                box["st"] = ("ok", thunk())
        except BaseException as e:  # noqa: BLE001
            box["st"] = ("raise", e)

    try:
        th = threading.Thread(target=body, daemon=True)
        th.start()
        th.join(RUN_TIMEOUT)
        if th.is_alive():
            ctl.give_up(ctl.broken or "call did not return within %.0f s" % RUN_TIMEOUT)
            th.join(3.0)
            st = box.get("st") if not th.is_alive() else None
            st = ("hang", st)
        else:
            st = box["st"]
        # release everything and wait for stragglers so that they cannot write into the next run
        for g in list(ctl.gates.values()):
            g.set()
        ctl.free_run = True
        t0 = time.time()
        stable_since = None
        while time.time() - t0 < 5:
            if ctl.quiet():
                if ctl.async_pending() <= 0:
                    break
                # an async work item cancelled at loop teardown never starts: accept after a grace period
                stable_since = stable_since or time.time()
                if time.time() - stable_since > 0.03:
                    break
            else:
                stable_since = None
            time.sleep(0.0005)
        time.sleep(0.001)
        if not ctl.quiet() and ctl.broken is None:
            ctl.broken = "stragglers did not drain"
        return st
    finally:
        CUR[0] = None
