"""Hand-written scenarios run on the real library WITHOUT the controller (no instrumentation is active: the
wrappers pass through when no controller is installed).  They cover statements of the properties that involve
several calls from one thread or nested run-time calls, which the single-execution engines cannot express.
Each scenario runs in its own thread with a deadline: a scenario that does not finish is a liveness violation."""
import asyncio
import collections
import threading
import time

from . import tz
from .tz import Resource, tawazi


def in_thread(fn, timeout):
    box = {}

    def body():
        try:
            box["r"] = ("ok", fn())
        except BaseException as e:  # noqa: BLE001
            box["r"] = ("raise", e)
    th = threading.Thread(target=body, daemon=True)
    th.start()
    th.join(timeout * tz.LOAD)  # deadlines stretch with the machine's load
    return box.get("r", ("hang", None))


def named(f, name):
    f.__qualname__ = name
    f.__name__ = name
    return f


class Boom(Exception):
    pass


# ------------------------------------------------------------------------------ C14: nothing starts after the failure was observed
def stragglers_then_failure(k, is_async):
    """two failing calls leave a slow node running on a worker each; a third call (same thread, same
    max_concurrency) fails in a main-thread node right after handing a thread node to a worker: that node must
    already have started when the call raises (every node handed out gets a worker at once), and nothing may
    start afterwards.  -> list of messages"""
    log = []
    lock = threading.Lock()

    def rec(what):
        with lock:
            log.append((time.time(), what))
    slow = tawazi.xn(named(lambda: (rec("slow-start"), time.sleep(1.5), rec("slow-end"))[0], "sc_slow%d" % k), resource=Resource.thread, priority=5)
    bad = tawazi.xn(named(lambda: (_ for _ in ()).throw(Boom("bad")), "sc_bad%d" % k), resource=Resource.main_thread, priority=1)

    def d1():
        return slow(), bad()
    dag1 = tawazi.dag(named(d1, "sc_d1_%d" % k), max_concurrency=2, is_async=is_async)
    y_started = threading.Event()
    y = tawazi.xn(named(lambda: (rec("y-start"), y_started.set())[0], "sc_y%d" % k), resource=Resource.async_thread if k % 2 else Resource.thread, priority=5)
    # m gives the worker that was handed y up to 0.6 s to start it (robust against a loaded machine; the nodes left
    # running by the earlier calls last 1.5 s), then fails
    m = tawazi.xn(named(lambda: (y_started.wait(0.6), rec("m-raise"), (_ for _ in ()).throw(Boom("m")))[0], "sc_m%d" % k), resource=Resource.main_thread, priority=1)

    def d2():
        return y(), m()
    dag2 = tawazi.dag(named(d2, "sc_d2_%d" % k), max_concurrency=2, is_async=is_async)

    def call(d):
        try:
            if is_async:
                asyncio.run(d())
            else:
                d()
            return "returned"
        except BaseException as e:  # noqa: BLE001
            return type(e).__name__

    def run():
        out = [call(dag1), call(dag1)]
        out.append(call(dag2))
        rec("call3-raised")
        time.sleep(1.8)
        return out
    st = in_thread(run, 15)
    msgs = []
    if st[0] != "ok":
        return ["scenario stragglers_then_failure did not finish: %r" % (st,)]
    t_raise = [t for t, w in log if w == "call3-raised"]
    t_y = [t for t, w in log if w == "y-start"]
    if st[1] != ["TawaziBaseException"] * 3:
        msgs.append("failing calls gave %r instead of raising tawazi's wrapper three times" % (st[1],))
    if t_y and t_raise and t_y[0] > t_raise[0]:
        msgs.append("node y was started %.2f s AFTER the call had raised for the failure of node m (two earlier failing calls of the same thread had left nodes running)" % (t_y[0] - t_raise[0]))
    return msgs


def failing_node_identity(k):
    """the failing node is the SECOND use of a function / a node of a nested DAG, and its exception carries no
    argument: the call raises tawazi's wrapper naming exactly that node's id, with the node's own exception as cause"""
    class Bare(Exception):
        def __init__(self):
            super().__init__()

    def check(x):
        if x < 0:
            raise Bare()
        return x
    cx = tawazi.xn(named(check, "sc_check%d" % k), resource=[Resource.thread, Resource.main_thread, Resource.async_thread][k % 3])

    def twice(a, b):
        r1 = cx(a)
        r2 = cx(b)
        return r1, r2
    line_of_second = twice.__code__.co_firstlineno + 2  # the call site of the failing (second) use
    d1 = tawazi.dag(named(twice, "sc_twice%d" % k), max_concurrency=2, is_async=bool(k % 2))

    def inner(x):
        return cx(x)
    inner_dag = tawazi.dag(named(inner, "sc_idin%d" % k))

    def outer(x):
        return cx(1), inner_dag(x)
    d2 = tawazi.dag(named(outer, "sc_idout%d" % k), max_concurrency=2, is_async=bool(k % 2))
    msgs = []
    for d, args, exp_id in ((d1, (1, -1), "sc_check%d<<1>>" % k), (d2, (-1,), "sc_idin%d.sc_check%d" % (k, k))):
        st = in_thread((lambda d=d, args=args: asyncio.run(d(*args))) if k % 2 else (lambda d=d, args=args: d(*args)), 10)
        if st[0] != "raise":
            msgs.append("a call whose node %s fails gave %r" % (exp_id, st))
            continue
        e = st[1]
        ok = type(e).__name__ == "TawaziBaseException" and ("ExecNode %s at " % exp_id) in str(e) and isinstance(e.__cause__, Bare)
        if ok and d is d1 and not str(e).rstrip().endswith("%s:%d" % (__file__, line_of_second)):
            msgs.append("node %s was called at %s:%d, the exception reports: %s" % (exp_id, __file__, line_of_second, str(e)[-120:]))
        if not ok and not isinstance(e, Bare):
            msgs.append("node %s failed with an exception without arguments; the call raised %s: %s (cause %r) instead of tawazi's wrapper naming that node with the node's exception as cause" % (exp_id, type(e).__name__, str(e)[:120], e.__cause__))
    return msgs


# ------------------------------------------------------------------------------ C09: nested run-time calls and first concurrent awaits return
def nested_runtime_call(k):
    """a node whose function calls ANOTHER DAG at run time (both DAGs have a setup node that has not run yet)"""
    load_in = tawazi.xn(named(lambda: 3, "sc_load_in%d" % k), setup=True)
    add_in = tawazi.xn(named(lambda a, b: a + b, "sc_add_in%d" % k))

    def inner(x):
        return add_in(x, load_in())
    inner_dag = tawazi.dag(named(inner, "sc_inner%d" % k), max_concurrency=1 + k % 2)
    load_out = tawazi.xn(named(lambda: 10, "sc_load_out%d" % k), setup=True)
    use = tawazi.xn(named(lambda a, b: inner_dag(a) + b, "sc_use%d" % k), resource=Resource.thread if k % 2 else Resource.async_thread)  # (a main-thread node runs inside the scheduler's event loop, where a synchronous DAG cannot be called)

    def outer(x):
        return use(x, load_out())
    msgs = []
    for mc in (2, 1):
        # (with max_concurrency=1 the outer call's only worker is busy running the node that calls the inner DAG:
        #  the inner call must bring its own workers)
        outer_dag = tawazi.dag(named(outer, "sc_outer%d_%d" % (k, mc)), max_concurrency=mc)
        st = in_thread(lambda: (outer_dag(1), outer_dag(2)), 10)
        if st != ("ok", (14, 15)):
            msgs.append("a DAG (max_concurrency=%d) whose node calls another DAG at run time (both with a setup node not run yet): %r instead of (14, 15)" % (mc, st))
    return msgs


def first_concurrent_awaits(k):
    """the first awaits of an AsyncDAG (setup node not run yet, an async-thread node) started together in one loop"""
    load = tawazi.xn(named(lambda: (time.sleep(0.005), 10)[1], "sc_aload%d" % k), setup=True)
    add = tawazi.xn(named(lambda a, b: a + b, "sc_aadd%d" % k), resource=Resource.async_thread)

    def desc(x):
        return add(x, load())
    d = tawazi.dag(named(desc, "sc_aw%d" % k), max_concurrency=2, is_async=True)

    async def many():
        return await asyncio.gather(*[d(v) for v in (1, 2, 3)], return_exceptions=True)
    st = in_thread(lambda: asyncio.run(many()), 10)
    if st != ("ok", [11, 12, 13]):
        return ["three first awaits of an AsyncDAG (setup node not run yet) started together: %r instead of [11, 12, 13]" % (st,)]
    return []


# ------------------------------------------------------------------------------ C17: the loop stays free when a node fails; the recorded setup value is stable
def failure_keeps_loop_free(k):
    """two parallel async-thread nodes, one fails quickly while the other runs 1.2 s: the failure is reported
    promptly and the event loop keeps serving a heartbeat coroutine meanwhile"""
    slow = tawazi.xn(named(lambda x: (time.sleep(1.2), x)[1], "sc_fslow%d" % k), resource=Resource.async_thread, priority=2)
    bad = tawazi.xn(named(lambda x: (time.sleep(0.05), (_ for _ in ()).throw(Boom("bad")))[0], "sc_fbad%d" % k), resource=Resource.async_thread, priority=1)

    def desc(x):
        return slow(x), bad(x)
    d = tawazi.dag(named(desc, "sc_fail%d" % k), max_concurrency=2, is_async=True)

    async def main():
        gaps = []
        stop = asyncio.Event()

        async def beat():
            last = time.time()
            while not stop.is_set():
                await asyncio.sleep(0.01)
                now = time.time()
                gaps.append(now - last)
                last = now
        t = asyncio.ensure_future(beat())
        t0 = time.time()
        try:
            await d(1)
            out = "returned"
        except BaseException as e:  # noqa: BLE001
            out = type(e).__name__
        dt = time.time() - t0
        stop.set()
        await t
        return out, dt, max(gaps or [0])
    st = in_thread(lambda: asyncio.run(main()), 15)
    if st[0] != "ok":
        return ["failing AsyncDAG call: %r" % (st,)]
    out, dt, gap = st[1]
    msgs = []
    if out != "TawaziBaseException":
        msgs.append("a failing async-thread node gave %r" % out)
    if dt > 0.7 or gap > 0.5:
        msgs.append("an async-thread node failed after 0.05 s while a sibling was still running (1.2 s): the await raised after %.2f s and the event loop was not served for %.2f s" % (dt, gap))
    return msgs


def setup_value_is_stable(k):
    """a slow first await and a fast first await of one AsyncDAG both run the (not yet recorded) setup node; the
    value recorded by the first one to finish is the one every LATER await sees, also after the slow one finished"""
    cnt = {"n": 0}
    gate = threading.Event()

    def load():
        cnt["n"] += 1
        return ("loaded", cnt["n"])
    lx = tawazi.xn(named(load, "sc_sload%d" % k), setup=True)

    def work(x, l):
        if x == "slow":
            gate.wait(5)
        return (x, l)
    wx = tawazi.xn(named(work, "sc_swork%d" % k), resource=Resource.async_thread)

    def desc(x):
        return wx(x, lx())
    d = tawazi.dag(named(desc, "sc_stable%d" % k), max_concurrency=2, is_async=True)

    async def main():
        s = asyncio.ensure_future(d("slow"))
        await asyncio.sleep(0.05)
        f = await d("fast")
        g = await d("g")
        gate.set()
        sv = await s
        h = await d("h")
        return f, g, sv, h
    st = in_thread(lambda: asyncio.run(main()), 15)
    if st[0] != "ok":
        return ["concurrent first awaits with a setup node: %r" % (st,)]
    f, g, sv, h = st[1]
    if g[1] != h[1]:
        return ["the setup value later awaits see changed from %r to %r when an await that had started earlier finished" % (g[1], h[1])]
    return []


# ------------------------------------------------------------------------------ C16: concurrent builds under a tiny switch interval
def concurrent_builds_stress(k, seconds):
    """4 threads build DAGs concurrently with sys.setswitchinterval(1e-6); every DAG equals the one built alone"""
    import sys
    fs = [tawazi.xn(named((lambda j: (lambda *a: ("f", j) + a))(j), "sc_b%d_%d" % (k, j))) for j in range(3)]

    def mk(i):
        def desc(x):
            a = fs[0](x)
            b = fs[1](a)
            c = fs[2](a, b)
            return fs[0](c)
        return named(desc, "sc_build%d_%d" % (k, i))
    ref = sorted(tawazi.dag(mk(0)).exec_nodes.keys())
    errs = []
    stop = time.time() + seconds

    def worker(i):
        n = 0
        while time.time() < stop and not errs:
            try:
                d = tawazi.dag(mk(0))
                ids = sorted(d.exec_nodes.keys())
                if ids != ref:
                    errs.append("a DAG built while other threads were building has nodes %s, built alone %s" % (ids, ref))
                elif d(1) != ("f", 0, ("f", 2, ("f", 0, 1), ("f", 1, ("f", 0, 1)))):
                    errs.append("a DAG built while other threads were building returns %r" % (d(1),))
            except BaseException as e:  # noqa: BLE001
                errs.append("building a DAG while other threads were building raised %s: %s" % (type(e).__name__, str(e)[:120]))
            n += 1
    old = sys.getswitchinterval()
    sys.setswitchinterval(1e-6)
    try:
        ths = [threading.Thread(target=worker, args=(i,), daemon=True, name="worker") for i in range(4)]
        for t in ths:
            t.start()
        for t in ths:
            t.join(seconds + 20)
        if any(t.is_alive() for t in ths):
            errs.append("concurrent builds did not finish")
    finally:
        sys.setswitchinterval(old)
    return errs[:2]


def concurrent_calls_stress(k, seconds):
    """8 threads call ONE shared DAG (already set up) with their own arguments under sys.setswitchinterval(1e-6):
    every call returns the result for its own argument, none raises, none hangs"""
    import sys
    load = tawazi.xn(named(lambda: 100, "sc_cload%d" % k), setup=True)
    inc = tawazi.xn(named(lambda x, l: x + l, "sc_cinc%d" % k))
    wide = tawazi.xn(named(lambda x, *cs: x + sum(cs), "sc_cwide%d" % k))
    dbl = tawazi.xn(named(lambda x: 2 * x, "sc_cdbl%d" % k), resource=Resource.main_thread)

    def desc(x):
        a = inc(x, load())
        b = wide(a, *([1] * 150))
        return dbl(b)
    d = tawazi.dag(named(desc, "sc_calls%d" % k), max_concurrency=2)
    d.setup()
    errs = []
    stop = time.time() + seconds
    barrier = threading.Barrier(8)

    def worker(i):
        try:
            barrier.wait(5 * tz.LOAD)
        except BaseException:  # noqa: BLE001
            pass
        j = 0
        while time.time() < stop and not errs:
            x = 1000 * i + j
            try:
                r = d(x)
                if r != 2 * (x + 100 + 150):
                    errs.append("thread %d called the shared DAG with %d and got %r instead of %d" % (i, x, r, 2 * (x + 250)))
            except BaseException as e:  # noqa: BLE001
                errs.append("thread %d: a call of the shared DAG raised %s: %s" % (i, type(e).__name__, str(e)[:100]))
            j += 1
    old = sys.getswitchinterval()
    sys.setswitchinterval(1e-6)
    try:
        ths = [threading.Thread(target=worker, args=(i,), daemon=True, name="worker") for i in range(8)]
        for t in ths:
            t.start()
        for t in ths:
            t.join(seconds + 15)
        if any(t.is_alive() for t in ths):
            errs.append("concurrent calls of one shared DAG did not return")
    finally:
        sys.setswitchinterval(old)
    return errs[:2]


# ------------------------------------------------------------------------------ C10 / C13: a debug node inside a deactivated nested DAG
def debug_node_in_deactivated_nested_dag(k):
    ran = []
    inc = tawazi.xn(named(lambda x: (ran.append("inc"), x + 1)[1], "sc_dinc%d" % k))
    probe = tawazi.xn(named(lambda x: ran.append("probe"), "sc_dprobe%d" % k), debug=True)

    def inner(x):
        y = inc(x)
        probe(y)
        return y
    inner_dag = tawazi.dag(named(inner, "sc_dinner%d" % k))
    other = tawazi.xn(named(lambda x: (ran.append("other"), x)[1], "sc_dother%d" % k))

    def outer(x, flag):
        return inner_dag(x, twz_active=flag), other(x)
    outer_dag = tawazi.dag(named(outer, "sc_douter%d" % k), is_async=bool(k % 2))
    msgs = []
    for flag, exp_ran, exp_val in ((False, ["other"], (None, 5)), (0, ["other"], (None, 5)), (True, ["inc", "other", "probe"], (6, 5))):
        del ran[:]
        tawazi.cfg.RUN_DEBUG_NODES = True
        try:
            st = in_thread((lambda: asyncio.run(outer_dag(5, flag))) if k % 2 else (lambda: outer_dag(5, flag)), 10)
        finally:
            tawazi.cfg.RUN_DEBUG_NODES = False
        if st != ("ok", exp_val) or sorted(ran) != exp_ran:
            msgs.append("nested DAG with a debug node, RUN_DEBUG_NODES on, twz_active=%r: %r, executed %s; expected %r, executed %s" % (flag, st, sorted(ran), exp_val, exp_ran))
    return msgs


# ------------------------------------------------------------------------------ C08 / C04: a wide DAG with a large limit
def wide_parallelism(k, is_async):
    """N independent thread nodes, max_concurrency = N (larger than any default pool size): all N must be running
    together (they meet on a barrier); with max_concurrency = 7 never more than 7 are inside their functions"""
    import os as _os
    n = max(40, (_os.cpu_count() or 1) + 8)
    out = []
    for maxc in (n, 7):
        bar = threading.Barrier(n) if maxc == n else None
        lock = threading.Lock()
        live = {"now": 0, "peak": 0, "met": 0}

        def body(j):
            with lock:
                live["now"] += 1
                live["peak"] = max(live["peak"], live["now"])
            try:
                if bar is not None:
                    try:
                        bar.wait(6 * tz.LOAD)
                        with lock:
                            live["met"] += 1
                    except threading.BrokenBarrierError:
                        pass
                else:
                    time.sleep(0.004)
            finally:
                with lock:
                    live["now"] -= 1
            return j
        fs = [tawazi.xn(named((lambda j: (lambda: body(j)))(j), "sc_w%d_%d_%d" % (k, maxc, j)), resource=(Resource.async_thread if (is_async and j % 2) else Resource.thread)) for j in range(n)]

        def desc():
            return [f() for f in fs]
        d = tawazi.dag(named(desc, "sc_wide%d_%d" % (k, maxc)), max_concurrency=maxc, is_async=is_async)
        st = in_thread((lambda: asyncio.run(d())) if is_async else (lambda: d()), 30)
        if st[0] != "ok":
            out.append(("C09", "wide DAG (%d independent nodes, max_concurrency=%d): %r" % (n, maxc, st)))
            continue
        if maxc == n and live["met"] != n:
            out.append(("C08", "%d independent ready nodes and max_concurrency=%d: only %d of them were ever running together (the others waited although slots were free)" % (n, maxc, live["peak"])))
        if maxc != n and live["peak"] > maxc:
            out.append(("C04", "max_concurrency=%d: %d nodes were inside their functions at the same time" % (maxc, live["peak"])))
    return out


# ------------------------------------------------------------------------------ C11: the stored setup value IS the value later calls get
def setup_value_identity(k, is_async):
    """setup nodes returning builtin containers (list / dict / set) and a chained setup node: every later execution
    (call, executor, after setup()) hands its nodes THE object computed the first time, not a copy of it"""
    out = []
    for kind_, mkv in (("list", lambda: [1, 2]), ("dict", lambda: {"memo": 1}), ("set", lambda: {1, 2}), ("tuple", lambda: (1, [2]))):
        seen = []
        cnt = {"n": 0}

        def load():
            cnt["n"] += 1
            return mkv()
        lx = tawazi.xn(named(load, "sc_idl%d_%s" % (k, kind_)), setup=True)

        def chained(v):
            seen.append(("chained", id(v)))
            return v
        cx = tawazi.xn(named(chained, "sc_idc%d_%s" % (k, kind_)), setup=True)

        def use(v, w, x):
            seen.append(("use", id(v), id(w)))
            return x
        ux = tawazi.xn(named(use, "sc_idu%d_%s" % (k, kind_)))

        def desc(x):
            v = lx()
            return ux(v, cx(v), x)
        d = tawazi.dag(named(desc, "sc_id%d_%s" % (k, kind_)), is_async=is_async)
        call = (lambda th: in_thread(lambda: asyncio.run(th()), 10)) if is_async else (lambda th: in_thread(th, 10))
        sts = []
        if k % 2:
            sts.append(call(lambda: d.setup()))
        sts.append(call(lambda: d(1)))
        sts.append(call(lambda: d(2)))
        ex = d.executor()
        sts.append(call(lambda: ex(3)))
        if any(st[0] != "ok" for st in sts):
            out.append("setup node returning a %s: %r" % (kind_, [st for st in sts if st[0] != "ok"][:1]))
            continue
        if cnt["n"] != 1:
            out.append("setup node returning a %s ran %d times over 3 executions" % (kind_, cnt["n"]))
        uses = [e for e in seen if e[0] == "use"]
        ids_ = {e[1] for e in uses} | {e[2] for e in uses} | {e[1] for e in seen if e[0] == "chained"}
        if len(ids_) != 1:
            out.append("setup node returning a %s: later executions were handed %d different objects for the one stored setup result (copies of it)" % (kind_, len(ids_)))
    return out


# ------------------------------------------------------------------------------ C16 / C18: concurrent executors writing cache files
class SlowPickle:
    """a result whose pickling takes a moment (so that the cache writes of concurrent runs overlap)"""

    def __init__(self, v):
        self.v = v

    def __reduce__(self):
        time.sleep(0.05)
        return (SlowPickle, (self.v,))


def concurrent_cache_writes(k, tmpdir):
    """4 threads run executors of ONE shared DAG at the same time, each with its own argument and its own cache_in file in
    one directory: every run returns its own value and every file holds the results of its own run"""
    import os as _os
    import pickle
    _os.makedirs(tmpdir, exist_ok=True)

    def a(x):
        return SlowPickle(("a", x))
    ax = tawazi.xn(named(a, "sc_cwa%d" % k))

    def b(v):
        return ("b", v.v)
    bx = tawazi.xn(named(b, "sc_cwb%d" % k))

    def desc(x):
        return bx(ax(x))
    d = tawazi.dag(named(desc, "sc_cw%d" % k), max_concurrency=2)
    out = []
    res_ = {}

    def worker(i):
        p = _os.path.join(tmpdir, "cw%d_%d.pkl" % (k, i))
        try:
            res_[i] = ("ok", d.executor(cache_in=p)(i), p)
        except BaseException as e:  # noqa: BLE001
            res_[i] = ("raise", "%s: %s" % (type(e).__name__, e), p)
    ths = [threading.Thread(target=worker, args=(i,), daemon=True) for i in range(4)]
    for th in ths:
        th.start()
    for th in ths:
        th.join(20 * tz.LOAD)
    for i in range(4):
        r = res_.get(i)
        if r is None:
            out.append("thread %d: executor with cache_in did not return" % i)
        elif r[0] != "ok":
            out.append("thread %d: concurrent executors of one DAG, each with its own cache file: %s" % (i, r[1]))
        else:
            if r[1] != ("b", ("a", i)):
                out.append("thread %d got %r, the result for its own argument is %r" % (i, r[1], ("b", ("a", i))))
            try:
                f = pickle.load(open(r[2], "rb"))
                vals = sorted(repr(v.v if isinstance(v, SlowPickle) else v) for v in f.values())
                own = sorted(repr(v) for v in (i, ("a", i), ("b", ("a", i))))
                if vals != own:
                    out.append("the cache file of thread %d holds %s, its own run computed %s" % (i, vals, own))
            except BaseException as e:  # noqa: BLE001
                out.append("the cache file of thread %d is unreadable: %s" % (i, type(e).__name__))
    for i in range(4):
        try:
            _os.remove(_os.path.join(tmpdir, "cw%d_%d.pkl" % (k, i)))
        except OSError:
            pass
    return out


# ------------------------------------------------------------------------------ C01 / C07: a very deep DAG
def deep_chain(k, is_async):
    """a chain of 700 dependent calls (deeper than Python's default recursion limit allows a recursive walk to go):
    the DAG builds, its value is the plain function's, the compound priority of the head is the sum over the chain"""
    n = 700

    def step(v):
        return v + 1
    sx = tawazi.xn(named(step, "sc_deep%d" % k), priority=1)

    def desc(x):
        for _ in range(n):
            x = sx(x)
        return x
    try:
        d = tawazi.dag(named(desc, "sc_deepd%d" % k), max_concurrency=2, is_async=is_async)
    except BaseException as e:  # noqa: BLE001
        return [("C01", "a chain of %d dependent calls does not build: %s: %s" % (n, type(e).__name__, str(e)[:100]))]
    out = []
    st = in_thread((lambda: asyncio.run(d(5))) if is_async else (lambda: d(5)), 60)
    if st != ("ok", 5 + n):
        out.append(("C01", "a chain of %d dependent calls: the plain function returns %d, the DAG %r" % (n, 5 + n, st)))
    cp = d.graph_ids.compound_priority
    head = "sc_deep%d" % k
    if cp.get(head) != n:
        out.append(("C07", "a chain of %d nodes of priority 1: compound priority of the head is %r" % (n, cp.get(head))))
    return out


# ------------------------------------------------------------------------------ C11: setup nodes inside a flagged nested DAG
def nested_setup_under_flag(k, is_async):
    """an inner DAG with a setup node (and a second one chained on it), embedded with twz_active=<argument>: over several
    executions of ONE outer instance with the flag on the setup nodes run once; outer.setup() runs them"""
    cnt = collections.Counter()

    def load():
        cnt["load"] += 1
        return ("model", cnt["load"])
    lx = tawazi.xn(named(load, "sc_nsl%d" % k), setup=True)

    def index(m):
        cnt["index"] += 1
        return ("index", m)
    ix = tawazi.xn(named(index, "sc_nsi%d" % k), setup=True)

    def score(x, i):
        cnt["score"] += 1
        return (x, i)
    sx = tawazi.xn(named(score, "sc_nss%d" % k))

    def inner(x):
        return sx(x, ix(lx()))
    din = tawazi.dag(named(inner, "sc_nsin%d" % k))

    def outer(x, flag):
        return din(x, twz_active=flag)
    d = tawazi.dag(named(outer, "sc_nsout%d" % k), is_async=is_async)
    call = (lambda th: in_thread(lambda: asyncio.run(th()), 10)) if is_async else (lambda th: in_thread(th, 10))
    out = []
    sts = []
    if k % 2:
        sts.append(call(lambda: d.setup()))
        if cnt["load"] != 1 or cnt["index"] != 1:
            out.append("outer.setup() ran the setup nodes of the flagged nested DAG %s times" % dict(cnt))
    sts.append(call(lambda: d(1, True)))
    sts.append(call(lambda: d(2, True)))
    sts.append(call(lambda: d(3, True)))
    if any(st[0] != "ok" for st in sts):
        return ["flagged nested DAG with setup nodes: %r" % ([st for st in sts if st[0] != "ok"][:1],)]
    if cnt["load"] != 1 or cnt["index"] != 1:
        out.append("setup nodes of a nested DAG called with twz_active ran %s times over 3 executions of one outer instance" % {k_: v_ for k_, v_ in cnt.items() if k_ != "score"})
    if cnt["score"] != 3:
        out.append("the ordinary node of the nested DAG ran %d times over 3 executions" % cnt["score"])
    return out


# ------------------------------------------------------------------------------ C13: a debug node of a nested DAG in a restricted run
def debug_in_nested_dag_restricted(k):
    """outer(u, v): inner(a(u), b(v)); inner(x, y): p = prod(x); dbg(p, y).  executor(target=[inner.prod]) with RUN_DEBUG_NODES on
    runs a -> prod; the debug node may only be pulled in with ALL its inputs: it does not run, or it sees y = b(v)"""
    seen = []
    ax = tawazi.xn(named(lambda u: u + 1, "sc_dna%d" % k))
    bx = tawazi.xn(named(lambda v: v * 10, "sc_dnb%d" % k))
    px = tawazi.xn(named(lambda x: x * 2, "sc_dnp%d" % k))

    def dbg(p_, y):
        seen.append((p_, y))
    dx = tawazi.xn(named(dbg, "sc_dnd%d" % k), debug=True)

    def inner(x, y):
        p_ = px(x)
        dx(p_, y)
        return p_
    din = tawazi.dag(named(inner, "sc_dnin%d" % k))

    def outer(u, v):
        return din(ax(u), bx(v))
    d = tawazi.dag(named(outer, "sc_dnout%d" % k))
    out = []
    target = [i_ for i_ in d.exec_nodes if i_.endswith("sc_dnp%d" % k)]
    if len(target) != 1:
        return []
    for flag in (False, True):
        tawazi.cfg.RUN_DEBUG_NODES = flag
        try:
            seen.clear()
            st = in_thread(lambda: d.executor(target_nodes=target)(1, 2), 10)
        finally:
            tawazi.cfg.RUN_DEBUG_NODES = False
        if st != ("ok", 4):
            out.append("restricted run of a DAG with a nested debug node (RUN_DEBUG_NODES=%s): %r" % (flag, st))
        if not flag and seen:
            out.append("RUN_DEBUG_NODES off: the nested debug node ran in a restricted run")
        if flag and any(y != 20 for _p, y in seen):
            out.append("RUN_DEBUG_NODES on, target = the nested DAG's production node: the nested debug node was pulled in although the producer of its input y is not part of the run (it saw y=%r)" % (seen[0][1],))
    return out


# ------------------------------------------------------------------------------ C17: both flavours record the same setup results
def flavours_record_same_setup_results(k):
    """one describing function with an active setup node, a setup node chained on it, and a setup node switched off by a
    constant flag, built in both flavours: after one call (and after setup()) both DAG-level maps hold the same setup entries"""
    def mk(is_async, tag):
        lx = tawazi.xn(named(lambda: ("loaded",), "sc_fsl%d%s" % (k, tag)), setup=True)
        cx = tawazi.xn(named(lambda l: ("chained", l), "sc_fsc%d%s" % (k, tag)), setup=True)
        ox = tawazi.xn(named(lambda: ("off",), "sc_fso%d%s" % (k, tag)), setup=True)
        wx = tawazi.xn(named(lambda x, c, o: (x, c, o), "sc_fsw%d%s" % (k, tag)))

        def desc(x):
            return wx(x, cx(lx()), ox(twz_active=False))
        return tawazi.dag(named(desc, "sc_fsd%d%s" % (k, tag)), is_async=is_async)
    out = []
    for how in ("call", "setup"):
        ds, da = mk(False, "s" + how[0]), mk(True, "a" + how[0])
        if how == "call":
            rs = in_thread(lambda: ds(1), 10)
            ra = in_thread(lambda: asyncio.run(da(1)), 10)
        else:
            rs = in_thread(lambda: ds.setup(), 10)
            ra = in_thread(lambda: asyncio.run(da.setup()), 10)
        if rs[0] != "ok" or ra[0] != "ok" or rs[1] != ra[1]:
            out.append("%s on both flavours of one function: DAG %r, AsyncDAG %r" % (how, rs, ra))
            continue
        norm = lambda d_: {i_.replace("a" + how[0], "#").replace("s" + how[0], "#"): v_ for i_, v_ in d_.results.items() if ">!>" not in i_}  # noqa: E731
        if norm(ds) != norm(da):
            out.append("after %s the DAG records the setup results %r, the AsyncDAG of the same function %r" % (how, norm(ds), norm(da)))
    return out


# ------------------------------------------------------------------------------ C18 / C17: cache, then restart, in ONE event loop
def async_cache_then_restart_same_loop(k, tmpdir):
    """await ex(cache_in=f)(x) and straight after, in the same loop, await d.executor(from_cache=f)(): when the caching run
    returned its file is complete; the restart executes nothing and returns the caching run's value"""
    import os as _os
    _os.makedirs(tmpdir, exist_ok=True)
    cnt = collections.Counter()

    def a(x):
        cnt["a"] += 1
        return SlowPickle(("a", x))
    ax = tawazi.xn(named(a, "sc_aca%d" % k), resource=Resource.async_thread)

    def b(v):
        cnt["b"] += 1
        return ("b", v.v)
    bx = tawazi.xn(named(b, "sc_acb%d" % k))

    def desc(x):
        return bx(ax(x))
    d = tawazi.dag(named(desc, "sc_ac%d" % k), is_async=True)
    path = _os.path.join(tmpdir, "ac%d.pkl" % k)

    async def main():
        v1 = await d.executor(cache_in=path)(7)
        n1 = dict(cnt)
        v2 = await d.executor(from_cache=path)(7)
        return v1, n1, v2, dict(cnt)
    st = in_thread(lambda: asyncio.run(main()), 20)
    try:
        _os.remove(path)
    except OSError:
        pass
    if st[0] != "ok":
        return ["caching run then restart in one event loop: %r" % (st,)]
    v1, n1, v2, n2 = st[1]
    out = []
    if v1 != ("b", ("a", 7)) or v2 != v1:
        out.append("caching run returned %r, the restart in the same loop %r" % (v1, v2))
    if n2 != n1:
        out.append("the restart in the same loop executed nodes again: entries %r after the caching run, %r after the restart" % (n1, n2))
    return out


# ------------------------------------------------------------------------------ C14: a failing node without call location
def handbuilt_failing_node(k):
    """a DAG assembled from ExecNode objects (no describing call, hence no call location): when a node fails the call
    raises the node's ORIGINAL exception ("or is the original exception when no location is known")"""
    from tawazi import DAG as _DAG
    from tawazi._helpers import StrictDict as _SD
    from tawazi.node import ExecNode as _EN, UsageExecNode as _UX

    class Bare(Exception):
        pass

    def first():
        return 1

    def faulty(x):
        raise Bare("faulty %d" % k)

    def after(x):
        return x
    ran = []

    def after_w(x):
        ran.append("after")
        return after(x)
    n1 = _EN(id_="sc_hb_first%d" % k, exec_function=first)
    n2 = _EN(id_="sc_hb_faulty%d" % k, exec_function=faulty, args=[_UX(n1.id)])
    n3 = _EN(id_="sc_hb_after%d" % k, exec_function=after_w, args=[_UX(n2.id)])
    try:
        d = _DAG("sc_hb%d" % k, _SD(), _SD((x.id, x) for x in (n1, n2, n3)), [], [], 2)
    except BaseException as e:  # noqa: BLE001
        return ["a DAG assembled from ExecNode objects does not build: %s: %s" % (type(e).__name__, e)]
    st = in_thread(lambda: d(), 10)
    out = []
    if st[0] != "raise":
        return ["hand-built DAG with a failing node: %r" % (st,)]
    e = st[1]
    if not isinstance(e, Bare) and not (type(e).__name__ == "TawaziBaseException" and n2.id in str(e) and isinstance(e.__cause__, Bare) and __import__("re").search(r" at \S+:\d+\s*$", str(e)) is not None):
        out.append("node %s (no call location known) failed with Bare(...): the call raised %s: %r, which is neither the original exception nor a wrapper naming the node AND a location" % (n2.id, type(e).__name__, str(e)[:120]))
    if ran:
        out.append("a node depending on the failed node was started")
    return out


# ------------------------------------------------------------------------------ C03 / C11: embedding a DAG that is already set up
def nested_dag_already_set_up(k, is_async):
    """the inner DAG has been set up on its own BEFORE it is embedded in an outer DAG: its setup node is not entered again by
    the outer DAG's executions (its stored result is carried over)"""
    cnt = collections.Counter()

    def model():
        cnt["model"] += 1
        return ("model", cnt["model"])
    mx = tawazi.xn(named(model, "sc_asm%d" % k), setup=True)

    def score(x, m):
        cnt["score"] += 1
        return (x, m)
    sx = tawazi.xn(named(score, "sc_ass%d" % k))

    def inner(x):
        return sx(x, mx())
    din = tawazi.dag(named(inner, "sc_asin%d" % k))
    st0 = in_thread(lambda: din.setup(), 10) if k % 2 else in_thread(lambda: din(0), 10)
    if st0[0] != "ok":
        return []
    before = cnt["model"]

    def outer(x):
        return din(x)
    d = tawazi.dag(named(outer, "sc_asout%d" % k), is_async=is_async)
    call = (lambda th: in_thread(lambda: asyncio.run(th()), 10)) if is_async else (lambda th: in_thread(th, 10))
    sts = [call(lambda: d(1)), call(lambda: d(2))]
    if any(st[0] != "ok" for st in sts):
        return ["embedding a DAG that is already set up: %r" % ([st for st in sts if st[0] != "ok"][:1],)]
    out = []
    if before != 1 or cnt["model"] != 1:
        out.append("the setup node of a nested DAG that had been set up before it was embedded was entered %d more time(s) by the outer DAG's executions" % (cnt["model"] - before))
    if sts[0][1] != (1, ("model", 1)) or sts[1][1] != (2, ("model", 1)):
        out.append("outer calls returned %r, %r; the stored setup result is ('model', 1)" % (sts[0][1], sts[1][1]))
    return out


# ------------------------------------------------------------------------------ C02 / C10: an indexed part that does not exist
def missing_index_is_an_error(k, is_async):
    """consumer(p["absent"]), consumer(t[5]) on a 2-tuple, a, b, c = pair(twz_unpack_to=3) and twz_active=p["absent"]: the
    indexed part of the producer's result does not exist: the call fails (KeyError / IndexError inside), the consumer is
    never entered with a made-up value and a flagged node is not silently switched off"""
    out = []
    for what in ("key", "pos", "unpack", "flag"):
        entered = []

        def prod():
            return {"present": 1} if what in ("key", "flag") else (1, 2)
        px = tawazi.xn(named(prod, "sc_mi_p%d%s" % (k, what)))

        def cons(*a):
            entered.append(a)
            return ("cons",) + a
        cx = tawazi.xn(named(cons, "sc_mi_c%d%s" % (k, what)))

        def desc():
            if what == "key":
                return cx(px()["absent"])
            if what == "pos":
                return cx(px()[5])
            if what == "unpack":
                a_, b_, c_ = px(twz_unpack_to=3)
                return cx(a_, c_)
            return cx(twz_active=px()["absent"])
        try:
            d = tawazi.dag(named(desc, "sc_mi%d%s" % (k, what)), is_async=is_async)
        except BaseException as e:  # noqa: BLE001
            out.append(("C02", "a DAG using an indexed result (%s) does not build: %s" % (what, type(e).__name__)))
            continue
        st = in_thread((lambda: asyncio.run(d())) if is_async else (lambda: d()), 10)
        prop = "C10" if what == "flag" else "C02"
        if entered:
            out.append((prop, "%s: the indexed part of the producer's result does not exist, yet the consumer was entered with %r" % (what, entered[0])))
        elif st[0] == "ok":
            out.append((prop, "%s: the indexed part of the producer's result does not exist and the call returned %r instead of failing%s" % (what, st[1], " (the flagged node was silently switched off)" if what == "flag" else "")))
    return out


# ------------------------------------------------------------------------------ C15 / C01: v += w in a describing function
def augmented_assignment_is_pure(k, is_async):
    """`v = start; v += more(x)` in a DAG body, `start` being a defaulted parameter holding a list (and a stored setup result):
    as in the plain function called with a FRESH default each time, every call returns start + more(x); what the DAG keeps
    between calls (defaults, setup results) is not modified"""
    def more(x):
        return [x]
    mx = tawazi.xn(named(more, "sc_aam%d" % k))

    def base():
        return ["<b>"]
    bx = tawazi.xn(named(base, "sc_aab%d" % k), setup=True)

    def desc(x, start=["<s>"]):  # noqa: B006
        v = start
        v += mx(x)
        w = bx()
        w += mx(x)
        return v, w
    d = tawazi.dag(named(desc, "sc_aa%d" % k), is_async=is_async)
    call = (lambda th: in_thread(lambda: asyncio.run(th()), 10)) if is_async else (lambda th: in_thread(th, 10))
    out = []
    for x in ("x", "y", "z"):
        st = call(lambda x=x: d(x))
        if st[0] != "ok":
            return ["`v += w` in a describing function: %r" % (st,)]
        if st[1] != (["<s>", x], ["<b>", x]):
            out.append("call %r of a DAG doing `v = start; v += more(x)` returned %r; with the default and the setup result untouched it returns (['<s>', %r], ['<b>', %r])" % (x, st[1], x, x))
            break
    return out


# ------------------------------------------------------------------------------ C01 / C15: corner cases of the describing function
def describing_function_corner_cases(k, is_async):
    """(a) a describing function returning an EMPTY list / dict literal: as in the plain function every call returns a fresh
    container (the caller may mutate what it got); (b) a function decorated with unpack_to=2 and called with
    twz_unpack_to=3: the call site's value wins, as documented for the reserved twz_ keywords"""
    out = []
    call = (lambda th: in_thread(lambda: asyncio.run(th()), 10)) if is_async else (lambda th: in_thread(th, 10))
    for kind_, mk in (("list", lambda: []), ("dict", lambda: {})):
        fx = tawazi.xn(named(lambda x: x, "sc_cc_f%d%s" % (k, kind_)))

        def mkdesc(mk_, fx_):
            def desc(x):
                fx_(x)
                return mk_()
            return desc
        try:
            d = tawazi.dag(named(mkdesc(mk, fx), "sc_cc_%d%s" % (k, kind_)), is_async=is_async)
        except BaseException as e:  # noqa: BLE001
            out.append("a describing function returning an empty %s does not build: %s" % (kind_, type(e).__name__))
            continue
        r1 = call(lambda: d(1))
        if r1[0] == "ok" and r1[1] == mk():
            if kind_ == "list":
                r1[1].append("mine")
            else:
                r1[1]["mine"] = 1
        r2 = call(lambda: d(2))
        if r1[0] != "ok" or r2[0] != "ok" or r2[1] != mk():
            out.append("a describing function returning an empty %s: first call %r, second call (after the caller filled what the first one returned) %r; the plain function returns an empty %s each time" % (kind_, r1, r2, kind_))

    def spread(n):
        return tuple(range(n))
    sx = tawazi.xn(named(spread, "sc_cc_s%d" % k), unpack_to=2)
    gx = tawazi.xn(named(lambda *a: a, "sc_cc_g%d" % k))

    def desc2():
        a, b = sx(2)
        c, d_, e = sx(3, twz_unpack_to=3)
        return gx(a, b, c, d_, e)
    try:
        d2 = tawazi.dag(named(desc2, "sc_cc2_%d" % k), is_async=is_async)
        r = call(lambda: d2())
        if r != ("ok", (0, 1, 0, 1, 2)):
            out.append("unpack_to=2 on the decorator and twz_unpack_to=3 at one call site: the DAG returned %r, the plain function (0, 1, 0, 1, 2)" % (r,))
    except BaseException as e:  # noqa: BLE001
        out.append("unpack_to=2 on the decorator and twz_unpack_to=3 at one call site: the DAG does not build (%s: %s)" % (type(e).__name__, str(e)[:80]))
    return out


# ------------------------------------------------------------------------------ C04: operator nodes are nodes like any other
def operator_nodes_respect_resource(k, is_async):
    """`a + b`, `a < b` in a describing function are nodes with the default (thread) resource: the operator runs on a
    pool thread, never on the thread that invoked the DAG / runs the event loop"""
    seen = {}

    class V:
        def __init__(self, v):
            self.v = v

        def __add__(self, o):
            seen["add"] = threading.get_ident()
            return V(self.v + o.v)

        def __lt__(self, o):
            seen["lt"] = threading.get_ident()
            return self.v < o.v

    ax = tawazi.xn(named(lambda: V(1), "sc_op_a%d" % k))
    bx = tawazi.xn(named(lambda: V(2), "sc_op_b%d" % k))
    invoker = {}

    def desc():
        a, b = ax(), bx()
        return a + b, a < b
    d = tawazi.dag(named(desc, "sc_op%d" % k), max_concurrency=2, is_async=is_async)

    def go():
        invoker["id"] = threading.get_ident()
        return asyncio.run(d()) if is_async else d()
    st = in_thread(go, 10)
    if st[0] != "ok":
        return ["DAG with operator nodes: %r" % (st,)]
    decl = {i_: x_.resource.value for i_, x_ in d.exec_nodes.items() if ">!>" not in i_ and not i_.startswith("sc_op_")}
    bad = sorted(op for op, tid in seen.items() if tid == invoker["id"])
    if bad and all(v_ == "thread" for v_ in decl.values()):
        return ["operator node(s) %s declared with the thread resource (%s) ran on the thread that invoked the DAG" % (bad, decl)]
    return []


# ------------------------------------------------------------------------------ C09: completions a few microseconds apart
def near_simultaneous_completions(k, seconds):
    """two parallel thread nodes that finish a few microseconds apart (the gap is swept, tiny switch interval): every call returns
    (a completion that arrives while the scheduler is retiring another one must not be lost)"""
    import sys
    state = {"a_done": False, "delay": 0}

    def a():
        time.sleep(0.001)
        state["a_done"] = True
        return 1

    def b():
        t0 = time.time()
        while not state["a_done"] and time.time() - t0 < 5:
            pass
        for _ in range(state["delay"]):
            pass
        return 2
    ax = tawazi.xn(named(a, "sc_ns_a%d" % k))
    bx = tawazi.xn(named(b, "sc_ns_b%d" % k))
    jx = tawazi.xn(named(lambda x, y: x + y, "sc_ns_j%d" % k))

    def desc():
        return jx(ax(), bx())
    d = tawazi.dag(named(desc, "sc_ns%d" % k), max_concurrency=3)
    old = sys.getswitchinterval()
    sys.setswitchinterval(1e-6)
    n = 0
    try:
        t_end = time.time() + seconds
        while time.time() < t_end:
            for delay in range(0, 1500, 10):
                state["a_done"] = False
                state["delay"] = delay
                st = in_thread(lambda: d(), 6)
                n += 1
                if st != ("ok", 3):
                    return ["call #%d of a DAG whose two thread nodes finish about %d loop iterations apart: %r (a completion was lost: the scheduler spins / waits with nothing in flight)" % (n, delay, st)]
                if time.time() > t_end:
                    break
    finally:
        sys.setswitchinterval(old)
    return []


def run(pid, tier, seed, res):
    n = 2 if tier == "quick" else 8
    for k in range(n):
        if pid == "C14":
            res.evaluations += 1
            for msg in handbuilt_failing_node(k):
                res.hit("C14", "monitor", msg, dict(engine="scenario", kind="monitor", scenario="handbuilt_failing_node", k=k))
            res.evaluations += 1
            for msg in failing_node_identity(k):
                res.hit("C14", "monitor", msg, dict(engine="scenario", kind="monitor", scenario="failing_node_identity", k=k))
            for fl in (False, True):
                res.evaluations += 1
                for msg in stragglers_then_failure(2 * k + int(fl), fl):
                    res.hit("C14", "monitor", msg, dict(engine="scenario", kind="monitor", scenario="stragglers_then_failure", k=k, is_async=fl))
        if pid == "C17":
            res.evaluations += 2
            for msg in failure_keeps_loop_free(k):
                res.hit("C17", "monitor", msg, dict(engine="scenario", kind="monitor", scenario="failure_keeps_loop_free", k=k))
            for msg in setup_value_is_stable(k):
                res.hit("C17", "monitor", msg, dict(engine="scenario", kind="monitor", scenario="setup_value_is_stable", k=k))
        if pid == "C16" and k == 0:
            res.evaluations += 1
            for msg in concurrent_builds_stress(k, 2.0 if tier == "quick" else 15.0):
                res.hit("C16", "monitor", msg, dict(engine="scenario", kind="monitor", scenario="concurrent_builds_stress", k=k))
            for msg in concurrent_calls_stress(k, 2.5 if tier == "quick" else 15.0):
                res.hit("C16", "monitor", msg, dict(engine="scenario", kind="monitor", scenario="concurrent_calls_stress", k=k))
        if pid in ("C15", "C01"):
            for fl in (False, True):
                res.evaluations += 1
                for msg in describing_function_corner_cases(2 * k + int(fl), fl):
                    res.hit(pid, "monitor", msg, dict(engine="scenario", kind="monitor", scenario="describing_function_corner_cases", k=k, is_async=fl))
            for fl in (False, True):
                res.evaluations += 1
                for msg in augmented_assignment_is_pure(2 * k + int(fl), fl):
                    res.hit(pid, "monitor", msg, dict(engine="scenario", kind="monitor", scenario="augmented_assignment_is_pure", k=k, is_async=fl))
        if pid in ("C02", "C10"):
            for fl in (False, True):
                res.evaluations += 1
                for p_, msg in missing_index_is_an_error(2 * k + int(fl), fl):
                    res.hit(p_, "monitor", msg, dict(engine="scenario", kind="monitor", scenario="missing_index_is_an_error", k=k, is_async=fl))
        if pid in ("C01", "C07") and k == 0:
            for fl in (False, True):
                res.evaluations += 1
                for p_, msg in deep_chain(2 * k + int(fl), fl):
                    res.hit(p_, "monitor", msg, dict(engine="scenario", kind="monitor", scenario="deep_chain", k=k, is_async=fl))
        if pid in ("C08", "C04") and k == 0:
            for fl in (False, True):
                res.evaluations += 1
                for p_, msg in wide_parallelism(2 * k + int(fl), fl):
                    res.hit(p_, "monitor", msg, dict(engine="scenario", kind="monitor", scenario="wide_parallelism", k=k, is_async=fl))
            # ... and the same with profiling switched on for every node
            tawazi.cfg.TAWAZI_PROFILE_ALL_NODES = True
            try:
                res.evaluations += 1
                for p_, msg in wide_parallelism(2 * k + 7, False):
                    res.hit(p_, "monitor", "TAWAZI_PROFILE_ALL_NODES on: " + msg, dict(engine="scenario", kind="monitor", scenario="wide_parallelism", k=k, is_async=False, profile=True))
            finally:
                tawazi.cfg.TAWAZI_PROFILE_ALL_NODES = False
        if pid == "C04":
            for fl in (False, True):
                res.evaluations += 1
                for msg in operator_nodes_respect_resource(2 * k + int(fl), fl):
                    res.hit("C04", "monitor", msg, dict(engine="scenario", kind="monitor", scenario="operator_nodes_respect_resource", k=k, is_async=fl))
        if pid == "C09" and k == 0:
            res.evaluations += 1
            for msg in near_simultaneous_completions(k, 4.0 if tier == "quick" else 30.0):
                res.hit("C09", "monitor", msg, dict(engine="scenario", kind="monitor", scenario="near_simultaneous_completions", k=k))
        if pid in ("C11", "C03"):
            for fl in (False, True):
                res.evaluations += 1
                for msg in nested_dag_already_set_up(2 * k + int(fl), fl):
                    res.hit(pid, "monitor", msg, dict(engine="scenario", kind="monitor", scenario="nested_dag_already_set_up", k=k, is_async=fl))
        if pid == "C11":
            for fl in (False, True):
                res.evaluations += 1
                for msg in nested_setup_under_flag(2 * k + int(fl), fl):
                    res.hit("C11", "monitor", msg, dict(engine="scenario", kind="monitor", scenario="nested_setup_under_flag", k=k, is_async=fl))
            for fl in (False, True):
                res.evaluations += 1
                for msg in setup_value_identity(2 * k + int(fl), fl):
                    res.hit("C11", "monitor", msg, dict(engine="scenario", kind="monitor", scenario="setup_value_identity", k=k, is_async=fl))
        if pid in ("C16", "C18"):
            res.evaluations += 1
            from . import coqrun as _cq
            for msg in concurrent_cache_writes(k, __import__("os").path.join(_cq.BUILD, "cw_%s" % pid)):
                res.hit(pid, "monitor", msg, dict(engine="scenario", kind="monitor", scenario="concurrent_cache_writes", k=k))
        if pid == "C13":
            res.evaluations += 1
            for msg in debug_in_nested_dag_restricted(k):
                res.hit("C13", "monitor", msg, dict(engine="scenario", kind="monitor", scenario="debug_in_nested_dag_restricted", k=k))
        if pid == "C17":
            res.evaluations += 1
            for msg in flavours_record_same_setup_results(k):
                res.hit("C17", "monitor", msg, dict(engine="scenario", kind="monitor", scenario="flavours_record_same_setup_results", k=k))
        if pid in ("C17", "C18"):
            res.evaluations += 1
            from . import coqrun as _cq2
            for msg in async_cache_then_restart_same_loop(k, __import__("os").path.join(_cq2.BUILD, "ac_%s" % pid)):
                res.hit(pid, "monitor", msg, dict(engine="scenario", kind="monitor", scenario="async_cache_then_restart_same_loop", k=k))
        if pid in ("C10", "C13"):
            res.evaluations += 1
            for msg in debug_node_in_deactivated_nested_dag(k):
                res.hit(pid, "monitor", msg, dict(engine="scenario", kind="monitor", scenario="debug_node_in_deactivated_nested_dag", k=k))
        if pid in ("C09", "C17"):
            res.evaluations += 2
            for msg in nested_runtime_call(k):
                res.hit("C09", "monitor", msg, dict(engine="scenario", kind="monitor", scenario="nested_runtime_call", k=k))
            for msg in first_concurrent_awaits(k):
                for p_ in ("C09", "C17"):
                    res.hit(p_, "monitor", msg, dict(engine="scenario", kind="monitor", scenario="first_concurrent_awaits", k=k))
    res.engine_info["scenario"] = dict(rounds=n)
