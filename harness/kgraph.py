"""K-graph: compound priority tables, sub-graph selection (target / exclude / root), debug and setup rules,
alias resolution — the real DiGraphEx / DAG.executor / DAG._pre_setup against Priority.v / Select.v."""
import json
import os
import random
import subprocess
import sys

from . import coqrun, tz
from .tz import Resource, tawazi

VERIF = coqrun.VERIF


# ------------------------------------------------------------------------------ generation
def gen_graph_case(rng, max_n=7):
    n = rng.randint(2, max_n)
    pe = rng.choice([0.25, 0.4, 0.6])
    # debug nodes are placed late (a non-debug node may not depend on a debug node)
    debug = set()
    setup = set()
    edges = []
    for j in range(n):
        for i in range(j):
            if rng.random() < pe:
                edges.append((i, j))
    # choose debug nodes: a node can be debug only if all its successors are debug -> pick from the end
    pdbg = rng.choice([0.3, 0.3, 0.6])
    for j in reversed(range(n)):
        succ = [b for a, b in edges if a == j]
        if all(s in debug for s in succ) and rng.random() < pdbg:
            debug.add(j)
    # setup nodes: only nodes all of whose preds are setup (and not debug)
    for j in range(n):
        pred = [a for a, b in edges if b == j]
        if j not in debug and all(p in setup for p in pred) and rng.random() < 0.25:
            setup.add(j)
    # a non-debug node may not depend on debug: drop such edges
    edges = [(a, b) for a, b in edges if not (a in debug and b not in debug)]
    # a setup node may only depend on setup nodes (recheck after drops)
    edges = [(a, b) for a, b in edges if not (b in setup and a not in setup)]
    prios = [rng.randint(-3, 5) for _ in range(n)]
    tagpool = ["t0", "t1", "t2"]
    tags = {}
    for i in range(n):
        r = rng.random()
        if r < 0.25:
            tags[str(i)] = rng.choice(tagpool)
        elif r < 0.32:
            tags[str(i)] = rng.sample(tagpool, 2)
        elif r < 0.36 and i + 1 < n:
            tags[str(i)] = "n%d" % (i + 1)  # a tag equal to another node's id: the tag wins
        elif r < 0.46:
            # a tag that CONTAINS another tag / a node id as a substring names only its own node
            tags[str(i)] = rng.choice(["xt0", "t1x", "at2b", "n%dx" % rng.randrange(n), "an%d" % rng.randrange(n)])
    consts = {str(i): rng.random() < 0.3 for i in range(n)}  # node takes an extra constant argument
    # a call site may re-tag its node (twz_tag): the call site's tag REPLACES the decorator's
    crng = random.Random(rng.getrandbits(30))
    call_tags = {}
    for i in range(n):
        if crng.random() < 0.12:
            call_tags[str(i)] = crng.choice(["t0", "t1", "c0"])
    case = dict(kind="graph", n=n, edges=[list(e) for e in edges], prios=prios, debug=sorted(debug), setup=sorted(setup),
                tags=tags, consts=consts, call_tags=call_tags, queries=[])
    irng = random.Random(rng.getrandbits(30))
    if irng.random() < 0.4:
        # some results are used through an index: as a dependency (v[j][0]) and as an extra output of the DAG
        case["idx_edges"] = [list(e) for e in edges if irng.random() < 0.4]
        case["idx_out"] = sorted(irng.sample(range(n), irng.randint(1, min(2, n))))
    return case


def descendants(n, edges, srcs):
    out = set(srcs)
    ch = True
    while ch:
        ch = False
        for a, b in edges:
            if a in out and b not in out:
                out.add(b)
                ch = True
    return out


def gen_queries(rng, case, k=6):
    n = case["n"]
    edges = [tuple(e) for e in case["edges"]]
    qs = []
    nodes = list(range(n))
    roots = [j for j in nodes if not any(b == j for a, b in edges)]

    def alias_of(i):
        forms = ["id", "ref"]
        t = case["tags"].get(str(i))
        if t is not None:
            forms.append("tag")
        f = rng.choice(forms)
        if f == "id":
            return ["id", "n%d" % i]
        if f == "ref":
            return ["ref", i]
        return ["tag", t if isinstance(t, str) else rng.choice(t)]

    for _ in range(k):
        kind = rng.choice(["exec"] * 5 + ["setup"] * 2 + ["call"])
        q = dict(kind=kind, run_debug=rng.random() < 0.5, target=None, exclude=None, root=None, in_hypothesis=True)
        if kind != "call":
            g1 = set(nodes)
            if rng.random() < 0.45:
                if rng.random() < 0.85 and roots:
                    R = rng.sample(roots, rng.randint(1, min(2, len(roots))))
                else:
                    R = rng.sample(nodes, 1)  # maybe a non-root: ValueError
                q["root"] = [alias_of(i) for i in R]
                if all(r in roots for r in R):
                    g1 = descendants(n, edges, R)
            if rng.random() < 0.45:
                pool = sorted(g1) if rng.random() < 0.9 else nodes
                X = rng.sample(pool, rng.randint(1, min(2, len(pool))))
                q["exclude"] = [alias_of(i) for i in X]
            if rng.random() < (0.6 if kind == "exec" else 0.4):
                T = rng.sample(nodes, rng.randint(1, min(3, n)))
                q["target"] = [alias_of(i) for i in T]
            if rng.random() < 0.05:
                q["target"] = (q["target"] or []) + [["id", "nope"]]
            # empty (but not None) selections: an empty selection selects nothing
            for key in ("target", "root", "exclude"):
                if rng.random() < 0.04:
                    q[key] = []
        qs.append(q)
    case["queries"] = qs
    return case


# ------------------------------------------------------------------------------ implementation side
def build_dag(case, maxc=1, is_async=False, mk=None, attrs=None):
    n = case["n"]
    eset = {tuple(e) for e in case["edges"]}
    fs = []
    for i in range(n):
        kw = dict(priority=case["prios"][i])
        if i in case["debug"]:
            kw["debug"] = True
        if i in case["setup"]:
            kw["setup"] = True
        t = case["tags"].get(str(i))
        if t is not None:
            kw["tag"] = t if isinstance(t, str) else tuple(t)
        if attrs:
            kw.update(attrs.get(i, {}))
        fs.append((mk or tz.mknode)("n%d" % i, (lambda i: (lambda *a, **k: ("n%d" % i,) + tuple(a)))(i), **kw))

    viol = case.get("viol")

    def desc(*params):
        v = {}
        for i in range(n):
            args = [(v[j][0] if (j, i) in ixe else v[j]) for j in range(i) if (j, i) in eset]
            kw = {}
            if case["consts"].get(str(i)):
                args.append(7)
            if case.get("call_tags", {}).get(str(i)):
                kw["twz_tag"] = case["call_tags"][str(i)]
            if viol is not None and viol["dst"] == i:
                src = params[0] if viol["how"] == "param" else v[viol["src"]]
                if viol.get("index"):
                    src = src[0]  # an INDEXED use of the parameter / result is a use of it all the same
                if viol["via"] == "op":
                    args.append(src * 2)  # through an operator node (an ordinary, non-setup, non-debug node)
                elif viol["via"] == "arg":
                    args.append(src)
                elif viol["via"] == "kw":
                    kw["extra"] = src
                elif viol["via"] == "flag":
                    kw["twz_active"] = src
            v[i] = fs[i](*args, **kw)
            if viol is not None and viol["dst"] == i and viol["via"] in SUBVIA:
                # the value crosses the boundary of a nested DAG: as its argument, or as the flag of the call
                # (of a nested DAG with a parameter, or without any)
                if viol["via"] == "subarg":
                    vsub(v[viol["src"]])
                elif viol["via"] == "subflag":
                    vsub(7, twz_active=v[viol["src"]])
                else:
                    vsub0(twz_active=v[viol["src"]])
        return tuple(v[i] for i in range(n)) + tuple(v[j][0] for j in case.get("idx_out", []))

    ixe = {tuple(e) for e in case.get("idx_edges", [])}  # dependencies consumed as an INDEXED part of the producer's result
    vsub = vsub0 = None
    if viol is not None and viol["via"] in SUBVIA:
        vs = (mk or tz.mknode)("vs", lambda *a, **k: ("vs",) + tuple(a))

        def vsubdesc(x):
            return vs(x)
        vsubdesc.__qualname__ = "vsub"
        vsubdesc.__name__ = "vsub"
        vsub = tawazi.dag(vsubdesc)
        vs0 = (mk or tz.mknode)("vs0", lambda *a, **k: ("vs0",) + tuple(a))

        def vsub0desc():
            return vs0()
        vsub0desc.__qualname__ = "vsub0"
        vsub0desc.__name__ = "vsub0"
        vsub0 = tawazi.dag(vsub0desc)

    desc.__qualname__ = "gdesc"
    desc.__name__ = "gdesc"
    import inspect
    if viol is not None and viol["how"] == "param":
        desc.__signature__ = inspect.Signature([inspect.Parameter("p0", inspect.Parameter.POSITIONAL_OR_KEYWORD, **({"default": 5} if viol.get("default") else {}))])
    else:
        desc.__signature__ = inspect.Signature([])
    d = tawazi.dag(desc, max_concurrency=maxc, is_async=is_async)
    return d, fs


def to_alias(a, fs, d):
    if a[0] == "ref":
        # the ExecNode object of the DAG (the decorated function itself has the id of the first call site too)
        return d.exec_nodes["n%d" % a[1]]
    return a[1]


def declared_tags(case):
    """node name -> list of tags the user declared: the call site's twz_tag if given, else the decorator's tag(s)"""
    out = {}
    for i in range(case["n"]):
        t = case.get("call_tags", {}).get(str(i)) or case["tags"].get(str(i))
        if t:
            out["n%d" % i] = [t] if isinstance(t, str) else list(t)
    return out


def impl_tables(d):
    g = d.graph_ids
    nodes = sorted(g.nodes)
    xn = d.exec_nodes
    return dict(
        nodes=nodes,
        deps={i: sorted({u.id for u in xn[i].dependencies}) for i in nodes},
        prio={i: xn[i].priority for i in nodes},
        cp={i: g.compound_priority[i] for i in nodes},
        debug={i: bool(xn[i].debug) for i in nodes},
        setup={i: bool(xn[i].setup) for i in nodes},
        tags={i: ([xn[i].tag] if isinstance(xn[i].tag, str) else list(xn[i].tag)) for i in nodes if xn[i].tag},
        gedges=sorted(map(list, g.edges)),
    )


def impl_query(d, fs, q):
    tawazi.cfg.RUN_DEBUG_NODES = bool(q["run_debug"])
    try:
        conv = lambda l: None if l is None else [to_alias(a, fs, d) for a in l]  # noqa: E731
        if q["kind"] == "call":
            g = d.graph_ids.extend_graph_with_debug_nodes(d.graph_ids, tawazi.cfg)
            return dict(status="ok", nodes=sorted(g.nodes), cp={i: g.compound_priority[i] for i in g.nodes}, dbg={i: bool(g.debug[i]) for i in g.nodes})
        if q["kind"] == "setup":
            g = d._pre_setup(conv(q["target"]), conv(q["exclude"]), conv(q["root"]))
            return dict(status="ok", nodes=sorted(g.nodes), cp={}, dbg={})
        ex = d.executor(target_nodes=conv(q["target"]), exclude_nodes=conv(q["exclude"]), root_nodes=conv(q["root"]))
        g = ex.graph
        return dict(status="ok", nodes=sorted(g.nodes), cp={i: g.compound_priority[i] for i in g.nodes}, dbg={i: bool(g.debug[i]) for i in g.nodes}, executor=ex)
    except ValueError as e:
        return dict(status="ValueError", msg=str(e)[:200])
    except BaseException as e:  # noqa: BLE001
        return dict(status="other", msg="%s: %s" % (type(e).__name__, str(e)[:200]))
    finally:
        tawazi.cfg.RUN_DEBUG_NODES = False


# ------------------------------------------------------------------------------ model side (Coq terms)
def bool_table(tbl, ids):
    return coqrun.fun_table({ids(k): v for k, v in tbl.items() if v}, "false", lambda b: "true")


def alias_coq(a, ids, strs):
    if a[0] == "ref":
        return "ARef %d" % ids("n%d" % a[1])
    return "AStr %d" % strs[a[1]]


def opt_aliases(l, ids, strs):
    if l is None:
        return "None"
    return "(Some [" + "; ".join(alias_coq(a, ids, strs) for a in l) + "])"


def model_terms(case, tables):
    """-> (ids, list of (label, coq term of type list Z))"""
    ids = coqrun.Ids(list(tables["nodes"]) + [p for ps in tables["deps"].values() for p in ps])
    nodes = coqrun.nat_list(ids.l(tables["nodes"]))
    preds = coqrun.fun_table({ids(k): ids.l(v) for k, v in tables["deps"].items()}, "[]", coqrun.nat_list)
    prio = coqrun.fun_table({ids(k): v for k, v in tables["prio"].items()}, "0%Z", coqrun.z)
    debug = bool_table(tables["debug"], ids)
    setup = bool_table(tables["setup"], ids)
    # strings that may be aliases: node ids and tags
    strs = {}
    for s in list(tables["nodes"]) + [t for ts in tables["tags"].values() for t in ts] + ["nope"]:
        strs.setdefault(s, len(strs))
    for q in case["queries"]:
        for key in ("target", "exclude", "root"):
            for a in q[key] or []:
                if a[0] != "ref":
                    strs.setdefault(a[1], len(strs))
    tagmap = {}
    for nid, ts in tables["tags"].items():
        for t in ts:
            tagmap.setdefault(strs[t], []).append(ids(nid))
    tags = "[" + "; ".join("(%d, %s)" % (k, coqrun.nat_list(v)) for k, v in sorted(tagmap.items())) + "]"
    idmap = "[" + "; ".join("(%d, %d)" % (strs[nid], ids(nid)) for nid in tables["nodes"]) + "]"
    out = [("cprio", "kprio %s %s %s" % (preds, prio, nodes))]
    for qi, q in enumerate(case["queries"]):
        rd = "true" if q["run_debug"] else "false"
        if q["kind"] == "call":
            out.append(("q%d" % qi, "kcall %s %s %s %s" % (preds, debug, nodes, rd)))
        elif q["kind"] == "setup":
            out.append(("q%d" % qi, "ksetup %s %s %s %s %s %s %s %s" % (preds, setup, nodes, tags, idmap, opt_aliases(q["target"], ids, strs), opt_aliases(q["exclude"], ids, strs), opt_aliases(q["root"], ids, strs))))
        else:
            out.append(("q%d" % qi, "kexec %s %s %s %s %s %s %s %s %s" % (preds, debug, nodes, tags, idmap, opt_aliases(q["target"], ids, strs), opt_aliases(q["exclude"], ids, strs), opt_aliases(q["root"], ids, strs), rd)))
    return ids, out


# ------------------------------------------------------------------------------ hash-seed independence (C07)
SUB = r"""
import json, sys
sys.path.insert(0, %r)
from harness import kgraph, tz
cases = json.load(open(sys.argv[1]))
out = []
for case in cases:
    d, fs = kgraph.build_dag(case)
    t = kgraph.impl_tables(d)
    order = None
    try:
        ctl = tz.Ctl(free_run=True)
        st = tz.run_controlled(lambda: d(), ctl)
        order = [e[1] for e in ctl.trace if e[0] == "XENTER"]
    except BaseException as e:
        order = ["ERR " + type(e).__name__]
    xorder = None
    try:
        d2, _fs2 = kgraph.build_dag(case)  # a fresh instance: the call above has stored the setup results of d
        ex = d2.executor()
        ctl = tz.Ctl(free_run=True)
        st = tz.run_controlled(lambda: ex(), ctl)
        xorder = [e[1] for e in ctl.trace if e[0] == "XENTER"]
    except BaseException as e:
        xorder = ["ERR " + type(e).__name__]
    out.append(dict(cp=t["cp"], order=order, xorder=xorder, deps=t["deps"], debug=t["debug"], maxc=getattr(d, "max_concurrency", None)))
json.dump(out, open(sys.argv[2], "w"))
"""


def other_seed_tables(cases, seed, repo):
    os.makedirs(coqrun.BUILD, exist_ok=True)
    fin = os.path.join(coqrun.BUILD, "kg_in_%d.json" % seed)
    fout = os.path.join(coqrun.BUILD, "kg_out_%d.json" % seed)
    json.dump(cases, open(fin, "w"))
    env = dict(os.environ, PYTHONHASHSEED=str(seed), PYTHONPATH="%s:%s" % (repo, VERIF), PYTHONDONTWRITEBYTECODE="1", TAWAZI_REPO=repo)
    p = subprocess.run([sys.executable, "-c", SUB % VERIF, fin, fout], env=env, capture_output=True, text=True, timeout=600)
    try:
        if p.returncode != 0:
            return None, p.stderr[-1000:]
        return json.load(open(fout)), None
    finally:
        for f in (fin, fout):
            if os.path.exists(f):
                os.remove(f)


SUBVIA = ("subarg", "subflag", "subflag0")
COMBOS = [(h, v) for h in ("node", "param") for v in ("arg", "kw", "flag", "op") + SUBVIA if not (h == "param" and v in SUBVIA)]


def gen_violation(rng, case, k=None):
    """a copy of the case with ONE extra dependency (argument / keyword / flag, directly or through a nested DAG)
    that may or may not break a build rule; the (how, via) combinations are cycled through by k, and the two
    ends are biased towards the interesting ones (a setup node as dependent, a debug node as dependency)."""
    n = case["n"]
    if n < 2:
        return None
    c = json.loads(json.dumps(case))
    c["queries"] = []
    how, via = COMBOS[k % len(COMBOS)] if k is not None else rng.choice(COMBOS)
    cand = list(range(1, n))
    setups = [i for i in cand if i in case["setup"]]
    dst = rng.choice(setups) if setups and rng.random() < 0.5 else rng.choice(cand)
    if how == "param":
        # the DAG parameter may have a default value: it is a DAG argument all the same
        c["viol"] = dict(how="param", src=None, dst=dst, via=via, default=bool(rng.random() < 0.5))
        if via in ("arg", "kw", "flag") and random.Random(rng.getrandbits(30)).random() < 0.4:
            c["viol"]["index"] = True
    else:
        dbg = [i for i in range(dst) if i in case["debug"]]
        src = rng.choice(dbg) if dbg and rng.random() < 0.5 else rng.randrange(dst)
        c["viol"] = dict(how="node", src=src, dst=dst, via=via)
        if via in ("arg", "kw", "flag") and random.Random(rng.getrandbits(30)).random() < 0.25:
            c["viol"]["index"] = True
    return c
