"""Herbrand terms returned by generated node functions; mirrors coq/Terms.v (same encoding)."""


class Term:
    __slots__ = ()

    # free operators: the result is an application of the operator code to the operands
    def _bin(self, other, code):
        if hasattr(other, "key") and hasattr(other, "id"):  # a UsageExecNode at trace time: let its reflected operator record the node
            return NotImplemented
        return App(code, bool(self) ^ bool(other), (self, other))

    def _rbin(self, other, code):
        if hasattr(other, "key") and hasattr(other, "id"):
            return NotImplemented
        return App(code, bool(other) ^ bool(self), (other, self))

    def _un(self, code):
        return App(code, bool(self), (self,))


OPS = {"add": 900, "sub": 901, "mul": 902, "gt": 903, "lt": 904, "eq": 905, "ne": 906, "neg": 907, "abs": 908, "and": 909, "or": 910, "ge": 911, "le": 912, "xor": 913, "invert": 914, "mod": 915}
BIN = dict(add="__add__", sub="__sub__", mul="__mul__", gt="__gt__", lt="__lt__", ge="__ge__", le="__le__", mod="__mod__", xor="__xor__")
BIN["and"] = "__and__"
BIN["or"] = "__or__"
for _n, _m in BIN.items():
    setattr(Term, _m, (lambda code: lambda self, other: self._bin(other, code))(OPS[_n]))
    setattr(Term, "__r" + _m[2:], (lambda code: lambda self, other: self._rbin(other, code))(OPS[_n]))
Term.__neg__ = lambda self: self._un(OPS["neg"])
Term.__abs__ = lambda self: self._un(OPS["abs"])
Term.__invert__ = lambda self: self._un(OPS["invert"])


# terms are Sized with a length that DISAGREES with their truth value: Python's truth test uses __bool__ first,
# so nothing may look at len() to decide an activation flag
Term.__len__ = lambda self: 0 if bool(self) else 3


def _truth_of(v):
    return bool(v)


COPIED = []  # terms that were produced by copy.deepcopy (values must travel by reference, as in plain Python)


class Const(Term):
    __slots__ = ("c", "truth")

    def __init__(self, c, truth):
        self.c = c
        self.truth = bool(truth)

    def __deepcopy__(self, memo):
        COPIED.append(repr(self))
        return Const(self.c, self.truth)

    def __bool__(self):
        return self.truth

    def __repr__(self):
        return "Const(%d,%s)" % (self.c, self.truth)

    def __hash__(self):
        return hash(("Const", self.c, self.truth))

    def same(self, o):
        return isinstance(o, Const) and (o.c, o.truth) == (self.c, self.truth)

    def __reduce__(self):
        return (Const, (self.c, self.truth))


class App(Term):
    __slots__ = ("f", "truth", "args")

    def __init__(self, f, truth, args):
        self.f = f
        self.truth = bool(truth)
        self.args = tuple(args)

    def __bool__(self):
        return self.truth

    def __repr__(self):
        return "App(%d,%s,%r)" % (self.f, self.truth, self.args)

    def __deepcopy__(self, memo):
        COPIED.append(repr(self)[:60])
        return App(self.f, self.truth, self.args)

    def __hash__(self):
        return hash(("App", self.f, self.truth, len(self.args)))

    def __reduce__(self):
        return (App, (self.f, self.truth, self.args))


# == / != on terms are free constructors too (UsageExecNode defines __eq__ as a node)
def _eq(self, other):
    if hasattr(other, "key") and hasattr(other, "id"):
        return NotImplemented
    return App(OPS["eq"], bool(self) ^ _truth_of(other), (self, other))


def _ne(self, other):
    if hasattr(other, "key") and hasattr(other, "id"):
        return NotImplemented
    return App(OPS["ne"], bool(self) ^ _truth_of(other), (self, other))


Term.__eq__ = _eq
Term.__ne__ = _ne
Const.__eq__ = _eq
Const.__ne__ = _ne
App.__eq__ = _eq
App.__ne__ = _ne


KEY_BASE = 100


class Rec:
    """a record-like result: indexable by position (rec[0], rec[1], ...), NOT a collections.abc.Sequence, and its
    iteration order is not its index order (like a mapping whose iteration yields something else than rec[i]).
    A result written `a, b = f()` with unpack_to / x[i] is read by INDEXING, never by iterating."""

    def __init__(self, items):
        self.items = list(items)

    def __getitem__(self, i):
        return self.items[i]

    def __len__(self):
        return len(self.items)

    def __iter__(self):
        return iter(list(reversed(self.items)) + [None])

    def as_tuple(self):
        return tuple(self.items)


class Keys:
    """string keys of dict results -> numbers (disjoint from positional indices)"""

    def __init__(self):
        self.t = {}

    def __call__(self, k):
        if isinstance(k, int) and not isinstance(k, bool):
            return k
        if isinstance(k, list):
            k = tuple(k)  # a tuple key (a JSON list in the stored program): ONE key, not a path
        return self.t.setdefault(k, KEY_BASE + len(self.t))


STR_BASE = 7000
STRS = ["false", "0", "no", "off", " ", "False", "yes", ""]  # strings used as activation values: truthy unless empty


def str_const(v):
    """a Python str value is an opaque constant of the term domain with Python's truth value"""
    return Const(STR_BASE + (STRS.index(v) if v in STRS else len(STRS) + (sum(map(ord, v)) % 500)), bool(v))


def num_const(v):
    """a Python int / float is an opaque constant too; equal numbers of different types (1, 1.0, True) stay distinct"""
    return Const((8100 if isinstance(v, int) else 8200) + int(v) % 50, bool(v))


def enc(v, keys):
    """flat encoding identical to Terms.enc_term"""
    if isinstance(v, Rec):
        v = v.as_tuple()
    if v is None:
        return [0]
    if isinstance(v, str):
        return enc(str_const(v), keys)
    if isinstance(v, (int, float)) and not isinstance(v, bool):
        return enc(num_const(v), keys)
    if callable(v) and not isinstance(v, Term):
        return enc(Const(8300, True), keys)
    if isinstance(v, Const):
        return [1, v.c, 1 if v.truth else 0]
    if isinstance(v, App):
        out = [2, v.f, 1 if v.truth else 0, len(v.args)]
        for a in v.args:
            out += enc(a, keys)
        return out
    if isinstance(v, (tuple, list)):
        out = [3, len(v)]
        for a in v:
            out += enc(a, keys)
        return out
    if isinstance(v, dict):
        out = [5, len(v)]
        for k, a in v.items():
            out += [keys(k)] + enc(a, keys)
        return out
    if isinstance(v, bool):
        return [4, 1 if v else 0]
    raise TypeError("value outside the term domain: %r" % (v,))


def coq_term(v, keys):
    if isinstance(v, Rec):
        v = v.as_tuple()
    if v is None:
        return "TNone"
    if isinstance(v, str):
        return coq_term(str_const(v), keys)
    if isinstance(v, (int, float)) and not isinstance(v, bool):
        return coq_term(num_const(v), keys)
    if callable(v) and not isinstance(v, Term):
        return coq_term(Const(8300, True), keys)
    if isinstance(v, Const):
        return "(TConst %d %s)" % (v.c, "true" if v.truth else "false")
    if isinstance(v, App):
        return "(TApp %d %s [%s])" % (v.f, "true" if v.truth else "false", "; ".join(coq_term(a, keys) for a in v.args))
    if isinstance(v, (tuple, list)):
        return "(TTup [%s])" % "; ".join(coq_term(a, keys) for a in v)
    if isinstance(v, dict):
        return "(TDict [%s])" % "; ".join("(%d, %s)" % (keys(k), coq_term(a, keys)) for k, a in v.items())
    if isinstance(v, bool):
        return "(TBool %s)" % ("true" if v else "false")
    raise TypeError("value outside the term domain: %r" % (v,))


def shape(v):
    """container kinds (tuple vs list vs dict), which the flat encoding does not distinguish"""
    if isinstance(v, Rec):
        v = v.as_tuple()
    if isinstance(v, tuple):
        return ("tuple",) + tuple(shape(x) for x in v)
    if isinstance(v, list):
        return ("list",) + tuple(shape(x) for x in v)
    if isinstance(v, dict):
        return ("dict",) + tuple((k, shape(x)) for k, x in v.items())
    if isinstance(v, App):
        return ("app",) + tuple(shape(x) for x in v.args)
    return ("atom",)


def same(a, b):
    """structural equality without using == (which is a free constructor on terms)"""
    k = Keys()
    try:
        return enc(a, k) == enc(b, k) and shape(a) == shape(b)
    except TypeError:
        return False
