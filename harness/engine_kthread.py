"""engines for C16 (threads) and C17 (async flavour).

K-thread: real threads stepped by barriers through the actions of Threads.v — a build that pauses inside
its describing function, calls of a finished DAG and of a decorated function from other threads — compared
with the model run of the same interleaving; plus concurrent calls of one DAG with distinct arguments.
K-async: DAG vs AsyncDAG of the same describing function (value, executed nodes, setup results), gathered
concurrent awaits with distinct arguments, and event-loop liveness while async-thread nodes run."""
import asyncio
import collections
import hashlib
import json
import random
import threading
import time

from . import coqrun, kvalue, tz
from .engine_kvalue import outcome
from .terms import Const, Keys, enc, same
from .tz import Resource, tawazi
from tawazi.errors import TawaziUsageError  # noqa: E402


# ------------------------------------------------------------------------------ K-thread
def plain_xn(name, fid):
    def f(*a, **k):
        return ("ran", name) + tuple(a)
    f.__qualname__ = name
    f.__name__ = name
    return tawazi.xn(f)


def run_interleaving(case):
    """case: threads: {tid: [actions]}, sched: [tid...]; actions: ["begin"], ["desc", f], ["end"], ["call", f]
    f >= 100 denotes the finished DAG number f-100, f < 100 a decorated function.
    -> per thread list of observations mirroring Threads.obs"""
    funs = {}
    dags = {}

    def get_fun(f):
        if f not in funs:
            funs[f] = plain_xn("g%d" % f, f)
        return funs[f]

    def get_dag(f):
        if f not in dags:
            inner = plain_xn("h%d" % f, f)

            if f >= 102:
                # a shared DAG with a setup node; it is set up before it is shared between threads
                def ld():
                    return ("loaded", f)
                ld.__qualname__ = "l%d" % f
                ld.__name__ = "l%d" % f
                loader = tawazi.xn(ld, setup=True)

                def dd(x):
                    return inner(x, loader())
            else:
                def dd(x):
                    return inner(x)
            dd.__qualname__ = "fin%d" % f
            dd.__name__ = "fin%d" % f
            dags[f] = tawazi.dag(dd)
            if f >= 102:
                dags[f].setup()
        return dags[f]

    _ri = {}

    def refused_inner():
        if "d" not in _ri:
            fl = plain_xn("rf_flagged", 7)

            def rdesc(x):
                return fl(x, twz_active=x)
            rdesc.__qualname__ = "rf_inner"
            rdesc.__name__ = "rf_inner"
            _ri["d"] = tawazi.dag(rdesc)
        return _ri["d"]
    if case.get("refused_first"):
        refused_inner()
    # finished DAGs are built beforehand (sequentially)
    for acts in case["threads"].values():
        for a in acts:
            if a[0] in ("desc", "call") and a[1] >= 200:
                get_dag(a[1] - 100)
            elif a[0] in ("desc", "call") and a[1] >= 100:
                get_dag(a[1])
            elif a[0] in ("desc", "call"):
                get_fun(a[1])
    obs = {t: [] for t in case["threads"]}
    turn = {"i": 0}
    cond = threading.Condition()
    sched = list(case["sched"])
    errors = []

    def wait_turn(t):
        with cond:
            ok = cond.wait_for(lambda: turn["i"] >= len(sched) or sched[turn["i"]] == t, timeout=10)
            if not ok:
                raise TimeoutError("thread %s never got its turn" % t)

    def done_turn():
        with cond:
            turn["i"] += 1
            cond.notify_all()

    def do_call(t, f, describing):
        """one call of a decorated function / finished DAG; classify what happened"""
        try:
            if f >= 200:
                # f >= 200: RECONFIGURE the finished DAG number f-200 (an action of a thread that is not building: in the
                # model a plain call, observed as "executed")
                get_dag(f - 100).config_from_dict({"nodes": {"h%d" % (f - 100): {"priority": 3, "is_sequential": False}}})
                return ("executed", f)
            if f >= 100:
                r = get_dag(f)(5)
            else:
                r = get_fun(f)(5)
        except TawaziUsageError:
            return ("executed", f)  # refused as a call outside a DAG: the behaviour of a call outside any description
        except BaseException as e:  # noqa: BLE001
            return ("error", f, "%s: %s" % (type(e).__name__, str(e)[:80]))
        if type(r).__name__ == "UsageExecNode" or (isinstance(r, tuple) and r and type(r[0]).__name__ == "UsageExecNode"):
            return ("recorded", f)
        return ("executed", f)

    def thread_body(t, acts):
        try:
            i = 0
            while i < len(acts):
                a = acts[i]
                if a[0] == "begin":
                    # the describing function performs the actions up to the matching end, one per turn
                    j = i + 1
                    inner = []
                    while acts[j][0] != "end":
                        inner.append(acts[j])
                        j += 1

                    early = (case.get("early") or {}).get(str(t))

                    def make_describer(inner_acts):
                        def describer():
                            if early is not None:
                                wait_turn(t)  # the build was ATTEMPTED earlier (it blocked on the lock); ABegin happens now
                            done_turn()  # the ABegin action itself (lock acquired, we are inside)
                            if case.get("refused_first"):
                                # the describing function first tries a nested-DAG call that tawazi REFUSES (a flag on a nested
                                # DAG whose node carries a flag of its own: RuntimeError), catches the error and goes on: the
                                # refused call records nothing (not an action of the model)
                                try:
                                    refused_inner()(5, twz_active=True)
                                except RuntimeError:
                                    pass
                            for b in inner_acts:
                                wait_turn(t)
                                obs[t].append(do_call(t, b[1], True))
                                done_turn()
                            wait_turn(t)  # AEnd happens when the function returns
                            return None
                        return describer
                    describer = make_describer(inner)
                    describer.__qualname__ = "build_t%s_%d" % (t, i)
                    describer.__name__ = describer.__qualname__
                    if early is not None:
                        # attempt the build while another thread is still inside its describing function
                        with cond:
                            cond.wait_for(lambda: turn["i"] >= early, timeout=10)
                    else:
                        wait_turn(t)
                    d = tawazi.dag(describer)
                    ids = [k for k in d.exec_nodes.keys() if ">!>" not in k]
                    if case.get("refused_first"):
                        # (a refused nested call leaves its prefix behind for the rest of THIS description, alone or not)
                        ids = [k[len("rf_inner."):] if k.startswith("rf_inner.") else k for k in ids]
                    obs[t].append(("built", ids))
                    done_turn()
                    i = j + 1
                else:
                    wait_turn(t)
                    obs[t].append(do_call(t, a[1], False))
                    done_turn()
                    i += 1
        except BaseException as e:  # noqa: BLE001
            errors.append("%s: %s: %s" % (t, type(e).__name__, str(e)[:120]))
            with cond:
                turn["i"] = len(sched)
                cond.notify_all()

    # (all threads carry the same name: thread identity is not the name)
    ths = [threading.Thread(target=thread_body, args=(t, acts), daemon=True, name="worker") for t, acts in case["threads"].items()]
    for th in ths:
        th.start()
    for th in ths:
        th.join(15)
    hung = any(th.is_alive() for th in ths)
    return obs, errors, hung


def node_name_of(f):
    return ("fin%d.h%d" % (f, f)) if f >= 100 else ("g%d" % f)


def gen_thread_case(rng):
    nthreads = rng.randint(2, 3)
    threads = {}
    for t in range(1, nthreads + 1):
        acts = []
        for _ in range(rng.randint(1, 2)):
            if rng.random() < 0.55:
                acts.append(["begin"])
                for _ in range(rng.randint(1, 3)):
                    acts.append(["desc", rng.choice([1, 2, 3, 100, 101])])
                acts.append(["end"])
            else:
                acts.append(["call", rng.choice([1, 2, 100, 101, 102, 102, 200, 202])])
        threads[str(t)] = acts
    # a random schedule that respects the lock: simulate
    remaining = {t: list(a) for t, a in threads.items()}
    owner = None
    sched = []
    while any(remaining.values()):
        enabled = [t for t, a in remaining.items() if a and not (a[0][0] == "begin" and owner is not None)]
        if not enabled:
            break
        t = rng.choice(enabled)
        a = remaining[t].pop(0)
        if a[0] == "begin":
            owner = t
        elif a[0] == "end":
            owner = None
        sched.append(t)
    # a DAG may not call the same finished DAG twice (known refusal F12) nor is an empty description interesting
    for t, acts in threads.items():
        seen = set()
        for a in acts:
            if a[0] == "begin":
                seen = set()
            if a[0] == "desc" and a[1] >= 100:
                if a[1] in seen:
                    a[1] = 1
                seen.add(a[1])
    # early build attempts: a thread calls dag(...) while another thread holds the build lock; it blocks until
    # that build ends.  Only when the next ABegin of the schedule after the attempt is this thread's own.
    early = {}
    owner = None
    owners = []
    rem2 = {t: list(a) for t, a in threads.items()}
    for t in sched:
        a = rem2[t].pop(0)
        owners.append((t, a[0], owner))
        if a[0] == "begin":
            owner = t
        elif a[0] == "end":
            owner = None
    for idx, (t, kind, _) in enumerate(owners):
        if kind != "begin" or t in early or sum(1 for a in threads[t] if a[0] == "begin") != 1 or threads[t][0][0] != "begin":
            continue
        cands = [e for e in range(1, idx) if owners[e][2] is not None and owners[e][2] != t
                 and not any(owners[j][1] == "begin" for j in range(e, idx))]
        if cands and rng.random() < 0.6:
            early[t] = rng.choice(cands)
    return dict(threads=threads, sched=sched, early=early)


def model_term(case, t):
    def act(a):
        return {"begin": "ABegin", "end": "AEnd"}.get(a[0]) or ("ADescribe %d" % a[1] if a[0] == "desc" else "ACall %d" % a[1])
    ps = "[" + "; ".join("(%s, [%s])" % (tt, "; ".join(act(a) for a in acts)) for tt, acts in case["threads"].items()) + "]"
    return "kthread %s %s %s" % (ps, coqrun.nat_list([int(x) for x in case["sched"]]), t)


def decode_obs(v):
    if not v or v[0] == 0:
        return None
    out = []
    i = 1
    while i < len(v):
        if v[i] == 1:
            out.append(("recorded", v[i + 1]))
            i += 2
        elif v[i] == 3:
            out.append(("executed", v[i + 1]))
            i += 2
        else:
            n = v[i + 1]
            out.append(("built", v[i + 2:i + 2 + n]))
            i += 2 + n
    return out


def concurrent_calls(rng, res, base):
    """several threads call one DAG (setup done) with different arguments at the same time"""
    prog = kvalue.gen_prog(rng, max_stmts=6, p_sub=0.0, p_flag=0.2)
    prog["params"] = [dict(name="a0", default=None)] + [p for p in prog["params"] if p["default"] is not None][:1]
    # make sure the parameter is used: prepend a statement consuming it
    prog["stmts"].insert(0, dict(op="call", f=0, args=[["param", 0]], kwargs={}, active=None))
    for st in prog["stmts"][1:]:
        for key in ("args",):
            st[key] = [shift(e) for e in st.get(key, [])]
        if st.get("kwargs"):
            st["kwargs"] = {k: shift(e) for k, e in st["kwargs"].items()}
        if st.get("active"):
            st["active"] = shift(st["active"])
    prog["ret"]["items"] = [shift(e) for e in prog["ret"]["items"]] + [["var", 0, [] if prog["funs"][0]["kind"] in ("plain",) else ([0] if prog["funs"][0]["kind"] != "dict" else [prog["funs"][0]["keys"][0][0]])]]
    if prog["ret"]["shape"] in ("none", "single", "dict"):
        prog["ret"]["shape"] = "tuple"
    keys = Keys()
    kvalue._K.cur = keys
    try:
        d = kvalue.build_tawazi(prog, {})
        d_serial = kvalue.build_tawazi(prog, {})
    except BaseException:  # noqa: BLE001
        return
    nthr = 4
    results = {}

    def worker(i):
        outs = []
        for j in range(3):
            a = Const(200 + 10 * i + j, (i + j) % 2 == 0)
            outs.append((a, outcome(lambda: d(a))))
        results[i] = outs
    ths = [threading.Thread(target=worker, args=(i,), daemon=True) for i in range(nthr)]
    for th in ths:
        th.start()
    for th in ths:
        th.join(20)
    res.evaluations += 1
    for i, outs in results.items():
        for a, got in outs:
            # reference: a DAG of the same function called by one thread only (whether that equals the
            # plain function is C01/C10/C20's question, decided by K-value)
            exp = outcome(lambda: d_serial(a))
            okv = (got[0] == exp[0]) and ((got[0] == "raise" and type(got[1]) is type(exp[1])) or (got[0] != "raise" and same(got[1], exp[1])))
            if not okv:
                res.hit("C16", "monitor", "thread %d called the shared DAG with %r and got %r; the result for its own argument is %r" % (i, a, got[1], exp[1]), dict(base, kind="monitor", prog=prog))
    if any(th.is_alive() for th in ths):
        res.hit("C16", "monitor", "concurrent calls of one DAG did not return", dict(base, kind="monitor", prog=prog))


def shift(e):
    if e[0] == "var":
        return ["var", e[1] + 1, e[2]]
    return e


def run_threads(pid, tier, seed, res, only=None):
    rng = random.Random(seed * 86028121 + 17)
    n = 60 if tier == "quick" else 600
    cases = [dict(threads={"1": [["begin"], ["desc", 1], ["desc", 2], ["end"]], "2": [["call", 100]]}, sched=["1", "1", "2", "1", "1"]),
             # the describing function of thread 1 first attempts a refused nested call (and catches the error); thread 2 calls
             # shared DAGs while that build is still going on
             dict(threads={"1": [["begin"], ["desc", 1], ["desc", 2], ["end"]], "2": [["call", 100], ["call", 102]]}, sched=["1", "1", "2", "1", "2", "1"], refused_first=True),
             dict(threads={"1": [["begin"], ["desc", 100], ["end"]], "2": [["call", 101]], "3": [["call", 2]]}, sched=["1", "2", "1", "3", "1"], refused_first=True),
             # a finished DAG is reconfigured by one thread while another thread is in the middle of a build
             dict(threads={"1": [["begin"], ["desc", 1], ["desc", 2], ["end"]], "2": [["call", 200], ["call", 100]]}, sched=["1", "1", "2", "1", "2", "1"]),
             dict(threads={"1": [["begin"], ["desc", 100], ["desc", 2], ["end"]], "2": [["call", 202]], "3": [["call", 200]]}, sched=["1", "2", "1", "3", "1", "1"]),
             dict(threads={"1": [["begin"], ["desc", 1], ["desc", 2], ["end"]], "2": [["call", 102]]}, sched=["1", "1", "2", "1", "1"]),
             dict(threads={"1": [["begin"], ["desc", 1], ["end"]], "2": [["call", 102], ["call", 1]], "3": [["call", 102]]}, sched=["1", "2", "3", "1", "2", "1"]),
             dict(threads={"1": [["begin"], ["desc", 1], ["desc", 2], ["end"]], "2": [["begin"], ["desc", 3], ["desc", 100], ["end"]]}, sched=["1", "1", "1", "1", "2", "2", "2", "2"], early={"2": 2}),
             dict(threads={"1": [["begin"], ["desc", 1], ["desc", 100], ["end"]], "2": [["call", 2]], "3": [["call", 101]]}, sched=["1", "1", "2", "3", "1", "1"])]
    for _ in range(n):
        cases.append(gen_thread_case(rng))
    if only is not None:
        cases = list(only)
    prev = tawazi.cfg.TAWAZI_EXECNODE_OUTSIDE_DAG_BEHAVIOR
    items, where = [], []
    dist = collections.Counter()
    for case in cases:
        base = dict(engine="kthread", case=case)
        obs, errors, hung = run_interleaving(case)
        res.evaluations += 1
        dist["threads=%d" % len(case["threads"])] += 1
        if len(case["sched"]) >= 4:
            res.distinct.add(hashlib.sha1(json.dumps(case, sort_keys=True).encode()).hexdigest()[:12])
        if hung or errors:
            res.hit("C16", "monitor", "interleaving did not complete: %s" % (errors or "threads hung"), dict(base, kind="monitor"))
            continue
        for t in case["threads"]:
            where.append((case, t, obs[t], base))
            items.append(model_term(case, t))
    if only is None:
        for _ in range(6 if tier == "quick" else 60):
            concurrent_calls(rng, res, dict(engine="kthread-calls"))
    prefix = "kthread_%s" % pid
    coqrun.clean_build(prefix)
    paths = coqrun.write_shards(prefix, "Threads", items, per_file=200)
    results, errors = coqrun.run_shards(paths)
    coqrun.clean_build(prefix)
    if errors:
        res.hit(pid, "divergence", "coqc failed on K-thread case files: " + errors[0][2][-300:], dict(kind="coqc-error"))
    for k, (case, t, ob, base) in enumerate(where):
        m = decode_obs(results.get(k))
        if m is None:
            res.hit("C16", "divergence", "the model rejects the schedule of a thread case (harness scheduling bug?)", dict(base, kind="divergence"))
            continue
        # compare: classify implementation observations into the model's alphabet
        got = []
        for o in ob:
            if o[0] == "built":
                got.append(("built", sorted(o[1])))
            else:
                got.append((o[0], o[1]))
        exp = []
        for o in m:
            if o[0] == "built":
                names_, cnt_ = [], collections.Counter()
                for f in o[1]:
                    nm = node_name_of(f)
                    names_.append(nm if cnt_[nm] == 0 else "%s<<%d>>" % (nm, cnt_[nm]))
                    cnt_[nm] += 1
                exp.append(("built", sorted(names_)))
            else:
                exp.append(o)
        res.traces_validated += 1
        if got != exp:
            res.hit("C16", "monitor", "thread %s observed %s; running alone (and in the model of this interleaving) it observes %s — schedule %s" % (t, got, exp, case["sched"]), dict(base, kind="monitor", thread=t))
    res.distribution["kthread"] = dict(dist)
    res.engine_info["kthread"] = dict(cases=len(cases), model_evaluations=len(items))
    res.samples.append(dict(engine="kthread", case=cases[0]))


# ------------------------------------------------------------------------------ K-async
def run_async(pid, tier, seed, res, only=None):
    rng = random.Random(seed * 67867967 + 23)
    n = 60 if tier == "quick" else 800
    dist = collections.Counter()
    fixed = None
    if only is not None:
        # replay of one generated program
        fixed = [(o["prog"], [None if a == [0] else Const(a[1], bool(a[2])) for a in o["args"]]) for o in only if "prog" in o]
        n = len(fixed)
    for pi in range(n):
        if fixed is not None:
            prog, args = fixed[pi]
        else:
            prog = kvalue.gen_prog(rng, max_stmts=7, p_sub=0.15, p_flag=0.2)
            args = kvalue.gen_args(rng, prog)
        base = dict(engine="kasync", prog=prog, args=[enc(a, Keys()) for a in args])
        keys = Keys()
        kvalue._K.cur = keys
        try:
            ds = kvalue.build_tawazi(prog, {}, is_async=False)
            da = kvalue.build_tawazi(prog, {}, is_async=True)
        except BaseException:  # noqa: BLE001
            dist["build_error"] += 1
            continue
        res.evaluations += 1
        cs = tz.Ctl(free_run=True)
        rs = tz.run_controlled(lambda: ds(*args), cs)
        ca = tz.Ctl(free_run=True)
        ra = tz.run_controlled(lambda: da(*args), ca, is_async=True)
        xs = sorted(e[1] for e in cs.trace if e[0] == "XENTER")
        xa = sorted(e[1] for e in ca.trace if e[0] == "XENTER")
        if len(prog["stmts"]) >= 2:
            res.distinct.add(hashlib.sha1(json.dumps([prog, base["args"]], sort_keys=True).encode()).hexdigest()[:12])
        if rs[0] != ra[0] or (rs[0] == "ok" and not same(rs[1], ra[1])):
            res.hit("C17", "monitor", "DAG returned %r, AsyncDAG of the same function returned %r" % (rs[1], ra[1]), dict(base, kind="monitor"))
        elif rs[0] == "ok" and xs != xa:
            res.hit("C17", "monitor", "DAG executed %s, AsyncDAG executed %s" % (xs, xa), dict(base, kind="monitor"))
        # concurrent awaits with distinct arguments in one loop
        if (fixed is not None or rng.random() < 0.5) and prog["params"] and prog["params"][0]["default"] is None:
            argsets = [[Const(300 + 7 * k + j, (k + j) % 2 == 0) for j in range(len(args))] for k in range(3)]

            async def many():
                return await asyncio.gather(*[da(*a) for a in argsets], return_exceptions=True)
            try:
                got = asyncio.run(many())
            except BaseException as e_:  # noqa: BLE001
                res.hit("C17", "monitor", "gathered concurrent awaits with arguments %r: the gathering coroutine itself was cancelled / failed with %s: %s" % (argsets, type(e_).__name__, e_), dict(base, kind="monitor", variant="gather"))
                got = []
            for a, g in zip(argsets, got):
                # C17 compares the concurrent await with what the same function gives on its own as a
                # (synchronous) DAG; whether that equals the plain function is C01/C10/C20's question (K-value),
                # e.g. finding F13 raises in both flavours
                exp = outcome(lambda: ds(*a))
                if exp[0] == "raise":
                    if not isinstance(g, BaseException) or type(g) is not type(exp[1]):
                        res.hit("C17", "monitor", "a concurrent await with arguments %r gave %r; the DAG of the same function raises %r" % (a, g, exp[1]), dict(base, kind="monitor", variant="gather"))
                    continue
                if isinstance(g, BaseException) or not same(g, exp[1]):
                    res.hit("C17", "monitor", "a concurrent await with arguments %r returned %r; the DAG of the same function returns %r" % (a, g, exp[1]), dict(base, kind="monitor", variant="gather"))
            dist["gathered"] += 1
    if fixed:
        return
    # the event loop keeps serving other coroutines while async-thread nodes run
    for k in range(4 if tier == "quick" else 20):
        res.evaluations += 1
        release = threading.Event()
        ticks = {"n": 0}

        def slow(x):
            # completes only once a sibling coroutine of the same loop has run
            ok = release.wait(3.0)
            return ("slow", x, ok)
        slow.__qualname__ = "slow%d" % k
        slow.__name__ = slow.__qualname__
        sx = tawazi.xn(slow, resource=Resource.async_thread, is_sequential=(k % 4 >= 2))

        def tail(x):
            return ("tail", x)
        tail.__qualname__ = "tail%d" % k
        tail.__name__ = tail.__qualname__
        tx = tawazi.xn(tail, resource=Resource.async_thread, is_sequential=(k % 2 == 1))

        def desc(a):
            return tx(sx(a))
        desc.__qualname__ = "live%d" % k
        desc.__name__ = desc.__qualname__
        d = tawazi.dag(desc, max_concurrency=2, is_async=True)

        async def main():
            async def ticker():
                while not release.is_set():
                    ticks["n"] += 1
                    if ticks["n"] >= 5:
                        release.set()
                    await asyncio.sleep(0.002)
            t = asyncio.ensure_future(ticker())
            r = await d(1)
            await t
            return r
        t0 = time.time()
        try:
            r = asyncio.run(asyncio.wait_for(main(), 10))
        except BaseException as e:  # noqa: BLE001
            r = e
        if not (isinstance(r, tuple) and r[0] == "tail" and r[1][2] is True and time.time() - t0 < 2.5):
            res.hit("C17", "monitor", "while an async-thread node was running the event loop did not serve a sibling coroutine (result %r, ticks %d, %.1fs)" % (r, ticks["n"], time.time() - t0), dict(engine="kasync", kind="monitor", variant=k))
        dist["liveness"] += 1
    # concurrent awaits of an AsyncDAG whose setup node has not run yet: each gets its own result
    for k in range(3 if tier == "quick" else 15):
        res.evaluations += 1

        def load():
            time.sleep(0.005)
            return 10
        load.__qualname__ = "load%d" % k
        load.__name__ = load.__qualname__
        lx = tawazi.xn(load, setup=True)

        def addv(x, t):
            return x + t
        addv.__qualname__ = "addv%d" % k
        addv.__name__ = addv.__qualname__
        ax = tawazi.xn(addv, resource=Resource.async_thread if k % 2 else Resource.thread)

        def sdesc(x):
            return ax(x, lx())
        sdesc.__qualname__ = "sgather%d" % k
        sdesc.__name__ = sdesc.__qualname__
        d = tawazi.dag(sdesc, max_concurrency=2, is_async=True)

        async def many():
            return await asyncio.gather(*[d(v) for v in (1, 11, 21)], return_exceptions=True)
        got = asyncio.run(many())
        if got != [11, 21, 31]:
            res.hit("C17", "monitor", "three concurrent awaits of one AsyncDAG (setup node not run yet) with arguments 1, 11, 21 returned %r; their own results are [11, 21, 31]" % (got,), dict(engine="kasync", kind="monitor", variant="setup-gather-%d" % k))
        dist["setup_gather"] += 1
    # concurrent awaits that progress at different speeds through a chain of async-thread nodes: each await has
    # its own workers; one finishing must not take anything away from the others; awaits whose nodes wait for
    # each other (event-driven) all complete
    for k in range(3 if tier == "quick" else 12):
        res.evaluations += 1

        def stage(x, j=0):
            time.sleep(0.002 * (x[0] % 7))
            return (x[0], x[1] + 1)
        xs = []
        for j in range(3):
            def st_(x):
                return stage(x)
            st_.__qualname__ = "stage%d_%d" % (k, j)
            st_.__name__ = st_.__qualname__
            xs.append(tawazi.xn(st_, resource=Resource.async_thread if (j + k) % 3 else Resource.thread))

        def mk_cdesc(fs_):
            def cdesc(x):
                for f_ in fs_:
                    x = f_(x)
                return x
            return cdesc
        cdesc = mk_cdesc(list(xs))
        cdesc.__qualname__ = "stagger%d" % k
        cdesc.__name__ = cdesc.__qualname__
        d = tawazi.dag(cdesc, max_concurrency=1 + k % 2, is_async=True)
        inputs = [(1, 0), (6, 0), (3, 0), (0, 0)]

        async def many2():
            return await asyncio.wait_for(asyncio.gather(*[d(v) for v in inputs], return_exceptions=True), 15)
        try:
            got = asyncio.run(many2())
        except BaseException as e:  # noqa: BLE001
            got = e
        exp = [(v[0], 3) for v in inputs]
        if got != exp:
            res.hit("C17", "monitor", "four concurrent awaits of one AsyncDAG progressing at different speeds returned %r; their own results are %r" % (got, exp), dict(engine="kasync", kind="monitor", variant="stagger-%d" % k))
        # event-driven: await i's node completes only after await i+1's node has STARTED (the last one freely)
        evs = [threading.Event() for _ in range(3)]

        def gate(i):
            evs[i].set()
            if i + 1 < len(evs):
                if not evs[i + 1].wait(5):
                    return ("stuck", i)
            return ("ok", i)
        gate.__qualname__ = "gate%d" % k
        gate.__name__ = gate.__qualname__
        gx = tawazi.xn(gate, resource=Resource.async_thread)

        def gdesc(i):
            return gx(i)
        gdesc.__qualname__ = "gated%d" % k
        gdesc.__name__ = gdesc.__qualname__
        dg = tawazi.dag(gdesc, max_concurrency=1, is_async=True)

        async def many3():
            return await asyncio.wait_for(asyncio.gather(*[dg(i) for i in range(3)], return_exceptions=True), 20)
        try:
            got = asyncio.run(many3())
        except BaseException as e:  # noqa: BLE001
            got = e
        if got != [("ok", 0), ("ok", 1), ("ok", 2)]:
            res.hit("C17", "monitor", "three concurrent awaits whose async-thread nodes wait for each other to start (each await has its own worker) returned %r" % (got,), dict(engine="kasync", kind="monitor", variant="gated-%d" % k))
        dist["stagger_gather"] += 1
    res.distribution["kasync"] = dict(dist)
    res.engine_info["kasync"] = dict(programs=n)
    res.samples.append(dict(engine="kasync", note="liveness: node waits on a threading.Event set by a ticker coroutine of the same loop"))
