"""Emit cases as Coq files, evaluate the model on them with vm_compute inside coqc, parse the results."""
import os
import re
import shutil
import subprocess
import time
from concurrent.futures import ThreadPoolExecutor

VERIF = os.path.dirname(os.path.dirname(os.path.abspath(__file__)))
COQDIR = os.path.join(VERIF, "coq")
BUILD = os.environ.get("VERIF_BUILD_DIR") or os.path.join(VERIF, "build")  # scratch (case files); per-process override for parallel tooling


def nat_list(l):
    return "[" + "; ".join(str(x) for x in l) + "]"


def z(x):
    return "(%d)%%Z" % x


def fun_table(table, default, render):
    """fun n => match n with | k => v ... | _ => default end"""
    if not table:
        return "(fun _ : nat => %s)" % default
    arms = " ".join("| %d => %s" % (k, render(v)) for k, v in sorted(table.items()))
    return "(fun n : nat => match n with %s | _ => %s end)" % (arms, default)


class Ids:
    """name <-> nat table of one case"""

    def __init__(self, names):
        self.names = sorted(set(names))
        self.idx = {n: i for i, n in enumerate(self.names)}

    def __call__(self, name):
        return self.idx[name]

    def l(self, names):
        return [self.idx[n] for n in names]


RESC = {"thread": "RThread", "async-thread": "RAsync", "main-thread": "RMain"}


def sched_cfg_coq(cfg, ids):
    deps = {ids(n): ids.l(cfg["deps"].get(n, [])) for n in cfg["nodes"]}
    return ("{| c_nodes := %s; c_pre := %s; c_preds := %s; c_seq := %s; c_res := %s; c_prio := %s; c_maxc := %d |}" % (
        nat_list(ids.l(cfg["nodes"])), nat_list(ids.l(cfg["pre"])),
        fun_table(deps, "[]", nat_list),
        fun_table({ids(n): v for n, v in cfg["seq"].items()}, "false", lambda b: "true" if b else "false"),
        fun_table({ids(n): v for n, v in cfg["res"].items()}, "RThread", lambda r: RESC[r]),
        fun_table({ids(n): v for n, v in cfg["cp"].items()}, "0%Z", z),
        cfg["maxc"]))


def label_pair(lab, obs, ids):
    t = lab[0]
    if t == "W":
        dones = "[" + "; ".join("(%d, %s)" % (ids(n), "true" if ok else "false") for n, ok in lab[3]) + "]"
        l = "LWait %s %s %s" % ("KA" if lab[1] == "A" else "KC", "MFirst" if lab[2] == "F" else "MAll", dones)
        o = "OWait %s %s %s" % (nat_list(ids.l(obs[1])), nat_list(ids.l(obs[2])), nat_list(ids.l(obs[3])))
    elif t == "P":
        l = "LPick %d" % ids(lab[1])
        o = "OPick %s" % nat_list(ids.l(obs[1]))
    elif t == "A":
        l = "LActive %d %s" % (ids(lab[1]), "true" if lab[2] else "false")
        o = "ONone"
    elif t == "S":
        l = "LSubmit %s %d" % ("KA" if lab[1] == "A" else "KC", ids(lab[2]))
        o = "ONone"
    elif t == "I":
        l = "LInline %d %s" % (ids(lab[1]), "true" if lab[2] else "false")
        o = "ONone"
    elif t == "E":
        l = "LEnd"
        o = "ONone"
    else:
        raise ValueError(lab)
    return l, o


def label_coq(lab, obs, ids):
    return "(%s, %s)" % label_pair(lab, obs, ids)


HEADER = """From Coq Require Import List ZArith Bool.
From Tawazi Require Import %s.
Import ListNotations.
Local Open Scope nat_scope.
"""


def write_shards(prefix, imports, items, per_file=200, ty="list nat"):
    """items: list of Coq terms (strings) of type `ty` (list nat / list Z); writes shard files evaluating (i, term)."""
    os.makedirs(BUILD, exist_ok=True)
    paths = []
    for k in range(0, len(items), per_file):
        p = os.path.join(BUILD, "%s_%d.v" % (prefix, k // per_file))
        with open(p, "w") as f:
            f.write(HEADER % imports)
            for i, term in enumerate(items[k:k + per_file]):
                f.write("Definition r%d : %s := %s.\n" % (k + i, ty, term))
                f.write("Eval vm_compute in (%d, r%d).\n" % (k + i, k + i))
        paths.append(p)
    return paths


RES_RE = re.compile(r"=\s*\(\s*(\d+)\s*,\s*\[([^\]]*)\]\s*\)", re.S)


def coqc_file(path, timeout=600):
    t0 = time.time()
    try:
        p = subprocess.run(["coqc", "-Q", COQDIR, "Tawazi", path], capture_output=True, text=True, timeout=timeout, cwd=BUILD)
        return path, p.returncode, p.stdout, p.stderr, time.time() - t0
    except subprocess.TimeoutExpired:
        return path, 124, "", "timeout", time.time() - t0


def run_shards(paths, jobs=16):
    """-> (results: dict index -> list of int, errors: list of (path, rc, stderr))"""
    results = {}
    errors = []
    with ThreadPoolExecutor(max_workers=jobs) as ex:
        for path, rc, out, err, _dt in ex.map(coqc_file, paths):
            if rc != 0:
                errors.append((path, rc, err[-2000:]))
            for m in RES_RE.finditer(out):
                body = m.group(2).replace("%Z", "").replace("(", "").replace(")", "").strip()
                results[int(m.group(1))] = [int(x) for x in body.split(";")] if body else []
    return results, errors


def clean_build(prefix=None):
    if not os.path.isdir(BUILD):
        return
    for f in os.listdir(BUILD):
        if prefix is None or f.startswith(prefix):
            try:
                os.remove(os.path.join(BUILD, f))
            except OSError:
                pass


def ensure_built(timeout=1800):
    """full .vo build of the development (no-op when up to date). -> (ok, log)"""
    mk = os.path.join(COQDIR, "Makefile")
    if not os.path.exists(mk) or os.path.getmtime(mk) < os.path.getmtime(os.path.join(COQDIR, "_CoqProject")):
        p = subprocess.run(["coq_makefile", "-f", "_CoqProject", "-o", "Makefile"], cwd=COQDIR, capture_output=True, text=True)
        if p.returncode != 0:
            return False, p.stdout + p.stderr
    p = subprocess.run(["make", "-j16"], cwd=COQDIR, capture_output=True, text=True, timeout=timeout)
    return p.returncode == 0, (p.stdout + p.stderr)[-4000:]


FORBIDDEN = re.compile(r"\b(Admitted|admit|Axiom|Parameter|Conjecture|Admit Obligations|Unset Guard Checking|bypass_check|Unset Positivity Checking|Unset Universe Checking)\b")


def grep_forbidden():
    """no axioms / admits / disabled checks anywhere in the development. -> list of (file, line, text)"""
    hits = []
    for root, _d, files in os.walk(COQDIR):
        for fn in files:
            if not fn.endswith(".v"):
                continue
            p = os.path.join(root, fn)
            incomment = 0
            for ln, line in enumerate(open(p), 1):
                # crude comment stripping (nesting by count)
                txt = ""
                i = 0
                while i < len(line):
                    if line.startswith("(*", i):
                        incomment += 1
                        i += 2
                    elif line.startswith("*)", i) and incomment:
                        incomment -= 1
                        i += 2
                    else:
                        if not incomment:
                            txt += line[i]
                        i += 1
                if FORBIDDEN.search(txt):
                    hits.append((os.path.relpath(p, COQDIR), ln, line.strip()))
    return hits


def property_assumptions(pid, timeout=900):
    """compile Properties/<pid>.v afresh and return (ok, theorems: list of (name, assumptions text), log)."""
    src = os.path.join(COQDIR, "Properties", pid + ".v")
    if not os.path.exists(src):
        return False, [], "no property file " + src
    os.makedirs(BUILD, exist_ok=True)
    tmp = os.path.join(BUILD, "prop_%s" % pid)
    os.makedirs(tmp, exist_ok=True)
    dst = os.path.join(tmp, pid + ".v")
    shutil.copy(src, dst)
    try:
        p = subprocess.run(["coqc", "-Q", COQDIR, "Tawazi", dst], capture_output=True, text=True, timeout=timeout, cwd=tmp)
    except subprocess.TimeoutExpired:
        return False, [], "timeout compiling " + src
    finally:
        pass
    out = p.stdout
    shutil.rmtree(tmp, ignore_errors=True)
    if p.returncode != 0:
        return False, [], (p.stdout + p.stderr)[-3000:]
    thms = re.findall(r"^\s*(?:Theorem|Lemma|Corollary)\s+([A-Za-z0-9_']+)", open(src).read(), re.M)
    # Print Assumptions outputs, in order
    blocks = re.split(r"(?m)^(?=Closed under the global context|Axioms:)", out)
    assum = [b.strip() for b in blocks if b.startswith("Closed under") or b.startswith("Axioms:")]
    return True, list(zip(thms, assum + ["<no Print Assumptions output>"] * (len(thms) - len(assum)))), out[-2000:]
