"""Registry of properties -> engines, attribution of divergences, replay."""
import collections
import glob
import json
import os
import random

from . import coqrun, ksched, sched_cases
from .main import SCHED_PROPS, VERIF


# ------------------------------------------------------------------------------ C08 monitor on labels
def c08_blocks(cfg, labels):
    """unjustified blocking waits, each with the F9 signature flag."""
    out = []
    conc, asyn = set(), set()
    prev = None
    for lab, obs in labels:
        if lab[0] == "S":
            (asyn if lab[1] == "A" else conc).add(lab[2])
        elif lab[0] == "W":
            infl = set(obs[1])
            runn = list(obs[2])
            if infl:
                running = len(conc) + len(asyn)
                seq_run = any(cfg["seq"].get(x) for x in conc | asyn)
                best_seq = False
                if runn:
                    mx = max(cfg["cp"][m] for m in runn)
                    best_seq = any(cfg["seq"].get(m) for m in runn if cfg["cp"][m] == mx)
                if not (running == cfg["maxc"] or not runn or seq_run or best_seq):
                    f9 = lab[1] == "C" and prev is not None and prev[0] == "W" and prev[1] == "A" and len(prev[3]) > 0
                    out.append(dict(kind=lab[1], mode=lab[2], running=running, maxc=cfg["maxc"], runnable=runn,
                                    conc=sorted(conc), asyn=sorted(asyn), f9=f9))
            for n, ok in lab[3]:
                if ok:
                    conc.discard(n)
                    asyn.discard(n)
        prev = lab
    return out


# ------------------------------------------------------------------------------ attribution of a model rejection
def attribute(seg):
    """which properties are no longer shown to hold when the model rejects this execution"""
    v = seg.get("verdict") or {}
    if seg.get("unparsable"):
        return list(SCHED_PROPS), "unparsable"
    if v.get("accepted"):
        # accepted but outcome differs
        end = seg["end"]
        if end is None:
            return list(SCHED_PROPS), "no-end"
        if end[0] == "ok":
            return ["C09", "C03"], "returned-normally-early"
        if end[1] is None:
            return ["C14", "C09"], "non-node-exception"
        return ["C14"], "wrong-failure-outcome"
    idx = v.get("index")
    why = v.get("why")
    pc = v.get("pc")
    labels = seg["labels"]
    lab = labels[idx][0] if idx is not None and idx < len(labels) else None
    cfg = seg["cfg"]
    if why in ("inflight-set-differs", "runnable-set-differs", "remaining-set-differs", "candidates-differ"):
        return list(SCHED_PROPS), why
    if lab is None:
        return list(SCHED_PROPS), "no-label"
    t = lab[0]
    if t == "P":
        if pc in ("PTop", "PPick"):
            cands = labels[idx][1][1]
            if cands and any(cfg["cp"][m] > cfg["cp"][lab[1]] for m in cands):
                return ["C06"], "pick-not-max"
            if pc == "PTop":
                return ["C04", "C08", "C09"], "pick-while-gate-closed"
        if str(pc).startswith("PGate"):
            # the choice was made half-way through the gate: completions the second wait would have retired are not in
            # the ready set the choice was made from (C06: "no other node that is ready at that moment")
            return ["C04", "C05", "C06", "C08", "C09"], "pick-at-" + str(pc)
        return ["C04", "C05", "C08", "C09"], "pick-at-" + str(pc)
    if t == "W":
        if pc in ("PTop", "PPick"):
            return ["C08", "C09"], "wait-while-gate-open"
        if pc in ("PActive", "PDisp"):
            return ["C05", "C08", "C09"], "wait-before-dispatch"
        return ["C02", "C03", "C05", "C08", "C09", "C14"], "wait-mismatch-at-" + str(pc)
    if t in ("S", "I"):
        if pc in ("PDeferA", "PDeferC", "PDrainA", "PDrainC"):
            return ["C05"], "dispatch-during-sequential-window"
        if pc == "PDisp":
            return ["C04"], "dispatch-kind-mismatch"
        if pc == "PActive":
            return ["C10"], "dispatch-without-flag-test"
        return ["C02", "C03", "C04", "C05", "C06"], "dispatch-at-" + str(pc)
    if t == "A":
        return ["C10", "C03"], "flag-test-at-" + str(pc)
    if t == "E":
        return ["C09", "C03"], "exit-at-" + str(pc)
    return list(SCHED_PROPS), "other"


FOCUS = {
    "C05": dict(pseq=0.4),
    "C14": dict(p_fail=0.25),
    "C09": dict(p_fail=0.12),
    "C10": dict(p_flag=0.5),
}


def engine_ksched(pid, tier, seed, res, max_n=None):
    rng = random.Random(seed * 7919 + 13)
    n_random = 400 if tier == "quick" else 6000
    cases = [dict(c) for c in sched_cases.CORPUS]
    for f in sorted(glob.glob(os.path.join(VERIF, "corpus", "sched", "*.json"))):
        cases.append(json.load(open(f))["case"])
    corpus_n = len(cases)
    focus = FOCUS.get(pid, {})
    for _ in range(n_random):
        cases.append(sched_cases.gen_case(rng, max_n=max_n or (8 if tier == "quick" else 11), **{k: v for k, v in focus.items() if k in ("p_fail", "p_flag")}))
    exhaustive = 0
    if tier == "thorough":
        for n, edges in sched_cases.all_small_shapes(4):
            for rep in range(3):
                c = sched_cases.gen_case(rng, max_n=n)
                c["n"] = n
                c["edges"] = edges
                c["attrs"] = (c["attrs"] + [dict(priority=rng.randint(-2, 2), is_sequential=rng.random() < 0.3, resource=rng.choice(["thread", "async-thread", "main-thread"])) for _ in range(n)])[:n]
                c["rets"] = (c["rets"] + [1] * n)[:n]
                c["flags"] = {k: v for k, v in c["flags"].items() if int(k) < n and (v[0] == "const" or v[1] < int(k))}
                c["fails"] = [i for i in c["fails"] if i < n]
                c["mode"] = "call"
                c.pop("setup", None)
                c.pop("target", None)
                sched_cases.refresh_derived(c, rng)
                cases.append(c)
                exhaustive += 1
    records = []
    reps = 1 if tier == "quick" else 2
    n_bad = 0
    for ci, c in enumerate(cases):
        for _ in range(reps if ci >= corpus_n else 2):
            rec = ksched.run_case_checked(c, sched_seed=rng.random())
            records.append(rec)
            n_bad += sum(1 for run in rec["runs"] if run["broken"] or run["status"] == "hang")
        if n_bad >= 4:
            res.notes.append("stopped after %d cases: %d runs could not be driven / hung" % (ci + 1, n_bad))
            break
    # exhaustive exploration of the controller's choices (every completion order, every set of simultaneous
    # completions) for small cases: the corpus in the quick tier, all small shapes in the thorough tier
    n_complete = 0
    dfs_cases = [c for c in cases[:corpus_n] if c.get("mode", "call") == "call" and (tier != "quick" or c["n"] <= 4)]
    # (setup(...) followed by a call: every completion order of the setup run, the call after it in the default order)
    dfs_cases += [c for c in cases[:corpus_n] if c.get("mode") in ("setup_root_then_call", "setup_then_call") and c["n"] <= 5]
    if tier == "thorough":
        for n_, edges_ in sched_cases.all_small_shapes(3):
            for _ in range(2):
                c = sched_cases.gen_case(rng, max_n=n_, mode_mix=False)
                c["n"], c["edges"] = n_, edges_
                c["attrs"] = (c["attrs"] + [dict(priority=rng.randint(-1, 1), is_sequential=rng.random() < 0.3, resource=rng.choice(["thread", "async-thread", "main-thread"])) for _ in range(n_)])[:n_]
                c["rets"] = (c["rets"] + [1] * n_)[:n_]
                c["flags"] = {k2: v2 for k2, v2 in c["flags"].items() if int(k2) < n_ and (v2[0] == "const" or v2[1] < int(k2))}
                c["fails"] = [i for i in c["fails"] if i < n_]
                c["maxc"] = rng.randint(1, 3)
                sched_cases.refresh_derived(c, rng)
                dfs_cases.append(c)
    for c in dfs_cases:
        if n_bad >= 4:
            break  # runs hang / cannot be driven: already reported, do not spend the watchdog time again and again
        recs, complete = ksched.explore_all_schedules(c, max_runs=60 if tier == "quick" else 250)
        n_bad += sum(1 for rec_ in recs for run_ in rec_["runs"] if run_["broken"] or run_["status"] == "hang")
        records.extend(recs)
        n_complete += 1 if complete else 0
    res.notes.append("all schedules explored exhaustively for %d of %d small cases (%s)" % (n_complete, len(dfs_cases), "quick: corpus" if tier == "quick" else "all shapes <= 3 nodes x 2 attribute assignments + corpus"))
    # fault injection: the pool refuses one thread node's work item.  Whatever the call then does (raising is fine),
    # a pooled node never runs on the invoking thread (C04)
    if pid == "C04":
        from . import tz as _tz
        for c in [c_ for c_ in cases[:corpus_n + 60] if c_.get("mode", "call") == "call" and not c_.get("fails")][:40]:
            thr = [i for i, a in enumerate(c["attrs"]) if a["resource"] == "thread"]
            if not thr:
                continue
            d_, thunks_ = sched_cases.build(c)
            ctl_ = _tz.Ctl(free_run=True)
            ctl_.refuse = {sched_cases.node_name(rng.choice(thr))}
            _tz.run_controlled(thunks_[0], ctl_, is_async=c["is_async"])
            res.evaluations += 1
            for e_ in ctl_.trace:
                if e_[0] == "XENTER" and e_[2] and c["attrs"][int(e_[1][1:])]["resource"] != "main-thread" and e_[1][1:].isdigit():
                    res.hit("C04", "monitor", "the pool refused the work item of %s (injected fault) and pooled node %s then ran on the scheduler's thread" % (sorted(ctl_.refuse), e_[1]),
                            dict(engine="ksched", case=c, kind="monitor", refuse=sorted(ctl_.refuse)))
                    break
    # uncontrolled runs with slow node bodies
    for c in sched_cases.SLOW_CORPUS:
        if n_bad >= 4:
            break
        records.append(ksched.run_case(dict(c), sched_seed=None, slow=0.12))
    info = ksched.evaluate(records, prefix="ksched_%s" % pid)
    res.engine_info["ksched"] = dict(cases=len(cases), corpus=corpus_n, exhaustive_small=exhaustive, **{k: v for k, v in info.items() if k != "errors"})
    if info["errors"]:
        res.hit(pid, "divergence", "coqc failed on generated case files: %s" % (info["errors"][0][2][-300:],), dict(kind="coqc-error", files=[e[0] for e in info["errors"]]))
    dist = collections.Counter()
    for r in records:
        case = r["case"]
        if r["build_error"]:
            dist["build_error"] += 1
            res.notes.append("generated case did not build: " + r["build_error"][:200])
            if "did not return" in r["build_error"]:
                res.hit("C09", "monitor", "a call of the DAG before its reconfiguration hangs / spins: " + r["build_error"][:200], dict(engine="ksched", case=case, sched_seed=r["sched_seed"], run_index=0, choices=[], kind="monitor"))
            continue
        for ri, run in enumerate(r["runs"]):
            base = dict(engine="ksched", case=case, sched_seed=r["sched_seed"], run_index=ri, choices=[x["choices"] for x in r["runs"][:ri + 1]], inline=[x.get("inline", []) for x in r["runs"][:ri + 1]])
            if run["status"] == "hang" or (run["broken"] and "spin" in run["broken"]):
                res.hit("C09", "monitor", "call did not return / scheduler spins: " + str(run["broken"]), dict(base, kind="monitor"))
            if run["broken"]:
                # (C17 too: a completion order the controller asks for must be reachable in both flavours)
                for p in SCHED_PROPS + ["C17"]:
                    res.hit(p, "divergence", "controller could not drive the run: " + run["broken"], dict(base, kind="controller"))
            for seg in run["segs"]:
                res.evaluations += 1
                cfg = seg["cfg"]
                dist["nodes=%d" % len(cfg["nodes"])] += 1
                dist["maxc=%d" % cfg["maxc"]] += 1
                dist["mode=" + case.get("mode", "call")] += 1
                dist["async" if case["is_async"] else "sync"] += 1
                if seg["unparsable"]:
                    for p in SCHED_PROPS:
                        res.hit(p, "divergence", "trace not parsable into model labels: " + seg["unparsable"], dict(base, kind="unparsable", raw=seg.get("raw")))
                    for p_, m_ in seg.get("monitor") or []:
                        res.hit(p_, "monitor", m_, dict(base, kind="monitor"))
                    continue
                labels = seg["labels"]
                nblock = sum(1 for l, o in labels if l[0] == "W" and o[1])
                ninline = sum(1 for l, o in labels if l[0] == "I")
                dist["end=" + (seg["end"][0] if seg["end"] else "none")] += 1
                dist["blocking_waits=%d" % min(nblock, 6)] += 1
                if any(cfg["seq"].values()):
                    dist["has_sequential"] += 1
                if len(set(cfg["res"].values())) > 1:
                    dist["mixed_resources"] += 1
                if any(not l[2] for l, o in labels if l[0] == "A"):
                    dist["has_skip"] += 1
                res.traces_validated += 1
                if len(cfg["nodes"]) >= 2 and (nblock + ninline) >= 1:
                    res.distinct.add(ksched.case_hash(dict(c=case, ch=run["choices"])))
                if len(res.samples) < 3 and nblock >= 2:
                    res.samples.append(dict(case=case, choices=run["choices"], labels=[l for l, _ in labels][:40], verdict=seg.get("verdict")))
                for prop, msg in seg["monitor"]:
                    res.hit(prop, "monitor", msg, dict(base, kind="monitor"))
                for b in c08_blocks(cfg, labels):
                    sig = dict(f9=True) if b["f9"] else dict(f9=False)
                    res.hit("C08", "monitor", "scheduler blocked on %s-futures with a free slot (%d/%d running) and ready non-sequential node(s) %s"
                            % ("thread" if b["kind"] == "C" else "async", b["running"], b["maxc"], b["runnable"]), dict(base, kind="monitor", signature=sig, block=b))
                if not seg.get("agree", True):
                    props_, tag = attribute(seg)
                    for p in props_:
                        res.hit(p, "divergence", "K-sched: %s [%s]" % (seg["reason"], tag), dict(base, kind="divergence", tag=tag, verdict=seg["verdict"], labels=[l for l, _ in labels][:60]))
    # search widening: the model rejected some execution but no monitor exhibited a failing input for
    # this property yet -> more schedules (with many simultaneous completions) on the diverging cases
    if any(h["prop"] == pid and h["kind"] == "divergence" for h in res.hits) and not any(h["prop"] == pid and h["kind"] == "monitor" for h in res.hits):
        seen = []
        for h in res.hits:
            cse = (h.get("replay") or {}).get("case")
            if h["prop"] == pid and h["kind"] == "divergence" and cse is not None and cse not in seen:
                seen.append(cse)
        tried = 0
        variants = []
        for cse in seen[:8]:
            variants.append(cse)
            v2 = json.loads(json.dumps(cse))
            v2["maxc"] = 4
            variants.append(v2)
            v3 = json.loads(json.dumps(v2))
            for a_ in v3["attrs"]:
                if a_["resource"] == "main-thread" and rng.random() < 0.7:
                    a_["resource"] = "thread"
                a_["is_sequential"] = False
            variants.append(v3)
        bad_w = 0
        for cse in variants:
            if bad_w >= 3:
                break  # runs hang / cannot be driven: reported already, do not spend one watchdog period per extra schedule
            for _ in range(25):
                if bad_w >= 3:
                    break
                rec = ksched.run_case(cse, sched_seed=rng.random(), simultaneous=rng.choice([0.5, 0.8, 1.0]))
                tried += 1
                bad_w += sum(1 for run_ in rec["runs"] if run_["broken"] or run_["status"] == "hang")
                for ri, run in enumerate(rec["runs"]):
                    base = dict(engine="ksched", case=cse, sched_seed=rec["sched_seed"], run_index=ri, choices=[x["choices"] for x in rec["runs"][:ri + 1]])
                    if run["status"] == "hang" or (run["broken"] and "spin" in run["broken"]):
                        res.hit("C09", "monitor", "call did not return / scheduler spins: " + str(run["broken"]), dict(base, kind="monitor"))
                    for seg in run["segs"]:
                        for prop, msg in seg.get("monitor", []):
                            res.hit(prop, "monitor", msg, dict(base, kind="monitor"))
            if any(h["prop"] == pid and h["kind"] == "monitor" for h in res.hits):
                break
        res.notes.append("search widened over %d extra schedules of %d diverging cases (and variants)" % (tried, len(seen[:8])))
    if not res.samples and records:
        for r in records:
            for run in r["runs"]:
                for seg in run["segs"]:
                    if seg.get("labels") and len(res.samples) < 2:
                        res.samples.append(dict(case=r["case"], choices=run["choices"], labels=[l for l, _ in seg["labels"]][:40]))
    res.distribution["ksched"] = dict(dist)


def replay(pid, path):
    data = json.load(open(path))
    rp = data.get("replay") or {}
    if rp.get("engine") == "ksched" and rp.get("refuse"):
        from . import tz as _tz
        c = rp["case"]
        d_, thunks_ = sched_cases.build(c)
        ctl_ = _tz.Ctl(free_run=True)
        ctl_.refuse = set(rp["refuse"])
        _tz.run_controlled(thunks_[0], ctl_, is_async=c["is_async"])
        bad = [e_[1] for e_ in ctl_.trace if e_[0] == "XENTER" and e_[2] and e_[1][1:].isdigit() and c["attrs"][int(e_[1][1:])]["resource"] != "main-thread"]
        if bad:
            print("VIOLATION property=%s replay=%s" % (pid, path))
            print("  the pool refused the work item of %s (injected fault) and pooled node %s then ran on the scheduler's thread" % (sorted(ctl_.refuse), bad[0]))
            return 1
        print("replay of %s: property %s holds on the current tree" % (path, pid))
        return 0
    if rp.get("engine") == "ksched":
        rec = ksched.run_case(rp["case"], sched_seed=rp.get("sched_seed"), choose=rp.get("choices"), inline=rp.get("inline"))
        ksched.evaluate([rec], prefix="replay_%s" % pid)
        bad = []
        for run in rec["runs"]:
            for seg in run["segs"]:
                for prop, msg in seg.get("monitor", []):
                    if prop == pid:
                        bad.append(msg)
                if seg.get("labels") and pid == "C08":
                    bad += [str(b) for b in c08_blocks(seg["cfg"], seg["labels"])]
                if seg.get("labels") is not None and not seg.get("agree", True) and pid in attribute(seg)[0]:
                    bad.append(seg["reason"])
                if seg.get("unparsable"):
                    bad.append(seg["unparsable"])
        if bad:
            print("VIOLATION property=%s replay=%s" % (pid, path))
            for b in bad[:5]:
                print("  " + str(b)[:300])
            return 1
        print("replay of %s: property %s holds on the current tree" % (path, pid))
        return 0
    eng = rp.get("engine")
    if eng == "kcompose":
        from .main import Result
        res = Result()
        engine_kcompose.run(pid, "quick", data.get("seed", 0), res, only=[dict(variant="setup", case=rp["case"])] if rp.get("variant") == "setup" else [dict(prog=rp["prog"], ins=rp["ins"], outs=rp["outs"], **({"pins": rp["pins"]} if "pins" in rp else {}), **({"ellipsis": rp["ellipsis"]} if "ellipsis" in rp else {}))])
        bad = [h for h in res.hits if h["prop"] == pid]
        if bad:
            print("VIOLATION property=%s replay=%s" % (pid, path))
            for b in bad[:5]:
                print("  " + b["desc"][:300])
            return 1
        print("replay of %s: property %s holds on the current tree" % (path, pid))
        return 0
    if eng in ("kasync", "kthread", "kids"):
        from .main import Result
        res = Result()
        if eng == "kids":
            engine_kvalue.run_ids(pid, "quick", 0, res, only=[rp["prog"]])
        elif eng == "kasync":
            engine_kthread.run_async(pid, "quick", data.get("seed", 0), res, only=[rp] if "prog" in rp else None)
        else:
            engine_kthread.run_threads(pid, "quick", data.get("seed", 0), res, only=[rp["case"]] if "case" in rp else None)
        bad = [h for h in res.hits if h["prop"] == pid and ("variant" not in rp or (h.get("replay") or {}).get("variant") == rp.get("variant"))]
        if bad:
            print("VIOLATION property=%s replay=%s" % (pid, path))
            for b in bad[:5]:
                print("  " + b["desc"][:300])
            return 1
        print("replay of %s: property %s holds on the current tree" % (path, pid))
        return 0
    if eng == "scenario":
        from .main import Result
        res = Result()
        scenarios.run(pid, "quick", 0, res)
        bad = [h for h in res.hits if h["prop"] == pid and (h.get("replay") or {}).get("scenario") == rp.get("scenario")]
        if bad:
            print("VIOLATION property=%s replay=%s" % (pid, path))
            for b in bad[:5]:
                print("  " + b["desc"][:300])
            return 1
        print("replay of %s: property %s holds on the current tree" % (path, pid))
        return 0
    if eng in ("kgraph", "kvalue", "khist", "kconf", "kconc"):
        from .main import Result
        res = Result()
        if eng == "kconc":
            from . import engine_kconc
            for _ in range(3):  # the interleaving of the calls with each other is not replayable exactly: three attempts
                engine_kconc.run(pid, "quick", data.get("seed", 0), res, only=[rp["plan"]])
                if any(h["prop"] == pid for h in res.hits):
                    break
        elif eng == "kconf":
            engine_kconf.run(pid, "quick", data.get("seed", 0), res, only=[rp["case"]])
        elif eng == "kgraph":
            engine_kgraph.run(pid, "quick", data.get("seed", 0), res, only=[rp["case"]])
        elif eng == "kvalue":
            engine_kvalue.run(pid, "quick", data.get("seed", 0), res, only=[dict(prog=rp["prog"], args=rp["args"])])
        elif pid == "C17":
            engine_khist_async(pid, "quick", data.get("seed", 0), res, only=[rp["case"]])
        else:
            engine_khist.run(pid, "quick", data.get("seed", 0), res, only=[rp["case"]])
        bad = [h for h in res.hits if h["prop"] == pid]
        if bad:
            print("VIOLATION property=%s replay=%s" % (pid, path))
            for b in bad[:5]:
                print("  " + b["desc"][:300])
            return 1
        print("replay of %s: property %s holds on the current tree" % (path, pid))
        return 0
    print("replay kind not executable: %s" % rp.get("kind"))
    return 2


SCHED_RULE = ("cases: fixed adversarial corpus + random DAGs (layered edge probability, priorities -3..3 with ties, sequential flags, "
              "three resources, activation flags, failing nodes, max_concurrency 1..4, sync/async, call/executor/setup modes) each run on the real scheduler "
              "under a controller choosing completion orders; distinct = hash of (case, schedule); non-trivial = graph of >= 2 nodes with >= 1 blocking wait or inline execution")
SCHED_ASSUME = ["a node function body runs inside [dispatch, observed-done] (futures semantics)", "node functions pure and terminating",
                "K-sched takes the executed graph, compound priorities and flags from the arguments the real async_execute receives (layering, DESIGN 4.3)"]

from . import engine_kgraph  # noqa: E402

GRAPH_RULE = ("K-graph cases: fixed non-tree shapes (diamond, shared descendant at two depths, debug chain) + random DAGs with debug / setup nodes, tags (also tags equal to node ids), "
              "constant arguments; per DAG the compound-priority table and 6 selection queries (executor / setup / call; target, exclude, root through id / tag / reference aliases; both debug settings; "
              "error paths) compared with Priority.v / Select.v evaluated in coqc; executors are also run and the executed node set compared; "
              "distinct = hash of the case; non-trivial = non-tree shape or debug/setup nodes present")
REGISTRY = {p: dict(engines=[engine_ksched], rule=SCHED_RULE, assumptions=SCHED_ASSUME) for p in SCHED_PROPS}
REGISTRY["C06"]["engines"] = [engine_ksched, engine_kgraph.run]
REGISTRY["C06"]["rule"] = SCHED_RULE + " || " + GRAPH_RULE
for _p in ("C07", "C12", "C13"):
    REGISTRY[_p] = dict(engines=[engine_kgraph.run], rule=GRAPH_RULE, assumptions=["the node table (dependencies, priorities, debug/setup flags, tags) is read from the DAG the implementation built (layering)", "networkx primitives as modelled in Graph.v"])

from . import engine_kvalue  # noqa: E402

VALUE_RULE = ("K-value cases: random describing functions over the C01 fragment (positional / keyword / default / constant arguments, indexing, unpack_to, operators, and_/or_/not_, reused functions, "
              "every return shape, defaulted DAG parameters, nested DAG calls up to depth 3 with and without twz_active, every flag form) x 2 argument tuples; each run by tawazi (controlled random schedule or free run, "
              "sync or async flavour, optionally reconfigured through dict / JSON / YAML), by plain Python (reference) and by the model's denotation on the node table tawazi built; "
              "distinct = hash of (program, arguments); non-trivial = at least 2 statements")
VALUE_ASSUME = ["node functions are pure; Herbrand-term values with declared truthiness", "the node table (references, key paths, flags) is read from the DAG the implementation built (layering); that it is what the describing function denotes is checked against the plain-Python reference"]
for _p in ("C01", "C10", "C20"):
    REGISTRY[_p] = dict(engines=[engine_kvalue.run], rule=VALUE_RULE, assumptions=VALUE_ASSUME)

from . import engine_khist  # noqa: E402

HIST_RULE = ("K-hist cases: random DAGs with setup / debug nodes and defaulted parameters; random histories (2-7 operations) over call(args), setup(selection), executor(target / root / cache_deps_of, cache_in, from_cache, re-run), "
             "failing call / failing executor run followed by a re-run, deepcopy; per operation the executed node set is compared with History.v evaluated in coqc, entry counts per (instance, setup node), cache file key sets, "
             "and the last call is compared with the same call on a freshly built DAG; distinct = hash of the case; non-trivial = at least 3 operations with setup nodes or an executor")
HIST_ASSUME = ["setup node functions are pure (their stored value equals what a re-computation would give)", "pickle round-trips the results faithfully", "graphs / node table read from the DAG the implementation built (layering)"]
for _p in ("C11", "C15", "C18"):
    REGISTRY[_p] = dict(engines=[engine_khist.run], rule=HIST_RULE, assumptions=HIST_ASSUME)
REGISTRY["C03"]["engines"] = [engine_ksched, engine_khist.run, engine_kgraph.run, engine_kvalue.run_ids]
REGISTRY["C11"]["engines"] = [engine_khist.run, engine_kgraph.run]
REGISTRY["C11"]["rule"] = HIST_RULE + " || " + GRAPH_RULE
REGISTRY["C03"]["rule"] = SCHED_RULE + " || " + HIST_RULE + " || " + GRAPH_RULE + " || K-ids: ids given to the call sites of generated describing functions (functions reused across call sites, nested DAGs) vs Ids.kids"

from . import engine_kcompose  # noqa: E402

REGISTRY["C19"] = dict(engines=[engine_kcompose.run], rule=("K-compose cases: random describing functions (C01 fragment without nesting, with flags); random input / output node subsets; compose() vs Compose.v (node set, ValueError conditions), "
                       "the composed DAG run on supplied values vs a plain-Python evaluation with the input statements overridden, the embedding relation (Iso.v) checked in coqc on the composed table, and the original DAG's value / table before and after; "
                       "distinct = hash of (program, inputs, outputs); non-trivial = at least 3 statements and at least one input"),
                       assumptions=VALUE_ASSUME)

REGISTRY["C15"]["engines"] = [engine_khist.run, engine_kcompose.run]
# the composed DAG's compound-priority table (C06 / C07 for DAGs derived by compose)
REGISTRY["C07"]["engines"] = list(REGISTRY["C07"]["engines"]) + [engine_kcompose.run]
REGISTRY["C07"]["rule"] += " || compose() derivations: compound-priority table of the composed DAG vs Priority.v (K-compose)"
for _p in ("C04", "C05", "C07"):
    REGISTRY[_p]["engines"] = list(REGISTRY[_p]["engines"]) + [engine_kvalue.run_ids]
    REGISTRY[_p]["rule"] += " || K-attrs: in generated describing functions (nested DAGs, reused functions) every recorded call carries the attributes its function was declared with"
REGISTRY["C20"]["engines"] = list(REGISTRY["C20"]["engines"]) + [engine_kcompose.run]
REGISTRY["C20"]["rule"] += " || composed DAGs called inside another DAG's describing function (K-compose)"
REGISTRY["C06"]["engines"] = list(REGISTRY["C06"]["engines"]) + [engine_kcompose.run]
REGISTRY["C06"]["rule"] += " || compose() derivations: compound-priority table of the composed DAG vs Priority.v (K-compose)"
REGISTRY["C15"]["rule"] = HIST_RULE + " || compose() derivations: the original DAG's value and node table before and after composing and running the composed DAG (K-compose)"

from . import engine_kthread  # noqa: E402

REGISTRY["C16"] = dict(engines=[engine_kthread.run_threads], rule=("K-thread cases: 2-3 real threads stepped by a turn-taking barrier through random interleavings of: build a DAG (pausing inside the describing function between recorded calls), "
                       "call a finished DAG, call a decorated function outside any DAG; per thread the observations (recorded / executed / built table) are compared with Threads.v run on the same interleaving = what the thread observes alone; "
                       "plus 4 threads x 3 calls of one shared DAG with distinct arguments compared with the plain reference; distinct = hash of (programs, schedule); non-trivial = schedule of >= 4 actions"),
                       assumptions=["Python-level actions are atomic (GIL); races inside CPython dict operations are outside the model", "setup nodes are run before a DAG is shared between threads (documented requirement)"])
REGISTRY["C17"] = dict(engines=[engine_kthread.run_async, engine_ksched], rule=("K-async: every generated describing function built in both flavours: value, executed node multiset; gathered concurrent awaits with distinct arguments vs the plain reference; "
                       "event-loop liveness: an async-thread node that completes only after a sibling coroutine of the same loop has run || " + SCHED_RULE),
                       assumptions=["the event loop itself (asyncio) is not modelled; liveness is monitored"])

def engine_khist_async(pid, tier, seed, res, only=None):
    """C17 'records the same setup results as the DAG built from the same function': the K-hist histories of the AsyncDAG
    flavour only; whatever they show about setup results (C11) or leaked state (C15) of an AsyncDAG is a difference
    between the two flavours as long as the same check passes for the DAG flavour"""
    from .main import Result
    tmp = Result()
    engine_khist.run("C11", tier, seed, tmp, only=only)
    for h in tmp.hits:
        cse = (h.get("replay") or {}).get("case") or {}
        if h["prop"] in ("C11", "C15") and cse.get("is_async"):
            res.hit("C17", h["kind"], "AsyncDAG: " + h["desc"], h.get("replay"))
    res.evaluations += tmp.evaluations
    res.distribution["khist_async"] = {k_: v_ for k_, v_ in tmp.distribution.get("khist", {}).items() if "async" in str(k_)}
    res.engine_info["khist_async"] = tmp.engine_info.get("khist", {})


from . import engine_kconc  # noqa: E402

CONC_RULE = ("K-conc: 2-3 executions of ONE DAG object at the same time, each in its own thread (AsyncDAG: its own loop) under its own controller and completion order "
             "(setup nodes run beforehand; in some cases only one of the calls is given failing nodes): every call's label sequence must be accepted by Sched.check against the declared "
             "configuration and end where the implementation ended (Concurrent.v: the projection of any interleaving onto one call is a single-call run), monitors per call")
for _p in ("C16", "C17"):
    REGISTRY[_p]["engines"] = list(REGISTRY[_p]["engines"]) + [engine_kconc.run]
    REGISTRY[_p]["rule"] += " || " + CONC_RULE
REGISTRY["C17"]["engines"] = list(REGISTRY["C17"]["engines"]) + [engine_khist_async]
REGISTRY["C17"]["rule"] += " || the K-hist histories (setup / call / executor / cache operations) on AsyncDAG instances: setup results recorded and reused exactly as the model says"

from . import engine_kconf  # noqa: E402

CONF_RULE = ("K-conf cases: random DAGs (priorities, sequential flags, three resources, tags incl. tags equal to node ids) and 1-4 reconfiguration steps through config_from_dict / _yaml / _json "
             "(keys = ids, tags, unknown aliases, keys reaching one node twice; entries naming priority and/or is_sequential or nothing; optional max_concurrency); after each step the attribute table, "
             "max_concurrency and accepted/ValueError are compared with Reconf.kconf evaluated in coqc, then one run checks the scheduler is handed exactly those attributes")
for _p in ("C04", "C05", "C07", "C08"):
    REGISTRY[_p]["engines"] = list(REGISTRY[_p]["engines"]) + [engine_kconf.run]
    REGISTRY[_p]["rule"] = REGISTRY[_p]["rule"] + " || " + CONF_RULE

from . import scenarios  # noqa: E402

REGISTRY["C05"]["engines"] = list(REGISTRY["C05"]["engines"]) + [engine_kcompose.run]
REGISTRY["C05"]["rule"] += " || compose() derivations: every kept node carries the attributes (is_sequential, resource, priority, setup, debug) it has in the original (K-compose)"
REGISTRY["C12"]["engines"] = list(REGISTRY["C12"]["engines"]) + [engine_khist.run]
REGISTRY["C12"]["rule"] += " || K-hist: restricted runs (target / exclude / root) with call arguments inside longer histories: executed sets vs the model, and the map the scheduler is handed (arguments bound also for inputs outside the selection) vs Cache.start_map"
REGISTRY["C13"]["engines"] = list(REGISTRY["C13"]["engines"]) + [engine_khist.run]
REGISTRY["C13"]["rule"] += " || K-hist: histories of calls / setup() / executors (target, exclude, root, cache_deps_of, from_cache) with RUN_DEBUG_NODES switched per operation: the executed set of every operation vs the model"
REGISTRY["C09"]["engines"] = list(REGISTRY["C09"]["engines"]) + [engine_khist.run]
REGISTRY["C09"]["rule"] += " || " + HIST_RULE
for _p in ("C09", "C14", "C17", "C16", "C10", "C13", "C08", "C04", "C11", "C18", "C01", "C07", "C03", "C02", "C15"):
    REGISTRY[_p]["engines"] = list(REGISTRY[_p]["engines"]) + [scenarios.run]
    REGISTRY[_p]["rule"] += " || hand-written scenarios without the controller (harness/scenarios.py): failing calls that leave nodes running followed by another failing call; a node calling another DAG at run time; the first awaits of an AsyncDAG started together; a failing async node with a running sibling; concurrent builds / calls under a tiny switch interval; a debug node inside a deactivated nested DAG; a wide DAG whose limit exceeds any default pool size; setup nodes returning builtin containers (object identity across executions); concurrent executors of one DAG writing their own cache files; a chain of 700 dependent calls; setup nodes inside a flagged nested DAG; a nested debug node in a restricted run; the setup results both flavours record; caching run and restart inside one event loop; a failing node of a hand-built DAG (no call location); embedding a DAG that is already set up; indexed parts that do not exist at run time; `v += w` on a default / a setup result; empty container returns and twz_unpack_to over unpack_to; operator nodes and their resource; two thread nodes finishing microseconds apart"

REGISTRY["C02"]["engines"] = [engine_ksched, engine_kvalue.run, scenarios.run]
REGISTRY["C02"]["rule"] = SCHED_RULE + " || " + VALUE_RULE
